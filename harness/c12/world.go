// Package c12 drives the REAL nodectrl.NodeCtrl (admin actor "__nodeadmin__", its command
// table, the retire-support query and the service-retired handling) under the REAL node
// application: every case starts a node in-process with app.Node.Prepare / app.Node.StartNode
// (configuration files written for the case, a launch mode of three socket-free modules), so
// that the INodeApp the controller talks to is node/app.App itself:
//
//	GetService          -> app.Cluster / ClusterServices: the service directory rebuilt by
//	                       MakeMembers from whatever the cluster provider publishes, every
//	                       ServiceItem carrying a COPY of its node's state
//	FilterSelfServices  -> the node's configured service list (nodes.yaml)
//	UpdateNodeState     -> the provider (recorded: EPub)
//	StopNode            -> baseapp.App.Stop: the modules are stopped in reverse order; the
//	                       first one to be stopped is the harness' gate module (recorded: EStop),
//	                       which completes when the history says so (OStopDone)
//
// The cluster provider is modelled on clusterproviders/etcd: UpdateClusterState only records
// the node's own state; the topology handed to the node is rebuilt - own member included, with
// the state the provider knows at that moment - when cluster membership changes (OTopo) or the
// own member's service list changes (OHide / OShow).
// Hosted services are real node/service.NodeService actors created through service.Factory by
// App.StartServices; they receive ctrl.cmd through the real node/builtin CtrlEventEntry and
// report "retired" through the real app.NotifyServiceRetired.
package c12

import (
	"encoding/json"
	"fmt"
	"io"
	"log"
	"log/slog"
	"net"
	"os"
	"path/filepath"
	"sort"
	"strconv"
	"strings"
	"sync"
	"time"

	"github.com/asynkron/protoactor-go/actor"
	"github.com/asynkron/protoactor-go/remote"
	"github.com/sirupsen/logrus"

	as "github.com/dfklegend/cell2/actorex/service"
	"github.com/dfklegend/cell2/actorex/service/servicemsgs"
	"github.com/dfklegend/cell2/apimapper/registry"
	"github.com/dfklegend/cell2/baseapp"
	"github.com/dfklegend/cell2/baseapp/interfaces"
	"github.com/dfklegend/cell2/baseapp/module"
	"github.com/dfklegend/cell2/node/app"
	_ "github.com/dfklegend/cell2/node/builtin" // registers the __sys__ collection (ctrl.cmd for services)
	"github.com/dfklegend/cell2/node/builtin/msgs"
	"github.com/dfklegend/cell2/node/cluster"
	"github.com/dfklegend/cell2/node/config"
	ns "github.com/dfklegend/cell2/node/service"
	"github.com/dfklegend/cell2/nodectrl"
	"github.com/dfklegend/cell2/nodectrl/define"
	"github.com/dfklegend/cell2/utils/logger"

	"verifh/hx"
)

const opTimeout = 20 * time.Second

// the node of a case
const (
	nodeAddr    = "127.0.0.1:39012" // never listened on: it is only the actor system's own address
	nodeID      = "n1"
	clusterName = "c12"
	launchMode  = "c12verif"
)

var (
	initOnce sync.Once
	cur      *world // the world of the case being executed (launch mode, creators and modules are process-wide)
	scratch  string // directory for the per-case configuration files
)

func initProcess() {
	initOnce.Do(func() {
		logger.SetLogLevel(logrus.PanicLevel)
		log.SetOutput(io.Discard)
		registry.Registry.Build() // what nodebuilder does before starting the node
		baseapp.RegisterLaunchFunc(launchMode, func(a interfaces.IApp) {
			a.AddModule(&sysModule{module.NewBaseModule()})
			a.AddModule(&clusterModule{module.NewBaseModule()})
			a.AddModule(&gateModule{module.NewBaseModule()})
		})
		for _, d := range []string{dNoListener, dNo, dOk, dErr} {
			d := d
			ns.Factory.Register(svcType(d), ns.NewFuncCreator(func(name string) { cur.createHosted(name, d) }))
		}
		// dAbsent: no creator is registered for its type - App.StartServices starts nothing
		if scratch == "" {
			dir, err := os.MkdirTemp("", "c12-cfg-")
			if err != nil {
				panic(err)
			}
			scratch = dir
		}
	})
}

func svcName(n int64) string { return fmt.Sprintf("svc-%d", n) }

// the service type (nodes.yaml) that stands for a disposition
func svcType(disp string) string { return "c12" + strings.ToLower(disp[1:]) }

func svcToken(name string) int64 {
	if !strings.HasPrefix(name, "svc-") {
		panic("c12: unexpected service name " + name)
	}
	n, err := strconv.ParseInt(name[4:], 10, 64)
	if err != nil {
		panic("c12: unexpected service name " + name)
	}
	return n
}

// ---- event log (everything the observables are built from) ----

type recvEv struct {
	svc int64
	cmd string
}

type evlog struct {
	mu   sync.Mutex
	app  []any    // EPub st | EStop, in call order
	recv []recvEv // ctrl.cmd requests as they arrive at harness services
	fins []interfaces.FuncWithSucc
}

func (l *evlog) drain() (appEvs []any, recv []recvEv) {
	l.mu.Lock()
	defer l.mu.Unlock()
	appEvs, recv = l.app, l.recv
	l.app, l.recv = nil, nil
	return
}

// ---- cluster.Provider modelled on clusterproviders/etcd ----
//
// etcd provider                                  here
//   init: self = NewNode(name@id, host, port,    StartMember: the same, through ICluster
//         c.GetServices()); self.SetState(c.GetState())
//   UpdateClusterState: self.State = state       the same (+ recorded as EPub)
//   members[self.ID] = self; watch events add /  setOthers: the other members present
//   remove other members, then
//   publishClusterTopologyEvent: every member's  publish: the same; a member's MemberStatus is
//   MemberStatus() (a copy, State included) ->   a copy taken now, so the node's own services
//   cluster.UpdateClusterTopology                are re-published with the state known now
// `hidden` removes services from the own member's published list (a provider may publish any
// member list through ICluster.UpdateClusterTopology).

type member struct {
	id       string
	host     string
	port     int32
	services []string // full names type.name
	state    int
}

type topoProvider struct {
	log    *evlog
	c      cluster.ICluster
	self   *member
	others []*member
	hidden map[string]bool // own services (short name) left out of the published topology
}

func (p *topoProvider) StartMember(c cluster.ICluster) error {
	p.c = c
	host, ps, err := net.SplitHostPort(c.GetAddress())
	if err != nil {
		return err
	}
	port, err := strconv.Atoi(ps)
	if err != nil {
		return err
	}
	p.self = &member{
		id: fmt.Sprintf("%v@%v", c.GetName(), c.GetID()), host: host, port: int32(port),
		services: c.GetServices(), state: c.GetState(),
	}
	p.publish()
	return nil
}
func (p *topoProvider) StartClient(c cluster.ICluster) error { return nil }
func (p *topoProvider) Shutdown(graceful bool) error         { return nil }
func (p *topoProvider) UpdateClusterState(state int) error {
	p.self.state = state
	p.log.mu.Lock()
	p.log.app = append(p.log.app, hx.C("EPub", stateTerm(state)))
	p.log.mu.Unlock()
	return nil
}

func (m *member) status(skip map[string]bool) *cluster.Member {
	services := []string{}
	for _, full := range m.services {
		if i := strings.IndexByte(full, '.'); i >= 0 && skip[full[i+1:]] {
			continue
		}
		services = append(services, full)
	}
	return &cluster.Member{Id: m.id, Host: m.host, Port: m.port, Services: services, State: m.state}
}

// publish = createClusterTopologyEvent + cluster.UpdateClusterTopology; the own member stands
// somewhere among the others (the etcd provider iterates a map)
func (p *topoProvider) publish() {
	res := []*cluster.Member{}
	k := len(p.others) / 2
	for _, m := range p.others[:k] {
		res = append(res, m.status(nil))
	}
	res = append(res, p.self.status(p.hidden))
	for _, m := range p.others[k:] {
		res = append(res, m.status(nil))
	}
	p.c.UpdateClusterTopology(res)
}

// setOthers: cluster membership is now the own node plus k others.  The others host services of
// the same types as the own node (distinct names) and are in assorted states.
func (p *topoProvider) setOthers(k int64) {
	p.others = nil
	for j := int64(1); j <= k; j++ {
		p.others = append(p.others, &member{
			id: fmt.Sprintf("%v@o%d", clusterName, j), host: "127.0.0.1", port: int32(39100 + j),
			services: []string{
				fmt.Sprintf("%s.oth-%d", svcType(dOk), j),
				fmt.Sprintf("%s.oth-%d-b", svcType(dNo), j),
				fmt.Sprintf("zone.zone-%d", j),
			},
			state: int((j+k)%5) + 1,
		})
	}
}

// ---- the launch mode: what the all-in-one launch modes do, without sockets and etcd ----

// sysModule: the actor system whose own address is the node's address (so that the PIDs the
// service directory builds from host:port are local)
type sysModule struct{ *module.BaseModule }

func (m *sysModule) Start(next interfaces.FuncWithSucc) {
	app.Node.SetActorSystem(cur.sys)
	next(true)
}
func (m *sysModule) Stop(next interfaces.FuncWithSucc) { next(true) }

// clusterModule: node/modules ClusterModule with the provider above
type clusterModule struct{ *module.BaseModule }

func (m *clusterModule) Start(next interfaces.FuncWithSucc) {
	app.Node.SetProvider(cur.prov)
	next(cur.prov.StartMember(app.Node.GetCluster()) == nil)
}
func (m *clusterModule) Stop(next interfaces.FuncWithSucc) {
	cur.prov.Shutdown(true)
	next(true)
}

// gateModule is added last, hence stopped first: its Stop is the moment the node is being
// stopped (EStop); the stop sequence goes on when the history delivers OStopDone.
type gateModule struct{ *module.BaseModule }

func (m *gateModule) Start(next interfaces.FuncWithSucc) { next(true) }
func (m *gateModule) Stop(next interfaces.FuncWithSucc) {
	l := cur.log
	l.mu.Lock()
	l.app = append(l.app, "EStop")
	l.fins = append(l.fins, next)
	l.mu.Unlock()
}

func stateTerm(s int) string {
	switch s {
	case 1:
		return "Working"
	case 2:
		return "Retiring"
	case 3:
		return "Retired"
	case 4:
		return "Exiting"
	case 5:
		return "Exited"
	}
	panic(fmt.Sprintf("c12: node state %d outside working..exited", s))
}

func stateByName(s string) string {
	switch s {
	case "working":
		return "Working"
	case "retiring":
		return "Retiring"
	case "retired":
		return "Retired"
	case "4":
		return "Exiting"
	case "5":
		return "Exited"
	}
	panic("c12: unexpected state name " + s)
}

// ---- harness services ----

// disposition of a hosted service (how it answers ctrl.cmd)
const (
	dAbsent     = "DAbsent"     // configured on the node but GetService finds no process
	dNoListener = "DNoListener" // real CtrlEventEntry answers "no listener"
	dNo         = "DNo"         // listener answers "no" to queryretire
	dOk         = "DOk"         // listener answers "ok"
	dErr        = "DErr"        // the request fails (error response)
	// not a disposition: an entry of the node's service list that the services section does not
	// define (leftover / typo).  StartServices starts nothing for it, makeFullNameServices does
	// not advertise it, FilterSelfServices does not hand it to the controller.
	dGhost = "Ghost"
)

type listener struct{ ans string }

func (l *listener) Handler(cmd string) string {
	if cmd == "queryretire" {
		return l.ans
	}
	return "ok"
}

// hsvc is a node service: embeds the real NodeService, so ctrl.cmd is handled by the real
// node/builtin.CtrlEventEntry.Cmd (via INodeServiceOwner / ICtrlCmdListener).
type hsvc struct {
	*ns.NodeService
	tok  int64
	disp string
	log  *evlog
	pid  *actor.PID
}

func (h *hsvc) GetNodeService() *ns.NodeService { return h.NodeService }

func (h *hsvc) Receive(ctx actor.Context) {
	if req, ok := ctx.Message().(*servicemsgs.ServiceRequest); ok && req.Route == "ctrl.cmd" {
		if m, err := remote.Deserialize(req.Body, req.Type, as.DefaultSerializeId); err == nil {
			if cc, ok := m.(*msgs.CtrlCmd); ok {
				h.log.mu.Lock()
				h.log.recv = append(h.log.recv, recvEv{h.tok, cc.Cmd})
				h.log.mu.Unlock()
			}
		}
	}
	h.NodeService.Receive(ctx)
}

// ReceiveRequest is reached only by services without an API dispatcher (DErr): fail the request.
func (h *hsvc) ReceiveRequest(ctx actor.Context, request *servicemsgs.ServiceRequest, rawMsg interface{}) {
	h.Response(request, as.CodeErrString, "c12: scripted failure", nil)
}

// probe is the "master": a plain actorex service used to send requests and await replies.
type probe struct{ *as.Service }

func (p *probe) Receive(ctx actor.Context) { p.Service.Receive(ctx) }

// ---- the world of one case ----

type world struct {
	sys      *actor.ActorSystem
	log      *evlog
	node     *app.App // the real node application: the INodeApp of the controller
	prov     *topoProvider
	ctrl     *nodectrl.NodeCtrl
	admin    *actor.PID // NodeCtrl.GetAdmin(): where the services report to
	adminFar *actor.PID // the admin as the master addresses it: member host:port + define.NodeAdmin
	master   *probe
	hostedBy map[string]int64 // configured service name -> token (first declaration decides)
	dispOf   map[int64]string
	running  map[int64]*hsvc // every spawned harness service by token (hosted or stray)
	order    []int64
	stoppers []func()
	pids     []*actor.PID
	stopped  bool // the node's stop sequence completed successfully (App.Cleanup has run)
}

// One actor system for the whole process (creating one costs ~5 ms); every actor of a case is
// stopped, and its name released, before the next case starts.
var (
	sysOnce   sync.Once
	sharedSys *actor.ActorSystem
)

func quietSystem() *actor.ActorSystem {
	sysOnce.Do(func() { sharedSys = newQuietSystem() })
	return sharedSys
}

func newQuietSystem() *actor.ActorSystem {
	sys := actor.NewActorSystem(actor.WithLoggerFactory(func(*actor.ActorSystem) *slog.Logger {
		return slog.New(slog.NewTextHandler(io.Discard, nil))
	}))
	sys.ProcessRegistry.Address = nodeAddr
	return sys
}

// createHosted is what the service creators registered with service.Factory do (called by
// App.StartServices): spawn the actor under the service's name and start the node service.
func (w *world) createHosted(name string, disp string) {
	tok := svcToken(name)
	if _, ok := w.running[tok]; ok {
		return // listed twice in the node configuration: the name is taken
	}
	w.spawnService(tok, disp, name)
}

// spawnService starts a node service that calls itself svc-<tok>, as the actor actorName.
func (w *world) spawnService(tok int64, disp string, actorName string) *hsvc {
	name := svcName(tok)
	h := &hsvc{NodeService: ns.NewService(), tok: tok, disp: disp, log: w.log}
	started := make(chan struct{})
	var props *actor.Props
	var ext *as.ExtProps
	producer := func() actor.Actor { return h }
	if disp == dErr {
		props, ext = as.NewServicePropsWithNewScheDisp(producer, "c12."+name)
		h.NodeService.Service.InitReqReceiver(h)
	} else {
		props, ext = ns.NewServiceWithDispatcher(producer, "c12."+name, "c12.none")
	}
	ext.WithPostFunc(func(as.IService) {}) // doPostStartFuncs only runs when PostFuncs != nil
	ext.WithPostStartFunc(func(actor.Context) { close(started) })
	switch disp {
	case dOk:
		h.SetCtrlCmdListener(&listener{"ok"})
	case dNo:
		h.SetCtrlCmdListener(&listener{"no"})
	}
	h.SetOwner(h)
	pid, err := w.sys.Root.SpawnNamed(props, actorName)
	if err != nil {
		panic(err)
	}
	h.pid = pid
	waitOn(started, "service start "+name)
	info := w.node.GetServiceCfg(name)
	if info == nil { // a stray service, unknown to the node
		info = &config.ServiceInfo{Type: svcType(disp)}
	}
	ns.StartNodeService(w.sys.Root, pid, name, info)
	// the name is set when StartServiceCmd is processed: wait for it (same mailbox, FIFO)
	w.call(pid, "c12.nosuch", &msgs.CtrlCmd{})
	w.running[tok] = h
	w.order = append(w.order, tok)
	w.pids = append(w.pids, pid)
	rs := h.GetRunService()
	w.stoppers = append(w.stoppers, rs.Stop)
	return h
}

func waitOn(ch chan struct{}, what string) {
	select {
	case <-ch:
	case <-time.After(opTimeout):
		panic("c12: timeout waiting for " + what)
	}
}

// writeConfig writes cluster.yaml / master.yaml / nodes.yaml of the case: one node n1 whose
// service list is the Host and Ghost items in order (a name may be listed twice); the services
// section gives every Host name the type of its first declaration and has nothing for a Ghost.
func writeConfig(cfg []hx.Pair) string {
	dir := filepath.Join(scratch, "cfg")
	if err := os.MkdirAll(dir, 0o755); err != nil {
		panic(err)
	}
	must := func(name, body string) {
		if err := os.WriteFile(filepath.Join(dir, name), []byte(body), 0o644); err != nil {
			panic(err)
		}
	}
	must("cluster.yaml", "---\nEnable: true\nNodeCtrl: true\nName: "+clusterName+"\nETCDServer: 127.0.0.1:1\nToken: x\n")
	must("master.yaml", "---\n")
	var list, types strings.Builder
	seen := map[int64]bool{}
	for _, c := range cfg {
		tok, disp := c.A.(int64), hx.AsTerm(c.B).Name
		fmt.Fprintf(&list, "      - %s\n", svcName(tok))
		if disp == dGhost {
			continue // listed on the node, not defined in the services section
		}
		if !seen[tok] {
			seen[tok] = true
			fmt.Fprintf(&types, "  %s:\n    Type: %s\n", svcName(tok), svcType(disp))
		}
	}
	body := "---\nnodes:\n  " + nodeID + ":\n    StartMode: " + launchMode + "\n    Address: " + nodeAddr + "\n"
	if len(cfg) == 0 {
		body += "    Services: []\n\nservices: {}\n"
	} else {
		body += "    Services:\n" + list.String() + "\nservices:\n" + types.String()
	}
	must("nodes.yaml", body)
	return dir
}

// cfg: (token, disposition) in configuration order
func newWorld(cfg []hx.Pair) *world {
	initProcess()
	w := &world{sys: quietSystem(), log: &evlog{}, running: map[int64]*hsvc{},
		hostedBy: map[string]int64{}, dispOf: map[int64]string{}}
	cur = w
	w.prov = &topoProvider{log: w.log, hidden: map[string]bool{}}
	for _, c := range cfg {
		tok, disp := c.A.(int64), hx.AsTerm(c.B).Name
		if disp == dGhost {
			continue
		}
		if _, ok := w.hostedBy[svcName(tok)]; !ok {
			w.hostedBy[svcName(tok)] = tok
			w.dispOf[tok] = disp
		}
	}
	// master
	w.master = &probe{Service: as.NewService()}
	started := make(chan struct{})
	props, ext := as.NewServicePropsWithNewScheDisp(func() actor.Actor { return w.master }, "c12.master")
	ext.WithPostFunc(func(as.IService) {})
	ext.WithPostStartFunc(func(actor.Context) { close(started) })
	mpid, err := w.sys.Root.SpawnNamed(props, "c12-master")
	if err != nil {
		panic(err)
	}
	w.pids = append(w.pids, mpid)
	waitOn(started, "master start")
	w.stoppers = append(w.stoppers, w.master.GetRunService().Stop)
	// the real thing: a node started the way main() starts it
	app.Node = app.NewNode()
	w.node = app.Node
	w.node.Prepare(writeConfig(cfg))
	up := make(chan bool, 1)
	w.node.StartNode(nodeID, func(succ bool) { up <- succ })
	select {
	case ok := <-up:
		if !ok {
			panic("c12: node did not start")
		}
	case <-time.After(opTimeout):
		panic("c12: node start timed out")
	}
	w.ctrl = w.node.GetNodeCtrl()
	w.admin = w.ctrl.GetAdmin()
	if w.admin == nil {
		panic("c12: node controller not started")
	}
	// _tools/master builds the admin's PID from the member the node published
	w.adminFar = actor.NewPID(fmt.Sprintf("%v:%v", w.prov.self.host, w.prov.self.port), define.NodeAdmin)
	w.pids = append(w.pids, w.admin)
	w.stoppers = append(w.stoppers, w.ctrl.VerifStop)
	w.settle()
	// the services actually started are the defined entries that have a process - whatever
	// else the list contains
	for name, tok := range w.hostedBy {
		if _, ok := w.running[tok]; ok != (w.dispOf[tok] != dAbsent) {
			panic("c12: App.StartServices started/skipped " + name + " against its definition")
		}
	}
	return w
}

func (w *world) close() {
	for _, pid := range w.pids {
		w.sys.Root.StopFuture(pid).Wait()
	}
	for _, s := range w.stoppers {
		s()
	}
	if !w.stopped {
		w.node.GetApp().Cleanup() // the application's own run service
	}
}

// directory is what the node's service directory says about the node's own configured services
// right now: (token, state copy) for every one it lists, by token.
func (w *world) directory() []any {
	m := map[int64]any{}
	for name, tok := range w.hostedBy {
		if it := w.node.GetCluster().GetService(name); it != nil {
			m[tok] = stateTerm(it.State)
		}
	}
	l := []any{}
	for _, k := range hx.SortedKeys(m) {
		l = append(l, hx.Pair{A: k, B: m[k]})
	}
	return l
}

type callRes struct {
	err error
	raw any
}

// call sends a request from the master's own context and waits for the reply.
func (w *world) call(pid *actor.PID, route string, msg any) callRes {
	ch := make(chan callRes, 1)
	w.master.Post(func() {
		w.master.RequestEx(pid, route, msg, func(err error, raw interface{}) { ch <- callRes{err, raw} })
	})
	select {
	case r := <-ch:
		return r
	case <-time.After(opTimeout):
		panic("c12: no reply to " + route)
	}
}

// settle waits until everything the last operation caused has been processed: a request for
// a route nobody implements is answered (with an error) by the receiving service after all
// messages queued before it.  Services first (they answer the admin), then the admin.
func (w *world) settle() {
	for round := 0; round < 2; round++ {
		for _, tok := range w.order {
			w.call(w.running[tok].pid, "c12.nosuch", &msgs.CtrlCmd{})
		}
		if w.admin != nil {
			w.call(w.admin, "c12.nosuch", &msgs.CtrlCmd{})
		}
	}
}

func cmdString(c string) string {
	switch c {
	case "CStat":
		return "stat"
	case "CRetire":
		return "retire"
	case "CExit":
		return "exit"
	case "CWebNodes":
		return "web_nodes"
	case "CWebRetire":
		return "web_retire"
	case "CWebExit":
		return "web_exit"
	case "COther":
		return "reload"
	}
	panic("c12: unknown command " + c)
}

func classifyReply(cmd, r string) any {
	const badRetire, badExit = "beginRetire failed, error state: ", "beginExit failed, error state: "
	switch {
	case r == "ok":
		return "ROk"
	case r == "some service not support retire":
		return "RNoSupport"
	case strings.HasPrefix(r, badRetire):
		return hx.C("RBadState", stateByName(r[len(badRetire):]))
	case strings.HasPrefix(r, badExit):
		return hx.C("RBadState", stateByName(r[len(badExit):]))
	case strings.HasSuffix(r, " not support"):
		return "RUnknown"
	case strings.HasPrefix(r, "state: "):
		i := strings.Index(r, ",")
		return hx.C("RStat", stateByName(r[len("state: "):i]))
	case strings.HasPrefix(r, "{"):
		var st struct {
			Status  string `json:"status"`
			Service string `json:"service"`
		}
		if err := json.Unmarshal([]byte(r), &st); err != nil {
			panic("c12: web_nodes reply: " + err.Error())
		}
		var svcs map[string]struct {
			State         int
			RetireSupport bool
		}
		if err := json.Unmarshal([]byte(st.Service), &svcs); err != nil {
			panic("c12: web_nodes services: " + err.Error())
		}
		m := map[int64]any{}
		for k, v := range svcs {
			m[svcToken(k)] = hx.Pair{A: stateTerm(v.State), B: v.RetireSupport}
		}
		l := []any{}
		for _, k := range hx.SortedKeys(m) {
			l = append(l, hx.Pair{A: k, B: m[k]})
		}
		return hx.C("RNodes", stateByName(st.Status), l)
	}
	panic("c12: unclassifiable reply to " + cmd + ": " + r)
}

func recvCmd(c string) string {
	switch c {
	case "queryretire":
		return "KQuery"
	case "retire":
		return "KRetire"
	}
	panic("c12: service received unexpected ctrl.cmd " + c)
}

// sender returns a running node service that calls itself svc-<tok>, spawning a stray one when
// the token is not hosted or hosted-but-absent.  A stray runs under another actor name: the
// node's directory builds PIDs from service names, so it cannot be reached as svc-<tok>.
func (w *world) sender(tok int64) *hsvc {
	if h, ok := w.running[tok]; ok {
		return h
	}
	return w.spawnService(tok, dOk, "stray-"+svcName(tok))
}

// do executes one operation and returns its observation  Ob reply appEvents received.
func (w *world) do(o hx.T) any {
	var reply any = "RNone"
	switch o.Name {
	case "OCmd":
		c := hx.AsTerm(o.Args[0]).Name
		r := w.call(w.adminFar, "ctrl.cmd", &msgs.CtrlCmd{Cmd: cmdString(c)})
		if r.err != nil {
			panic("c12: ctrl.cmd failed: " + r.err.Error())
		}
		reply = classifyReply(c, r.raw.(*msgs.CtrlCmdAck).Result)
	case "OQueryAll":
		done := make(chan struct{})
		w.ctrl.VerifQueryRetire(nil, func() { close(done) })
		waitOn(done, "query-all")
	case "OQuery":
		done := make(chan struct{})
		w.ctrl.VerifQueryRetire([]string{svcName(o.Int(0))}, func() { close(done) })
		waitOn(done, "query")
	case "OSvcCmd":
		cmd := "retired"
		if hx.AsTerm(o.Args[1]).Name == "SOther" {
			cmd = "status"
		}
		r := w.call(w.admin, "ctrl.servicecmd", &msgs.ServiceCmd{Name: svcName(o.Int(0)), Cmd: cmd})
		if r.err != nil {
			panic("c12: ctrl.servicecmd failed: " + r.err.Error())
		}
		if res := r.raw.(*msgs.ServiceCmdAck).Result; res != "ok" {
			panic("c12: ctrl.servicecmd answered " + res)
		}
		reply = "ROk"
	case "ONotify":
		h := w.sender(o.Int(0))
		done := make(chan struct{})
		h.Post(func() { app.NotifyServiceRetired(h.NodeService); close(done) })
		waitOn(done, "notify")
	case "OStopDone":
		w.log.mu.Lock()
		var fin interfaces.FuncWithSucc
		if len(w.log.fins) > 0 {
			fin, w.log.fins = w.log.fins[0], w.log.fins[1:]
		}
		w.log.mu.Unlock()
		if fin != nil {
			done := make(chan struct{})
			succ := o.Bool(0)
			// the gate module reports its Stop as done: the remaining modules are stopped and
			// App.StopNode's completion runs (delivered in the admin context, see ASSUMPTIONS)
			w.ctrl.VerifPost(func() { fin(succ); close(done) })
			waitOn(done, "stop-done")
			if succ {
				w.stopped = true
			}
		}
	case "OHide":
		w.prov.hidden[svcName(o.Int(0))] = true
		w.prov.publish()
		reply = hx.C("RDir", w.directory())
	case "OShow":
		delete(w.prov.hidden, svcName(o.Int(0)))
		w.prov.publish()
		reply = hx.C("RDir", w.directory())
	case "OTopo":
		w.prov.setOthers(o.Int(0))
		w.prov.publish()
		reply = hx.C("RDir", w.directory())
	default:
		panic("c12: unknown op " + o.Name)
	}
	w.settle()
	appEvs, recv := w.log.drain()
	sort.SliceStable(recv, func(i, j int) bool { return recv[i].svc < recv[j].svc })
	rl := []any{}
	for _, r := range recv {
		rl = append(rl, hx.Pair{A: r.svc, B: recvCmd(r.cmd)})
	}
	if appEvs == nil {
		appEvs = []any{}
	}
	return hx.C("Ob", reply, appEvs, rl)
}
