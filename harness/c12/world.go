// Package c12 drives the REAL nodectrl.NodeCtrl (admin actor "__nodeadmin__", its command
// table, the retire-support query and the service-retired handling) in a local protoactor
// system.  The node application is a recording INodeApp whose UpdateNodeState goes through
// the real app.App.UpdateNodeState into a recording cluster.Provider; hosted services are
// real node/service.NodeService actors that receive ctrl.cmd through the real
// node/builtin CtrlEventEntry and report "retired" through the real app.NotifyServiceRetired.
package c12

import (
	"encoding/json"
	"fmt"
	"io"
	"log"
	"log/slog"
	"sort"
	"strconv"
	"strings"
	"sync"
	"time"

	"github.com/asynkron/protoactor-go/actor"
	"github.com/asynkron/protoactor-go/remote"
	"github.com/sirupsen/logrus"

	as "github.com/dfklegend/cell2/actorex/service"
	"github.com/dfklegend/cell2/actorex/service/servicemsgs"
	"github.com/dfklegend/cell2/apimapper/registry"
	"github.com/dfklegend/cell2/node/app"
	_ "github.com/dfklegend/cell2/node/builtin" // registers the __sys__ collection (ctrl.cmd for services)
	"github.com/dfklegend/cell2/node/builtin/msgs"
	"github.com/dfklegend/cell2/node/cluster"
	"github.com/dfklegend/cell2/node/config"
	ns "github.com/dfklegend/cell2/node/service"
	"github.com/dfklegend/cell2/nodectrl"
	"github.com/dfklegend/cell2/utils/logger"

	"verifh/hx"
)

const opTimeout = 20 * time.Second

var initOnce sync.Once

func initProcess() {
	initOnce.Do(func() {
		logger.SetLogLevel(logrus.PanicLevel)
		log.SetOutput(io.Discard)
		registry.Registry.Build()
	})
}

func svcName(n int64) string { return fmt.Sprintf("svc-%d", n) }

func svcToken(name string) int64 {
	if !strings.HasPrefix(name, "svc-") {
		panic("c12: unexpected service name " + name)
	}
	n, err := strconv.ParseInt(name[4:], 10, 64)
	if err != nil {
		panic("c12: unexpected service name " + name)
	}
	return n
}

// ---- event log (everything the observables are built from) ----

type recvEv struct {
	svc int64
	cmd string
}

type evlog struct {
	mu   sync.Mutex
	app  []any    // EPub st | EStop, in call order
	recv []recvEv // ctrl.cmd requests as they arrive at harness services
	fins []func(bool)
}

func (l *evlog) drain() (appEvs []any, recv []recvEv) {
	l.mu.Lock()
	defer l.mu.Unlock()
	appEvs, recv = l.app, l.recv
	l.app, l.recv = nil, nil
	return
}

// ---- recording cluster.Provider: the end of UpdateNodeState ----

type recProvider struct{ log *evlog }

func (p *recProvider) StartMember(c cluster.ICluster) error { return nil }
func (p *recProvider) StartClient(c cluster.ICluster) error { return nil }
func (p *recProvider) Shutdown(graceful bool) error         { return nil }
func (p *recProvider) UpdateClusterState(state int) error {
	p.log.mu.Lock()
	p.log.app = append(p.log.app, hx.C("EPub", stateTerm(state)))
	p.log.mu.Unlock()
	return nil
}

// ---- recording INodeApp ----

type hosted struct {
	name string
	pid  *actor.PID // nil: configured but not running
}

type recApp struct {
	real *app.App
	sys  *actor.ActorSystem
	log  *evlog
	list []hosted // configuration order, duplicates allowed

	mu     sync.Mutex
	hidden map[string]bool // names GetService currently does not resolve (OHide / OShow)
}

func (a *recApp) GetActorSystem() *actor.ActorSystem { return a.sys }

func (a *recApp) setHidden(name string, h bool) {
	a.mu.Lock()
	defer a.mu.Unlock()
	if h {
		a.hidden[name] = true
	} else {
		delete(a.hidden, name)
	}
}

// GetService: what the node application resolves right now.  A hidden service keeps running
// (and can still report "retired"); it just cannot be found, as during a topology refresh.
func (a *recApp) GetService(name string) *actor.PID {
	a.mu.Lock()
	hid := a.hidden[name]
	a.mu.Unlock()
	if hid {
		return nil
	}
	return a.find(name)
}

func (a *recApp) find(name string) *actor.PID {
	for _, h := range a.list {
		if h.name == name {
			return h.pid
		}
	}
	return nil
}

func (a *recApp) FilterSelfServices(filter func(name string, cfg *config.ServiceInfo)) {
	for _, h := range a.list {
		filter(h.name, &config.ServiceInfo{Type: "c12"})
	}
}

// real app.App.UpdateNodeState forwards to the provider set with SetProvider
func (a *recApp) UpdateNodeState(state int) { a.real.UpdateNodeState(state) }

func (a *recApp) StopNode(fin func(succ bool)) {
	a.log.mu.Lock()
	a.log.app = append(a.log.app, "EStop")
	a.log.fins = append(a.log.fins, fin)
	a.log.mu.Unlock()
}

func stateTerm(s int) string {
	switch s {
	case 1:
		return "Working"
	case 2:
		return "Retiring"
	case 3:
		return "Retired"
	case 4:
		return "Exiting"
	case 5:
		return "Exited"
	}
	panic(fmt.Sprintf("c12: node state %d outside working..exited", s))
}

func stateByName(s string) string {
	switch s {
	case "working":
		return "Working"
	case "retiring":
		return "Retiring"
	case "retired":
		return "Retired"
	case "4":
		return "Exiting"
	case "5":
		return "Exited"
	}
	panic("c12: unexpected state name " + s)
}

// ---- harness services ----

// disposition of a hosted service (how it answers ctrl.cmd)
const (
	dAbsent     = "DAbsent"     // configured on the node but GetService finds no process
	dNoListener = "DNoListener" // real CtrlEventEntry answers "no listener"
	dNo         = "DNo"         // listener answers "no" to queryretire
	dOk         = "DOk"         // listener answers "ok"
	dErr        = "DErr"        // the request fails (error response)
)

type listener struct{ ans string }

func (l *listener) Handler(cmd string) string {
	if cmd == "queryretire" {
		return l.ans
	}
	return "ok"
}

// hsvc is a node service: embeds the real NodeService, so ctrl.cmd is handled by the real
// node/builtin.CtrlEventEntry.Cmd (via INodeServiceOwner / ICtrlCmdListener).
type hsvc struct {
	*ns.NodeService
	tok  int64
	disp string
	log  *evlog
	pid  *actor.PID
}

func (h *hsvc) GetNodeService() *ns.NodeService { return h.NodeService }

func (h *hsvc) Receive(ctx actor.Context) {
	if req, ok := ctx.Message().(*servicemsgs.ServiceRequest); ok && req.Route == "ctrl.cmd" {
		if m, err := remote.Deserialize(req.Body, req.Type, as.DefaultSerializeId); err == nil {
			if cc, ok := m.(*msgs.CtrlCmd); ok {
				h.log.mu.Lock()
				h.log.recv = append(h.log.recv, recvEv{h.tok, cc.Cmd})
				h.log.mu.Unlock()
			}
		}
	}
	h.NodeService.Receive(ctx)
}

// ReceiveRequest is reached only by services without an API dispatcher (DErr): fail the request.
func (h *hsvc) ReceiveRequest(ctx actor.Context, request *servicemsgs.ServiceRequest, rawMsg interface{}) {
	h.Response(request, as.CodeErrString, "c12: scripted failure", nil)
}

// probe is the "master": a plain actorex service used to send requests and await replies.
type probe struct{ *as.Service }

func (p *probe) Receive(ctx actor.Context) { p.Service.Receive(ctx) }

// ---- the world of one case ----

type world struct {
	sys      *actor.ActorSystem
	log      *evlog
	rec      *recApp
	ctrl     *nodectrl.NodeCtrl
	admin    *actor.PID
	master   *probe
	running  map[int64]*hsvc // every spawned harness service by token (hosted or stray)
	order    []int64
	stoppers []func()
	pids     []*actor.PID
}

// One actor system for the whole process (creating one costs ~5 ms); every actor of a case is
// stopped, and its name released, before the next case starts.
var (
	sysOnce   sync.Once
	sharedSys *actor.ActorSystem
)

func quietSystem() *actor.ActorSystem {
	sysOnce.Do(func() { sharedSys = newQuietSystem() })
	return sharedSys
}

func newQuietSystem() *actor.ActorSystem {
	return actor.NewActorSystem(actor.WithLoggerFactory(func(*actor.ActorSystem) *slog.Logger {
		return slog.New(slog.NewTextHandler(io.Discard, nil))
	}))
}

func (w *world) spawnService(tok int64, disp string) *hsvc {
	name := svcName(tok)
	h := &hsvc{NodeService: ns.NewService(), tok: tok, disp: disp, log: w.log}
	started := make(chan struct{})
	var props *actor.Props
	var ext *as.ExtProps
	producer := func() actor.Actor { return h }
	if disp == dErr {
		props, ext = as.NewServicePropsWithNewScheDisp(producer, "c12."+name)
		h.NodeService.Service.InitReqReceiver(h)
	} else {
		props, ext = ns.NewServiceWithDispatcher(producer, "c12."+name, "c12.none")
	}
	ext.WithPostFunc(func(as.IService) {}) // doPostStartFuncs only runs when PostFuncs != nil
	ext.WithPostStartFunc(func(actor.Context) { close(started) })
	switch disp {
	case dOk:
		h.SetCtrlCmdListener(&listener{"ok"})
	case dNo:
		h.SetCtrlCmdListener(&listener{"no"})
	}
	h.SetOwner(h)
	pid, err := w.sys.Root.SpawnNamed(props, name)
	if err != nil {
		panic(err)
	}
	h.pid = pid
	waitOn(started, "service start "+name)
	ns.StartNodeService(w.sys.Root, pid, name, &config.ServiceInfo{Type: "c12"})
	// the name is set when StartServiceCmd is processed: wait for it (same mailbox, FIFO)
	w.call(pid, "c12.nosuch", &msgs.CtrlCmd{})
	w.running[tok] = h
	w.order = append(w.order, tok)
	w.pids = append(w.pids, pid)
	rs := h.GetRunService()
	w.stoppers = append(w.stoppers, rs.Stop)
	return h
}

func waitOn(ch chan struct{}, what string) {
	select {
	case <-ch:
	case <-time.After(opTimeout):
		panic("c12: timeout waiting for " + what)
	}
}

// cfg: (token, disposition) in configuration order
func newWorld(cfg []hx.Pair) *world {
	initProcess()
	w := &world{sys: quietSystem(), log: &evlog{}, running: map[int64]*hsvc{}}
	app.Node = app.NewNode()
	app.Node.SetProvider(&recProvider{w.log})
	w.rec = &recApp{real: app.Node, sys: w.sys, log: w.log, hidden: map[string]bool{}}
	// master
	w.master = &probe{Service: as.NewService()}
	started := make(chan struct{})
	props, ext := as.NewServicePropsWithNewScheDisp(func() actor.Actor { return w.master }, "c12.master")
	ext.WithPostFunc(func(as.IService) {})
	ext.WithPostStartFunc(func(actor.Context) { close(started) })
	mpid, err := w.sys.Root.SpawnNamed(props, "c12-master")
	if err != nil {
		panic(err)
	}
	w.pids = append(w.pids, mpid)
	waitOn(started, "master start")
	w.stoppers = append(w.stoppers, w.master.GetRunService().Stop)
	for _, c := range cfg {
		tok, disp := c.A.(int64), hx.AsTerm(c.B).Name
		h := hosted{name: svcName(tok)}
		if w.declared(h.name) {
			h.pid = w.rec.find(h.name) // duplicate entry: the first declaration decides
		} else if disp != dAbsent {
			h.pid = w.spawnService(tok, disp).pid
		}
		w.rec.list = append(w.rec.list, h)
	}
	// the real thing
	w.ctrl = app.Node.GetNodeCtrl()
	w.ctrl.Start(w.rec)
	w.admin = w.ctrl.GetAdmin()
	w.pids = append(w.pids, w.admin)
	w.stoppers = append(w.stoppers, w.ctrl.VerifStop)
	w.settle()
	return w
}

func (w *world) declared(name string) bool {
	for _, h := range w.rec.list {
		if h.name == name {
			return true
		}
	}
	return false
}

func (w *world) close() {
	for _, pid := range w.pids {
		w.sys.Root.StopFuture(pid).Wait()
	}
	for _, s := range w.stoppers {
		s()
	}
}

type callRes struct {
	err error
	raw any
}

// call sends a request from the master's own context and waits for the reply.
func (w *world) call(pid *actor.PID, route string, msg any) callRes {
	ch := make(chan callRes, 1)
	w.master.Post(func() {
		w.master.RequestEx(pid, route, msg, func(err error, raw interface{}) { ch <- callRes{err, raw} })
	})
	select {
	case r := <-ch:
		return r
	case <-time.After(opTimeout):
		panic("c12: no reply to " + route)
	}
}

// settle waits until everything the last operation caused has been processed: a request for
// a route nobody implements is answered (with an error) by the receiving service after all
// messages queued before it.  Services first (they answer the admin), then the admin.
func (w *world) settle() {
	for round := 0; round < 2; round++ {
		for _, tok := range w.order {
			w.call(w.running[tok].pid, "c12.nosuch", &msgs.CtrlCmd{})
		}
		if w.admin != nil {
			w.call(w.admin, "c12.nosuch", &msgs.CtrlCmd{})
		}
	}
}

func cmdString(c string) string {
	switch c {
	case "CStat":
		return "stat"
	case "CRetire":
		return "retire"
	case "CExit":
		return "exit"
	case "CWebNodes":
		return "web_nodes"
	case "CWebRetire":
		return "web_retire"
	case "CWebExit":
		return "web_exit"
	case "COther":
		return "reload"
	}
	panic("c12: unknown command " + c)
}

func classifyReply(cmd, r string) any {
	const badRetire, badExit = "beginRetire failed, error state: ", "beginExit failed, error state: "
	switch {
	case r == "ok":
		return "ROk"
	case r == "some service not support retire":
		return "RNoSupport"
	case strings.HasPrefix(r, badRetire):
		return hx.C("RBadState", stateByName(r[len(badRetire):]))
	case strings.HasPrefix(r, badExit):
		return hx.C("RBadState", stateByName(r[len(badExit):]))
	case strings.HasSuffix(r, " not support"):
		return "RUnknown"
	case strings.HasPrefix(r, "state: "):
		i := strings.Index(r, ",")
		return hx.C("RStat", stateByName(r[len("state: "):i]))
	case strings.HasPrefix(r, "{"):
		var st struct {
			Status  string `json:"status"`
			Service string `json:"service"`
		}
		if err := json.Unmarshal([]byte(r), &st); err != nil {
			panic("c12: web_nodes reply: " + err.Error())
		}
		var svcs map[string]struct {
			State         int
			RetireSupport bool
		}
		if err := json.Unmarshal([]byte(st.Service), &svcs); err != nil {
			panic("c12: web_nodes services: " + err.Error())
		}
		m := map[int64]any{}
		for k, v := range svcs {
			m[svcToken(k)] = hx.Pair{A: stateTerm(v.State), B: v.RetireSupport}
		}
		l := []any{}
		for _, k := range hx.SortedKeys(m) {
			l = append(l, hx.Pair{A: k, B: m[k]})
		}
		return hx.C("RNodes", stateByName(st.Status), l)
	}
	panic("c12: unclassifiable reply to " + cmd + ": " + r)
}

func recvCmd(c string) string {
	switch c {
	case "queryretire":
		return "KQuery"
	case "retire":
		return "KRetire"
	}
	panic("c12: service received unexpected ctrl.cmd " + c)
}

// sender returns a running node service named svc-<tok>, spawning a stray one (not known to
// the node application) when the token is not hosted or hosted-but-absent.
func (w *world) sender(tok int64) *hsvc {
	if h, ok := w.running[tok]; ok {
		return h
	}
	return w.spawnService(tok, dOk)
}

// do executes one operation and returns its observation  Ob reply appEvents received.
func (w *world) do(o hx.T) any {
	var reply any = "RNone"
	switch o.Name {
	case "OCmd":
		c := hx.AsTerm(o.Args[0]).Name
		r := w.call(w.admin, "ctrl.cmd", &msgs.CtrlCmd{Cmd: cmdString(c)})
		if r.err != nil {
			panic("c12: ctrl.cmd failed: " + r.err.Error())
		}
		reply = classifyReply(c, r.raw.(*msgs.CtrlCmdAck).Result)
	case "OQueryAll":
		done := make(chan struct{})
		w.ctrl.VerifQueryRetire(nil, func() { close(done) })
		waitOn(done, "query-all")
	case "OQuery":
		done := make(chan struct{})
		w.ctrl.VerifQueryRetire([]string{svcName(o.Int(0))}, func() { close(done) })
		waitOn(done, "query")
	case "OSvcCmd":
		cmd := "retired"
		if hx.AsTerm(o.Args[1]).Name == "SOther" {
			cmd = "status"
		}
		r := w.call(w.admin, "ctrl.servicecmd", &msgs.ServiceCmd{Name: svcName(o.Int(0)), Cmd: cmd})
		if r.err != nil {
			panic("c12: ctrl.servicecmd failed: " + r.err.Error())
		}
		if res := r.raw.(*msgs.ServiceCmdAck).Result; res != "ok" {
			panic("c12: ctrl.servicecmd answered " + res)
		}
		reply = "ROk"
	case "ONotify":
		h := w.sender(o.Int(0))
		done := make(chan struct{})
		h.Post(func() { app.NotifyServiceRetired(h.NodeService); close(done) })
		waitOn(done, "notify")
	case "OStopDone":
		w.log.mu.Lock()
		var fin func(bool)
		if len(w.log.fins) > 0 {
			fin, w.log.fins = w.log.fins[0], w.log.fins[1:]
		}
		w.log.mu.Unlock()
		if fin != nil {
			done := make(chan struct{})
			succ := o.Bool(0)
			w.ctrl.VerifPost(func() { fin(succ); close(done) })
			waitOn(done, "stop-done")
		}
	case "OHide":
		w.rec.setHidden(svcName(o.Int(0)), true)
	case "OShow":
		w.rec.setHidden(svcName(o.Int(0)), false)
	default:
		panic("c12: unknown op " + o.Name)
	}
	w.settle()
	appEvs, recv := w.log.drain()
	sort.SliceStable(recv, func(i, j int) bool { return recv[i].svc < recv[j].svc })
	rl := []any{}
	for _, r := range recv {
		rl = append(rl, hx.Pair{A: r.svc, B: recvCmd(r.cmd)})
	}
	if appEvs == nil {
		appEvs = []any{}
	}
	return hx.C("Ob", reply, appEvs, rl)
}
