package c11

// An in-process etcd stand-in: a gRPC server on a loopback port that implements just the part
// of the KV / Watch / Lease services the cell2 etcd provider uses.  ClusterModule.Start builds
// its provider itself (etcd.NewWithConfig on cluster.yaml's ETCDServer), so a failing client
// cannot be handed to the module; instead cluster.yaml points the REAL clientv3 client at this
// server, and the faults are injected on the server side, one per step of
// ClusterModule.Start / Stop (see fault in coq/theories/C11/Model.v):
//
//	FNew       (not served here: cluster.yaml names an endpoint grpc cannot parse, NewWithConfig fails)
//	FGet       the first Range fails                       (StartMember -> fetchNodes)
//	FGarbage   the first Range lists a value that is not a Node  (fetchNodes -> Deserialize)
//	FWatch     the first two watch creations are cancelled by the server (startWatching, asynchronous)
//	FGrant     the first LeaseGrant fails                  (registerService -> newLeaseID)
//	FPut       the first Put fails                         (registerService)
//	FKaGrant   the second LeaseGrant fails                 (startKeepAlive -> keepAliveForever, asynchronous)
//	FKaPut     the second Put fails                        (keepAliveForever, asynchronous)
//	FKaStream  the first keep-alive answer says the lease expired (keepAliveForever, asynchronous)
//	FDelete    every DeleteRange fails                     (Stop -> Shutdown -> deregisterService)
//
// Errors are etcd's own "too many requests" (ResourceExhausted), which clientv3 does not
// retry.  "first", "second" count per connection, i.e. per provider (every ClusterModule.Start
// makes its own client), so that every Start of a case meets the same faults; the key space is
// per case, and a connection belongs to the case that was current when it was first seen (a
// provider that outlives its case cannot disturb another case).

import (
	"context"
	"net"
	"sort"
	"strings"
	"sync"

	pb "go.etcd.io/etcd/api/v3/etcdserverpb"
	"go.etcd.io/etcd/api/v3/mvccpb"
	"go.etcd.io/etcd/api/v3/v3rpc/rpctypes"
	"google.golang.org/grpc"
	"google.golang.org/grpc/peer"
)

var faultNames = []string{"FNew", "FGet", "FGarbage", "FWatch", "FGrant", "FPut", "FKaGrant", "FKaPut", "FKaStream", "FDelete"}

type etcdCase struct {
	mu       sync.Mutex
	faults   map[string]bool
	kv       map[string][]byte
	rev      int64
	lease    int64
	seen     map[string]int // requests per kind
	injected map[string]int // faults delivered
}

func newEtcdCase(faults map[string]bool) *etcdCase {
	c := &etcdCase{faults: faults, kv: map[string][]byte{}, rev: 1, lease: 7000, seen: map[string]int{}, injected: map[string]int{}}
	// another member of the cluster is already registered
	c.kv["/cell2/vcluster/vcluster@peer"] = []byte(`{"id":"vcluster@peer","name":"vcluster@peer","host":"10.0.0.9","address":"10.0.0.9","port":7001,"services":["gate.gate-9"],"alive":true,"state":0}`)
	return c
}

// conn is one client connection (one provider) of a case
type conn struct {
	*etcdCase
	n map[string]int // requests per kind on this connection
}

// count registers a request of the given kind and says whether fault f hits it: f is planned
// and this is the from-th .. to-th request of the kind on the connection (to == 0: no end)
func (c *conn) count(kind, f string, from, to int) bool {
	c.mu.Lock()
	defer c.mu.Unlock()
	c.seen[kind]++
	c.n[kind]++
	n := c.n[kind]
	if f != "" && c.faults[f] && n >= from && (to == 0 || n <= to) {
		c.injected[f]++
		return true
	}
	return false
}

func (c *conn) nth(kind string) int {
	c.mu.Lock()
	defer c.mu.Unlock()
	return c.n[kind]
}

func (c *etcdCase) header() *pb.ResponseHeader {
	return &pb.ResponseHeader{ClusterId: 11, MemberId: 1, Revision: c.rev, RaftTerm: 1}
}

func (c *etcdCase) lockedHeader() *pb.ResponseHeader {
	c.mu.Lock()
	defer c.mu.Unlock()
	return c.header()
}

func (c *etcdCase) counters() (seen, injected map[string]int) {
	c.mu.Lock()
	defer c.mu.Unlock()
	seen, injected = map[string]int{}, map[string]int{}
	for k, v := range c.seen {
		seen[k] = v
	}
	for k, v := range c.injected {
		injected[k] = v
	}
	return
}

type fakeEtcd struct {
	pb.UnimplementedKVServer
	pb.UnimplementedWatchServer
	pb.UnimplementedLeaseServer

	mu    sync.Mutex
	cur   *etcdCase
	idle  *etcdCase
	conns map[string]*conn
	addr  string
	srv   *grpc.Server
}

var errInjected = rpctypes.ErrGRPCRequestTooManyRequests

func startFakeEtcd() (*fakeEtcd, error) {
	lis, err := net.Listen("tcp", "127.0.0.1:0")
	if err != nil {
		return nil, err
	}
	f := &fakeEtcd{conns: map[string]*conn{}, addr: lis.Addr().String(), idle: newEtcdCase(map[string]bool{})}
	f.srv = grpc.NewServer()
	pb.RegisterKVServer(f.srv, f)
	pb.RegisterWatchServer(f.srv, f)
	pb.RegisterLeaseServer(f.srv, f)
	go f.srv.Serve(lis)
	return f, nil
}

// begin makes c the case new connections belong to (nil: no case is running)
func (f *fakeEtcd) begin(c *etcdCase) {
	f.mu.Lock()
	f.cur = c
	f.mu.Unlock()
}

func (f *fakeEtcd) of(ctx context.Context) *conn {
	key := "?"
	if p, ok := peer.FromContext(ctx); ok && p.Addr != nil {
		key = p.Addr.String()
	}
	f.mu.Lock()
	defer f.mu.Unlock()
	c := f.conns[key]
	if c == nil {
		ec := f.cur
		if ec == nil {
			ec = f.idle
		}
		c = &conn{etcdCase: ec, n: map[string]int{}}
		f.conns[key] = c
	}
	return c
}

// ---- KV

func (f *fakeEtcd) Range(ctx context.Context, r *pb.RangeRequest) (*pb.RangeResponse, error) {
	c := f.of(ctx)
	if c.count("range", "FGet", 1, 1) {
		return nil, errInjected
	}
	garbage := c.count("range-listing", "FGarbage", 1, 1)
	c.mu.Lock()
	defer c.mu.Unlock()
	var keys []string
	for k := range c.kv {
		if len(r.RangeEnd) == 0 {
			if k == string(r.Key) {
				keys = append(keys, k)
			}
		} else if strings.HasPrefix(k, string(r.Key)) {
			keys = append(keys, k)
		}
	}
	sort.Strings(keys)
	resp := &pb.RangeResponse{Header: c.header()}
	for _, k := range keys {
		v := c.kv[k]
		if garbage {
			v = []byte("{not a node")
		}
		resp.Kvs = append(resp.Kvs, &mvccpb.KeyValue{Key: []byte(k), Value: v, CreateRevision: 1, ModRevision: 1, Version: 1})
	}
	resp.Count = int64(len(resp.Kvs))
	return resp, nil
}

func (f *fakeEtcd) Put(ctx context.Context, r *pb.PutRequest) (*pb.PutResponse, error) {
	c := f.of(ctx)
	if c.count("put", "FPut", 1, 1) {
		return nil, errInjected
	}
	if c.nth("put") == 2 && c.count("put-keepalive", "FKaPut", 1, 1) {
		return nil, errInjected
	}
	c.mu.Lock()
	defer c.mu.Unlock()
	c.rev++
	c.kv[string(r.Key)] = append([]byte{}, r.Value...)
	return &pb.PutResponse{Header: c.header()}, nil
}

func (f *fakeEtcd) DeleteRange(ctx context.Context, r *pb.DeleteRangeRequest) (*pb.DeleteRangeResponse, error) {
	c := f.of(ctx)
	if c.count("delete", "FDelete", 1, 0) {
		return nil, errInjected
	}
	c.mu.Lock()
	defer c.mu.Unlock()
	n := int64(0)
	if _, ok := c.kv[string(r.Key)]; ok {
		delete(c.kv, string(r.Key))
		c.rev++
		n = 1
	}
	return &pb.DeleteRangeResponse{Header: c.header(), Deleted: n}, nil
}

// ---- Lease

func (f *fakeEtcd) LeaseGrant(ctx context.Context, r *pb.LeaseGrantRequest) (*pb.LeaseGrantResponse, error) {
	c := f.of(ctx)
	if c.count("grant", "FGrant", 1, 1) {
		return nil, errInjected
	}
	if c.nth("grant") == 2 && c.count("grant-keepalive", "FKaGrant", 1, 1) {
		return nil, errInjected
	}
	c.mu.Lock()
	defer c.mu.Unlock()
	c.lease++
	return &pb.LeaseGrantResponse{Header: c.header(), ID: c.lease, TTL: r.TTL}, nil
}

func (f *fakeEtcd) LeaseRevoke(ctx context.Context, r *pb.LeaseRevokeRequest) (*pb.LeaseRevokeResponse, error) {
	c := f.of(ctx)
	c.count("revoke", "", 0, 0)
	return &pb.LeaseRevokeResponse{Header: c.lockedHeader()}, nil
}

func (f *fakeEtcd) LeaseKeepAlive(s pb.Lease_LeaseKeepAliveServer) error {
	c := f.of(s.Context())
	for {
		req, err := s.Recv()
		if err != nil {
			return nil
		}
		ttl := int64(3)
		if c.count("keepalive", "FKaStream", 1, 1) {
			ttl = 0 // the lease has expired
		}
		if err := s.Send(&pb.LeaseKeepAliveResponse{Header: c.lockedHeader(), ID: req.ID, TTL: ttl}); err != nil {
			return nil
		}
	}
}

// ---- Watch

func (f *fakeEtcd) Watch(s pb.Watch_WatchServer) error {
	c := f.of(s.Context())
	id := int64(0)
	for {
		req, err := s.Recv()
		if err != nil {
			return nil
		}
		switch {
		case req.GetCreateRequest() != nil:
			if c.count("watch", "FWatch", 1, 2) {
				if err := s.Send(&pb.WatchResponse{Header: c.lockedHeader(), WatchId: -1, Created: true, Canceled: true,
					CancelReason: "etcdserver: too many requests"}); err != nil {
					return nil
				}
				continue
			}
			id++
			if err := s.Send(&pb.WatchResponse{Header: c.lockedHeader(), WatchId: id, Created: true}); err != nil {
				return nil
			}
		case req.GetCancelRequest() != nil:
			if err := s.Send(&pb.WatchResponse{Header: c.lockedHeader(), WatchId: req.GetCancelRequest().WatchId, Canceled: true}); err != nil {
				return nil
			}
		}
	}
}
