// Package c11 drives the real baseapp/module.ModList, baseapp.App (through
// baseapp.LaunchAppWithMode / App.Stop) and the node App (through StartNode / StopNode)
// with scripted modules and with the modules shipped with the framework (welcome, actor
// system, cluster), and logs every module entry, every next() and every finish() call.
// In cluster mode the ClusterModule's own clientv3 client talks to an in-process etcd stand-in
// (etcdfake.go) on which every etcd operation of ClusterModule.Start / Stop can be made to fail.
//
// An operation list is pure data (see coq/theories/C11/Model.v for the meaning):
//
//	OMode m | OEnv addr enable etcd | OMod kind      declarations, collected from the whole list
//	OFault f                                         declaration: the etcd operation that fails (etcdfake.go)
//	OCallback fwd req                                declaration: the start (fwd) / stop completion callback itself
//	                                                 requests App.Start (req) / App.Stop, from inside the callback
//	OStart | OStop                                   ModList.Start/Stop, App start/stop, StartNode/StopNode
//	OFire k b                                        invoke the continuation captured at the k-th module entry with b
//
// The observation is one event list per operation.
package c11

import (
	"fmt"
	"io"
	"log"
	"net"
	"os"
	"path/filepath"
	"reflect"
	"sort"
	"strings"
	"sync"
	"sync/atomic"
	"time"
	"unsafe"

	"github.com/asynkron/protoactor-go/remote"
	"github.com/sirupsen/logrus"

	"github.com/dfklegend/cell2/baseapp"
	"github.com/dfklegend/cell2/baseapp/interfaces"
	"github.com/dfklegend/cell2/baseapp/module"
	"github.com/dfklegend/cell2/node/app"
	actormodule "github.com/dfklegend/cell2/node/modules/actor"
	clustermodule "github.com/dfklegend/cell2/node/modules/cluster"
	welcomemodule "github.com/dfklegend/cell2/node/modules/welcome"
	"github.com/dfklegend/cell2/utils/logger"
	"github.com/dfklegend/cell2/utils/logger/proxy"

	"verifh/hx"
)

// ---------------------------------------------------------------- configuration

type beh struct {
	calls  []bool
	panics bool
}

type kindT struct {
	name   string // KScript | KWelcome | KActor | KCluster
	st, sp beh
}

type envT struct {
	mode     string // MList | MApp | MNode
	prepared bool
	addr     string // AFree | ABusy | ABad
	enable   bool
	etcd     bool
	fixed    string // AFixed: this case's own address, a port nobody holds yet
	faults   map[string]bool
	cb       map[bool]*bool // completion callback of Start (true) / Stop (false) -> the request it makes
	mods     []kindT
}

func parseBeh(t hx.T) beh {
	b := beh{panics: t.Bool(1)}
	for _, c := range t.List(0) {
		b.calls = append(b.calls, c.(bool))
	}
	return b
}

func parseEnv(ops []hx.T) envT {
	e := envT{mode: "MList", addr: "AFree", faults: map[string]bool{}, cb: map[bool]*bool{}}
	for _, o := range ops {
		switch o.Name {
		case "OMode":
			m := o.Term(0)
			e.mode = m.Name
			if m.Name == "MApp" {
				e.prepared = m.Bool(0)
			}
		case "OEnv":
			e.addr = o.Term(0).Name
			e.enable = o.Bool(1)
			e.etcd = o.Bool(2)
		case "OFault":
			e.faults[o.Term(0).Name] = true
		case "OCallback":
			req := o.Bool(1)
			e.cb[o.Bool(0)] = &req
		case "OMod":
			k := o.Term(0)
			kd := kindT{name: k.Name}
			if k.Name == "KScript" {
				kd.st, kd.sp = parseBeh(k.Term(0)), parseBeh(k.Term(1))
			}
			e.mods = append(e.mods, kd)
		}
	}
	return e
}

// ---------------------------------------------------------------- process-wide fixtures

type fixtures struct {
	dir      map[string]string // config directories: off (self cluster) | dead | fake | badep (see cfgDir)
	etcd     *fakeEtcd
	busy     net.Listener
	launcher *executor // the executor whose modules the registered launch function adds
}

var fx *fixtures

const launchName = "c11-harness"

func setup(scratch string) error {
	if fx != nil {
		return nil
	}
	if scratch == "" {
		d, err := os.MkdirTemp("", "c11-")
		if err != nil {
			return err
		}
		scratch = d
	}
	f := &fixtures{dir: map[string]string{}}
	lis, err := net.Listen("tcp", "127.0.0.1:0")
	if err != nil {
		return err
	}
	f.busy = lis
	if f.etcd, err = startFakeEtcd(); err != nil {
		return err
	}
	// off: self cluster.  dead: nothing listens on the etcd endpoint (only usable when Start fails
	// before its first request).  fake: the in-process etcd stand-in.  badep: an endpoint grpc
	// cannot parse, so that etcd.NewWithConfig itself fails.
	for _, v := range [][3]string{{"off", "false", "127.0.0.1:1"}, {"dead", "true", "127.0.0.1:1"},
		{"fake", "true", f.etcd.addr}, {"badep", "true", "\"127.0.0.1:1%zz\""}} {
		d := filepath.Join(scratch, "c11cfg-"+v[0])
		if err := os.MkdirAll(d, 0o755); err != nil {
			return err
		}
		cluster := "---\nEnable: " + v[1] + "\nNodeCtrl: false\nName: vcluster\nETCDServer: " + v[2] + "\n"
		// every node lists one service that has NO entry under services: - App.StartServices logs and skips
		// it, and the start-completion callback of StartNode is still due exactly once (seed C11-11)
		nodes := "---\nnodes:\n"
		for _, n := range [][2]string{{"node-afree", "127.0.0.1:0"}, {"node-abusy", lis.Addr().String()}, {"node-abad", "badaddr"}, {"node-afixed", "127.0.0.1:0"}} {
			nodes += "  " + n[0] + ":\n    StartMode: " + launchName + "\n    Address: " + n[1] + "\n    Services: [svc-ghost]\n"
		}
		nodes += "services: {}\n"
		if err := os.WriteFile(filepath.Join(d, "cluster.yaml"), []byte(cluster), 0o644); err != nil {
			return err
		}
		if err := os.WriteFile(filepath.Join(d, "nodes.yaml"), []byte(nodes), 0o644); err != nil {
			return err
		}
		f.dir[v[0]] = d
	}
	// silence cell2's loggers and the std logger (App.Cleanup prints)
	logger.SetLogLevel(logrus.PanicLevel)
	if p := proxy.GetLogs().GetLog("exception"); p != nil {
		p.SetLogLevel(logrus.PanicLevel)
	}
	log.SetOutput(io.Discard)
	os.Setenv("ETCD_CLIENT_DEBUG", "fatal") // clientv3 logs every failed request to stderr
	baseapp.RegisterLaunchFunc(launchName, func(a interfaces.IApp) {
		if fx.launcher != nil {
			fx.launcher.addModules(a)
		}
	})
	fx = f
	// actormodule keeps its actor system in a package variable: put it into a known
	// state (a system exists and is shut down) before the first case.
	warm := []hx.T{hx.C("OMode", "MNode"), hx.C("OMod", "KActor"), hx.C("OStart"), hx.C("OStop")}
	Exec(warm)
	return nil
}

// viper lower-cases the keys of nodes.yaml
func nodeID(addr string) string { return "node-" + strings.ToLower(addr) }

func (e envT) cfgDir() string {
	switch {
	case !e.enable:
		return fx.dir["off"]
	case e.faults["FNew"]:
		return fx.dir["badep"]
	case e.etcd:
		return fx.dir["fake"]
	}
	return fx.dir["dead"]
}

func (e envT) address() string {
	switch e.addr {
	case "AFixed":
		return e.fixed
	case "ABusy":
		return fx.busy.Addr().String()
	case "ABad":
		return "badaddr"
	}
	return "127.0.0.1:0"
}

// ---------------------------------------------------------------- executor

type capture struct {
	run, mod int64
	next     interfaces.FuncWithSucc
}

type executor struct {
	mu           sync.Mutex
	env          envT
	cur          []any // events of the operation in progress
	setupEscaped bool  // a panic escaped the set-up StartNode of an MListNode case
	caps         []capture
	fired        map[int]int
	nruns        int64
	runFwd       []bool
	curCall      *callCtx // the Start/Stop call (or fired continuation) in progress
	// a request made from inside a completion callback is in progress since / was made by run
	nestedSince atomic.Int64
	nestedBy    atomic.Int64
	nestedLock  atomic.Bool // the list's lock was held when it was made: it cannot return
	through     bool        // a panic is unwinding through a next() call
	dead        bool        // an operation hung; nothing is recorded any more
	added       bool
	mods        []interfaces.IAppModule
	ml          *module.ModList
	node        *app.App
	entered     bool
	etcd        *etcdCase // this case's view of the etcd stand-in
	// a ClusterModule.Start reported success itself (provider goroutines are running) / settle ran
	clusterUp, settled bool
}

// callCtx is one ModList.Start/Stop (App.Start/Stop, StartNode/StopNode) call.  Its run id is
// given out when it produces its first event: a refused call is not a run.
type callCtx struct {
	id  int64
	fwd bool
}

func (x *executor) runID(c *callCtx) int64 {
	if c.id < 0 {
		c.id = x.nruns
		x.nruns++
		x.runFwd = append(x.runFwd, c.fwd)
	}
	return c.id
}

func (x *executor) emit(t hx.T) {
	x.mu.Lock()
	if !x.dead {
		x.cur = append(x.cur, t)
	}
	x.mu.Unlock()
}

// smod is a scripted module, or a recording wrapper around a shipped module (inner != nil).
type smod struct {
	*module.BaseModule
	x     *executor
	idx   int64
	kd    kindT
	inner interfaces.IAppModule
}

func (m *smod) Start(next interfaces.FuncWithSucc) { m.enter(true, next) }
func (m *smod) Stop(next interfaces.FuncWithSucc)  { m.enter(false, next) }

func (m *smod) enter(fwd bool, next interfaces.FuncWithSucc) {
	x := m.x
	r := x.runID(x.curCall)
	x.entered = true
	x.emit(hx.C("EEnter", r, m.idx))
	x.caps = append(x.caps, capture{r, m.idx, next})
	call := func(b bool) {
		if fwd && b && m.kd.name == "KCluster" {
			x.clusterUp = true
		}
		x.emit(hx.C("ENext", r, m.idx, b))
		ok := false
		defer func() {
			if !ok {
				x.through = true
			}
		}()
		next(b)
		ok = true
	}
	defer func() {
		if p := recover(); p != nil {
			if x.through {
				x.through = false
				x.emit(hx.C("EAbort", r, m.idx))
			} else {
				x.emit(hx.C("ERaise", r, m.idx))
			}
			panic(p) // ModList.Start/Stop must recover this
		}
	}()
	if m.inner != nil {
		if fwd {
			m.inner.Start(call)
		} else {
			m.inner.Stop(call)
		}
		return
	}
	b := m.kd.st
	if !fwd {
		b = m.kd.sp
	}
	for _, c := range b.calls {
		call(c)
	}
	if b.panics {
		panic("c11: scripted module panics")
	}
}

func (x *executor) buildModules() {
	for i, kd := range x.env.mods {
		m := &smod{BaseModule: module.NewBaseModule(), x: x, idx: int64(i), kd: kd}
		switch kd.name {
		case "KWelcome":
			m.inner = welcomemodule.NewWelcomeModule()
		case "KActor":
			m.inner = actormodule.NewActorSystemModule()
		case "KCluster":
			m.inner = clustermodule.NewClusterModule()
		}
		x.mods = append(x.mods, m)
	}
}

// addModules is what the launch mode's PrepareModules does (once per app).
func (x *executor) addModules(a interfaces.IApp) {
	if x.added {
		return
	}
	x.added = true
	for _, m := range x.mods {
		a.AddModule(m)
	}
}

const hangAfter = 3 * time.Second

// guarded runs f on its own goroutine (delayed completions arrive on other goroutines
// than the one that called Start) and waits for it.  A call that cannot return because it
// waits for the list lock its own goroutine holds is reported as EDeadlock (see request).
func (x *executor) guarded(c *callCtx, f func()) {
	done := make(chan struct{})
	go func() {
		defer close(done)
		defer func() {
			if p := recover(); p != nil {
				x.through = false
				x.emit(hx.C("EEscape", x.runID(c)))
			}
		}()
		f()
	}()
	deadline := time.After(hangAfter)
	tick := time.NewTicker(2 * time.Millisecond)
	defer tick.Stop()
	for {
		select {
		case <-done:
			return
		case <-tick.C:
			if t := x.nestedSince.Load(); t != 0 && x.nestedLock.Load() && time.Since(time.Unix(0, t)) > 60*time.Millisecond {
				x.mu.Lock()
				x.cur = append(x.cur, hx.C("EDeadlock", x.nestedBy.Load()))
				x.dead = true
				x.mu.Unlock()
				return
			}
		case <-deadline:
			x.mu.Lock()
			x.cur = append(x.cur, hx.C("EHang"))
			x.dead = true
			x.mu.Unlock()
			return
		}
	}
}

// listLocked reports whether the App's module list holds its lock right now (observed with
// TryLock on the real mutex; the fields are unexported).  Operations are sequential, so a held
// lock is held by the goroutine that asks.
func (x *executor) listLocked() bool {
	msf := reflect.ValueOf(x.node.App).Elem().FieldByName("ms")
	ml := reflect.NewAt(msf.Type(), unsafe.Pointer(msf.UnsafeAddr())).Elem().Interface().(*module.ModList)
	lf := reflect.ValueOf(ml).Elem().FieldByName("lock")
	mu := reflect.NewAt(lf.Type(), unsafe.Pointer(lf.UnsafeAddr())).Elem().Interface().(*sync.RWMutex)
	if mu.TryLock() {
		mu.Unlock()
		return false
	}
	return true
}

// invoke performs the Start (c.fwd) or Stop call of this case's mode with a recording
// completion callback; the callback makes the request declared for it (OCallback) itself.
func (x *executor) invoke(c *callCtx) {
	fin := func(b bool) {
		r := x.runID(c)
		x.emit(hx.C("EFin", r, b))
		if req := x.env.cb[c.fwd]; req != nil && (x.env.mode == "MApp" || x.env.mode == "MNode") {
			x.request(r, *req)
		}
	}
	switch x.env.mode {
	case "MList", "MListNode":
		if c.fwd {
			x.ml.Start(fin)
		} else {
			x.ml.Stop(fin)
		}
	case "MApp":
		if c.fwd {
			baseapp.LaunchAppWithMode(x.node.App, baseapp.NewFuncMode(x.addModules), fin)
		} else {
			x.node.App.Stop(fin)
		}
	case "MNode":
		if c.fwd {
			x.node.StartNode(nodeID(x.env.addr), fin)
		} else {
			x.node.StopNode(fin)
		}
	}
}

// request: run r's completion callback asks the App to start (req) / stop, right here
func (x *executor) request(r int64, req bool) {
	saved := x.curCall
	x.curCall = &callCtx{id: -1, fwd: req}
	x.nestedBy.Store(r)
	x.nestedLock.Store(x.listLocked())
	x.nestedSince.Store(time.Now().UnixNano())
	defer func() {
		x.nestedSince.Store(0)
		x.curCall = saved
	}()
	x.invoke(x.curCall)
}

func (x *executor) startStop(fwd bool) {
	c := &callCtx{id: -1, fwd: fwd}
	x.curCall = c
	x.guarded(c, func() { x.invoke(c) })
}

func (x *executor) fire(k int64, b bool) {
	if k < 0 || k >= int64(len(x.caps)) {
		return
	}
	c := x.caps[k]
	x.fired[int(k)]++
	cc := &callCtx{id: c.run, fwd: x.runFwd[c.run]}
	x.curCall = cc
	x.guarded(cc, func() {
		x.emit(hx.C("ENext", c.run, c.mod, b))
		c.next(b)
	})
}

func (x *executor) do(o hx.T) []any {
	x.cur = []any{}
	if x.setupEscaped {
		x.setupEscaped = false
		x.cur = append(x.cur, hx.C("EEscape", int64(-1)))
	}
	if !x.dead {
		switch o.Name {
		case "OStart":
			x.startStop(true)
		case "OStop":
			x.startStop(false)
		case "OFire":
			x.fire(o.Int(0), o.Bool(1))
		}
	}
	x.settle()
	x.mu.Lock()
	out := x.cur
	x.cur = []any{}
	x.mu.Unlock()
	return out
}

func safely(f func()) {
	defer func() { recover() }()
	f()
}

func newExecutor(ops []hx.T) (*executor, error) {
	env := parseEnv(ops)
	if env.enable && env.addr != "ABad" && !env.etcd && !env.faults["FNew"] {
		for _, m := range env.mods {
			if m.name == "KCluster" {
				return nil, fmt.Errorf("c11: cluster enabled with a usable address and no etcd: the first request never returns; not realisable")
			}
		}
	}
	if env.addr == "AFixed" {
		// a port of this case's own: free now, and nobody else will be handed it while a
		// remote of this case holds it
		l, err := net.Listen("tcp", "127.0.0.1:0")
		if err != nil {
			return nil, err
		}
		env.fixed = l.Addr().String()
		l.Close()
	}
	x := &executor{env: env, fired: map[int]int{}}
	x.etcd = newEtcdCase(env.faults)
	fx.etcd.begin(x.etcd)
	x.buildModules()
	x.node = app.NewNode()
	app.Node = x.node
	if !(env.mode == "MApp" && !env.prepared) {
		x.node.Prepare(env.cfgDir())
		if env.addr == "AFixed" {
			x.node.GetNodes().Nodes[nodeID(env.addr)].Address = env.fixed
		}
		if env.mode != "MNode" && env.mode != "MListNode" {
			// StartNode does this itself; the other modes leave the node info nil
			x.node.GetCluster().InitSelf(env.address(), x.node.GetClusterCfg(), nodeID(env.addr), nil, nil)
		}
	}
	fx.launcher = x
	if env.mode == "MListNode" {
		// give the node its node info: start it with a launch list that registers nothing
		x.added = true
		func() {
			// a panic escaping this set-up call is an observation of the case (reported with its first
			// operation), not the end of the harness (seed C11-11 made StartServices dereference nil)
			defer func() {
				if p := recover(); p != nil {
					x.setupEscaped = true
				}
			}()
			x.node.StartNode(nodeID(env.addr), func(bool) {})
		}()
	}
	if env.mode == "MList" || env.mode == "MListNode" {
		x.ml = module.NewModList()
		for _, m := range x.mods {
			m.Init(x.node.GetRunService())
			x.ml.AddModule(m)
		}
	}
	return x, nil
}

func (x *executor) cleanup() {
	x.mu.Lock()
	x.dead = true
	x.mu.Unlock()
	// end the goroutines of providers that are still up (unrecorded: x.dead is set)
	for _, m := range x.mods {
		if sm := m.(*smod); sm.kd.name == "KCluster" && x.env.enable {
			safely(func() { sm.inner.Stop(func(bool) {}) })
		}
	}
	fx.etcd.begin(nil)
	if s := actormodule.GetSystem(); s != nil && !s.IsStopped() {
		safely(func() { remote.GetRemote(s).Shutdown(false) })
		safely(func() { s.Shutdown() })
	}
	if x.node.GetRunService() != nil {
		safely(func() { x.node.App.Cleanup() })
	}
	fx.launcher = nil
}

// settle gives the provider's watch and keep-alive goroutines the time to run into the faults
// planned for them (they report nowhere: this is about driving those paths, not about the
// observation).  Once, after a cluster module reported a successful start.
func (x *executor) settle() {
	if !(x.env.enable && x.env.etcd) || !x.clusterUp || x.settled {
		return
	}
	x.settled = true
	f := x.env.faults
	deadline := time.Now().Add(400 * time.Millisecond)
	for time.Now().Before(deadline) {
		seen, inj := x.etcd.counters()
		ok := seen["watch"] >= 1 && (!f["FWatch"] || seen["watch"] >= 3)
		// the keep-alive goroutine: Grant, Put, stream; after a failure it sleeps for a second
		switch {
		case f["FKaGrant"]:
			ok = ok && inj["FKaGrant"] >= 1
		case f["FKaPut"]:
			ok = ok && inj["FKaPut"] >= 1
		default:
			ok = ok && seen["keepalive"] >= 1 && (!f["FKaStream"] || inj["FKaStream"] >= 1)
		}
		if ok {
			return
		}
		time.Sleep(time.Millisecond)
	}
	if os.Getenv("C11_DEBUG") != "" {
		seen, inj := x.etcd.counters()
		fmt.Fprintln(os.Stderr, "c11: settle timed out", f, seen, inj)
	}
}

// etcdTags reports which requests reached the etcd stand-in and which faults were delivered
func (x *executor) etcdTags() (tags []string) {
	seen, inj := x.etcd.counters()
	for k := range seen {
		tags = append(tags, "etcd-req-"+k)
	}
	for k := range inj {
		tags = append(tags, "etcd-injected-"+k)
	}
	sort.Strings(tags)
	return
}

func mergeTags(a, b []string) []string {
	m := map[string]bool{}
	for _, t := range a {
		m[t] = true
	}
	for _, t := range b {
		m[t] = true
	}
	return sortedTags(m)
}

// Exec runs one op list against fresh real objects.
func Exec(ops []hx.T) (obs []any, nontrivial bool, tags []string, err error) {
	x, err := newExecutor(ops)
	if err != nil {
		return nil, false, nil, err
	}
	defer x.cleanup()
	for _, o := range ops {
		obs = append(obs, x.do(o))
	}
	return obs, x.entered, x.etcdTags(), nil
}

// ---------------------------------------------------------------- generators

func mkBeh(panics bool, calls ...bool) hx.T {
	l := make([]any, len(calls))
	for i, c := range calls {
		l[i] = c
	}
	return hx.C("Beh", l, panics)
}

var (
	bOK    = mkBeh(false, true)
	bFail  = mkBeh(false, false)
	bLater = mkBeh(false)
	bTwice = mkBeh(false, true, true)
)

func script(st, sp hx.T) hx.T { return hx.C("OMod", hx.C("KScript", st, sp)) }

// exhaustive small scope on the bare ModList: every assignment of {ok, fail, later, twice}
// to the varied phase of n modules, followed by every sequence of at most L environment
// completions (k, b).
func enumerate(n, L int, varyStart bool, emit func([]hx.T)) {
	alpha := []hx.T{bOK, bFail, bLater, bTwice}
	assign := make([]int, n)
	var recA func(d int)
	recA = func(d int) {
		if d < n {
			for a := range alpha {
				assign[d] = a
				recA(d + 1)
			}
			return
		}
		var decl []hx.T
		for i := 0; i < n; i++ {
			if varyStart {
				decl = append(decl, script(alpha[assign[i]], bOK))
			} else {
				decl = append(decl, script(bOK, alpha[assign[i]]))
			}
		}
		base := int64(0)
		head := append(decl, hx.C("OStart"))
		if !varyStart {
			head = append(head, hx.C("OStop"))
			base = int64(n)
		}
		fires := []hx.T{}
		var recF func(d int)
		recF = func(d int) {
			ops := append(append([]hx.T{}, head...), fires...)
			if varyStart {
				ops = append(ops, hx.C("OStop"))
			}
			emit(ops)
			if d == L {
				return
			}
			for k := 0; k < n; k++ {
				for _, b := range []bool{true, false} {
					fires = append(fires, hx.C("OFire", base+int64(k), b))
					recF(d + 1)
					fires = fires[:len(fires)-1]
				}
			}
		}
		recF(0)
	}
	recA(0)
}

func randBeh(cfg *hx.Config, tags map[string]bool) hx.T {
	r := cfg.Rng
	switch p := r.Intn(100); {
	case p < 48:
		return bOK
	case p < 76:
		tags["later"] = true
		return bLater
	case p < 84:
		tags["sync-fail"] = true
		return bFail
	case p < 91:
		tags["double-next"] = true
		return mkBeh(false, r.Intn(4) > 0, r.Intn(3) > 0)
	case p < 94:
		tags["panic-before-next"] = true
		return mkBeh(true)
	case p < 97:
		tags["panic-after-next"] = true
		return mkBeh(true, r.Intn(5) > 0)
	default:
		tags["triple-next"] = true
		return mkBeh(false, true, r.Intn(2) == 0, true)
	}
}

func sortedTags(tags map[string]bool) []string {
	var tl []string
	for t := range tags {
		tl = append(tl, t)
	}
	sort.Strings(tl)
	return tl
}

// genRandom builds a history adaptively: it executes the real code while it chooses the
// next operation (so that completions can be aimed at modules that are actually waiting);
// the resulting op list alone determines the execution.
func genRandom(cfg *hx.Config, maxOps int) (ops []hx.T, obs []any, nontrivial bool, tags []string, err error) {
	r := cfg.Rng
	tg := map[string]bool{}
	mode := "MList"
	switch p := r.Intn(100); {
	case p < 38:
	case p < 80:
		mode = "MApp"
		ops = append(ops, hx.C("OMode", hx.C("MApp", true)))
	case p < 84:
		mode = "MApp0"
		ops = append(ops, hx.C("OMode", hx.C("MApp", false)))
	case p < 93:
		mode = "MNode"
		ops = append(ops, hx.C("OMode", "MNode"))
	default:
		mode = "MListNode"
		ops = append(ops, hx.C("OMode", "MListNode"))
	}
	tg["mode-"+mode] = true
	etcdEnv := false
	if (mode == "MApp" || mode == "MNode") && r.Intn(5) == 0 {
		// the owner's callbacks make requests themselves
		for k := 1 + r.Intn(2); k > 0; k-- {
			fwd, req := r.Intn(4) > 0, r.Intn(4) == 0
			tg[map[bool]string{true: "callback-start", false: "callback-stop"}[req]+"-in-"+map[bool]string{true: "start", false: "stop"}[fwd]] = true
			ops = append(ops, hx.C("OCallback", fwd, req))
		}
	}
	if mode == "MListNode" {
		switch p := r.Intn(100); {
		case p < 35:
			tg["env-addr-fixed"] = true
			ops = append(ops, hx.C("OEnv", "AFixed", false, false))
		case p < 60:
			tg["env-addr-busy"] = true
			ops = append(ops, hx.C("OEnv", "ABusy", false, false))
		case p < 75:
			tg["env-etcd"] = true
			etcdEnv = true
			ops = append(ops, hx.C("OEnv", []string{"AFixed", "AFree", "ABad"}[r.Intn(3)], true, true))
			if r.Intn(2) == 0 {
				f := faultNames[1+r.Intn(len(faultNames)-1)]
				tg["fault-"+f] = true
				ops = append(ops, hx.C("OFault", f))
			}
		}
	}
	if mode == "MApp" || mode == "MNode" {
		// environment of the shipped modules: mostly the self-cluster node, sometimes the
		// failure paths that are reachable offline
		switch p := r.Intn(100); {
		case p < 20:
			tg["env-addr-busy"] = true
			ops = append(ops, hx.C("OEnv", "ABusy", false, false))
		case p < 40:
			tg["env-cluster-fail"] = true
			ops = append(ops, hx.C("OEnv", "ABad", true, false))
		case p < 50:
			ops = append(ops, hx.C("OEnv", "ABad", false, false))
		case p < 80:
			// cluster mode against the etcd stand-in, with up to two failing operations
			tg["env-etcd"] = true
			etcdEnv = true
			ops = append(ops, hx.C("OEnv", []string{"AFree", "AFree", "ABusy", "ABad"}[r.Intn(4)], true, true))
			for k := r.Intn(3); k > 0; k-- {
				f := faultNames[r.Intn(len(faultNames))]
				if f == "FNew" && r.Intn(3) > 0 {
					f = "FDelete"
				}
				tg["fault-"+f] = true
				ops = append(ops, hx.C("OFault", f))
			}
		}
	}
	n := r.Intn(6)
	if r.Intn(12) == 0 {
		n = 0
	}
	if etcdEnv && n == 0 {
		n = 1
	}
	clusterAt := -1
	if etcdEnv {
		clusterAt = r.Intn(n)
	}
	wellBehaved := r.Intn(3) > 0 // two thirds of the histories keep the at-most-once hypothesis
	actor := false
	for i := 0; i < n; i++ {
		if i == clusterAt || (mode != "MList" && r.Intn(8) == 0) || (mode == "MListNode" && r.Intn(2) == 0) {
			k := []string{"KWelcome", "KCluster", "KActor"}[r.Intn(3)]
			if i == clusterAt {
				k = "KCluster"
			}
			if k == "KActor" && actor {
				k = "KWelcome"
			}
			if k == "KActor" {
				actor = true
			}
			tg["builtin-"+k] = true
			ops = append(ops, hx.C("OMod", k))
			continue
		}
		var st, sp hx.T
		if wellBehaved {
			pick := func() hx.T {
				switch p := r.Intn(100); {
				case p < 50:
					return bOK
				case p < 88:
					tg["later"] = true
					return bLater
				case p < 96:
					tg["sync-fail"] = true
					return bFail
				default:
					tg["panic-after-next"] = true
					return mkBeh(true, true)
				}
			}
			st, sp = pick(), pick()
		} else {
			st, sp = randBeh(cfg, tg), randBeh(cfg, tg)
		}
		ops = append(ops, script(st, sp))
	}
	x, err := newExecutor(ops)
	if err != nil {
		return nil, nil, false, nil, err
	}
	defer x.cleanup()
	for range ops {
		obs = append(obs, []any{})
	}
	push := func(o hx.T) {
		ops = append(ops, o)
		obs = append(obs, x.do(o))
	}
	waiting := func() []int { // captures of modules that made no synchronous call and were not fired yet
		var w []int
		for k, c := range x.caps {
			kd := x.env.mods[c.mod]
			if kd.name != "KScript" || x.fired[k] > 0 {
				continue
			}
			b := kd.st
			if !x.runFwd[c.run] {
				b = kd.sp
			}
			if len(b.calls) == 0 {
				w = append(w, k)
			}
		}
		return w
	}
	started, stopped := false, false
	for len(ops) < maxOps && !x.dead {
		w := waiting()
		p := r.Intn(100)
		switch {
		case !started && p < 85:
			started = true
			push(hx.C("OStart"))
		case stopped && (mode == "MList" || mode == "MListNode") && len(w) == 0 && p < 40:
			// a second life cycle of the same module objects
			tg["cycle-restart"] = true
			stopped = false
			push(hx.C("OStart"))
		case len(w) > 0 && p < 80:
			k := w[r.Intn(len(w))]
			if r.Intn(4) > 0 {
				k = w[len(w)-1] // usually the module the chain is waiting for
			}
			b := r.Intn(8) > 0
			if !b {
				tg["late-fail"] = true
			}
			tg["late-completion"] = true
			push(hx.C("OFire", int64(k), b))
		case p < 86 && !wellBehaved && len(x.caps) > 0:
			tg["stale-fire"] = true
			push(hx.C("OFire", int64(r.Intn(len(x.caps))), r.Intn(3) > 0))
		case p < 88 && !wellBehaved:
			tg["fire-no-capture"] = true
			push(hx.C("OFire", int64(len(x.caps)+r.Intn(3)), true))
		case p < 94:
			if stopped {
				tg["stop-again"] = true
			}
			stopped = true
			push(hx.C("OStop"))
		case p < 97:
			if started {
				tg["start-again"] = true
			}
			started = true
			push(hx.C("OStart"))
		default:
			if started && stopped && len(w) == 0 {
				return ops, obs, x.entered, mergeTags(sortedTags(tg), x.etcdTags()), nil
			}
		}
	}
	return ops, obs, x.entered, mergeTags(sortedTags(tg), x.etcdTags()), nil
}

// fixed scenarios around the shipped modules
func builtinScenarios() (out [][]hx.T, tags [][]string) {
	add := func(tg []string, ops ...hx.T) {
		out = append(out, ops)
		tags = append(tags, tg)
	}
	node := hx.C("OMode", "MNode")
	appm := hx.C("OMode", hx.C("MApp", true))
	env := func(a string, enable bool) hx.T { return hx.C("OEnv", a, enable, false) }
	w, a, c := hx.C("OMod", "KWelcome"), hx.C("OMod", "KActor"), hx.C("OMod", "KCluster")
	probe := script(bOK, bOK)
	later := script(bLater, bLater)
	start, stop := hx.C("OStart"), hx.C("OStop")
	// the launch mode of a normal node: welcome, actor system, cluster (self cluster)
	add([]string{"builtin-node-ok"}, node, env("AFree", false), w, a, c, probe, start, stop)
	add([]string{"builtin-node-ok"}, node, env("AFree", false), w, a, c, start, start, stop, stop)
	add([]string{"builtin-node-ok", "later"}, node, env("AFree", false), w, a, c, later, start, hx.C("OFire", 3, true), stop, hx.C("OFire", 4, true))
	// F5: StartMember fails (address is not host:port) - exactly one next(false), nothing after it
	add([]string{"builtin-cluster-fail"}, node, env("ABad", true), c, probe, start)
	add([]string{"builtin-cluster-fail"}, node, env("ABad", true), w, a, c, probe, start)
	add([]string{"builtin-cluster-fail"}, appm, env("ABad", true), w, c, probe, start)
	add([]string{"builtin-cluster-fail"}, env("ABad", true), c, probe, start)
	add([]string{"builtin-cluster-fail"}, env("ABad", true), probe, c, c, probe, start)
	add([]string{"builtin-cluster-fail", "later"}, node, env("ABad", true), later, c, probe, start, hx.C("OFire", 0, true))
	// the remote cannot listen: port in use
	add([]string{"builtin-actor-listen-fail"}, node, env("ABusy", false), w, a, c, probe, start)
	add([]string{"builtin-actor-listen-fail"}, node, env("ABusy", false), a, probe, start, stop)
	// no node info (the app was not started through StartNode)
	add([]string{"builtin-actor-no-info"}, appm, env("AFree", false), w, a, c, probe, start, stop)
	add([]string{"builtin-actor-no-info"}, env("AFree", false), w, a, probe, start, stop)
	// stop paths
	add([]string{"builtin-stop"}, appm, env("AFree", false), w, c, probe, start, stop, stop)
	add([]string{"builtin-stop"}, env("AFree", false), w, c, w, start, stop, stop)
	add([]string{"builtin-actor-stop-not-started"}, env("AFree", false), probe, a, probe, stop)
	add([]string{"builtin-actor-stop-twice"}, node, env("AFree", false), a, start, stop, stop)
	// outside the App guard: ClusterModule.Stop after its Start failed inside StartMember's init
	add([]string{"builtin-cluster-stop-after-failed-start"}, env("ABad", true), probe, c, start, stop, stop)
	add([]string{"builtin-node-ok", "two-actor-systems"}, node, env("AFree", false), a, a, start, stop)
	add([]string{"builtin-node-ok"}, node, env("ABad", false), w, a, c, probe, start, stop)

	// ---- cluster mode against the etcd stand-in: every step of ClusterModule.Start / Stop fails in turn
	etcd := func(a string) hx.T { return hx.C("OEnv", a, true, true) }
	fault := func(f string) hx.T { return hx.C("OFault", f) }
	add([]string{"builtin-etcd-ok"}, node, etcd("AFree"), w, a, c, probe, start, stop)
	add([]string{"builtin-etcd-ok"}, appm, etcd("AFree"), w, c, probe, start, stop, stop)
	add([]string{"builtin-etcd-ok"}, etcd("AFree"), probe, c, start, stop, stop)
	add([]string{"builtin-etcd-ok", "start-again"}, etcd("AFree"), probe, c, start, start, stop, stop)
	add([]string{"builtin-etcd-ok", "later"}, node, etcd("AFree"), later, c, later, start, hx.C("OFire", 0, true), hx.C("OFire", 2, true),
		stop, hx.C("OFire", 3, true), hx.C("OFire", 5, true))
	for _, f := range faultNames {
		tg := []string{"builtin-etcd-fault", "fault-" + f}
		add(tg, node, etcd("AFree"), fault(f), w, a, c, probe, start, stop)
		add(tg, appm, etcd("AFree"), fault(f), w, c, probe, start, stop, stop)
		// outside the App guard: Stop also after a failed Start, Start twice
		add(tg, etcd("AFree"), fault(f), probe, c, start, stop, stop)
		add(tg, etcd("AFree"), fault(f), c, probe, start, start, stop)
	}
	// several steps fail in one history
	add([]string{"builtin-etcd-fault", "fault-multi"}, node, etcd("AFree"), fault("FWatch"), fault("FKaStream"), fault("FDelete"), w, a, c, probe, start, stop)
	add([]string{"builtin-etcd-fault", "fault-multi"}, etcd("AFree"), fault("FGet"), fault("FDelete"), probe, c, start, stop, stop)
	add([]string{"builtin-etcd-fault", "fault-multi"}, etcd("AFree"), fault("FPut"), fault("FDelete"), probe, c, probe, start, stop)
	add([]string{"builtin-etcd-fault", "fault-multi"}, etcd("AFree"), fault("FGrant"), fault("FGarbage"), c, start, stop)
	add([]string{"builtin-etcd-fault", "fault-multi"}, node, etcd("AFree"), fault("FNew"), fault("FDelete"), c, probe, start, stop)
	add([]string{"builtin-etcd-fault", "fault-multi"}, appm, etcd("AFree"), fault("FKaGrant"), fault("FKaPut"), fault("FDelete"), c, probe, start, stop)
	// two cluster modules in one list, both deregistrations fail
	add([]string{"builtin-etcd-fault", "fault-FDelete", "two-clusters"}, appm, etcd("AFree"), fault("FDelete"), c, probe, c, start, stop)
	// init fails although etcd answers; Stop of the half-made provider (outside the App guard)
	add([]string{"builtin-cluster-fail", "builtin-etcd-fault"}, node, etcd("ABad"), w, a, c, probe, start, stop)
	add([]string{"builtin-cluster-stop-after-failed-start", "builtin-etcd-fault"}, etcd("ABad"), fault("FDelete"), probe, c, start, stop, stop)
	add([]string{"builtin-etcd-fault", "fault-FNew"}, etcd("ABad"), fault("FNew"), probe, c, start, stop)
	// the environment completes a shipped module's call once more (stale continuation)
	add([]string{"builtin-etcd-fault", "fault-FDelete", "stale-fire"}, etcd("AFree"), fault("FDelete"), probe, c, start, stop, hx.C("OFire", 2, true), hx.C("OFire", 1, false))
	// remote cannot listen while the cluster is up
	add([]string{"builtin-actor-listen-fail", "builtin-etcd-ok"}, node, etcd("ABusy"), w, c, a, probe, start, stop)

	// ---- second life cycles.  MListNode: the bare list on a node that has its node info, so that
	// the App guard does not stand between a failed Start and Stop, nor between Stop and a restart
	ln := hx.C("OMode", "MListNode")
	fire := func(k int64, b bool) hx.T { return hx.C("OFire", k, b) }
	add([]string{"cycle-stop-after-failed-start", "builtin-actor-listen-fail"}, ln, env("ABusy", false), w, a, start, stop)
	add([]string{"cycle-stop-after-failed-start", "builtin-actor-listen-fail"}, ln, env("ABusy", false), a, probe, start, stop, stop)
	add([]string{"cycle-stop-after-failed-start", "cycle-restart", "builtin-actor-listen-fail"}, ln, env("ABusy", false), probe, a, probe, start, stop, start, stop)
	add([]string{"cycle-restart", "listener-still-bound"}, ln, env("AFixed", false), w, a, start, stop, start, stop)
	add([]string{"cycle-restart", "listener-still-bound"}, ln, env("AFixed", false), w, a, c, probe, start, stop, start, stop, start, stop)
	add([]string{"cycle-restart", "listener-still-bound", "start-again"}, ln, env("AFixed", false), a, start, start, stop, stop)
	add([]string{"cycle-restart"}, ln, env("AFree", false), w, a, start, stop, start, stop)
	add([]string{"cycle-restart"}, ln, env("AFree", false), w, a, c, probe, start, stop, start, stop)
	add([]string{"cycle-restart", "two-actor-systems"}, ln, env("AFree", false), a, a, start, stop, start, stop)
	add([]string{"cycle-restart", "two-actor-systems", "listener-still-bound"}, ln, env("AFixed", false), a, a, start, stop)
	add([]string{"cycle-restart", "later"}, ln, env("AFixed", false), later, a, later, start, fire(0, true), fire(2, true), stop, fire(3, true), fire(5, true),
		start, fire(6, true), stop, fire(8, true))
	add([]string{"cycle-restart", "builtin-etcd-ok", "listener-still-bound"}, ln, etcd("AFixed"), w, a, c, start, stop, start, stop)
	add([]string{"cycle-restart", "builtin-etcd-fault", "fault-FDelete"}, ln, etcd("AFree"), fault("FDelete"), w, a, c, start, stop, start, stop)
	add([]string{"cycle-restart", "builtin-etcd-fault", "fault-FPut"}, ln, etcd("AFree"), fault("FPut"), w, a, c, start, stop, start, stop)
	add([]string{"cycle-restart", "builtin-cluster-stop-after-failed-start"}, ln, etcd("ABad"), w, a, c, start, stop, start, stop)
	add([]string{"cycle-restart"}, node, env("AFixed", false), w, a, c, probe, start, stop, start, stop)
	add([]string{"cycle-restart"}, appm, env("AFixed", false), w, c, probe, start, stop, start, stop)
	add([]string{"cycle-restart", "later"}, script(bLater, bOK), script(bOK, bLater), start, fire(0, true), stop, fire(2, true), start, fire(4, true), stop, fire(6, true))
	add([]string{"cycle-restart", "sync-fail"}, script(bOK, bOK), script(bFail, bOK), probe, start, stop, start, stop)
	add([]string{"builtin-actor-no-info"}, ln, env("AFree", false), start, stop)

	// ---- requests made from inside the completion callbacks
	cb := func(fwd, req bool) hx.T { return hx.C("OCallback", fwd, req) }
	for _, m := range []hx.T{appm, node} {
		// Stop from the start callback: every module synchronous - the callback runs under the list lock
		add([]string{"callback-stop-in-start", "callback-under-lock"}, m, cb(true, false), probe, probe, start, stop)
		add([]string{"callback-stop-in-start", "callback-under-lock"}, m, cb(true, false), start, stop)
		// ... with a module that completes later the callback runs outside the lock: the stop run runs right there
		add([]string{"callback-stop-in-start", "later"}, m, cb(true, false), probe, later, start, fire(1, true), stop)
		add([]string{"callback-stop-in-start", "later"}, m, cb(true, false), later, probe, start, fire(0, true), stop)
		add([]string{"callback-stop-in-start", "later"}, m, cb(true, false), later, later, start, fire(0, true), fire(1, true), fire(2, true), fire(3, true), stop)
		add([]string{"callback-stop-in-start", "later", "late-fail"}, m, cb(true, false), probe, later, start, fire(1, false), stop)
		add([]string{"callback-stop-in-start", "later", "double-next"}, m, cb(true, false), later, script(bTwice, bOK), start, fire(0, true), stop)
		add([]string{"callback-stop-in-start", "later", "panic-after-next"}, m, cb(true, false), later, script(mkBeh(true, true), bOK), probe, start, fire(0, true))
		add([]string{"callback-stop-in-start", "later", "stale-fire"}, m, cb(true, false), probe, later, start, fire(1, true), fire(1, true), fire(1, false))
		// the requests that must be refused: Start from the start callback, anything from the stop callback
		add([]string{"callback-start-in-start", "callback-under-lock"}, m, cb(true, true), probe, probe, start, stop)
		add([]string{"callback-start-in-start", "later"}, m, cb(true, true), probe, later, start, fire(1, true), stop)
		add([]string{"callback-start-in-stop", "callback-under-lock"}, m, cb(false, true), probe, probe, start, stop, start)
		add([]string{"callback-stop-in-stop", "later"}, m, cb(false, false), later, probe, start, fire(0, true), stop, fire(3, true), stop)
		add([]string{"callback-stop-in-start", "callback-start-in-stop", "later"}, m, cb(true, false), cb(false, true), probe, later, start, fire(1, true), start, stop)
	}
	add([]string{"callback-stop-in-start", "later", "builtin-node-ok"}, node, env("AFree", false), cb(true, false), w, a, c, later, start, fire(3, true), stop)
	add([]string{"callback-stop-in-start", "later", "builtin-etcd-fault", "fault-FDelete"}, node, etcd("AFree"), fault("FDelete"), cb(true, false), w, a, c, later, start, fire(3, true))
	add([]string{"callback-stop-in-start", "callback-under-lock", "builtin-node-ok"}, node, env("AFree", false), cb(true, false), w, a, c, start)
	add([]string{"callback-stop-in-start"}, hx.C("OMode", hx.C("MApp", false)), cb(true, false), probe, start, stop)
	add([]string{"callback-ignored-bare-list"}, cb(true, false), cb(false, true), probe, later, start, fire(1, true), stop)
	return
}

func Run(cfg *hx.Config) error {
	if err := setup(cfg.Scratch); err != nil {
		return err
	}
	// the shipped modules and protoactor print to stdout
	realStdout := os.Stdout
	if devnull, err := os.OpenFile(os.DevNull, os.O_WRONLY, 0); err == nil {
		os.Stdout = devnull
		defer func() { os.Stdout = realStdout }()
	}
	emit := func(kind string, ops []hx.T, tags []string) error {
		obs, nt, etags, err := Exec(ops)
		if err != nil {
			return err
		}
		cfg.Emit(hx.Case{Kind: kind, Ops: ops, Obs: obs, Nontrivial: nt, Tags: mergeTags(tags, etags)})
		return nil
	}
	if cfg.In != "" {
		cs, err := hx.ReadCases(cfg.In)
		if err != nil {
			return err
		}
		for _, c := range cs {
			if err := emit("replay", hx.Terms(c.Ops), c.Tags); err != nil {
				return err
			}
		}
		return nil
	}
	var ferr error
	collect := func(kind string) func([]hx.T) {
		return func(ops []hx.T) {
			if err := emit(kind, ops, nil); err != nil && ferr == nil {
				ferr = err
			}
		}
	}
	maxN, L := 2, 2
	if cfg.Tier == "thorough" {
		maxN, L = 3, 3
	}
	for n := 0; n <= maxN; n++ {
		enumerate(n, L, true, collect(fmt.Sprintf("exhaustive-start-%d", n)))
		enumerate(n, L, false, collect(fmt.Sprintf("exhaustive-stop-%d", n)))
	}
	if ferr != nil {
		return ferr
	}
	rounds := 1
	if cfg.Tier == "thorough" {
		rounds = 3
	}
	for i := 0; i < rounds; i++ {
		sc, tg := builtinScenarios()
		for j, ops := range sc {
			if err := emit("builtin", ops, tg[j]); err != nil {
				return err
			}
		}
	}
	for i := 0; i < cfg.N; i++ {
		maxOps := 14
		if i%5 == 4 {
			maxOps = 40
		}
		ops, obs, nt, tags, err := genRandom(cfg, maxOps)
		if err != nil {
			return err
		}
		cfg.Emit(hx.Case{Kind: "random", Ops: ops, Obs: obs, Nontrivial: nt, Tags: tags})
	}
	return nil
}
