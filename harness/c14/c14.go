// Package c14 drives the real utils/timer.Mgr.  The harness goroutine running a case IS the
// owner of that case's Mgr: it creates and cancels timers, receives expiries from
// Mgr.GetQueue() and calls Mgr.Do.  Timers use real millisecond durations; no hooks.
//
// What makes an execution a function of the op list although real time is involved:
//   - the queue channel is only read inside Settle, and Settle returns only when every armed,
//     non-cancelled timer has delivered its expiry (so "Do k" never depends on how fast a
//     timer fired);
//   - expiries of timers the owner has already cancelled are kept and passed to Mgr.Do like
//     any other, but are not listed in the observation (a Cancel issued "while armed" may
//     physically race with the expiry; the property only fixes that no callback follows);
//   - Stop first settles, so no expiry is in flight when the flag flips.
package c14

import (
	"bytes"
	"runtime"
	"sort"
	"strconv"
	"time"

	"github.com/dfklegend/cell2/utils/timer"

	"verifh/hx"
)

const (
	unit          = time.Millisecond
	settleTimeout = 1500 * time.Millisecond
	pollSleep     = 150 * time.Microsecond
)

type cbRec struct {
	k, n                                 int64
	argsOK, early, afterCancel, onOwner bool
}

type tinfo struct {
	id        timer.IdType
	d         int64
	rep       bool
	arg       int64
	prog      []any
	armAt     time.Time // taken before the (re-)arming call: real deadline >= armAt + d
	cancelled bool      // the owner has called Cancel(id) after creation
	expect    bool      // armed, an expiry will be delivered
	recv      []*timer.Obj
	count     int64
}

func (t *tinfo) repeating() bool { return t.rep && t.d > 0 }

type world struct {
	mgr     *timer.Mgr
	ts      []*tinfo
	byID    map[timer.IdType]int
	stopped bool
	gid     uint64
	inCb    int
	ran     []cbRec
	tags    map[string]bool
	nontriv bool
}

func goid() uint64 {
	var buf [64]byte
	b := buf[:runtime.Stack(buf[:], false)]
	b = bytes.TrimPrefix(b, []byte("goroutine "))
	if i := bytes.IndexByte(b, ' '); i > 0 {
		n, _ := strconv.ParseUint(string(b[:i]), 10, 64)
		return n
	}
	return 0
}

const argMark = "c14-args"

func (w *world) create(d int64, rep bool, arg int64, prog []any) {
	k := len(w.ts)
	ti := &tinfo{d: d, rep: rep, arg: arg, prog: prog, expect: !w.stopped}
	w.ts = append(w.ts, ti)
	cb := func(args ...interface{}) { w.callback(k, args) }
	ti.armAt = time.Now()
	if rep {
		ti.id = w.mgr.AddTimer(time.Duration(d)*unit, cb, arg, argMark, int64(k))
	} else {
		ti.id = w.mgr.After(time.Duration(d)*unit, cb, arg, argMark, int64(k))
	}
	w.byID[ti.id] = k
	if w.inCb >= 0 {
		w.tags["create-in-cb"] = true
	}
	if d == 0 {
		w.tags["dur-0"] = true
	}
}

func (w *world) cancel(k int64) {
	if k < 0 || k >= int64(len(w.ts)) {
		w.tags["cancel-unknown-id"] = true
		w.mgr.Cancel(timer.IdType(1<<40 + uint64(k&0xffff)))
		return
	}
	ti := w.ts[k]
	switch {
	case ti.cancelled:
		w.tags["cancel-twice"] = true
	case w.inCb == int(k):
		w.tags["cancel-in-own-cb"] = true
		w.nontriv = true
	case len(ti.recv) > 0:
		w.tags["cancel-queued"] = true
		w.nontriv = true
	case ti.expect:
		w.tags["cancel-armed"] = true
		w.nontriv = true
	default:
		w.tags["cancel-after-done"] = true
	}
	if w.inCb >= 0 && w.inCb != int(k) {
		w.tags["cancel-from-other-cb"] = true
	}
	w.mgr.Cancel(ti.id)
	ti.cancelled = true
	ti.expect = false
}

func (w *world) callback(k int, args []interface{}) {
	now := time.Now()
	ti := w.ts[k]
	ti.count++
	ok := len(args) == 3
	if ok {
		a0, o0 := args[0].(int64)
		a1, o1 := args[1].(string)
		a2, o2 := args[2].(int64)
		ok = o0 && o1 && o2 && a0 == ti.arg && a1 == argMark && a2 == int64(k)
	}
	w.ran = append(w.ran, cbRec{
		k: int64(k), n: ti.count, argsOK: ok,
		early:       now.Before(ti.armAt.Add(time.Duration(ti.d) * unit)),
		afterCancel: ti.cancelled,
		onOwner:     goid() == w.gid,
	})
	w.nontriv = true
	if ti.count > 1 {
		w.tags["repeat-fired-again"] = true
	}
	prev := w.inCb
	w.inCb = k
	defer func() {
		w.inCb = prev
		ti.armAt = time.Now() // Do re-arms after this point
	}()
	for _, a := range ti.prog {
		t := hx.AsTerm(a)
		switch t.Name {
		case "ACancelSelf":
			w.cancel(int64(k))
		case "ACancel":
			w.cancel(t.Int(0))
		case "ACreate":
			w.create(t.Int(0), t.Bool(1), t.Int(2), t.List(3))
		case "APanic":
			w.tags["cb-panic"] = true
			panic("c14: callback panic")
		default:
			panic("c14: unknown act " + t.Name)
		}
	}
}

// doObj passes one received expiry to the real Mgr.Do and updates the arming shadow.
func (w *world) doObj(k int, o *timer.Obj) {
	ti := w.ts[k]
	before := ti.count
	w.mgr.Do(o)
	if ti.count > before && ti.repeating() && !ti.cancelled && !w.stopped {
		ti.expect = true
	}
}

func (w *world) doTimer(k int) {
	ti := w.ts[k]
	objs := ti.recv
	ti.recv = nil
	if len(objs) > 0 && ti.cancelled {
		w.tags["do-cancelled-expiry"] = true
	}
	for _, o := range objs {
		w.doObj(k, o)
	}
}

func (w *world) drain(got *[]int64) {
	q := w.mgr.GetQueue()
	for len(q) > 0 {
		select {
		case o := <-q:
			k, ok := w.byID[o.TimerId]
			if !ok {
				*got = append(*got, -1000000)
				continue
			}
			ti := w.ts[k]
			ti.recv = append(ti.recv, o)
			ti.expect = false
			if !ti.cancelled {
				*got = append(*got, int64(k))
			}
		default:
			return
		}
	}
}

// settle polls the queue length until every armed timer has delivered, then g more ms.
func (w *world) settle(g int64) []int64 {
	got := []int64{}
	limit := time.Now().Add(settleTimeout)
	for {
		w.drain(&got)
		waiting := false
		for _, ti := range w.ts {
			if ti.expect {
				waiting = true
				break
			}
		}
		if !waiting {
			break
		}
		if time.Now().After(limit) {
			for k, ti := range w.ts {
				if ti.expect {
					got = append(got, -int64(k)-1) // expiry never arrived
					ti.expect = false
				}
			}
			break
		}
		time.Sleep(pollSleep)
	}
	if g > 0 {
		time.Sleep(time.Duration(g) * unit)
		w.drain(&got)
	}
	sort.Slice(got, func(i, j int) bool { return got[i] < got[j] })
	return got
}

func recsTerm(rs []cbRec) hx.T {
	l := []any{}
	for _, r := range rs {
		l = append(l, hx.C("CbRec", r.k, r.n, r.argsOK, r.early, r.afterCancel, r.onOwner))
	}
	return hx.C("BRan", l)
}

// Exec runs one op list against a fresh real Mgr on the calling goroutine (the owner).
func Exec(ops []hx.T) (obs []any, nontrivial bool, tags []string) {
	w := &world{mgr: timer.NewTimerMgr(), byID: map[timer.IdType]int{}, gid: goid(), inCb: -1,
		tags: map[string]bool{}}
	for _, o := range ops {
		switch o.Name {
		case "OCreate":
			w.create(o.Int(0), o.Bool(1), o.Int(2), o.List(3))
			obs = append(obs, "BUnit")
		case "OCreateN":
			for i := int64(0); i < o.Int(0); i++ {
				w.create(o.Int(1), o.Bool(2), o.Int(3), nil)
			}
			w.tags["create-n"] = true
			obs = append(obs, "BUnit")
		case "OStall":
			// the owner is busy elsewhere: nothing is read from the queue for this long
			time.Sleep(time.Duration(o.Int(0)) * unit)
			q := w.mgr.GetQueue()
			if len(q) == cap(q) {
				w.tags["queue-full-during-stall"] = true
				w.nontriv = true
			}
			if o.Int(0) >= 1000 {
				w.tags["stall>=1s"] = true
			}
			obs = append(obs, "BUnit")
		case "OCancel":
			w.cancel(o.Int(0))
			obs = append(obs, "BUnit")
		case "OStop":
			got := w.settle(0)
			w.mgr.Stop()
			w.stopped = true
			w.tags["stop"] = true
			obs = append(obs, hx.C("BQueued", got))
		case "OSettle":
			obs = append(obs, hx.C("BQueued", w.settle(o.Int(0))))
		case "ODo":
			w.ran = nil
			if k := o.Int(0); k >= 0 && k < int64(len(w.ts)) {
				w.doTimer(int(k))
			}
			obs = append(obs, recsTerm(w.ran))
		case "ODoAll":
			w.ran = nil
			n := len(w.ts) // timers created by callbacks during this op have nothing received
			for k := 0; k < n; k++ {
				w.doTimer(k)
			}
			obs = append(obs, recsTerm(w.ran))
		default:
			panic("c14: unknown op " + o.Name)
		}
	}
	for t := range w.tags {
		tags = append(tags, t)
	}
	sort.Strings(tags)
	return obs, w.nontriv, tags
}
