// Package c14 drives the real utils/timer.Mgr.  Two worlds:
//   - bare (this file): the harness goroutine running a case IS the owner of that case's
//     timer.NewTimerMgr(): it creates and cancels timers, receives expiries from Mgr.GetQueue()
//     and calls Mgr.Do;
//   - service (svc.go, cases whose first op is OSvc): the manager is the TimerMgr of a real
//     runservice.StandardRunService, its owner is the service's loop goroutine with its whole
//     life cycle (created, started, busy, stopped by itself or by a foreign goroutine, ended).
//
// Timers use real millisecond durations; no hooks.
//
// Bare world.
// What makes an execution a function of the op list although real time is involved:
//   - the queue channel is only read inside Settle, and Settle returns only when every armed,
//     non-cancelled timer has delivered its expiry (so "Do k" never depends on how fast a
//     timer fired);
//   - expiries of timers the owner has already cancelled are kept and passed to Mgr.Do like
//     any other, but are not listed in the observation (a Cancel issued "while armed" may
//     physically race with the expiry; the property only fixes that no callback follows);
//   - Stop first settles, so no expiry is in flight when the flag flips.
package c14

import (
	"bytes"
	"math"
	"runtime"
	"sort"
	"strconv"
	"sync"
	"time"

	"github.com/dfklegend/cell2/utils/runservice"
	"github.com/dfklegend/cell2/utils/timer"

	"verifh/hx"
)

const (
	unit          = time.Millisecond
	settleTimeout = 1500 * time.Millisecond
	pollSleep     = 150 * time.Microsecond
)

type cbRec struct {
	k, n                                int64
	argsOK, early, afterCancel, onOwner bool
}

type tinfo struct {
	id        timer.IdType
	d         int64         // the number of the op (ms, or ns for OCreateNs)
	dur       time.Duration // the duration passed to After / AddTimer
	far       bool          // d >= farD: does not expire within a case (never waited for)
	rep       bool
	arg       int64
	prog      []any
	armAt     time.Time // taken before the (re-)arming call: real deadline >= armAt + d
	cancelled bool      // the owner has called Cancel(id) after creation
	expect    bool      // armed, an expiry will be delivered
	queued    bool      // service world: its expiry is (as far as the driver knows) in the queue
	recv      []*timer.Obj
	count     int64
}

func (t *tinfo) repeating() bool { return t.rep && t.d > 0 }

// farD mirrors Model.far: a timer asked for this much or more (of ms or of ns) is "never" on the
// time scale of a case.  Nothing is waited for; an expiry that turns up anyway is reported by the
// next Settle / Wait like any other and is then one the model does not have.
const farD = 1000000000000

type world struct {
	mgr     *timer.Mgr
	ts      []*tinfo
	byID    map[timer.IdType]int
	stopped bool   // Mgr.Stop() has been called
	gid     uint64 // the driver goroutine (bare world: the owner)
	inCb    int
	ran     []cbRec // callbacks since the last op that reports them (guarded by mu)
	tags    map[string]bool
	nontriv bool
	mu      sync.Mutex

	// service world (svc.go)
	svcMode   bool
	name      string
	svc       *runservice.StandardRunService
	decoy     *runservice.StandardRunService
	life      int32  // lifeNew .. lifeEnd (atomic)
	loopGid   uint64 // the loop goroutine, once seen (mu)
	decoyGid  uint64 // the decoy service's loop goroutine (mu)
	decoyRuns int64
	ctl       *controller // the task the loop is parked in (nil: not parked)
	inq       map[int]int // queue entries per timer already reported by a wait
	inStop    bool
	shared    map[int64][]interface{} // argument lists shared by the timers of one (odd) argument value
	cut       bool                    // the last release was cut short (svc.go: runLoop)
	closing   bool
}

func goid() uint64 {
	var buf [64]byte
	b := buf[:runtime.Stack(buf[:], false)]
	b = bytes.TrimPrefix(b, []byte("goroutine "))
	if i := bytes.IndexByte(b, ' '); i > 0 {
		n, _ := strconv.ParseUint(string(b[:i]), 10, 64)
		return n
	}
	return 0
}

const argMark = "c14-args"

func (w *world) create(d int64, rep bool, arg int64, prog []any) {
	w.createDur(d, unit, rep, arg, prog)
}

// createDur: the duration is d times u (u = 1 ns for OCreateNs)
func (w *world) createDur(d int64, u time.Duration, rep bool, arg int64, prog []any) {
	k := len(w.ts)
	ti := &tinfo{d: d, rep: rep, arg: arg, prog: prog, far: d >= farD}
	ti.dur = time.Duration(d) * u
	if ti.far && u != 1 {
		ti.dur = time.Duration(math.MaxInt64) // (d ms would not fit a Duration)
	}
	ti.expect = !w.stopped && !ti.far
	w.ts = append(w.ts, ti)
	cb := func(args ...interface{}) { w.callback(k, args) }
	ti.armAt = time.Now()
	// Timers whose argument value is odd are created from ONE list per value, spread into the variadic
	// parameter (Go passes that slice without copying): the arguments of a timer must survive whatever
	// happens to its siblings - cancel, firing, removal (seed C14-11).  Even values: a fresh list each.
	lst := []interface{}{arg, argMark, int64(k)}
	if arg%2 != 0 {
		if w.shared == nil {
			w.shared = map[int64][]interface{}{}
		}
		if w.shared[arg] == nil {
			w.shared[arg] = []interface{}{arg, argMark, int64(-1)}
		} else {
			w.tag("args-list-shared")
		}
		lst = w.shared[arg]
	}
	if rep {
		ti.id = w.mgr.AddTimer(ti.dur, cb, lst...)
	} else {
		ti.id = w.mgr.After(ti.dur, cb, lst...)
	}
	if u == 1 {
		switch {
		case ti.far:
			w.tag("dur-never")
		case d < 0:
			w.tag("dur-negative")
		case d > 0 && d < int64(time.Millisecond):
			w.tag("dur-sub-ms")
		}
	}
	w.byID[ti.id] = k
	if w.inCb >= 0 {
		w.tag("create-in-cb")
		if w.svcMode && w.getLife() == lifeDown {
			w.tag("create-in-cb-during-teardown")
		}
	}
	if d == 0 {
		w.tag("dur-0")
	}
	if w.svcMode {
		switch w.getLife() {
		case lifeNew:
			w.tag("create-before-start")
		case lifeDown:
			w.tag("create-after-stop")
		case lifeEnd:
			w.tag("create-after-loop-end")
		}
	}
}

func (w *world) cancel(k int64) {
	if k < 0 || k >= int64(len(w.ts)) {
		w.tag("cancel-unknown-id")
		w.mgr.Cancel(timer.IdType(1<<40 + uint64(k&0xffff)))
		return
	}
	ti := w.ts[k]
	switch {
	case ti.cancelled:
		w.tag("cancel-twice")
	case w.inCb == int(k):
		w.tag("cancel-in-own-cb")
		w.nontriv = true
	case len(ti.recv) > 0 || ti.queued:
		w.tag("cancel-queued")
		w.nontriv = true
	case ti.far && ti.count == 0:
		w.tag("cancel-never-timer")
		w.nontriv = true
	case ti.expect:
		w.tag("cancel-armed")
		w.nontriv = true
	default:
		w.tag("cancel-after-done")
	}
	if w.inCb >= 0 && w.inCb != int(k) {
		w.tag("cancel-from-other-cb")
	}
	if w.svcMode && w.getLife() != lifeUp {
		w.tag("cancel-outside-up")
	}
	w.mgr.Cancel(ti.id)
	ti.cancelled = true
	ti.expect = false
}

func (w *world) callback(k int, args []interface{}) {
	now := time.Now()
	ti := w.ts[k]
	ti.count++
	ok := len(args) == 3
	if ok {
		a0, o0 := args[0].(int64)
		a1, o1 := args[1].(string)
		a2, o2 := args[2].(int64)
		want := int64(k)
		if ti.arg%2 != 0 {
			want = -1 // created from the shared list of its argument value
		}
		ok = o0 && o1 && o2 && a0 == ti.arg && a1 == argMark && a2 == want
	}
	rec := cbRec{
		k: int64(k), n: ti.count, argsOK: ok,
		early:       ti.far || now.Before(ti.armAt.Add(ti.dur)),
		afterCancel: ti.cancelled,
		onOwner:     w.onOwner(),
	}
	w.mu.Lock()
	w.ran = append(w.ran, rec)
	w.mu.Unlock()
	w.nontriv = true
	ti.queued = false
	if w.svcMode {
		ti.expect = false // delivered (possibly while the loop was running: never seen in the queue)
		if w.inq[k] > 0 {
			w.inq[k]-- // the entry a wait has reported is the one the loop has just taken
		}
	}
	if ti.count > 1 {
		w.tag("repeat-fired-again")
	}
	if w.svcMode {
		switch {
		case !rec.onOwner:
			w.tag("callback-off-owner")
		case w.getLife() == lifeDown:
			w.tag("callback-during-teardown")
		}
	}
	prev := w.inCb
	w.inCb = k
	defer func() {
		w.inCb = prev
		ti.armAt = time.Now() // Do re-arms after this point
		if w.svcMode && ti.repeating() && !ti.cancelled && !w.stopped && !ti.far {
			ti.expect = true // (bare world: doObj)
		}
	}()
	for _, a := range ti.prog {
		t := hx.AsTerm(a)
		switch t.Name {
		case "ACancelSelf":
			w.cancel(int64(k))
		case "ACancel":
			w.cancel(t.Int(0))
		case "ACreate":
			w.create(t.Int(0), t.Bool(1), t.Int(2), t.List(3))
		case "AStop":
			w.tag("stop-in-callback")
			w.stopHere()
		case "APanic":
			w.tag("cb-panic")
			panic("c14: callback panic")
		default:
			panic("c14: unknown act " + t.Name)
		}
	}
}

// doObj passes one received expiry to the real Mgr.Do and updates the arming shadow.
func (w *world) doObj(k int, o *timer.Obj) {
	ti := w.ts[k]
	before := ti.count
	w.mgr.Do(o)
	if ti.count > before && ti.repeating() && !ti.cancelled && !w.stopped && !ti.far {
		ti.expect = true
	}
}

func (w *world) doTimer(k int) {
	ti := w.ts[k]
	objs := ti.recv
	ti.recv = nil
	if len(objs) > 0 && ti.cancelled {
		w.tag("do-cancelled-expiry")
	}
	for _, o := range objs {
		w.doObj(k, o)
	}
}

func (w *world) drain(got *[]int64) {
	q := w.mgr.GetQueue()
	for len(q) > 0 {
		select {
		case o := <-q:
			k, ok := w.byID[o.TimerId]
			if !ok {
				*got = append(*got, -1000000)
				continue
			}
			ti := w.ts[k]
			ti.recv = append(ti.recv, o)
			ti.expect = false
			if !ti.cancelled {
				*got = append(*got, int64(k))
			}
		default:
			return
		}
	}
}

// settle polls the queue length until every armed timer has delivered, then g more ms.
func (w *world) settle(g int64) []int64 {
	got := []int64{}
	limit := time.Now().Add(settleTimeout)
	for {
		w.drain(&got)
		waiting := false
		for _, ti := range w.ts {
			if ti.expect {
				waiting = true
				break
			}
		}
		if !waiting {
			break
		}
		if time.Now().After(limit) {
			for k, ti := range w.ts {
				if ti.expect {
					got = append(got, -int64(k)-1) // expiry never arrived
					ti.expect = false
				}
			}
			break
		}
		time.Sleep(pollSleep)
	}
	if g > 0 {
		time.Sleep(time.Duration(g) * unit)
		w.drain(&got)
	}
	sort.Slice(got, func(i, j int) bool { return got[i] < got[j] })
	return got
}

func recsTerm(rs []cbRec) hx.T {
	l := []any{}
	for _, r := range rs {
		l = append(l, hx.C("CbRec", r.k, r.n, r.argsOK, r.early, r.afterCancel, r.onOwner))
	}
	return hx.C("BRan", l)
}

// ranTerm: the callbacks of a release (BRanCut: the release was cut short)
func (w *world) ranTerm() hx.T {
	t := recsTerm(w.takeRan())
	if w.cut {
		t.Name = "BRanCut"
	}
	return t
}

func waitTerm(got []int64, rs []cbRec) hx.T {
	return hx.C("BWait", got, recsTerm(rs).Args[0])
}

// Exec runs one op list against a fresh real Mgr.  Bare world: on the calling goroutine (the
// owner).  Service world (first op OSvc): the calling goroutine is the driver, the owner is the
// loop of the case's StandardRunService.
func Exec(ops []hx.T) (obs []any, nontrivial bool, tags []string) {
	w := &world{byID: map[timer.IdType]int{}, gid: goid(), inCb: -1, tags: map[string]bool{}, life: lifeUp,
		inq: map[int]int{}}
	if len(ops) > 0 && ops[0].Name == "OSvc" {
		w.newService()
	} else {
		w.mgr = timer.NewTimerMgr()
	}
	defer w.shutdown()
	wrong := func(o hx.T) {
		w.tag("op-in-the-wrong-world")
		obs = append(obs, "BUnit")
	}
	for i, o := range ops {
		switch o.Name {
		case "OSvc":
			if i > 0 {
				w.tag("svc-marker-not-first")
			}
			obs = append(obs, "BUnit")
		case "OCreate":
			w.perform(func() { w.create(o.Int(0), o.Bool(1), o.Int(2), o.List(3)) })
			obs = append(obs, "BUnit")
		case "OCreateNs":
			w.perform(func() { w.createDur(o.Int(0), 1, o.Bool(1), o.Int(2), o.List(3)) })
			obs = append(obs, "BUnit")
		case "OCreateN":
			w.perform(func() {
				for i := int64(0); i < o.Int(0); i++ {
					w.create(o.Int(1), o.Bool(2), o.Int(3), nil)
				}
			})
			w.tag("create-n")
			obs = append(obs, "BUnit")
		case "OStall":
			// the owner is busy elsewhere: nothing is read from the queue for this long
			time.Sleep(time.Duration(o.Int(0)) * unit)
			q := w.mgr.GetQueue()
			if len(q) == cap(q) {
				w.tag("queue-full-during-stall")
				w.nontriv = true
			}
			if o.Int(0) >= 1000 {
				w.tag("stall>=1s")
			}
			obs = append(obs, "BUnit")
		case "OCancel":
			w.perform(func() { w.cancel(o.Int(0)) })
			obs = append(obs, "BUnit")
		case "OStop":
			if w.svcMode {
				wrong(o)
				continue
			}
			got := w.settle(0)
			w.mgr.Stop()
			w.markStopped()
			obs = append(obs, hx.C("BQueued", got))
		case "OSettle":
			if w.svcMode {
				wrong(o)
				continue
			}
			obs = append(obs, hx.C("BQueued", w.settle(o.Int(0))))
		case "ODo":
			if w.svcMode {
				wrong(o)
				continue
			}
			w.takeRan()
			if k := o.Int(0); k >= 0 && k < int64(len(w.ts)) {
				w.doTimer(int(k))
			}
			obs = append(obs, recsTerm(w.takeRan()))
		case "ODoAll":
			if w.svcMode {
				wrong(o)
				continue
			}
			w.takeRan()
			n := len(w.ts) // timers created by callbacks during this op have nothing received
			for k := 0; k < n; k++ {
				w.doTimer(k)
			}
			obs = append(obs, recsTerm(w.takeRan()))
		case "OWait":
			if !w.svcMode {
				wrong(o)
				continue
			}
			n := w.waitArrivals(o.Int(0))
			obs = append(obs, waitTerm(n, w.takeRan()))
		case "OStart":
			if !w.svcMode {
				wrong(o)
				continue
			}
			w.cut = false
			w.svcStart()
			obs = append(obs, w.ranTerm())
		case "ORun":
			if !w.svcMode {
				wrong(o)
				continue
			}
			w.cut = false
			if w.alive() {
				if w.getLife() == lifeDown {
					w.tag("run-during-teardown")
				}
				w.runLoop()
			} else {
				w.tag("run-ignored")
			}
			obs = append(obs, w.ranTerm())
		case "OStopSvc":
			if !w.svcMode {
				wrong(o)
				continue
			}
			n := w.waitArrivals(0)
			w.svcStop(o.Int(0))
			obs = append(obs, waitTerm(n, w.takeRan()))
		default:
			panic("c14: unknown op " + o.Name)
		}
	}
	w.mu.Lock()
	for t := range w.tags {
		tags = append(tags, t)
	}
	w.mu.Unlock()
	sort.Strings(tags)
	return obs, w.nontriv, tags
}
