package c14

import (
	"fmt"
	"io"
	"log"
	"math"
	"math/rand"
	"sort"
	"sync"
	"time"

	"github.com/sirupsen/logrus"

	"github.com/dfklegend/cell2/utils/logger"
	"github.com/dfklegend/cell2/utils/runservice"

	"verifh/hx"
)

func create(d int64, rep bool, a int64, prog ...any) hx.T {
	return hx.C("OCreate", d, rep, a, append([]any{}, prog...))
}
func cancel(k int64) hx.T { return hx.C("OCancel", k) }
func settle(g int64) hx.T { return hx.C("OSettle", g) }
func do(k int64) hx.T     { return hx.C("ODo", k) }

var doAll = hx.T{Name: "ODoAll"}
var stop = hx.T{Name: "OStop"}

// two more rounds of expiry + Do, then a grace period in which nothing may arrive
func tail() []hx.T { return []hx.T{settle(0), doAll, settle(0), doAll, settle(6)} }

type job struct {
	kind string
	ops  []hx.T
	tags []string
}

func createN(n, d int64, rep bool, a int64) hx.T { return hx.C("OCreateN", n, d, rep, a) }
func stall(ms int64) hx.T                        { return hx.C("OStall", ms) }

// ---- at and beyond the capacity (999) of Mgr.queue: more expiries pending than the channel
// holds while the owner does not read it for stallMs; afterwards the owner drains everything,
// and later expiries too.  Every timer must still fire: one-shots once, repeating ones again
// and again (the AfterFunc goroutines blocked on the full channel deliver as slots free up).
func capacity(tier string) []job {
	mk := func(name string, stallMs int64, pre []hx.T) job {
		ops := append(pre, stall(stallMs), settle(0), doAll, settle(0), doAll, settle(0), doAll, settle(8))
		return job{"capacity", ops, []string{"cap-" + name}}
	}
	out := []job{
		// the queue is exactly full, then a one-shot and a repeating timer expire
		mk("999+2", 1400, []hx.T{createN(999, 0, false, 7), stall(40),
			create(1, false, 8), create(3, true, 9, "APanic")}),
		// 1100 short timers (one-shots and repeating ones) created in a loop
		mk("1100-mixed", 1300, []hx.T{createN(700, 1, false, 7), createN(150, 2, true, 9),
			createN(250, 0, false, 6), create(1, true, 5, hx.C("ACreate", 1, false, 4, []any{}))}),
	}
	if tier == "thorough" {
		for _, n := range []int64{998, 999, 1000, 1001, 1500} {
			out = append(out, mk(fmt.Sprintf("%d-oneshot", n), 2500, []hx.T{createN(n, 1, false, 7)}))
			out = append(out, mk(fmt.Sprintf("%d-repeating", n), 1600, []hx.T{createN(n, 2, true, 9)}))
		}
		out = append(out, mk("1100-cancel-some", 3500, []hx.T{createN(1100, 1, true, 7), stall(30),
			cancel(0), cancel(500), cancel(1099)}))
	}
	return out
}

// ---- the extremes of the duration dimension (nanoseconds, any int64), one-shot and repeating:
// what is due fires - never early, the repeating ones again and again (one firing per round: the
// owner is the harness) -, what is "never" (100 years .. math.MaxInt64) stays armed through real
// waits, delivers nothing, and can be cancelled; a bystander keeps firing.
func createNs(ns int64, rep bool, a int64, prog ...any) hx.T {
	return hx.C("OCreateNs", ns, rep, a, append([]any{}, prog...))
}

func extremes() []job {
	const ms = int64(time.Millisecond)
	const max = int64(math.MaxInt64)
	durs := []struct {
		name string
		ns   int64
	}{
		{"0", 0}, {"-1ns", -1}, {"-5ms", -5 * ms}, {"minInt64", math.MinInt64}, {"1ns", 1}, {"999999ns", ms - 1}, {"1ms", ms},
		{"1ms+1ns", ms + 1}, {"2.5ms", 2*ms + ms/2}, {"1000s-1ns", farD - 1}, {"1000s", farD}, {"100years", 100 * 365 * 24 * 3600 * 1000 * ms},
		{"max-1ms", max - ms}, {"max-1ms+1ns", max - ms + 1}, {"max-999999ns", max - (ms - 1)},
		{"max-999998ns", max - (ms - 2)}, {"max-1ns", max - 1}, {"max", max},
	}
	var out []job
	for _, d := range durs {
		if d.ns == farD-1 {
			continue // 1000 s less 1 ns would be waited for
		}
		for _, rep := range []bool{false, true} {
			for _, pan := range []bool{false, true} {
				var prog []any
				if pan {
					prog = []any{"APanic"}
				}
				name := fmt.Sprintf("ns=%s,rep=%v,panic=%v", d.name, rep, pan)
				add := func(sc string, ops ...hx.T) {
					out = append(out, job{"extreme", ops, []string{"ex-" + sc, name}})
				}
				tm := createNs(d.ns, rep, 7, prog...)
				by := create(2, true, 9)
				add("rounds", tm, by, settle(0), doAll, settle(0), doAll, settle(3), doAll, settle(6))
				add("wait-then-cancel", tm, by, settle(3), doAll, stall(5), settle(0), cancel(0), doAll, settle(0), doAll, settle(6))
				add("cancel-at-once", tm, cancel(0), by, settle(2), doAll, settle(6))
				add("created-late", create(1, false, 8, hx.C("ACancel", 5)), by, settle(0), doAll,
					create(1, false, 6, hx.C("ACancel", 0)), tm, settle(0), doAll, settle(6))
				add("stop", tm, by, settle(2), stop, doAll, settle(6))
			}
		}
	}
	return out
}

// ---- exhaustive small scope: cancel placement x kind x panic x bystander x duration ----
func placements() []job {
	var out []job
	for _, rep := range []bool{false, true} {
		for _, pan := range []bool{false, true} {
			for _, by := range []bool{false, true} {
				for _, d := range []int64{0, 1, 3} {
					body := func(pre ...any) []any {
						p := append([]any{}, pre...)
						if pan {
							p = append(p, "APanic")
						}
						return p
					}
					// the timer under test is index 0; an optional repeating bystander is index 1
					start := func(prog []any) []hx.T {
						ops := []hx.T{create(d, rep, 7, prog...)}
						if by {
							ops = append(ops, create(2, true, 9))
						}
						return ops
					}
					other := int64(1)
					if by {
						other = 2
					}
					name := fmt.Sprintf("rep=%v,panic=%v,bystander=%v,d=%d", rep, pan, by, d)
					add := func(pl string, ops []hx.T) {
						out = append(out, job{"placement", append(ops, tail()...), []string{"pl-" + pl, name}})
					}
					plain := body()
					add("none", start(plain))
					add("armed", append(start(plain), cancel(0)))
					add("queued", append(start(plain), settle(0), cancel(0)))
					add("own-callback", start(body("ACancelSelf")))
					add("own-callback-after-create", start(body(hx.C("ACreate", 1, false, 5, []any{}), "ACancelSelf")))
					add("after-first-callback", append(start(plain), settle(0), doAll, cancel(0)))
					add("second-expiry-queued", append(start(plain), settle(0), doAll, settle(0), cancel(0)))
					add("other-callback-target-queued",
						append(start(plain), create(1, false, 8, hx.C("ACancel", 0)), settle(0), do(other)))
					add("other-callback-target-rearmed",
						append(start(plain), create(1, false, 8, hx.C("ACancel", 0)), settle(0), do(0), do(other)))
					add("twice", append(start(plain), settle(0), cancel(0), cancel(0)))
					add("unknown-id", append(start(plain), cancel(5), settle(0)))
					add("callback-creates", start(body(hx.C("ACreate", 1, true, 4, []any{}))))
					add("stopped-then-queued-done", append(start(plain), settle(0), stop))
					add("stopped-armed", append(start(plain), stop))
				}
			}
		}
	}
	return out
}

// every op sequence of length L over a small alphabet
func enumerate(L int, emit func([]hx.T)) {
	alpha := []hx.T{
		create(1, true, 5), create(1, false, 6, "APanic"), cancel(0), cancel(1), settle(0), doAll, do(0),
	}
	cur := make([]hx.T, L)
	var rec func(d int)
	rec = func(d int) {
		if d == L {
			emit(append(append([]hx.T{}, cur...), settle(0), doAll, settle(4)))
			return
		}
		for _, a := range alpha {
			cur[d] = a
			rec(d + 1)
		}
	}
	rec(0)
}

func genProg(r *rand.Rand, depth int, nT int64) []any {
	p := []any{}
	for n := r.Intn(4); n > 0; n-- {
		switch x := r.Intn(10); {
		case x < 2:
			p = append(p, "ACancelSelf")
		case x < 5:
			p = append(p, hx.C("ACancel", r.Int63n(nT+2)))
		case x < 8 && depth > 0:
			p = append(p, hx.C("ACreate", r.Int63n(4), r.Intn(2) == 0, r.Int63n(100), genProg(r, depth-1, nT)))
		case x < 9:
			p = append(p, "APanic")
		}
	}
	return p
}

func genRandom(r *rand.Rand, maxLen int) []hx.T {
	nT := int64(1 + r.Intn(4))
	n := 2 + r.Intn(maxLen)
	var ops []hx.T
	created := int64(0)
	for len(ops) < n {
		switch x := r.Intn(100); {
		case x < 22 || created == 0:
			d := r.Int63n(6)
			if r.Intn(8) == 0 {
				d = 0
			}
			ops = append(ops, create(d, r.Intn(5) < 3, r.Int63n(100), genProg(r, 2, nT)...))
			created++
		case x < 42:
			ops = append(ops, cancel(r.Int63n(created+2)))
		case x < 64:
			g := int64(0)
			if r.Intn(6) == 0 {
				g = 1 + r.Int63n(4)
			}
			ops = append(ops, settle(g))
		case x < 80:
			ops = append(ops, doAll)
		case x < 97:
			ops = append(ops, do(r.Int63n(created+1)))
		default:
			ops = append(ops, stop)
		}
	}
	return append(ops, settle(0), doAll, settle(6))
}

// ---------------------------------------------------------------- service world

var (
	svcMark = hx.T{Name: "OSvc"}
	start   = hx.T{Name: "OStart"}
	runLoop = hx.T{Name: "ORun"}
)

func wait(g int64) hx.T     { return hx.C("OWait", g) }
func stopSvc(by int64) hx.T { return hx.C("OStopSvc", by) }

// two more rounds of expiry + released loop, then a grace period in which nothing may arrive or run
func svcTail() []hx.T { return []hx.T{wait(0), runLoop, wait(0), runLoop, wait(6)} }

// the owner's life cycle x {one-shot, repeating} x {callback panics or not} x durations
func lifecycle() []job {
	var out []job
	for _, rep := range []bool{false, true} {
		for _, pan := range []bool{false, true} {
			for _, d := range []int64{0, 1, 3} {
				body := func(pre ...any) []any {
					p := append([]any{}, pre...)
					if pan {
						p = append(p, "APanic")
					}
					return p
				}
				name := fmt.Sprintf("rep=%v,panic=%v,d=%d", rep, pan, d)
				add := func(lc string, ops ...hx.T) {
					all := append(append([]hx.T{svcMark}, ops...), svcTail()...)
					out = append(out, job{"lifecycle", all, []string{"lc-" + lc, name}})
				}
				tm := func(prog ...any) hx.T { return create(d, rep, 7, prog...) }
				by := create(2, true, 9) // repeating bystander
				one := create(1, false, 8)
				nested := hx.C("ACreate", 1, false, 4, []any{})
				// ---- start-up
				add("created-and-due-before-start", tm(body()...), by, wait(0), start)
				add("created-before-start-waits-long", tm(body()...), wait(0), stall(15), start)
				add("created-before-due-after-start", create(25, rep, 7, body()...), one, start, wait(0), runLoop)
				add("created-before-start-not-waited-for", tm(body()...), start)
				add("cancelled-before-start-while-queued", tm(body()...), by, wait(0), cancel(0), start)
				add("cancelled-before-start-while-armed", create(25, rep, 7, body()...), cancel(0), start, wait(0), runLoop)
				add("never-started", tm(body()...), by, wait(0), cancel(1), wait(4))
				add("callback-of-prestart-timer-creates", tm(body(nested)...), wait(0), start)
				// ---- busy owner
				add("busy-loop-queues-up", start, tm(body()...), by, one, wait(0), stall(10), runLoop)
				add("busy-loop-cancel-queued", start, tm(body()...), by, wait(0), cancel(0), runLoop)
				add("busy-loop-cancel-from-callback", start, tm(body()...), create(1, false, 8, hx.C("ACancel", 0)), wait(0), runLoop)
				// ---- teardown
				for _, who := range []int64{0, 1} {
					w := fmt.Sprintf("-by%d", who)
					add("stop-idle"+w, start, tm(body()...), wait(0), runLoop, stopSvc(who), runLoop)
					add("stop-with-expiries-queued"+w, start, tm(body()...), by, one, stopSvc(who), runLoop)
					add("stop-queued-then-create-cancel"+w, start, tm(body()...), by, stopSvc(who),
						create(0, false, 5), create(1, true, 6), cancel(0), runLoop, create(1, false, 5), cancel(1))
					add("stop-queued-callback-creates"+w, start, tm(body(nested)...), by, stopSvc(who), runLoop)
					add("stop-armed-long"+w, start, create(20, rep, 7, body()...), stopSvc(who), runLoop)
				}
				add("stop-in-own-callback", start, tm(body("AStop")...), by, one, wait(0), runLoop)
				add("stop-in-callback-then-create", start, tm(body("AStop", nested)...), by, wait(0), runLoop)
				add("stop-in-callback-of-prestart-timer", tm(body("AStop")...), by, wait(0), start)
				add("run-twice-after-stop", start, tm(body()...), stopSvc(0), runLoop, runLoop, start)
			}
		}
	}
	return out
}

// every op sequence of length L over a small service alphabet (after OSvc)
func enumerateSvc(L int, emit func([]hx.T)) {
	alpha := []hx.T{
		create(2, true, 5), create(1, false, 6, "APanic"), cancel(0), wait(0), start, runLoop, stopSvc(0), stopSvc(1),
	}
	cur := make([]hx.T, L)
	var rec func(d int)
	rec = func(d int) {
		if d == L {
			emit(append(append([]hx.T{svcMark}, cur...), wait(0), runLoop, wait(4)))
			return
		}
		for _, a := range alpha {
			cur[d] = a
			rec(d + 1)
		}
	}
	rec(0)
}

// A callback that stops its own service does so first: what it arms before a Stop() in the same
// callback would race with that Stop() (has the expiry reached the channel or not?).
// A released loop must get to the end of its queue, so the population of repeating timers is kept
// bounded: under = 0 no repeating ancestor (anything may be created), 1 the program belongs to a
// repeating timer or has a repeating ancestor (it creates one-shots only, whose programs create
// nothing: under = 2).
func genSvcProg(r *rand.Rand, depth int, nT int64, under int) []any {
	p := []any{}
	if r.Intn(9) == 0 {
		p = append(p, "AStop")
	}
	for n := r.Intn(4); n > 0; n-- {
		switch x := r.Intn(10); {
		case x < 2:
			p = append(p, "ACancelSelf")
		case x < 5:
			p = append(p, hx.C("ACancel", r.Int63n(nT+2)))
		case x < 8 && depth > 0 && under < 2:
			d := 2 + r.Int63n(3)
			if r.Intn(3) == 0 {
				d = r.Int63n(2)
			}
			rep := under == 0 && r.Intn(2) == 0
			if rep && d < 2 {
				d = 2
			}
			sub := under + 1
			if under == 0 && !rep {
				sub = 0
			}
			p = append(p, hx.C("ACreate", d, rep, r.Int63n(100), genSvcProg(r, depth-1, nT, sub)))
		case x < 9:
			p = append(p, "APanic")
		}
	}
	return p
}

func genSvcRandom(r *rand.Rand, maxLen int) []hx.T {
	nT := int64(1 + r.Intn(4))
	n := 2 + r.Intn(maxLen)
	ops := []hx.T{svcMark}
	created := int64(0)
	started := r.Intn(3) == 0
	if started {
		ops = append(ops, start)
	}
	for len(ops) < n {
		switch x := r.Intn(100); {
		case x < 24 || created == 0:
			rep := r.Intn(5) < 3
			d := r.Int63n(6)
			if rep && d < 2 {
				d = 2 // a released loop must get to the end of its queue
			}
			under := 0
			if rep {
				under = 1
			}
			ops = append(ops, create(d, rep, r.Int63n(100), genSvcProg(r, 2, nT, under)...))
			created++
		case x < 40:
			ops = append(ops, cancel(r.Int63n(created+2)))
		case x < 62:
			g := int64(0)
			if r.Intn(6) == 0 {
				g = 1 + r.Int63n(4)
			}
			ops = append(ops, wait(g))
		case x < 82:
			if !started && r.Intn(2) == 0 {
				ops = append(ops, start)
				started = true
			} else {
				ops = append(ops, runLoop)
			}
		case x < 88:
			ops = append(ops, start)
			started = true
		case x < 94:
			ops = append(ops, stopSvc(int64(r.Intn(2))))
		default:
			ops = append(ops, stall(1+r.Int63n(3)))
		}
	}
	return append(ops, wait(0), runLoop, wait(6))
}

// Run executes the jobs on a pool of owner goroutines (one fresh Mgr per case) and emits
// the cases in generation order.
func Run(cfg *hx.Config) error {
	logger.GetLogProxy("exception").SetLogLevel(logrus.PanicLevel) // panic stacks of timer.do
	log.SetOutput(io.Discard)                                      // "RunServeice loop end"
	runservice.SetPerfLogLevel(runservice.LevelDisable)            // "heavy frame" (the parked loop)
	var jobs []job
	if cfg.In != "" {
		cs, err := hx.ReadCases(cfg.In)
		if err != nil {
			return err
		}
		for _, c := range cs {
			jobs = append(jobs, job{"replay", hx.Terms(c.Ops), c.Tags})
		}
	} else {
		jobs = append(capacity(cfg.Tier), placements()...)
		jobs = append(jobs, extremes()...)
		depth := 3
		if cfg.Tier == "thorough" {
			depth = 4
		}
		for L := 0; L <= depth; L++ {
			L := L
			enumerate(L, func(ops []hx.T) { jobs = append(jobs, job{fmt.Sprintf("exhaustive-%d", L), ops, nil}) })
		}
		jobs = append(jobs, lifecycle()...)
		sdepth := 2
		if cfg.Tier == "thorough" {
			sdepth = 4
		}
		for L := 1; L <= sdepth; L++ {
			L := L
			enumerateSvc(L, func(ops []hx.T) { jobs = append(jobs, job{fmt.Sprintf("exhaustive-svc-%d", L), ops, nil}) })
		}
		for i := 0; i < cfg.N; i++ {
			maxLen := 10
			if i%4 == 3 {
				maxLen = 28
			}
			if i%2 == 0 {
				jobs = append(jobs, job{"random", genRandom(cfg.Rng, maxLen), nil})
			} else {
				jobs = append(jobs, job{"random-svc", genSvcRandom(cfg.Rng, maxLen), nil})
			}
		}
	}
	type result struct {
		obs  []any
		nt   bool
		tags []string
	}
	res := make([]result, len(jobs))
	workers := 48
	if len(jobs) < workers {
		workers = len(jobs)
	}
	var wg sync.WaitGroup
	next := make(chan int, len(jobs))
	for i := range jobs {
		next <- i
	}
	close(next)
	for w := 0; w < workers; w++ {
		wg.Add(1)
		go func() {
			defer wg.Done()
			for i := range next {
				obs, nt, tags := Exec(jobs[i].ops)
				res[i] = result{obs, nt, tags}
			}
		}()
	}
	wg.Wait()
	for i, j := range jobs {
		tags := append(append([]string{}, j.tags...), res[i].tags...)
		sort.Strings(tags)
		cfg.Emit(hx.Case{Kind: j.kind, Ops: j.ops, Obs: res[i].obs, Nontrivial: res[i].nt, Tags: tags})
	}
	return nil
}
