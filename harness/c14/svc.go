package c14

// Service world.  A case whose first op is OSvc runs against the TimerMgr of a REAL
// runservice.StandardRunService: the owner of the manager is the service's loop goroutine, the
// one that runs the "timer" selector installed by StandardRunService.Start().  The driver never
// receives from Mgr.GetQueue() and never calls Mgr.Do in this world - whatever runs a callback
// is the code under test.
//
// (It only LOOKS at the queue while nobody drains it: scan().)
//
// Life cycle of the owner (Model.life): new (NewStandardRunService returned, nobody drains the
// queue) -> up (Start(): the loop goroutine exists) -> down (Stop() was called, by the driver
// = a foreign goroutine, by a task of the loop itself, or by a timer callback; the loop is still
// alive and may still take expiries that are queued) -> end (the loop has left its for-loop).
//
// Determinism: as in harness/c17 a started loop is kept busy inside a scheduler task (the
// "controller") whenever the driver acts - exactly the situation "the owner is busy in a long
// task while expiries queue up".  OStart / ORun release the task and let the loop run until the
// timer queue is empty and the loop is parked again, or until the loop has ended.  Which of the
// queued expiries the loop takes first, which arrive while it runs, and how many it still takes
// after Stop() before it sees the close signal (reflect.Select picks among the ready channels at
// random) is the implementation's own schedule: it is OBSERVED (the callback records of the op,
// in order) and the model follows that schedule (Model.follow), predicting everything else.
// While the loop is alive and parked, creates / cancels of the op list are handed to the parked
// task, i.e. they run on the owner goroutine; before Start and after the loop's end the driver
// performs them itself.
//
// Every callback record carries on_owner = "ran on the goroutine that drains this manager's
// queue": the goroutine's stack goes through runservice.(*RunService).loop, it is the same
// goroutine for the whole case, and the loop is alive (before Start() and after the loop's end
// no goroutine drains the queue, so nothing that runs then is on the owner).

import (
	"bytes"
	"fmt"
	"runtime"
	"sort"
	"sync/atomic"
	"time"

	"github.com/dfklegend/cell2/utils/runservice"
	"github.com/dfklegend/cell2/utils/timer"
)

const (
	lifeNew int32 = iota
	lifeUp
	lifeDown
	lifeEnd
)

const (
	loopFrame   = "runservice.(*RunService).loop"
	loopPoll    = 20 * time.Microsecond
	loopTimeout = 3 * time.Second
	runRounds   = 120                   // a release is cut short after this many rounds ...
	runBudget   = 40 * time.Millisecond // ... or this long, if the queue still is not empty
)

var svcSeq int64

// controller: the scheduler task that keeps the loop busy; it performs what it is handed
type controller struct {
	entered chan uint64 // the task started: goroutine id of the loop
	cmds    chan func()
	release chan struct{}
}

func newController() *controller {
	return &controller{entered: make(chan uint64, 1), cmds: make(chan func()), release: make(chan struct{})}
}

func (ct *controller) task() {
	ct.entered <- goid()
	for {
		select {
		case f := <-ct.cmds:
			f()
		case <-ct.release:
			return
		}
	}
}

// do runs f on the loop goroutine and waits for it
func (ct *controller) do(f func()) {
	done := make(chan struct{})
	ct.cmds <- func() {
		defer close(done)
		f()
	}
	<-done
}

func onLoopStack() bool {
	buf := make([]byte, 1<<15)
	buf = buf[:runtime.Stack(buf, false)]
	return bytes.Contains(buf, []byte(loopFrame))
}

func (w *world) getLife() int32  { return atomic.LoadInt32(&w.life) }
func (w *world) setLife(l int32) { atomic.StoreInt32(&w.life, l) }

func (w *world) alive() bool {
	l := w.getLife()
	return l == lifeUp || l == lifeDown
}

// newService: the world of a case that starts with OSvc
func (w *world) newService() {
	w.svcMode = true
	w.name = fmt.Sprintf("c14-svc-%d", atomic.AddInt64(&svcSeq, 1))
	w.svc = runservice.NewStandardRunService(w.name)
	w.mgr = w.svc.GetTimerMgr()
	w.setLife(lifeNew)
	w.tag("service")
	// a second, independent service with its own manager and an idle loop: its timers must run
	// on ITS loop, ours on ours
	w.decoy = runservice.NewStandardRunService(w.name + "-decoy")
	w.decoy.Start()
	w.decoy.GetTimerMgr().AddTimer(2*time.Millisecond, func(args ...interface{}) { w.decoyCallback() })
}

// decoyCallback runs on the decoy service's loop.  A stray record (timer -1) is logged when it
// runs on our loop, on the driver, or on a goroutine that is no service loop at all.
func (w *world) decoyCallback() {
	id := goid()
	ok := onLoopStack() && id != w.gid
	w.mu.Lock()
	defer w.mu.Unlock()
	if w.closing {
		return
	}
	if w.loopGid != 0 && id == w.loopGid {
		ok = false
	}
	if w.decoyGid == 0 {
		w.decoyGid = id
	} else if w.decoyGid != id {
		ok = false
	}
	w.decoyRuns++
	if !ok {
		w.ran = append(w.ran, cbRec{k: -1, n: w.decoyRuns})
	}
}

// onOwner: is the calling goroutine the one that drains this case's manager?
func (w *world) onOwner() bool {
	id := goid()
	if !w.svcMode {
		return id == w.gid
	}
	if !w.alive() || !onLoopStack() {
		return false
	}
	w.mu.Lock()
	defer w.mu.Unlock()
	if w.decoyGid != 0 && id == w.decoyGid {
		return false
	}
	if w.loopGid == 0 {
		w.loopGid = id
	}
	return w.loopGid == id
}

// perform runs f on the owner goroutine while there is one (the parked loop), else on the driver
func (w *world) perform(f func()) {
	if w.svcMode && w.ctl != nil && w.alive() {
		w.ctl.do(f)
		return
	}
	f()
}

func (w *world) takeRan() []cbRec {
	w.mu.Lock()
	defer w.mu.Unlock()
	r := w.ran
	w.ran = nil
	return r
}

func (w *world) tag(t string) {
	w.mu.Lock()
	w.tags[t] = true
	w.mu.Unlock()
}

// stray: something that must be visible as a failure of the case (timer -2)
func (w *world) stray(n int64) {
	w.mu.Lock()
	w.ran = append(w.ran, cbRec{k: -2, n: n})
	w.mu.Unlock()
}

// scan looks at what is in the queue WITHOUT consuming it: while no goroutine drains the queue
// (no loop yet / any more, or the loop is parked in the controller task) the driver takes the
// entries out and puts the same objects back in the same order.  Nothing of the code under test
// can tell (the only reader is not reading; senders only ever append).  It is a measurement: Do
// is never called here.
func (w *world) scan() map[int]int {
	q := w.mgr.GetQueue()
	var objs []*timer.Obj
	for n := len(q); n > 0; n-- {
		select {
		case o := <-q:
			objs = append(objs, o)
		default:
			n = 0
		}
	}
	cnt := map[int]int{}
	for _, o := range objs {
		k, ok := w.byID[o.TimerId]
		if !ok {
			k = -1000000
		}
		cnt[k]++
		q <- o
	}
	return cnt
}

// arrivals: timers whose expiry has reached the queue since the last report (cancelled ones
// are not listed: a Cancel issued while armed may physically race with the expiry)
func (w *world) arrivals(got *[]int64) {
	cnt := w.scan()
	for k, c := range cnt {
		for n := w.inq[k]; n < c; n++ {
			if k < 0 || !w.ts[k].cancelled {
				*got = append(*got, int64(k))
			}
		}
		if k >= 0 {
			w.ts[k].expect = false
			w.ts[k].queued = true
		}
	}
	w.inq = cnt
}

// resync after the loop has run: what it consumed is forgotten, what arrived meanwhile and is
// still there will be reported by the next wait
func (w *world) resync() {
	cnt := w.scan()
	for k, n := range w.inq {
		if cnt[k] < n {
			w.inq[k] = cnt[k]
		}
	}
	for k, ti := range w.ts {
		if cnt[k] == 0 {
			ti.queued = false
		}
	}
}

// waitArrivals waits until every armed timer has delivered its expiry into the queue (nobody
// reads the queue meanwhile: the loop does not exist or is parked), then g more ms; returns the
// timers whose expiry reached the queue since the last report.
func (w *world) waitArrivals(g int64) []int64 {
	got := []int64{}
	limit := time.Now().Add(settleTimeout)
	for {
		w.arrivals(&got)
		waiting := false
		for _, ti := range w.ts {
			if ti.expect {
				waiting = true
				break
			}
		}
		if !waiting {
			break
		}
		if time.Now().After(limit) {
			for k, ti := range w.ts {
				if ti.expect {
					got = append(got, -int64(k)-1) // expiry never arrived
					ti.expect = false
					w.tag("expiry-never-arrived")
				}
			}
			break
		}
		time.Sleep(pollSleep)
	}
	if g > 0 {
		time.Sleep(time.Duration(g) * unit)
		w.arrivals(&got)
	}
	sort.Slice(got, func(i, j int) bool { return got[i] < got[j] })
	return got
}

func (w *world) svcStart() {
	if w.getLife() != lifeNew {
		// Start() twice is not driven: the op only releases the loop (if there is one)
		w.tag("start-again")
		if w.alive() {
			w.runLoop()
		}
		return
	}
	if len(w.mgr.GetQueue()) > 0 {
		w.tag("start-with-expiries-queued")
		w.nontriv = true
	}
	w.tag("service-start")
	w.setLife(lifeUp)
	w.svc.Start()
	w.runLoop()
}

// svcStop: StandardRunService.Stop() on the goroutine that performs it (by: 0 the driver = a
// foreign goroutine, 1 a task of the loop itself; a callback calls stopHere directly)
func (w *world) svcStop(by int64) {
	if !w.svcMode || w.getLife() != lifeUp {
		w.tag("stop-ignored")
		return
	}
	if by == 1 && w.ctl != nil {
		w.tag("stop-by-own-task")
		w.ctl.do(w.stopHere)
	} else {
		w.tag("stop-foreign")
		w.stopHere()
	}
}

func (w *world) stopHere() {
	if !w.svcMode {
		// bare manager: Mgr.Stop() is all there is
		w.mgr.Stop()
		w.markStopped()
		return
	}
	if w.getLife() != lifeUp || w.inStop {
		return // Stop() twice panics (close of closed channel): not driven
	}
	if n := len(w.mgr.GetQueue()); n > 0 {
		w.tag("stop-with-expiries-queued")
		w.nontriv = true
	}
	w.inStop = true
	w.svc.Stop()
	w.inStop = false
	w.setLife(lifeDown)
	w.markStopped()
}

func (w *world) markStopped() {
	w.stopped = true
	w.tag("stop")
	for _, ti := range w.ts {
		ti.expect = false
	}
}

// runLoop releases the loop and returns when it is parked again with an empty timer queue, or
// has ended.
func (w *world) runLoop() {
	q := w.mgr.GetQueue()
	before := w.getLife()
	defer func() {
		w.resync()
		if before == lifeUp && w.getLife() != lifeUp {
			// a callback stopped the service during this release: an expiry that reached the
			// channel before that Stop() and was not taken by the loop is indistinguishable, for
			// the model, from one that came too late - neither is reported
			w.inq = w.scan()
		}
	}()
	t0 := time.Now()
	for round := 0; ; round++ {
		if w.ctl != nil {
			close(w.ctl.release)
			w.ctl = nil
		}
		if w.getLife() == lifeDown {
			w.awaitEnd()
			return
		}
		ct := newController()
		w.svc.GetScheduler().Post(ct.task) // (a callback may stop the service meanwhile: Post recovers)
		limit := time.Now().Add(loopTimeout)
		entered := false
		for !entered {
			select {
			case id := <-ct.entered:
				entered = true
				w.mu.Lock()
				if w.loopGid == 0 {
					w.loopGid = id
				} else if w.loopGid != id {
					w.tags["loop-goroutine-changed"] = true
					w.ran = append(w.ran, cbRec{k: -2, n: 1})
				}
				w.mu.Unlock()
			default:
				if w.svc.IsStopped() {
					w.loopEnded()
					return
				}
				if time.Now().After(limit) {
					w.tag("loop-stuck")
					w.stray(2)
					return
				}
				time.Sleep(loopPoll)
			}
		}
		w.ctl = ct
		if w.getLife() == lifeDown {
			continue // a callback stopped the service: let the loop go
		}
		if len(q) == 0 {
			return
		}
		if round >= runRounds || time.Since(t0) > runBudget {
			// expiries keep arriving as fast as the loop is released (a loaded machine): the loop
			// stays parked with what is left in its queue, and the observation says so (BRanCut)
			w.tag("release-cut-short")
			w.cut = true
			return
		}
	}
}

func (w *world) awaitEnd() {
	limit := time.Now().Add(loopTimeout)
	for !w.svc.IsStopped() {
		if time.Now().After(limit) {
			w.tag("loop-never-ended")
			w.stray(3)
			return
		}
		time.Sleep(loopPoll)
	}
	w.loopEnded()
}

func (w *world) loopEnded() {
	// RunService.running is false: the loop does not call HandleOnce again
	w.setLife(lifeEnd)
	w.ctl = nil
	w.tag("loop-ended")
	if len(w.mgr.GetQueue()) > 0 {
		w.tag("expiries-left-in-queue-at-loop-end")
	}
}

// shutdown releases what a finished case still holds
func (w *world) shutdown() {
	w.mu.Lock()
	w.closing = true
	w.mu.Unlock()
	if !w.svcMode {
		return
	}
	func() {
		defer func() { recover() }()
		w.decoy.Stop()
	}()
	switch w.getLife() {
	case lifeNew:
		runservice.GetScheMgr().DelSche(w.name)
	case lifeUp:
		func() {
			defer func() { recover() }()
			w.svc.Stop()
		}()
		fallthrough
	case lifeDown:
		if w.ctl != nil {
			close(w.ctl.release)
			w.ctl = nil
		}
	}
}
