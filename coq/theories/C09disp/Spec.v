(* C09disp - vocabulary of the statements (no proofs). *)
From Cell2V Require Import Common.Tac Common.ListX C09disp.Model.

Definition qd (m : mbox) : nat := match stat m with MQueued => 1%nat | _ => 0%nat end.

Definition box_ok (s : st) (i : nat) (m : mbox) : Prop :=
  (stat m = MIdle -> q m = []) /\
  count_occ Nat.eq_dec (chan s) i = qd m /\
  (stat m = MRunning <-> cur s = Some i).

Definition Inv (s : st) : Prop :=
  (forall i m, get (boxes s) i = Some m -> box_ok s i m) /\
  len (chan s) <= CAP /\
  (forall j, In j (chan s) -> (j < length (boxes s))%nat) /\
  (forall j, cur s = Some j -> (j < length (boxes s))%nat).

Definition is_post (a : act) : bool := match a with APost _ _ => true | _ => false end.

(* work left for the system itself (no further posts): strictly decreased by every enabled
   Sched / Take / Step *)
Definition w (x : mstat) : Z := match x with MWants => 3 | MQueued => 2 | MRunning => 1 | MIdle => 0 end.
Definition work (s : st) : Z := fold_right (fun m acc => 2 * len (q m) + w (stat m) + acc) 0 (boxes s).

(* a prefix *)
Definition prefix (a b : list Z) : Prop := exists r, b = a ++ r.
