From Cell2V Require Import Common.Tac Common.ListX C09disp.Model C09disp.Spec.

Lemma len_nonneg {A} (l : list A) : 0 <= len l.
Proof. unfold len. lia. Qed.
Lemma len_app {A} (a b : list A) : len (a ++ b) = len a + len b.
Proof. unfold len. rewrite app_length. lia. Qed.

Lemma upd_length l : forall i m, length (upd l i m) = length l.
Proof. induction l as [|x r IH]; intros [|i] m; cbn; try reflexivity. rewrite IH. reflexivity. Qed.

Lemma get_upd_same l : forall i m m0, get l i = Some m0 -> get (upd l i m) i = Some m.
Proof.
  unfold get. induction l as [|x r IH]; intros [|i] m m0 H; cbn in *; try discriminate; try reflexivity.
  eapply IH. exact H.
Qed.

Lemma get_upd_other l : forall i j m, i <> j -> get (upd l i m) j = get l j.
Proof.
  unfold get. induction l as [|x r IH]; intros [|i] [|j] m H; cbn; try reflexivity; try congruence.
  apply IH. congruence.
Qed.

Lemma get_lt l i m : get l i = Some m -> (i < length l)%nat.
Proof. unfold get. intro H. apply nth_error_Some. congruence. Qed.

Lemma get_some l i : (i < length l)%nat -> exists m, get l i = Some m.
Proof. unfold get. intro H. destruct (nth_error l i) eqn:E; [eauto|]. apply nth_error_None in E. lia. Qed.

Lemma count_app_single l i j :
  count_occ Nat.eq_dec (l ++ [j]) i = (count_occ Nat.eq_dec l i + if Nat.eq_dec j i then 1 else 0)%nat.
Proof. rewrite count_occ_app. cbn. destruct (Nat.eq_dec j i); lia. Qed.

(* ---------------------------------------------------------------- the invariant *)
Lemma inv_init n : Inv (init n).
Proof.
  unfold Inv, init. cbn [boxes chan cur]. split; [|split; [|split]].
  - intros i m G. unfold get in G. apply nth_error_In in G. apply repeat_spec in G. subst m.
    unfold box_ok, qd. cbn. split; [reflexivity|]. split; [reflexivity|]. split; discriminate.
  - unfold len, CAP. cbn. lia.
  - intros j [].
  - discriminate.
Qed.

(* the boxes other than the one an action touches keep their record; what they need from the
   rest of the state is the channel count and [cur] *)
Lemma inv_step s a s' : Inv s -> step s a = Some s' -> Inv s'.
Proof.
  intros [IB [IC [IN IR]]] H. destruct a as [i z|i| |]; cbn [step] in H.
  - (* post *)
    destruct (get (boxes s) i) as [m|] eqn:G; [|discriminate]. injection H as <-.
    destruct (IB i m G) as [B1 [B2 B3]].
    unfold Inv. cbn [boxes chan cur]. rewrite upd_length. split; [|split; [|split]]; try assumption.
    intros k mk Gk. destruct (Nat.eq_dec i k) as [<-|Nk].
    + rewrite (get_upd_same _ i _ m G) in Gk. injection Gk as <-.
      unfold box_ok. cbn [q stat log chan cur]. split; [|split].
      * destruct (stat m); intro E; discriminate.
      * rewrite B2. unfold qd. cbn [stat]. destruct (stat m); reflexivity.
      * split; intro E.
        -- apply B3. destruct (stat m); try discriminate; reflexivity.
        -- apply B3 in E. rewrite E. reflexivity.
    + rewrite (get_upd_other _ i k) in Gk by exact Nk. exact (IB k mk Gk).
  - (* sched *)
    destruct (get (boxes s) i) as [m|] eqn:G; [|discriminate].
    destruct (stat m) eqn:Sm; try discriminate.
    destruct (Z.ltb_spec (len (chan s)) CAP) as [L|L]; [|discriminate]. injection H as <-.
    destruct (IB i m G) as [B1 [B2 B3]].
    unfold Inv. cbn [boxes chan cur]. rewrite upd_length. split; [|split; [|split]].
    + intros k mk Gk. destruct (Nat.eq_dec i k) as [<-|Nk].
      * rewrite (get_upd_same _ i _ m G) in Gk. injection Gk as <-.
        unfold box_ok. cbn [q stat log chan cur]. split; [|split].
        -- discriminate.
        -- rewrite count_app_single, B2. unfold qd. cbn [stat]. rewrite Sm.
           destruct (Nat.eq_dec i i); [reflexivity|congruence].
        -- split; [discriminate|]. intro E. apply B3 in E. congruence.
      * rewrite (get_upd_other _ i k) in Gk by exact Nk. destruct (IB k mk Gk) as [K1 [K2 K3]].
        unfold box_ok. cbn [chan cur]. split; [exact K1|]. split; [|exact K3].
        rewrite count_app_single, K2. destruct (Nat.eq_dec i k); [congruence|lia].
    + rewrite len_app. unfold len at 2. cbn [length]. lia.
    + intros j Hj. apply in_app_or in Hj. destruct Hj as [Hj|[<-|[]]]; [apply IN; exact Hj|].
      eapply get_lt. exact G.
    + exact IR.
  - (* take *)
    destruct (cur s) as [c|] eqn:Ec; [discriminate|].
    destruct (chan s) as [|j r] eqn:Eh; [discriminate|].
    destruct (get (boxes s) j) as [m|] eqn:G; [|discriminate]. injection H as <-.
    destruct (IB j m G) as [B1 [B2 B3]].
    rewrite Eh in B2. cbn [count_occ] in B2. destruct (Nat.eq_dec j j) as [_|Nj]; [|congruence].
    assert (Qj : stat m = MQueued) by (unfold qd in B2; destruct (stat m); try lia; reflexivity).
    assert (Cj : count_occ Nat.eq_dec r j = 0%nat) by (unfold qd in B2; rewrite Qj in B2; lia).
    unfold Inv. cbn [boxes chan cur]. rewrite upd_length. split; [|split; [|split]].
    + intros k mk Gk. destruct (Nat.eq_dec j k) as [<-|Nk].
      * rewrite (get_upd_same _ j _ m G) in Gk. injection Gk as <-.
        unfold box_ok. cbn [q stat log chan cur]. split; [discriminate|]. split; [exact Cj|].
        split; reflexivity.
      * rewrite (get_upd_other _ j k) in Gk by exact Nk. destruct (IB k mk Gk) as [K1 [K2 K3]].
        unfold box_ok. cbn [chan cur]. split; [exact K1|]. split.
        -- rewrite Eh in K2. cbn [count_occ] in K2. destruct (Nat.eq_dec j k); [congruence|]. exact K2.
        -- split; intro E; [apply K3 in E; congruence | congruence].
    + unfold len in *. cbn [length] in IC. lia.
    + intros k Hk. apply IN. right. exact Hk.
    + intros k E. injection E as <-. eapply get_lt. exact G.
  - (* step *)
    destruct (cur s) as [j|] eqn:Ec; [|discriminate].
    destruct (get (boxes s) j) as [m|] eqn:G; [|discriminate].
    destruct (IB j m G) as [B1 [B2 B3]].
    assert (Rj : stat m = MRunning) by (apply B3; exact Ec).
    destruct (q m) as [|z r] eqn:Eq; injection H as <-.
    + (* the run ends *)
      unfold Inv. cbn [boxes chan cur]. rewrite upd_length. split; [|split; [|split]]; try assumption.
      * intros k mk Gk. destruct (Nat.eq_dec j k) as [<-|Nk].
        -- rewrite (get_upd_same _ j _ m G) in Gk. injection Gk as <-.
           unfold box_ok. cbn [q stat log chan cur]. split; [reflexivity|]. split.
           ++ rewrite B2. unfold qd. rewrite Rj. reflexivity.
           ++ split; discriminate.
        -- rewrite (get_upd_other _ j k) in Gk by exact Nk. destruct (IB k mk Gk) as [K1 [K2 K3]].
           unfold box_ok. cbn [chan cur]. split; [exact K1|]. split; [exact K2|].
           split; [|discriminate]. intro E. apply K3 in E. congruence.
      * discriminate.
    + (* one message handled *)
      unfold Inv. cbn [boxes chan cur]. rewrite upd_length. split; [|split; [|split]]; try assumption.
      intros k mk Gk. destruct (Nat.eq_dec j k) as [<-|Nk].
      * rewrite (get_upd_same _ j _ m G) in Gk. injection Gk as <-.
        unfold box_ok. cbn [q stat log chan cur]. split; [discriminate|]. split.
        -- rewrite B2. unfold qd. rewrite Rj. reflexivity.
        -- split; intro E; reflexivity.
      * rewrite (get_upd_other _ j k) in Gk by exact Nk. destruct (IB k mk Gk) as [K1 [K2 K3]].
        unfold box_ok. cbn [chan cur]. split; [exact K1|]. split; [exact K2|].
        rewrite Ec in K3. exact K3.
Qed.

Lemma inv_run l : forall s, Inv s -> Inv (run s l).
Proof.
  induction l as [|a r IH]; intros s I; cbn [run]; [exact I|].
  destruct (step s a) as [s'|] eqn:E; apply IH; [eapply inv_step; eassumption | exact I].
Qed.

(* ---------------------------------------------------------------- conservation: nothing lost, nothing twice, order kept *)
Definition contrib (a : act) (i : nat) : list Z :=
  match a with APost j z => if Nat.eqb i j then [z] else [] | _ => [] end.

Lemma step_conserve s a s' i m' : step s a = Some s' -> get (boxes s') i = Some m' ->
  exists m, get (boxes s) i = Some m /\ log m' ++ q m' = (log m ++ q m) ++ contrib a i.
Proof.
  intros H G'. destruct a as [j z|j| |]; cbn [step] in H.
  - destruct (get (boxes s) j) as [m|] eqn:G; [|discriminate]. injection H as <-. cbn [boxes] in G'.
    unfold contrib. destruct (Nat.eqb_spec i j) as [->|N].
    + rewrite (get_upd_same _ j _ m G) in G'. injection G' as <-. exists m. split; [exact G|].
      cbn [q log]. rewrite app_assoc. reflexivity.
    + rewrite (get_upd_other _ j i) in G' by congruence. exists m'. split; [exact G'|]. rewrite app_nil_r. reflexivity.
  - destruct (get (boxes s) j) as [m|] eqn:G; [|discriminate]. destruct (stat m); try discriminate.
    destruct (len (chan s) <? CAP); [|discriminate]. injection H as <-. cbn [boxes] in G'. cbn [contrib].
    destruct (Nat.eq_dec j i) as [->|N].
    + rewrite (get_upd_same _ i _ m G) in G'. injection G' as <-. exists m. split; [exact G|].
      cbn [q log]. rewrite app_nil_r. reflexivity.
    + rewrite (get_upd_other _ j i) in G' by exact N. exists m'. split; [exact G'|]. rewrite app_nil_r. reflexivity.
  - destruct (cur s); [discriminate|]. destruct (chan s) as [|j r]; [discriminate|].
    destruct (get (boxes s) j) as [m|] eqn:G; [|discriminate]. injection H as <-. cbn [boxes] in G'. cbn [contrib].
    destruct (Nat.eq_dec j i) as [->|N].
    + rewrite (get_upd_same _ i _ m G) in G'. injection G' as <-. exists m. split; [exact G|].
      cbn [q log]. rewrite app_nil_r. reflexivity.
    + rewrite (get_upd_other _ j i) in G' by exact N. exists m'. split; [exact G'|]. rewrite app_nil_r. reflexivity.
  - destruct (cur s) as [j|]; [|discriminate].
    destruct (get (boxes s) j) as [m|] eqn:G; [|discriminate]. cbn [contrib].
    destruct (q m) as [|z r] eqn:Eq; injection H as <-; cbn [boxes] in G';
      (destruct (Nat.eq_dec j i) as [->|N];
       [rewrite (get_upd_same _ i _ m G) in G'; injection G' as <-; exists m; split; [exact G|]; cbn [q log]; rewrite Eq, ?app_nil_r
       | rewrite (get_upd_other _ j i) in G' by exact N; exists m'; split; [exact G'|]; rewrite app_nil_r; reflexivity]).
    + reflexivity.
    + rewrite <- app_assoc. reflexivity.
Qed.

Lemma run_conserve l : forall s i m', get (boxes (run s l)) i = Some m' ->
  exists m, get (boxes s) i = Some m /\ log m' ++ q m' = (log m ++ q m) ++ posted l i.
Proof.
  induction l as [|a r IH]; intros s i m' G; cbn [run posted] in *.
  - exists m'. split; [exact G|]. rewrite app_nil_r. reflexivity.
  - destruct (step s a) as [s1|] eqn:E.
    + destruct (IH s1 i m' G) as [m1 [G1 C1]]. destruct (step_conserve s a s1 i m1 E G1) as [m [G0 C0]].
      exists m. split; [exact G0|]. rewrite C1, C0, <- app_assoc. f_equal.
      destruct a as [j z| | |]; cbn [contrib]; try reflexivity.
      destruct (Nat.eqb i j); reflexivity.
    + destruct (IH s i m' G) as [m [G0 C0]]. exists m. split; [exact G0|]. rewrite C0. f_equal.
      (* a post to an existing box is always enabled *)
      destruct a as [j z| | |]; try reflexivity. cbn [step] in E.
      destruct (Nat.eqb_spec i j) as [->|N]; [|reflexivity]. rewrite G0 in E. discriminate.
Qed.

Lemma init_get n i m : get (boxes (init n)) i = Some m -> m = mkM [] MIdle [].
Proof. unfold init, get. cbn [boxes]. intro H. apply nth_error_In in H. apply repeat_spec in H. exact H. Qed.

Lemma reach_conserve n l i m : get (boxes (run (init n) l)) i = Some m -> log m ++ q m = posted l i.
Proof.
  intro G. destruct (run_conserve l (init n) i m G) as [m0 [G0 C]]. apply init_get in G0. subst m0.
  exact C.
Qed.

(* ---------------------------------------------------------------- never two at a time, bounded hand-over *)
Lemma one_running s i k mi mk : Inv s -> get (boxes s) i = Some mi -> get (boxes s) k = Some mk ->
  stat mi = MRunning -> stat mk = MRunning -> i = k.
Proof.
  intros [IB _] Gi Gk Ri Rk. destruct (IB i mi Gi) as [_ [_ Bi]]. destruct (IB k mk Gk) as [_ [_ Bk]].
  apply Bi in Ri. apply Bk in Rk. congruence.
Qed.

(* ---------------------------------------------------------------- never stalls *)
Lemma forallb_false_ex {A} (f : A -> bool) l : forallb f l = false -> exists x, In x l /\ f x = false.
Proof.
  induction l as [|x r IH]; cbn; [discriminate|]. destruct (f x) eqn:E; cbn.
  - intro H. destruct (IH H) as [y [Hy Fy]]. eauto.
  - intros _. eauto.
Qed.

Lemma quiescent_drained s : Inv s -> quiescent s = true ->
  forall i m, get (boxes s) i = Some m -> stat m = MIdle /\ q m = [].
Proof.
  intros [IB _] Q i m G. unfold quiescent in Q.
  destruct (cur s) as [c|] eqn:Ec; [discriminate|]. destruct (chan s) as [|j r] eqn:Eh; [|discriminate].
  destruct (IB i m G) as [B1 [B2 B3]]. rewrite Eh in B2. cbn in B2.
  assert (S : stat m = MIdle).
  { destruct (stat m) eqn:Sm; [reflexivity| | |].
    - rewrite forallb_forall in Q. unfold get in G. apply nth_error_In in G. specialize (Q m G). rewrite Sm in Q. discriminate.
    - unfold qd in B2. rewrite Sm in B2. discriminate.
    - destruct B3 as [B3 _]. specialize (B3 eq_refl). congruence. }
  split; [exact S | apply B1; exact S].
Qed.

(* work left *)
Lemma work_upd l : forall i m m0, get l i = Some m0 ->
  fold_right (fun m acc => 2 * len (q m) + w (stat m) + acc) 0 (upd l i m)
  = fold_right (fun m acc => 2 * len (q m) + w (stat m) + acc) 0 l
    - (2 * len (q m0) + w (stat m0)) + (2 * len (q m) + w (stat m)).
Proof.
  unfold get. induction l as [|x r IH]; intros [|i] m m0 G; cbn in G; try discriminate.
  - injection G as ->. cbn [upd fold_right]. lia.
  - cbn [upd fold_right]. rewrite (IH i m m0 G). lia.
Qed.

Lemma work_nonneg s : 0 <= work s.
Proof.
  unfold work. induction (boxes s) as [|m r IH]; cbn [fold_right]; [lia|].
  pose proof (len_nonneg (q m)). destruct (stat m); cbn [w]; lia.
Qed.

Lemma progress s : Inv s -> quiescent s = false ->
  exists a s', is_post a = false /\ step s a = Some s' /\ work s' < work s.
Proof.
  intros [IB [IC [IN IR]]] Q. unfold quiescent in Q.
  destruct (cur s) as [j|] eqn:Ec.
  - (* the consumer is in a run *)
    destruct (get_some (boxes s) j (IR j eq_refl)) as [m G].
    exists AStep. cbn [step]. rewrite Ec, G. destruct (q m) as [|z r] eqn:Eq; eexists; (split; [reflexivity|]); (split; [reflexivity|]).
    + unfold work. cbn [boxes]. rewrite (work_upd _ j _ m G). cbn [q stat]. rewrite Eq.
      destruct (IB j m G) as [_ [_ B3]]. rewrite Ec in B3. destruct B3 as [_ B3]. rewrite (B3 eq_refl).
      unfold len. cbn. lia.
    + unfold work. cbn [boxes]. rewrite (work_upd _ j _ m G). cbn [q stat]. rewrite Eq.
      destruct (IB j m G) as [_ [_ B3]]. rewrite Ec in B3. destruct B3 as [_ B3]. rewrite (B3 eq_refl).
      unfold len. cbn [length]. lia.
  - destruct (chan s) as [|j r] eqn:Eh.
    + (* a mailbox waits for a slot, and there is room *)
      apply forallb_false_ex in Q. destruct Q as [m [Hm Fm]]. apply In_nth_error in Hm. destruct Hm as [i G].
      destruct (stat m) eqn:Sm; try discriminate.
      exists (ASched i). cbn [step]. fold (get (boxes s) i) in G. rewrite G, Sm, Eh. cbn [len length].
      eexists. split; [reflexivity|]. split; [reflexivity|].
      unfold work. cbn [boxes]. rewrite (work_upd _ i _ m G). cbn [q stat]. rewrite Sm. cbn. lia.
    + (* a task is queued *)
      assert (Lj : (j < length (boxes s))%nat) by (apply IN; try rewrite Eh; left; reflexivity).
      destruct (get_some (boxes s) j Lj) as [m G].
      exists ATake. cbn [step]. rewrite Ec, Eh, G. eexists. split; [reflexivity|]. split; [reflexivity|].
      unfold work. cbn [boxes]. rewrite (work_upd _ j _ m G). cbn [q stat].
      destruct (IB j m G) as [_ [B2 _]]. try rewrite Eh in B2. cbn [count_occ] in B2.
      destruct (Nat.eq_dec j j); [|congruence]. unfold qd in B2. destruct (stat m); try lia. cbn [w]. lia.
Qed.

(* from every reachable state the system, left alone, comes to rest - and at rest everything is
   handled: no further post is needed to wake anything *)
Lemma drains_aux : forall k s, (Z.to_nat (work s) <= k)%nat -> Inv s ->
  exists l, forallb (fun a => negb (is_post a)) l = true /\ quiescent (run s l) = true.
Proof.
  induction k as [|k IH]; intros s Hk I.
  - destruct (quiescent s) eqn:Q; [exists []; split; [reflexivity | exact Q]|].
    destruct (progress s I Q) as [a [s' [_ [_ W]]]]. pose proof (work_nonneg s'). lia.
  - destruct (quiescent s) eqn:Q; [exists []; split; [reflexivity | exact Q]|].
    destruct (progress s I Q) as [a [s' [Pa [Sa W]]]].
    pose proof (work_nonneg s') as W0.
    destruct (IH s') as [l [Pl Ql]]; [lia | eapply inv_step; eassumption |].
    exists (a :: l). split.
    + cbn [forallb]. rewrite Pa. exact Pl.
    + cbn [run]. rewrite Sa. exact Ql.
Qed.

Lemma drains s : Inv s ->
  exists l, forallb (fun a => negb (is_post a)) l = true /\ quiescent (run s l) = true.
Proof. intro I. eapply drains_aux; [apply Nat.le_refl | exact I]. Qed.

Lemma run_app l1 : forall s l2, run s (l1 ++ l2) = run (run s l1) l2.
Proof. induction l1 as [|a r IH]; intros s l2; cbn [app run]; [reflexivity | apply IH]. Qed.

Lemma reach_inv n l : Inv (run (init n) l).
Proof. apply inv_run. apply inv_init. Qed.

Lemma reach_quiescent_drained n l : quiescent (run (init n) l) = true ->
  forall i m, get (boxes (run (init n) l)) i = Some m -> log m = posted l i /\ q m = [] /\ stat m = MIdle.
Proof.
  intros Q i m G. destruct (quiescent_drained _ (reach_inv n l) Q i m G) as [S E].
  pose proof (reach_conserve n l i m G) as C. rewrite E, app_nil_r in C. auto.
Qed.

Lemma posted_app l1 l2 i : posted (l1 ++ l2) i = posted l1 i ++ posted l2 i.
Proof.
  induction l1 as [|a r IH]; cbn [app posted]; [reflexivity|].
  destruct a as [j z| | |]; try exact IH. destruct (Nat.eqb i j); [cbn [app]; f_equal|]; exact IH.
Qed.

Lemma posted_noposts l i : forallb (fun a => negb (is_post a)) l = true -> posted l i = [].
Proof.
  induction l as [|a r IH]; cbn [forallb posted]; [reflexivity|].
  destruct a; cbn [is_post negb]; try discriminate; intro H; apply IH; exact H.
Qed.

Lemma reach_never_stalls n l : exists l',
  forallb (fun a => negb (is_post a)) l' = true /\
  quiescent (run (init n) (l ++ l')) = true /\
  forall i m, get (boxes (run (init n) (l ++ l'))) i = Some m -> log m = posted l i.
Proof.
  destruct (drains _ (reach_inv n l)) as [l' [P Q]]. exists l'. split; [exact P|].
  rewrite run_app. split; [exact Q|]. intros i m G. rewrite <- run_app in G, Q.
  destruct (reach_quiescent_drained n (l ++ l') Q i m G) as [E _].
  rewrite E, posted_app, (posted_noposts l' i P), app_nil_r. reflexivity.
Qed.

Lemma reach_bounded n l : len (chan (run (init n) l)) <= CAP.
Proof. destruct (reach_inv n l) as [_ [IC _]]. exact IC. Qed.

Lemma reach_prefix n l i m : get (boxes (run (init n) l)) i = Some m -> prefix (log m) (posted l i).
Proof. intro G. exists (q m). symmetry. apply reach_conserve with (n := n). exact G. Qed.
