(* C09disp - many mailboxes on ONE dispatcher (actors spawned from the same service props share
   its scheDisp, actorex/disp/schedisp.go).

   Each mailbox is taken at the level C09's theorems give it (C09_single_run, C09_no_lost_wakeup,
   C09_once_in_order): it has at most one processing task outstanding, a post that finds it idle
   makes it schedule one, a run that ends with messages left makes it schedule again.  What is
   new here is the shared, BOUNDED hand-over: scheDisp.Schedule is a blocking send on chanTask
   (capacity 9) and the service goroutine is its only consumer.  The posters are other
   goroutines (the model's [Post] / [Sched] actions); a poster whose Schedule finds the channel
   full stays blocked - its mailbox "wants" a slot - until the consumer has taken a task.

   Atomic actions:
     APost i z   a poster appends z to mailbox i (PostUserMessage: queue push, counter);
                 if the mailbox was idle it has now won the idle->running CAS and must schedule
     ASched i    that schedule(): chanTask <- processMessages; enabled only while the channel
                 has room (otherwise the caller blocks, i.e. the action is not enabled)
     ATake       the service goroutine receives the next task from chanTask
     AStep       the service goroutine, inside processMessages of mailbox j: hands the next
                 message to the handler, or - queue empty - ends the run (mailbox idle)
                 / - handler "held" - does nothing (see [held]) *)
From Cell2V Require Import Common.Tac Common.ListX.

Definition CAP : Z := 9.

Inductive mstat := MIdle | MWants | MQueued | MRunning.

Record mbox := mkM { q : list Z; stat : mstat; log : list Z }.

Record st := mkSt {
  boxes : list mbox;
  chan : list nat;          (* chanTask: mailbox indices, oldest first *)
  cur : option nat;         (* the mailbox whose processMessages the service goroutine is in *)
}.

Inductive act := APost (i : nat) (z : Z) | ASched (i : nat) | ATake | AStep.

Definition len {A} (l : list A) : Z := Z.of_nat (length l).

Definition init (n : nat) : st := mkSt (repeat (mkM [] MIdle []) n) [] None.

Fixpoint upd (l : list mbox) (i : nat) (m : mbox) : list mbox :=
  match l, i with
  | [], _ => []
  | _ :: r, O => m :: r
  | x :: r, S k => x :: upd r k m
  end.

Definition get (l : list mbox) (i : nat) : option mbox := nth_error l i.

(* [None]: the action is not enabled (a blocked Schedule, an idle consumer with nothing queued ...) *)
Definition step (s : st) (a : act) : option st :=
  match a with
  | APost i z =>
      match get (boxes s) i with
      | Some m =>
          let st' := match stat m with MIdle => MWants | x => x end in
          Some (mkSt (upd (boxes s) i (mkM (q m ++ [z]) st' (log m))) (chan s) (cur s))
      | None => None
      end
  | ASched i =>
      match get (boxes s) i with
      | Some m =>
          match stat m with
          | MWants =>
              if len (chan s) <? CAP
              then Some (mkSt (upd (boxes s) i (mkM (q m) MQueued (log m))) (chan s ++ [i]) (cur s))
              else None
          | _ => None
          end
      | None => None
      end
  | ATake =>
      match cur s, chan s with
      | None, j :: r =>
          match get (boxes s) j with
          | Some m => Some (mkSt (upd (boxes s) j (mkM (q m) MRunning (log m))) r (Some j))
          | None => None
          end
      | _, _ => None
      end
  | AStep =>
      match cur s with
      | Some j =>
          match get (boxes s) j with
          | Some m =>
              match q m with
              | z :: r => Some (mkSt (upd (boxes s) j (mkM r MRunning (log m ++ [z]))) (chan s) (cur s))
              | [] => Some (mkSt (upd (boxes s) j (mkM [] MIdle (log m))) (chan s) None)
              end
          | None => None
          end
      | None => None
      end
  end.

(* a schedule is a list of actions; entries that are not enabled are skipped (the thread named
   could not move) *)
Fixpoint run (s : st) (l : list act) : st :=
  match l with
  | [] => s
  | a :: r => run (match step s a with Some s' => s' | None => s end) r
  end.

(* what was posted to mailbox i by a schedule, in order *)
Fixpoint posted (l : list act) (i : nat) : list Z :=
  match l with
  | [] => []
  | APost j z :: r => if Nat.eqb i j then z :: posted r i else posted r i
  | _ :: r => posted r i
  end.

(* nobody can move: no mailbox waits for a slot that exists, the consumer has nothing to do.
   (Posters are the environment: a state is judged once they have nothing more to post.) *)
Definition quiescent (s : st) : bool :=
  match cur s with
  | Some _ => false
  | None =>
      match chan s with
      | _ :: _ => false
      | [] => forallb (fun m => match stat m with MWants => false | _ => true end) (boxes s)
      end
  end.
