(* C09disp - property theorems: any number of mailboxes sharing ONE bounded dispatcher
   (scheDisp.chanTask, capacity 9; the service goroutine is its only consumer). *)
From Cell2V Require Import Common.Tac Common.ListX C09disp.Model C09disp.Spec C09disp.Proofs.

(* every reachable state, for every number of mailboxes and every schedule of posters, blocked
   Schedule calls and consumer steps *)
Theorem C09disp_invariant : forall n l, Inv (run (init n) l).
Proof. exact reach_inv. Qed.
Print Assumptions C09disp_invariant.

(* exactly once, in the order posted: what a mailbox has handled so far, followed by what is still
   queued in it, is exactly what was posted to it *)
Theorem C09disp_once_in_order : forall n l i m, get (boxes (run (init n) l)) i = Some m ->
  log m ++ q m = posted l i.
Proof. exact reach_conserve. Qed.
Print Assumptions C09disp_once_in_order.

Theorem C09disp_handled_is_prefix : forall n l i m, get (boxes (run (init n) l)) i = Some m ->
  prefix (log m) (posted l i).
Proof. exact reach_prefix. Qed.
Print Assumptions C09disp_handled_is_prefix.

(* never two at a time - across ALL mailboxes of the dispatcher: at most one is in a run, and it
   is the one the service goroutine is in; the hand-over channel never exceeds its capacity *)
Theorem C09disp_one_at_a_time : forall n l i k mi mk,
  get (boxes (run (init n) l)) i = Some mi -> get (boxes (run (init n) l)) k = Some mk ->
  stat mi = MRunning -> stat mk = MRunning -> i = k.
Proof. intros n l i k mi mk. apply one_running. apply reach_inv. Qed.
Print Assumptions C09disp_one_at_a_time.

Theorem C09disp_channel_bounded : forall n l, len (chan (run (init n) l)) <= CAP.
Proof. exact reach_bounded. Qed.
Print Assumptions C09disp_channel_bounded.

(* at rest nothing is left: every mailbox idle and empty, everything posted has been handled *)
Theorem C09disp_quiescent_drained : forall n l, quiescent (run (init n) l) = true ->
  forall i m, get (boxes (run (init n) l)) i = Some m -> log m = posted l i /\ q m = [] /\ stat m = MIdle.
Proof. exact reach_quiescent_drained. Qed.
Print Assumptions C09disp_quiescent_drained.

(* never stalls: from every reachable state the system comes to rest by itself - no further post
   is needed to wake anything, however many mailboxes were waiting for a slot - and then everything
   posted has been handled *)
Theorem C09disp_never_stalls : forall n l, exists l',
  forallb (fun a => negb (is_post a)) l' = true /\
  quiescent (run (init n) (l ++ l')) = true /\
  forall i m, get (boxes (run (init n) (l ++ l'))) i = Some m -> log m = posted l i.
Proof. exact reach_never_stalls. Qed.
Print Assumptions C09disp_never_stalls.

(* non-vacuity: 12 mailboxes; the service goroutine is inside mailbox 0's run when one message is
   posted to each of the other 11: nine tasks fill the channel, two posters stay blocked in
   Schedule; left alone the system handles all eleven *)
Definition ex_posts : list act := map (fun i => APost i (Z.of_nat i)) (seq 1 11).
Definition ex_scheds : list act := map ASched (seq 1 11).
Definition ex_held : list act := [APost 0 100; APost 0 101; ASched 0; ATake; AStep] ++ ex_posts ++ ex_scheds.
Definition ex_rest : list act := concat (repeat ([AStep; AStep; AStep; ATake] ++ ex_scheds) 14).

Example C09disp_example :
  let s := run (init 12) ex_held in
  len (chan s) = 9 /\ cur s = Some 0%nat /\
  length (filter (fun m => match stat m with MWants => true | _ => false end) (boxes s)) = 2%nat /\
  quiescent (run (init 12) (ex_held ++ ex_rest)) = true /\
  map log (boxes (run (init 12) (ex_held ++ ex_rest))) = [100; 101] :: map (fun i => [Z.of_nat i]) (seq 1 11).
Proof. vm_compute. repeat split. Qed.
