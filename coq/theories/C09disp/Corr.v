(* C09disp - correspondence entry point.  A case = n real mailboxes (mailbox.Producer) registered
   with ONE real scheDisp, and a script the driver executes in order:
     DHold i     post a message to mailbox i whose handler parks the service goroutine until DRelease
     DPost i z   post user message z to mailbox i (from that mailbox's own poster goroutine: the
                 post may block inside scheDisp.Schedule while chanTask is full)
     DRelease    let the held handler return
   then the driver waits until every post has returned and the counts are stable (or 3 s).
   The schedule of the real goroutines is not controlled: the theorems hold for every schedule, so
   the model's answer does not depend on it. *)
From Cell2V Require Import Common.Tac Common.ListX C09disp.Model C09disp.Spec.

Inductive dop := DHold (i : Z) | DPost (i z : Z) | DRelease.

Record ops := mkD { d_n : Z; d_script : list dop }.

Record obs := mkDObs {
  b_logs : list (list Z);     (* per mailbox: payloads in the order its handler saw them (a hold shows as -1) *)
  b_overlap : bool;           (* two handlers were inside InvokeUserMessage at the same time *)
  b_offloop : bool;           (* a handler ran on a goroutine other than the dispatcher's service goroutine *)
  b_stalled : bool;           (* not everything posted had been handled when the driver gave up *)
}.

Definition payload (o : dop) (i : Z) : list Z :=
  match o with
  | DHold j => if Z.eqb i j then [-1] else []
  | DPost j z => if Z.eqb i j then [z] else []
  | DRelease => []
  end.

Fixpoint zseq (k : nat) (i : Z) : list Z := match k with O => [] | S k' => i :: zseq k' (i + 1) end.

(* theorems C09disp_never_stalls + C09disp_quiescent_drained + C09disp_one_at_a_time: at rest every
   mailbox has handled exactly what was posted to it, in order; never two at a time *)
Definition run_d (o : ops) : obs :=
  mkDObs (map (fun i => flat_map (fun x => payload x i) (d_script o)) (zseq (Z.to_nat (d_n o)) 0))
         false false false.

Definition obs_eqb (a b : obs) : bool :=
  list_eqb zlist_eqb (b_logs a) (b_logs b) && Bool.eqb (b_overlap a) (b_overlap b)
  && Bool.eqb (b_offloop a) (b_offloop b) && Bool.eqb (b_stalled a) (b_stalled b).

Definition case := (ops * obs)%type.
Definition agree (c : case) : bool := obs_eqb (run_d (fst c)) (snd c).
(* the property's clauses and the model's answer coincide here *)
Definition monitor (c : case) : bool := agree c.

Definition disagreeing (cs : list case) : list Z := failing agree cs.
Definition monitor_failing (cs : list case) : list Z := failing monitor cs.
