(* C15 - correspondence entry point: executable comparison of the model's outputs with the
   implementation's observed outputs ([agree]), and the property monitor: the theorems'
   statements evaluated on the implementation's own trace, without the model ([monitor]). *)
From Cell2V Require Import Common.Tac Common.ListX Common.AList C15.Model C15.Spec.

Definition case := (list op * obs)%type.

Definition sevs_eqb := list_eqb sev_eqb.

Definition posts_eqb (a b : list (Z * list bool)) : bool :=
  list_eqb (pair_eqb Z.eqb (list_eqb Bool.eqb)) a b.

Definition is_conc (o : op) : bool :=
  match o with OConc _ _ | OConcN _ _ _ | OConcW _ _ | OConcS _ _ _ _ | OConcStop _ _ _ _ => true | _ => false end.

(* the events of chain number c of a concurrent-chain block must be exactly [spec] when all
   its tasks complete at most once (the harness fires every later callback) *)
Definition concw_ok (chains : list (list beh)) (l : list sev) : bool :=
  forallb (fun ct =>
             if forallb amo (snd ct)
             then list_eqb ev_eqb (chain_events (fst ct) l) (spec (snd ct))
             else true) (number_chains 0 chains).

(* shared task list under concurrency: each of the ns*rounds chains ran [spec tasks], no more,
   no less (every task of such a block completes exactly once), and nothing else was seen *)
Definition concs_ok (ns rounds : Z) (tasks : list beh) (l : list sev) : bool :=
  let n := (Z.to_nat ns * Z.to_nat rounds)%nat in
  forallb (fun c => list_eqb ev_eqb (chain_events (zn c) l) (spec tasks)) (seq 0 n)
  && forallb (fun e => match e with
                       | STask c _ _ | SFinal c _ _ => in_range 0 c (zn n)
                       | _ => false
                       end) l.

(* teardown with closures queued (C15_only_consumer_executes, C15_exactly_once: at most once,
   FIFO, nothing rejected runs): what ran of poster 0 is (0,0),(0,1),... - a prefix of its n
   closures, the rest was dropped with the consumer; every Post after Stop failed, in order;
   nothing else happened.  WHERE the closures ran (consumer goroutine, one at a time) is in
   the observation's goroutine flag. *)
Definition stop_ok (n k : Z) (l : list sev) : bool :=
  let ex := exec_events l in
  let fails := flat_map (fun e => match e with SPostFail p j => [(p, j)] | _ => [] end) l in
  forallb (fun e => match e with SExec _ _ | SPostFail _ _ => true | _ => false end) l
  && forallb (fun x => Z.eqb (fst x) 0) ex && fifo_ok 0 ex && Nat.leb (length ex) (Z.to_nat n)
  && list_eqb zz_eqb fails (map (fun j => (1, j)) (zseq 0 (Z.to_nat k))).

Definition conc_ok (o : op) (l : list sev) : bool :=
  match o with
  | OConc _ progs => accepts_conc progs l
  | OConcN _ np n => accepts_conc (uniform_progs np n) l
  | OConcW _ chains => concw_ok chains l
  | OConcS _ ns rd tasks => concs_ok ns rd tasks l
  | OConcStop _ _ n k => stop_ok n k l
  | _ => true
  end.

(* per-op observations: equality with the model, except concurrent blocks, whose order across
   posters / chains is not determined: there the executable acceptor decides *)
Fixpoint per_agree (ops : list op) (m i : list (list sev)) : bool :=
  match ops, m, i with
  | [], [], [] => true
  | o :: r, em :: mr, ei :: ir =>
      (if is_conc o then conc_ok o ei else sevs_eqb em ei) && per_agree r mr ir
  | _, _, _ => false
  end.

Definition agree (c : case) : bool :=
  match run (fst c), snd c with
  | BInvalid, BInvalid => true
  | Obs pm dm qm gm em, Obs pi di qi gi ei =>
      per_agree (fst c) pm pi && sevs_eqb dm di && posts_eqb qm qi
      && Bool.eqb gm gi && Bool.eqb em ei
  | _, _ => false
  end.

(* ------------------------------------------------------------------ monitor *)

Fixpoint script_events (ops : list op) (per : list (list sev)) : list sev :=
  match ops, per with
  | o :: r, e :: pr => (if is_conc o then [] else e) ++ script_events r pr
  | _, _ => []
  end.

Definition posts_by (p : Z) (ops : list op) : nat :=
  fold_right (fun o a => (match o with
                          | OPost q _ => if Z.eqb p q then 1 else 0
                          | OPostN q n => if Z.eqb p q then Z.to_nat n else 0
                          | _ => 0
                          end + a)%nat) O ops.

Fixpoint before_stop (ops : list op) : list op :=
  match ops with
  | [] => []
  | OStop :: _ => []
  | o :: r => o :: before_stop r
  end.

Definition results_of (p : Z) (posts : list (Z * list bool)) : list bool :=
  match find (fun x => Z.eqb (fst x) p) posts with Some x => snd x | None => [] end.

Definition poster_ids : list Z := map zn (seq 0 nposters).

(* first declaration of a chain id wins, as in the harness *)
Inductive ckind := KSche | KSimple | KWait.

Definition ckind_of (r : Z) : ckind := if r <? 2 then KSche else if r =? 2 then KSimple else KWait.

(* [ls]: the shared lists declared so far (first declaration wins); a chain over a shared list
   is held to the same standard as a chain over a list of its own *)
Fixpoint chains_of (ops : list op) (seen : list Z) (ls : list (Z * list beh)) : list (Z * (ckind * list beh)) :=
  match ops with
  | [] => []
  | OList l t :: r => chains_of r seen (if zmem l (map fst ls) then ls else (l, t) :: ls)
  | o :: r =>
      match match o with
            | OChain c t | OChainB c t => Some (c, (KSche, t))
            | OSimple c t => Some (c, (KSimple, t))
            | OWait c t => Some (c, (KWait, t))
            | OShare c l k =>
                match find (fun x => Z.eqb (fst x) l) ls with
                | Some x => Some (c, (ckind_of k, snd x))
                | None => None
                end
            | _ => None
            end with
      | Some (c, kt) => if zmem c seen then chains_of r seen ls else (c, kt) :: chains_of r (c :: seen) ls
      | None => chains_of r seen ls
      end
  end.

Definition task_seen (c i : Z) (l : list sev) : bool :=
  existsb (fun e => match e with STask d j _ => Z.eqb c d && Z.eqb i j | _ => false end) l.

(* (chain, task, k) of the OFire ops issued after the task had been invoked *)
Fixpoint fired (ops : list op) (per : list (list sev)) (seen : list sev) : list (Z * Z * Z) :=
  match ops, per with
  | o :: r, e :: pr =>
      match o with
      | OFire c i k => if task_seen c i seen then [(c, i, k)] else []
      | _ => []
      end ++ fired r pr (seen ++ (if is_conc o then [] else e))
  | _, _ => []
  end.

Definition was_fired (c i : Z) (f : list (Z * Z * Z)) : bool :=
  existsb (fun x => Z.eqb (fst (fst x)) c && Z.eqb (snd (fst x)) i && Z.eqb (snd x) 0) f.

(* every task invoked in [l] completed exactly once in this script *)
Definition all_completed (c : Z) (tasks : list beh) (f : list (Z * Z * Z)) (l : list ev) : bool :=
  forallb (fun e => match e with
                    | ETask i _ =>
                        match nth_error tasks i with
                        | Some (Beh [_] [] _) => true
                        | Some (Beh [] [_] _) => was_fired c (zn i) f
                        | _ => false
                        end
                    | EFinal _ _ => true
                    end) l.

Definition no_invoked_panic (tasks : list beh) (l : list ev) : bool :=
  invoked_all (fun b => match b with Beh _ _ p => negb p end) tasks l.

Definition has_ret (c : Z) (all : list sev) : bool :=
  existsb (fun e => match e with SRet d => Z.eqb c d | _ => false end) all.

(* per chain: the log is a prefix of the history function when every invoked task completed
   at most once, and equal to it (final exactly once) when every invoked task completed
   exactly once - for the scheduler variant unless the scheduler was stopped, for ExecAndWait
   unless a task panicked (the panic leaves ExecAndWait: no recover there).  ExecAndWait
   returned iff final ran. *)
Definition chain_ok (stop : bool) (f : list (Z * Z * Z)) (all : list sev) (ct : Z * (ckind * list beh)) : bool :=
  let c := fst ct in
  let k := fst (snd ct) in
  let tasks := snd (snd ct) in
  let evs := chain_events c all in
  if invoked_all amo tasks evs then
    prefixb ev_eqb evs (spec tasks)
    && (let live := match k with
                    | KSche => negb stop
                    | KSimple => true
                    | KWait => no_invoked_panic tasks evs
                    end in
        if live && all_completed c tasks f evs
        then list_eqb ev_eqb evs (spec tasks)
             && match k with KWait => has_ret c all | _ => true end
        else true)
    && match k with
       | KWait => if has_ret c all then Nat.eqb (finals_in evs) 1 else true
       | _ => negb (has_ret c all)
       end
  else true.     (* a task completed twice: outside the property *)

Definition declared (cs : list (Z * (ckind * list beh))) (e : sev) : bool :=
  match e with
  | SExec _ _ | SMgr _ | SId _ => true
  | SPostFail _ _ | SBad _ => false
  | STask c _ _ | SFinal c _ _ | SRet c | SEsc c | SHang c => zmem c (map fst cs)
  end.

(* registry: GetSche(n) returns the scheduler of the previous GetSche(n) unless DelSche(n)
   came in between; otherwise one never seen before *)
Fixpoint mgr_ok (ops : list op) (per : list (list sev)) (reg : list (Z * Z)) (seen : list Z) : bool :=
  match ops, per with
  | o :: r, e :: pr =>
      match o with
      | OMgrGet n =>
          match filter (fun x => match x with SMgr _ => true | _ => false end) e with
          | [SMgr id] =>
              match find (fun x => Z.eqb (fst x) n) reg with
              | Some x => Z.eqb (snd x) id && mgr_ok r pr reg seen
              | None => negb (zmem id seen) && mgr_ok r pr ((n, id) :: reg) (id :: seen)
              end
          | _ => false
          end
      | OMgrDel n => mgr_ok r pr (filter (fun x => negb (Z.eqb (fst x) n)) reg) seen
      | _ => mgr_ok r pr reg seen
      end
  | _, _ => true
  end.

Fixpoint conc_blocks_ok (ops : list op) (per : list (list sev)) : bool :=
  match ops, per with
  | [], [] => true
  | o :: r, e :: pr => conc_ok o e && conc_blocks_ok r pr
  | _, _ => false
  end.

Definition monitor_obs (ops : list op) (per : list (list sev)) (dr : list sev)
           (posts : list (Z * list bool)) (gor esc : bool) : bool :=
  let all := script_events ops per ++ dr in
  let ex := exec_events all in
  let stop := has_stop ops in
  let cs := chains_of ops [] [] in
  gor && negb esc
  && conc_blocks_ok ops per
  && forallb (declared cs) all
  (* at most once; per-poster FIFO without gaps; only accepted closures run *)
  && zz_nodup ex
  && forallb (fun p => fifo_ok p ex) poster_ids
  && forallb (fun x => nth (Z.to_nat (snd x)) (results_of (fst x) posts) false) ex
  (* Post results: one per call; never stopped => all accepted and all executed;
     stopped => every Post issued after Stop failed *)
  && forallb (fun p =>
        let res := results_of p posts in
        Nat.eqb (length res) (posts_by p ops)
        && (if stop
            then forallb negb (skipn (posts_by p (before_stop ops)) res)
            else forallb (fun b => b) res
                 && Nat.eqb (length (filter (fun x => Z.eqb (fst x) p) ex)) (posts_by p ops)))
       poster_ids
  && forallb (chain_ok stop (fired ops per []) all) cs
  && mgr_ok ops per [] [].

Definition monitor (c : case) : bool :=
  match snd c with
  | BInvalid => negb (valid (fst c))
  | Obs per dr posts gor esc => valid (fst c) && monitor_obs (fst c) per dr posts gor esc
  end.

Definition disagreeing (cs : list case) : list Z := failing agree cs.
Definition monitor_failing (cs : list case) : list Z := failing monitor cs.
