(* C15 - model of utils/sche (Sche.Post / doTask / Handler / Stop) and of
   utils/waterfall (Chain, waterfall.Sche).  No proofs in this file.

   Part 1  scheduler as an interleaving transition system
     Go                                         model
     Sche.chanTask  make(chan *RunTask, 999)     [queue] FIFO, capacity [cap] = 999
     s.chanTask <- t   (blocking send)           [chan_send]: enabled iff not full; panics when closed
     Post's deferred recover                     [post]: a send panic becomes the result nil
     Stop()  close(chanTask); close(chanClose)   [TStop]  (called at most once - a second call
                                                 panics in Go; assumption)
     Handler(): select {chanTask -> DoTask | chanClose -> return}
                                                 [TCons] takes the head and runs it under recover;
                                                 [TExit] enabled once stopped (select may pick either)
     doTask's deferred recover                   [do_task]: a closure panic does not leave doTask
   Part 2  waterfall.Chain {cursor; tasks; final} driven by callback items that
     waterfall.Sche re-posts into the scheduler; the scheduler is the FIFO [cq].
   Part 3  deterministic script drivers used by the correspondence run (Corr.v). *)
From Cell2V Require Import Common.Tac Common.ListX Common.AList.

(* ------------------------------------------------------------------ Part 1 *)

Definition cap : nat := 999.              (* sche.QueueSize *)

(* What a closure panics WITH.  recover() hands the value to doTask's deferred handler as an
   interface{}; the handler only formats it ("%v"; fmt itself catches a panicking Error() /
   String() method) and logs the stack.  The dynamic type matters to anything that would do
   more with it (comparing two interface values of the same non-comparable type panics):
     comparable      PString "..."   PErrorPtr errors.New   PInt 42   PErrStruct (struct error)
                     PNilDeref / PIndex (runtime.Error from a real nil dereference / index)
                     PNil  panic(nil) (a *runtime.PanicNilError since Go 1.21)
                     PBadError / PBadStringer  (pointer whose Error() / String() panics)
     not comparable  PSliceErr (named slice type with Error(), like validator.ValidationErrors)
                     PRawSlice []int   PMap map[string]int   PStructSlice struct{Code; Args []interface{}}
                     PFunc func()      PArrOfSlice [1][]int *)
Inductive pval :=
| PString | PErrorPtr | PInt | PErrStruct | PNilDeref | PIndex | PNil | PBadError | PBadStringer
| PSliceErr | PRawSlice | PMap | PStructSlice | PFunc | PArrOfSlice.

(* what a posted closure does when it runs; KPanic = panic("a string") *)
Inductive kind := KOk | KPanic | KPanicV (v : pval).
Definition cid := (nat * nat)%type.       (* poster thread, sequence number of the Post call *)
Definition item := (cid * kind)%type.

Inductive res := ROk | RPanic.            (* how a piece of Go code terminates *)

Definition run_closure (k : kind) : res :=
  match k with KOk => ROk | KPanic | KPanicV _ => RPanic end.

(* doTask: defer func(){ recover() }(); t.cb() *)
Definition do_task (k : kind) : res :=
  match run_closure k with
  | ROk => ROk
  | RPanic => ROk                         (* recovered and logged *)
  end.

Inductive send_res := SendOk (q : list item) | SendBlock | SendPanic.

(* Go channel send on a buffered channel *)
Definition chan_send (q : list item) (closed : bool) (it : item) : send_res :=
  if closed then SendPanic
  else if Nat.ltb (length q) cap then SendOk (q ++ [it]) else SendBlock.

Inductive post_res := PostTask | PostNil | PostBlocked | PostPanic.

(* Sche.Post with selfBlockDefend = false *)
Definition post (q : list item) (closed : bool) (it : item) : post_res * list item :=
  match chan_send q closed it with
  | SendOk q' => (PostTask, q')
  | SendBlock => (PostBlocked, q)
  | SendPanic => (PostNil, q)             (* deferred recover: result is the zero value nil *)
  end.

Record poster := mkP { p_next : nat; p_rest : list kind }.

Record st := mkSt {
  queue : list item;
  stopped : bool;
  stop_pending : bool;                    (* a thread that will call Stop exists and has not yet *)
  alive : bool;                           (* the consumer loop is still running *)
  posters : list poster;
  executed : list item;                   (* execution log, in order *)
  accepted : list cid;                    (* ghost: Post returned the task, in order *)
  rejected : list cid;                    (* ghost: Post returned nil *)
  escaped : bool                          (* ghost: a panic left Post or the consumer loop *)
}.

Inductive tid := TPost (i : nat) | TCons | TStop | TExit.

Fixpoint set_nth {A} (n : nat) (x : A) (l : list A) : list A :=
  match l, n with
  | [], _ => []
  | _ :: r, O => x :: r
  | y :: r, S m => y :: set_nth m x r
  end.

Definition tstep (s : st) (t : tid) : option st :=
  match t with
  | TPost i =>
      match nth_error (posters s) i with
      | Some (mkP n (k :: r)) =>
          let c := (i, n) in
          let ps := set_nth i (mkP (S n) r) (posters s) in
          match post (queue s) (stopped s) (c, k) with
          | (PostTask, q') =>
              Some (mkSt q' (stopped s) (stop_pending s) (alive s) ps (executed s)
                         (accepted s ++ [c]) (rejected s) (escaped s))
          | (PostNil, _) =>
              Some (mkSt (queue s) (stopped s) (stop_pending s) (alive s) ps (executed s)
                         (accepted s) (rejected s ++ [c]) (escaped s))
          | (PostBlocked, _) => None
          | (PostPanic, _) =>
              Some (mkSt (queue s) (stopped s) (stop_pending s) (alive s) ps (executed s)
                         (accepted s) (rejected s) true)
          end
      | _ => None
      end
  | TCons =>
      if alive s then
        match queue s with
        | it :: q' =>
            match do_task (snd it) with
            | ROk => Some (mkSt q' (stopped s) (stop_pending s) true (posters s)
                                (executed s ++ [it]) (accepted s) (rejected s) (escaped s))
            | RPanic => Some (mkSt q' (stopped s) (stop_pending s) false (posters s)
                                   (executed s ++ [it]) (accepted s) (rejected s) true)
            end
        | [] => None
        end
      else None
  | TStop =>
      if stop_pending s then
        Some (mkSt (queue s) true false (alive s) (posters s) (executed s)
                   (accepted s) (rejected s) (escaped s))
      else None
  | TExit =>
      if stopped s && alive s then
        Some (mkSt (queue s) true (stop_pending s) false (posters s) (executed s)
                   (accepted s) (rejected s) (escaped s))
      else None
  end.

Definition init (progs : list (list kind)) (with_stop : bool) : st :=
  mkSt [] false with_stop true (map (mkP 0) progs) [] [] [] false.

Definition step_or_stay (s : st) (t : tid) : st :=
  match tstep s t with Some s' => s' | None => s end.

(* a schedule is a list of thread ids; entries that are not enabled are skipped *)
Definition run_sched (s : st) (sched : list tid) : st := fold_left step_or_stay sched s.

Definition reachable (progs : list (list kind)) (ws : bool) (s : st) : Prop :=
  exists sched, s = run_sched (init progs ws) sched.

Definition quiescent (s : st) : Prop := forall t, tstep s t = None.

(* forgetting what closures panic with (Proofs.v: [tstep] commutes with it) *)
Definition kerase (k : kind) : kind := match k with KOk => KOk | _ => KPanic end.
Definition item_erase (it : item) : item := (fst it, kerase (snd it)).
Definition poster_erase (p : poster) : poster := mkP (p_next p) (map kerase (p_rest p)).
Definition st_erase (s : st) : st :=
  mkSt (map item_erase (queue s)) (stopped s) (stop_pending s) (alive s) (map poster_erase (posters s))
       (map item_erase (executed s)) (accepted s) (rejected s) (escaped s).

(* ------------------------------------------------------------------ Part 1i *)
(* Task ids.  Post builds  t := &RunTask{id: runtaskidservice.AllocId(), cb: cb}  BEFORE the
   channel send.  AllocId is  atomic.AddUint32(&s.nextId, 1)  on ONE process-wide counter
   (initial value 1) without any wrap handling: the id is the new counter value in uint32
   arithmetic, so after 4294967295 comes 0.  DoTask(t) = doTask(t) runs t.cb under recover and
   never looks at t.id.
     Go                                           model
     runtaskidservice.nextId (uint32)             [i_ctr]
     AllocId()                                    [alloc_id]: (next + 1) mod 2^32
     a poster between AllocId and the send        [i_held] (it keeps its RunTask while blocked)
     RunTask.id of a queued task                  [i_qids], parallel to [queue]
     DoTask(t)                                    [do_task_t]
   [istep] is [tstep] with this bookkeeping added; [IAlloc i] lets poster i run AllocId at any
   earlier moment than its send, so ids need not enter the queue in allocation order. *)

Definition two32 : Z := 4294967296.
Definition wrap32 (z : Z) : Z := z mod two32.

Definition alloc_id (next : Z) : Z := wrap32 (next + 1).

Record runtask := mkT { t_id : Z; t_item : item }.

(* Sche.DoTask(t) { s.doTask(t) } *)
Definition do_task_t (t : runtask) : res := do_task (snd (t_item t)).

Inductive ilabel := IAlloc (i : nat) | IStep (t : tid).

Record ist := mkI {
  i_st : st;
  i_ctr : Z;
  i_held : list (nat * Z);                (* poster, id of the RunTask it built and has not sent yet *)
  i_qids : list Z;
  i_xids : list (cid * Z);                (* execution log with the id of the RunTask that was run *)
  i_given : list (cid * Z)                (* ghost: Post call, id allocated for it; allocation order *)
}.

Definition held_of (i : nat) (h : list (nat * Z)) : option Z :=
  match find (fun x => Nat.eqb (fst x) i) h with Some x => Some (snd x) | None => None end.

Definition unhold (i : nat) (h : list (nat * Z)) : list (nat * Z) :=
  filter (fun x => negb (Nat.eqb (fst x) i)) h.

(* the Post call poster i makes next *)
Definition next_cid (s : st) (i : nat) : option cid :=
  match nth_error (posters s) i with
  | Some (mkP n (_ :: _)) => Some (i, n)
  | _ => None
  end.

Definition i_alloc (s : ist) (i : nat) : option ist :=
  match held_of i (i_held s), next_cid (i_st s) i with
  | None, Some c =>
      let id := alloc_id (i_ctr s) in
      Some (mkI (i_st s) id (i_held s ++ [(i, id)]) (i_qids s) (i_xids s) (i_given s ++ [(c, id)]))
  | _, _ => None
  end.

Definition istep (s : ist) (l : ilabel) : option ist :=
  match l with
  | IAlloc i => i_alloc s i
  | IStep (TPost i) =>
      let s1 := match i_alloc s i with Some s' => s' | None => s end in
      match held_of i (i_held s1) with
      | None => None                      (* poster i has nothing left to post *)
      | Some id =>
          match tstep (i_st s1) (TPost i) with
          | None => Some s1               (* blocked in the send, RunTask in hand *)
          | Some st' =>
              Some (mkI st' (i_ctr s1) (unhold i (i_held s1))
                        (if stopped (i_st s1) then i_qids s1 else i_qids s1 ++ [id])
                        (i_xids s1) (i_given s1))
          end
      end
  | IStep TCons =>
      (* t := <-chanTask; DoTask(t): [tstep _ TCons] runs [do_task] of the head's closure, which
         is [do_task_t] of the RunTask (t.id plays no part) *)
      match tstep (i_st s) TCons with
      | Some st' =>
          let ran := match queue (i_st s), i_qids s with
                     | it :: _, id :: _ => [(fst it, t_id (mkT id it))]
                     | _, _ => []
                     end in
          Some (mkI st' (i_ctr s) (i_held s) (tl (i_qids s)) (i_xids s ++ ran) (i_given s))
      | None => None
      end
  | IStep t =>
      match tstep (i_st s) t with
      | Some st' => Some (mkI st' (i_ctr s) (i_held s) (i_qids s) (i_xids s) (i_given s))
      | None => None
      end
  end.

(* [c0]: ANY value of the process-wide counter when this scheduler starts to be used *)
Definition iinit (progs : list (list kind)) (with_stop : bool) (c0 : Z) : ist :=
  mkI (init progs with_stop) c0 [] [] [] [].

Definition istep_or_stay (s : ist) (l : ilabel) : ist :=
  match istep s l with Some s' => s' | None => s end.

Definition irun (s : ist) (ls : list ilabel) : ist := fold_left istep_or_stay ls s.

(* forgetting the ids: what is left of an id-annotated schedule *)
Definition erase (ls : list ilabel) : list tid :=
  flat_map (fun l => match l with IStep t => [t] | IAlloc _ => [] end) ls.

(* ------------------------------------------------------------------ Part 2 *)

Definition cb := (bool * list Z)%type.    (* one callback invocation: err flag, results *)

(* What a task does when invoked: calls its callback synchronously for every entry of
   [inl], hands its callback to the environment for every entry of [lat] (each may be
   invoked later from another goroutine), then returns - or panics if [pan].
     sync ok r = Beh [(false,r)] [] false     sync error = Beh [(true,r)] [] false
     later     = Beh [] [(e,r)] false         never      = Beh [] [] false
     twice     = Beh [c1;c2] [] false  etc. *)
Inductive beh := Beh (il lt : list cb) (pan : bool).

Definition completions (b : beh) : list cb :=
  match b with Beh il lt _ => il ++ lt end.

Inductive ev := ETask (i : nat) (args : list Z) | EFinal (err : bool) (args : list Z).

(* closures that waterfall.Sche posts: the initial tryExec(0) and invokeCallback(err,args) *)
Inductive citem := IStart | ICb (err : bool) (args : list Z).

Record cst := mkC {
  cursor : nat;
  cq : list citem;                        (* posted, not yet run (FIFO: the scheduler) *)
  pool : list ((nat * nat) * cb);         (* callbacks held by the environment: (task, k-th) *)
  clog : list ev
}.

Fixpoint number (i k : nat) (l : list cb) : list ((nat * nat) * cb) :=
  match l with [] => [] | c :: r => ((i, k), c) :: number i (S k) r end.

Definition item_of (c : cb) : citem := ICb (fst c) (snd c).

(* Chain.tryExec *)
Definition exec_at (tasks : list beh) (s : cst) (i : nat) (args : list Z) : cst :=
  match nth_error tasks i with
  | Some (Beh il lt _) =>
      mkC (cursor s) (cq s ++ map item_of il) (pool s ++ number i 0 lt) (clog s ++ [ETask i args])
  | None => mkC (cursor s) (cq s) (pool s) (clog s ++ [EFinal false args])
  end.

(* the body of a posted chain closure, run by the consumer *)
Definition run_item (tasks : list beh) (s : cst) (it : citem) : cst :=
  match it with
  | IStart => exec_at tasks s 0 []
  | ICb true args => mkC (cursor s) (cq s) (pool s) (clog s ++ [EFinal true args])
  | ICb false args =>
      let s1 := mkC (S (cursor s)) (cq s) (pool s) (clog s) in
      exec_at tasks s1 (S (cursor s)) args
  end.

Definition key_eqb (a b : nat * nat) : bool := Nat.eqb (fst a) (fst b) && Nat.eqb (snd a) (snd b).

Fixpoint take_pool (k : nat * nat) (p : list ((nat * nat) * cb)) : option (cb * list ((nat * nat) * cb)) :=
  match p with
  | [] => None
  | (k', c) :: r =>
      if key_eqb k k' then Some (c, r)
      else match take_pool k r with
           | Some (c', r') => Some (c', (k', c) :: r')
           | None => None
           end
  end.

Inductive clabel := LCons | LFire (i k : nat).

Definition cstep (tasks : list beh) (s : cst) (l : clabel) : option cst :=
  match l with
  | LCons =>
      match cq s with
      | it :: q => Some (run_item tasks (mkC (cursor s) q (pool s) (clog s)) it)
      | [] => None
      end
  | LFire i k =>
      match take_pool (i, k) (pool s) with
      | Some (c, p') => Some (mkC (cursor s) (cq s ++ [item_of c]) p' (clog s))
      | None => None
      end
  end.

Definition cinit : cst := mkC 0 [IStart] [] [].

Definition cstep_or_stay (tasks : list beh) (s : cst) (l : clabel) : cst :=
  match cstep tasks s l with Some s' => s' | None => s end.

Definition crun (tasks : list beh) (ls : list clabel) : cst :=
  fold_left (cstep_or_stay tasks) ls cinit.

(* ------------------------------------------------------------------ Part 2s *)
(* Shared task lists.  Chain.tasks is NOT a copy: it is the slice header the caller handed to
   waterfall.Sche (Builder.Do passes b.tasks), so its backing array is shared with the caller
   and with every other chain started over the same slice / the same prepared Builder -
   one after the other or at the same time.  tryExec / invokeTask READ c.tasks[index] at the
   moment of the call and nothing in the package writes to it.
     the caller's task slices (backing arrays)    [sh_mem], addressed by position
     a chain: (which slice it was given, state)   [sh_chains], numbered in start order
   [cstep_mem] is [cstep] with the array threaded through: it returns what the step leaves in
   the array (today: what it found). *)

Definition cstep_mem (mem : list beh) (s : cst) (l : clabel) : option (list beh * cst) :=
  match cstep mem s l with Some s' => Some (mem, s') | None => None end.

Record shst := mkSh { sh_mem : list (list beh); sh_chains : list (nat * cst) }.

Inductive shlabel :=
| ShStart (l : nat)                       (* waterfall.Sche(sche, lists[l], final) *)
| ShStep (c : nat) (lab : clabel).        (* chain c: the consumer runs one of its closures / the environment completes a task *)

Definition shstep (s : shst) (l : shlabel) : option shst :=
  match l with
  | ShStart l => Some (mkSh (sh_mem s) (sh_chains s ++ [(l, cinit)]))
  | ShStep c lab =>
      match nth_error (sh_chains s) c with
      | Some (l, cs) =>
          match cstep_mem (nth l (sh_mem s) []) cs lab with
          | Some (m', cs') => Some (mkSh (set_nth l m' (sh_mem s)) (set_nth c (l, cs') (sh_chains s)))
          | None => None
          end
      | None => None
      end
  end.

Definition shstep_or_stay (s : shst) (l : shlabel) : shst :=
  match shstep s l with Some s' => s' | None => s end.

Definition shrun (mem : list (list beh)) (ls : list shlabel) : shst :=
  fold_left shstep_or_stay ls (mkSh mem []).


(* ------------------------------------------------------------------ Part 2b *)
(* waterfall.Simple (with the empty-chain fix): no scheduler.  The callback runs the next
   task (or final) INLINE, nested inside the task that called it, on whatever goroutine calls
   the callback; there is no recover, so a panic unwinds through every enclosing task to the
   caller of Simple / of the callback.  Big-step evaluator; [fuel] bounds the nesting depth
   (Proofs.v: [S (length tasks)] is always enough, [XFuel] is never returned). *)

Inductive xres := XOk | XPanic | XFuel.

Record xst := mkX {
  x_started : bool;
  x_cursor : nat;
  x_pool : list ((nat * nat) * cb);
  x_log : list ev
}.

Definition x_logev (s : xst) (e : ev) : xst :=
  mkX (x_started s) (x_cursor s) (x_pool s) (x_log s ++ [e]).

(* the task body's synchronous callback calls, in order; [rec s i a] is exec(i, a) *)
Fixpoint x_calls (rec : xst -> nat -> list Z -> xst * xres) (s : xst) (l : list cb) : xst * xres :=
  match l with
  | [] => (s, XOk)
  | (true, a) :: l' => x_calls rec (x_logev s (EFinal true a)) l'
  | (false, a) :: l' =>
      let s1 := mkX (x_started s) (S (x_cursor s)) (x_pool s) (x_log s) in
      match rec s1 (S (x_cursor s)) a with
      | (s2, XOk) => x_calls rec s2 l'
      | (s2, r) => (s2, r)                (* the panic unwinds through this task too *)
      end
  end.

(* exec(i, args) when i < size, final(false, args) otherwise (gonext's test; for i = 0 the
   added size check) *)
Fixpoint x_exec (fuel : nat) (tasks : list beh) (s : xst) (i : nat) (args : list Z) : xst * xres :=
  match fuel with
  | O => (s, XFuel)
  | S f =>
      match nth_error tasks i with
      | None => (x_logev s (EFinal false args), XOk)
      | Some (Beh il lt pan) =>
          match x_calls (x_exec f tasks) (x_logev s (ETask i args)) il with
          | (s2, XOk) =>
              (mkX (x_started s2) (x_cursor s2) (x_pool s2 ++ number i 0 lt) (x_log s2),
               if pan then XPanic else XOk)
          | (s2, r) => (s2, r)
          end
      end
  end.

Inductive xlabel := XStart | XFire (i k : nat).

Definition x_fuel (tasks : list beh) : nat := S (length tasks).

(* one top-level call: Simple(tasks, final) itself, or a callback invoked by the environment;
   the result is what the calling goroutine sees (XPanic: the panic reaches it) *)
Definition x_step (tasks : list beh) (s : xst) (l : xlabel) : option (xst * xres) :=
  match l with
  | XStart =>
      if x_started s then None
      else Some (x_exec (x_fuel tasks) tasks (mkX true (x_cursor s) (x_pool s) (x_log s)) 0 [])
  | XFire i k =>
      match take_pool (i, k) (x_pool s) with
      | None => None
      | Some ((true, a), p') => Some (x_logev (mkX (x_started s) (x_cursor s) p' (x_log s)) (EFinal true a), XOk)
      | Some ((false, a), p') =>
          Some (x_exec (x_fuel tasks) tasks (mkX (x_started s) (S (x_cursor s)) p' (x_log s)) (S (x_cursor s)) a)
      end
  end.

Definition x_init : xst := mkX false 0 [] [].

Definition x_step_or_stay (tasks : list beh) (sr : xst * list xres) (l : xlabel) : xst * list xres :=
  match x_step tasks (fst sr) l with
  | Some (s', r) => (s', snd sr ++ [r])
  | None => sr
  end.

Definition x_run (tasks : list beh) (ls : list xlabel) : xst * list xres :=
  fold_left (x_step_or_stay tasks) ls (x_init, []).

(* ------------------------------------------------------------------ Part 2c *)
(* waterfall.ExecAndWait (with the empty-chain fix).  The CALLER goroutine runs every task and
   final itself: callbacks (from any goroutine) only store curArgs / curErr and send a token
   into chanNext (capacity 1); the caller loops receiving tokens and returns after final ran
   and closed the channel.  No recover: a task panic leaves ExecAndWait. *)

Inductive token := TNext | TFinal.
Inductive estatus := ENotStarted | ELooping | EReturned | ECallerPanic | ECallerStuck.

Record est := mkE {
  e_status : estatus;
  e_cursor : nat;
  e_chan : list token;                    (* buffered tokens (capacity 1) *)
  e_blocked : list token;                 (* environment goroutines blocked in the send *)
  e_closed : bool;
  e_args : list Z;                        (* curArgs *)
  e_err : bool;                           (* curErr *)
  e_pool : list ((nat * nat) * cb);
  e_log : list ev;
  e_envpanics : nat                       (* environment goroutines that panicked (send on closed) *)
}.

Definition e_set_status (s : est) (st : estatus) : est :=
  mkE st (e_cursor s) (e_chan s) (e_blocked s) (e_closed s) (e_args s) (e_err s) (e_pool s) (e_log s) (e_envpanics s).

Definition e_logev (s : est) (e : ev) : est :=
  mkE (e_status s) (e_cursor s) (e_chan s) (e_blocked s) (e_closed s) (e_args s) (e_err s) (e_pool s)
      (e_log s ++ [e]) (e_envpanics s).

(* gonext(args) / gofinal(err, args): store, then send *)
Definition e_store (s : est) (c : cb) : est * token :=
  if fst c
  then (mkE (e_status s) (e_cursor s) (e_chan s) (e_blocked s) (e_closed s) (snd c) true (e_pool s) (e_log s) (e_envpanics s), TFinal)
  else (mkE (e_status s) (e_cursor s) (e_chan s) (e_blocked s) (e_closed s) (snd c) (e_err s) (e_pool s) (e_log s) (e_envpanics s), TNext).

Definition e_put (s : est) (t : token) : est :=
  mkE (e_status s) (e_cursor s) (e_chan s ++ [t]) (e_blocked s) (e_closed s) (e_args s) (e_err s) (e_pool s) (e_log s) (e_envpanics s).

(* a send made by the caller goroutine itself: on a full buffer nobody is left to receive *)
Definition e_csend (s : est) (c : cb) : est :=
  let '(s1, t) := e_store s c in
  if e_closed s1 then e_set_status s1 ECallerPanic
  else match e_chan s1 with
       | [] => e_put s1 t
       | _ :: _ => e_set_status s1 ECallerStuck
       end.

(* a send made by an environment goroutine *)
Definition e_esend (s : est) (c : cb) : est :=
  let '(s1, t) := e_store s c in
  if e_closed s1 then
    mkE (e_status s1) (e_cursor s1) (e_chan s1) (e_blocked s1) true (e_args s1) (e_err s1) (e_pool s1) (e_log s1) (S (e_envpanics s1))
  else match e_chan s1 with
       | [] => e_put s1 t
       | _ :: _ => mkE (e_status s1) (e_cursor s1) (e_chan s1) (e_blocked s1 ++ [t]) false (e_args s1) (e_err s1) (e_pool s1) (e_log s1) (e_envpanics s1)
       end.

Definition e_running (s : est) : bool := match e_status s with ELooping => true | _ => false end.

(* tasks[i](callback, args) on the caller goroutine *)
Definition e_task (s : est) (i : nat) (b : beh) (args : list Z) : est :=
  match b with
  | Beh il lt pan =>
      let s1 := fold_left (fun s c => if e_running s then e_csend s c else s) il (e_logev s (ETask i args)) in
      if e_running s1 then
        let s2 := mkE (e_status s1) (e_cursor s1) (e_chan s1) (e_blocked s1) (e_closed s1) (e_args s1) (e_err s1)
                      (e_pool s1 ++ number i 0 lt) (e_log s1) (e_envpanics s1) in
        if pan then e_set_status s2 ECallerPanic else s2
      else s1
  end.

(* gofinal(false, args) called by donext on the caller goroutine: curErr = false *)
Definition e_gofinal_false (s : est) (args : list Z) : est :=
  let s1 := mkE (e_status s) (e_cursor s) (e_chan s) (e_blocked s) (e_closed s) args false (e_pool s) (e_log s) (e_envpanics s) in
  if e_closed s1 then e_set_status s1 ECallerPanic
  else match e_chan s1 with
       | [] => e_put s1 TFinal
       | _ :: _ => e_set_status s1 ECallerStuck
       end.

(* donext's body after cursor++ : exec(cursor) or gofinal(false, args) *)
Definition e_try (tasks : list beh) (s : est) (i : nat) (args : list Z) : est :=
  match nth_error tasks i with
  | Some b => e_task s i b args
  | None => e_gofinal_false s args
  end.

Inductive elabel := WStart | WLoop | WFire (i k : nat).

Definition estep (tasks : list beh) (s : est) (l : elabel) : option est :=
  match l with
  | WStart =>
      match e_status s with
      | ENotStarted =>
          match tasks with
          | [] => Some (e_set_status (e_logev s (EFinal false [])) EReturned)   (* the fix *)
          | _ :: _ => Some (e_try tasks (e_set_status s ELooping) 0 [])
          end
      | _ => None
      end
  | WLoop =>
      if e_running s then
        match e_chan s with
        | t :: rest =>
            (* the receive; a blocked sender's token moves into the freed slot *)
            let s1 := mkE ELooping (e_cursor s) (rest ++ firstn 1 (e_blocked s)) (skipn 1 (e_blocked s))
                          (e_closed s) (e_args s) (e_err s) (e_pool s) (e_log s) (e_envpanics s) in
            match t with
            | TNext =>
                let s2 := mkE ELooping (S (e_cursor s1)) (e_chan s1) (e_blocked s1) (e_closed s1) (e_args s1)
                              (e_err s1) (e_pool s1) (e_log s1) (e_envpanics s1) in
                Some (e_try tasks s2 (S (e_cursor s1)) (e_args s1))
            | TFinal =>
                (* dofinal: final(curErr, curArgs); close(chanNext) - blocked senders panic *)
                Some (mkE ELooping (e_cursor s1) (e_chan s1) [] true (e_args s1) (e_err s1) (e_pool s1)
                          (e_log s1 ++ [EFinal (e_err s1) (e_args s1)])
                          (e_envpanics s1 + length (e_blocked s1)))
            end
        | [] => if e_closed s then Some (e_set_status s EReturned) else None
        end
      else None
  | WFire i k =>
      match take_pool (i, k) (e_pool s) with
      | None => None
      | Some (c, p') =>
          Some (e_esend (mkE (e_status s) (e_cursor s) (e_chan s) (e_blocked s) (e_closed s) (e_args s) (e_err s)
                             p' (e_log s) (e_envpanics s)) c)
      end
  end.

Definition e_init : est := mkE ENotStarted 0 [] [] false [] false [] [] 0.

Definition estep_or_stay (tasks : list beh) (s : est) (l : elabel) : est :=
  match estep tasks s l with Some s' => s' | None => s end.

Definition erun (tasks : list beh) (ls : list elabel) : est := fold_left (estep_or_stay tasks) ls e_init.

(* the caller goroutine runs on its own until it blocks in the receive or leaves *)
Fixpoint e_settle (fuel : nat) (tasks : list beh) (s : est) : est :=
  match fuel with
  | O => s
  | S f => match estep tasks s WLoop with Some s' => e_settle f tasks s' | None => s end
  end.

(* ------------------------------------------------------------------ Part 3 *)
(* Scripts: what the harness executes on one real sche.Sche whose consumer is the harness
   (one receive from GetChanTask + DoTask per OStep), then drains. *)

Inductive op :=
| OPost (p : Z) (k : kind)               (* poster goroutine p calls Post(closure) *)
| OPostN (p n : Z)                       (* n times OPost p KOk *)
| OStep                                  (* consumer handles one queued task, if any *)
| OStop                                  (* Sche.Stop() (a second one is ignored) *)
| OChain (c : Z) (tasks : list beh)      (* waterfall.Sche(sche, tasks, final) *)
| OChainB (c : Z) (tasks : list beh)     (* the same through waterfall.NewBuilder(s).Next(..)...Final(..).Do() *)
| OSimple (c : Z) (tasks : list beh)     (* waterfall.Simple(tasks, final) on a fresh goroutine, waited for *)
| OWait (c : Z) (tasks : list beh)       (* waterfall.ExecAndWait(tasks, final) on its own goroutine, until it parks or leaves *)
| OFire (c i k : Z)                      (* the k-th callback task i of chain c gave away fires, on a fresh goroutine *)
| OMgrGet (n : Z)                        (* Mgr.GetSche(name n) on the case's own sche.Mgr *)
| OMgrDel (n : Z)                        (* Mgr.DelSche(name n) *)
| OConc (mode : Z) (progs : list (list kind))   (* fresh Sche, real consumer loop, concurrent posters *)
| OConcN (mode np n : Z)                 (* OConc mode (np programs of n returning closures) *)
| OConcW (mode : Z) (chains : list (list beh))  (* fresh Sche, real Handler, concurrent chains *)
| OConcReg (trials g : Z)                (* per trial a fresh name: NewRunService(name).Start() races with g goroutines doing
                                            GetScheMgr().GetSche(name).Post(f); expected: one scheduler, every f runs once: no event *)
| OSetId (v : Z)                         (* position the process-wide task id counter: the next Post gets (v+1) mod 2^32.
                                            Every case starts at 1 (the value in a fresh process) *)
| OList (l : Z) (tasks : list beh)       (* the caller defines task list l ONCE: one []waterfall.Task, one final, and
                                            one prepared Builder over the same functions *)
| OShare (c l r : Z)                     (* chain c over the SHARED list l: r = 0 waterfall.Sche(s, list, final),
                                            1 the prepared builder's Do(), 2 Simple(list, final), 3 ExecAndWait(list, final) *)
| OTaskPanics (v : pval)                 (* the tasks of chains / lists declared from here on that panic (Beh _ _ true) do so
                                            with this value (default: a string); no effect on what must happen *)
| OConcStop (mode who n k : Z)           (* teardown with closures queued.  Fresh scheduler; consumer = Sche.Handler (mode 0), a REAL
                                            RunService (2), the selector loop of a RunService on a harness goroutine (5).  A first closure
                                            holds the consumer; poster 0 posts n closures behind it; then Stop() - RunService.Stop() in mode 2 -
                                            is called by a foreign goroutine (who = 0) or by the holding closure itself, i.e. on the consumer
                                            (who = 1); then poster 1 posts k closures (must fail).  Expected: the closures of poster 0 that
                                            run are a prefix of its program, each on the consumer goroutine, one at a time; none of poster 1 *)
| OConcS (mode ns rounds : Z) (tasks : list beh).
                                         (* ns schedulers with the real Handler, concurrently; on each, [rounds] chains one
                                            after the other; ALL ns*rounds chains over one shared slice (mode 0) / each
                                            scheduler's chains through one prepared Builder (mode 1).  Chain j*rounds+k is
                                            the k-th chain of scheduler j *)

Inductive sev :=
| SExec (p n : Z)
| SPostFail (p n : Z)
| STask (c i : Z) (args : list Z)
| SFinal (c : Z) (err : bool) (args : list Z)
| SRet (c : Z)                           (* ExecAndWait of chain c returned *)
| SEsc (c : Z)                           (* a panic reached the goroutine that called Simple / ExecAndWait / a callback of chain c *)
| SHang (c : Z)                          (* a goroutine of chain c is blocked for ever in chanNext <- *)
| SMgr (id : Z)                          (* GetSche returned the id-th distinct scheduler (numbered by first appearance) *)
| SBad (code : Z)                        (* a measured invariant failed in the harness (never expected) *)
| SId (id : Z).                          (* id-tracked scripts (those with an OSetId): RunTask.id of the task the consumer
                                            just received, before DoTask *)

Inductive obs :=
| Obs (per_op : list (list sev)) (drain : list sev) (posts : list (Z * list bool)) (gor esc : bool)
| BInvalid.

Definition nposters : nat := 16.

Definition zn (n : nat) : Z := Z.of_nat n.

Fixpoint kinds_of (p : nat) (ops : list op) : list kind :=
  match ops with
  | [] => []
  | OPost q k :: r => if Nat.eqb (Z.to_nat q) p then k :: kinds_of p r else kinds_of p r
  | OPostN q n :: r =>
      if Nat.eqb (Z.to_nat q) p then repeat KOk (Z.to_nat n) ++ kinds_of p r else kinds_of p r
  | _ :: r => kinds_of p r
  end.

Definition progs_of (ops : list op) : list (list kind) :=
  map (fun p => kinds_of p ops) (seq 0 nposters).

Definition is_chain_op (o : op) : bool :=
  match o with
  | OChain _ _ | OChainB _ _ | OSimple _ _ | OWait _ _ | OFire _ _ _ | OMgrGet _ | OMgrDel _
  | OList _ _ | OShare _ _ _ => true
  | _ => false
  end.

Definition is_conc_op (o : op) : bool :=
  match o with
  | OConc _ _ | OConcN _ _ _ | OConcW _ _ | OConcReg _ _ | OConcS _ _ _ _ | OConcStop _ _ _ _ => true
  | _ => false
  end.

Definition is_setid (o : op) : bool := match o with OSetId _ => true | _ => false end.

(* id-tracked script: the harness reports the id of every task its consumer receives *)
Definition tracked (ops : list op) : bool := existsb is_setid ops.

Definition beh_size (b : beh) : nat := length (completions b).
Definition chain_size (t : list beh) : nat := S (fold_right (fun b a => beh_size b + a)%nat O t).

(* the shared task lists a script declares: the first declaration of an id wins *)
Fixpoint lists_of (ops : list op) : alist (list beh) :=
  match ops with
  | [] => []
  | OList l t :: r => aset l t (lists_of r)       (* built from the back: earlier declarations overwrite later ones *)
  | _ :: r => lists_of r
  end.

Definition op_posts (ls : alist (list beh)) (o : op) : nat :=
  match o with
  | OPost _ _ => 1
  | OPostN _ n => Z.to_nat n
  | OChain _ t | OChainB _ t => chain_size t
  | OShare _ l _ => match aget l ls with Some t => chain_size t | None => 0 end
  | _ => 0
  end.

Definition total_posts (ops : list op) : nat :=
  fold_right (fun o a => op_posts (lists_of ops) o + a)%nat O ops.

Definition in_range (lo x hi : Z) : bool := (lo <=? x) && (x <? hi).

Definition has_panic (progs : list (list kind)) : bool :=
  existsb (existsb (fun k => match k with KOk => false | _ => true end)) progs.

(* completes exactly once and returns *)
Definition settles (b : beh) : bool :=
  match b with Beh [_] [] false | Beh [] [_] false => true | _ => false end.

Definition valid_op (o : op) : bool :=
  match o with
  | OPost p _ => in_range 0 p (zn nposters)
  | OPostN p n => in_range 0 p (zn nposters) && in_range 0 n 3000
  | OStep | OStop => true
  | OChain c _ | OChainB c _ | OSimple c _ | OWait c _ => 0 <=? c
  | OMgrGet n | OMgrDel n => in_range 0 n 8
  | OFire c i k => (0 <=? c) && (0 <=? i) && (0 <=? k)
  (* mode 5: the selector loop a RunService runs (MultiSelector + FuncSelector over GetChanTask
     calling DoTask), its goroutine owned - and guarded - by the harness; the real RunService
     starts its own goroutine, which nothing can guard: no panicking closures there *)
  | OConc m progs => in_range 0 m 6 && Nat.leb (length progs) 64
                     && (in_range 0 m 2 || (m =? 5) || negb (has_panic progs))
  | OConcN m np n => in_range 0 m 6 && in_range 0 np 65 && in_range 0 n 20001
  | OTaskPanics _ => true
  | OConcW m _ => in_range 0 m 2
  | OConcReg t g => in_range 0 t 5001 && in_range 1 g 33
  | OSetId v => in_range 0 v two32
  | OList l _ => in_range 0 l 64
  | OShare c l r => (0 <=? c) && in_range 0 l 64 && in_range 0 r 4
  | OConcStop m w n k => ((m =? 0) || (m =? 2) || (m =? 5)) && in_range 0 w 2 && in_range 0 n 901 && in_range 0 k 33
  | OConcS m ns rd t => in_range 0 m 2 && in_range 1 ns 9 && in_range 0 rd 65 && forallb settles t
  end.

(* chain scripts never fill the queue: a Post made by the consumer goroutine itself on a full
   queue blocks the consumer for ever (stated in the comment of Sche.Post).
   The id counter is process-wide: in an id-tracked script the ids of scripted tasks are only
   determined when no concurrent block (whose number of Posts is not) runs next to them. *)
Definition valid (ops : list op) : bool :=
  forallb valid_op ops
  && (negb (existsb is_chain_op ops) || Nat.ltb (total_posts ops) (cap - 100))
  && negb (tracked ops && existsb is_conc_op ops
           && existsb (fun o => negb (is_conc_op o || is_setid o)) ops).

(* ---- concurrent blocks: the expected observation is a set, see [accepts_conc] *)

Definition ids (i n : nat) : list cid := map (fun j => (i, j)) (seq 0 n).

Definition cid_eqb (a b : cid) : bool := Nat.eqb (fst a) (fst b) && Nat.eqb (snd a) (snd b).

Definition by_poster (i : nat) (l : list cid) : list cid := filter (fun c => Nat.eqb (fst c) i) l.

(* executable acceptor for the execution log of a run to quiescence without Stop: the log
   restricted to every poster is exactly that poster's program, and nothing else is in it *)
Definition accepts (progs : list (list kind)) (log : list cid) : bool :=
  forallb (fun i => list_eqb cid_eqb (by_poster i log) (ids i (length (nth i progs []))))
          (seq 0 (length progs))
  && forallb (fun c => Nat.ltb (fst c) (length progs)) log.

Definition cid_of_sev (e : sev) : option cid :=
  match e with SExec p n => Some (Z.to_nat p, Z.to_nat n) | _ => None end.

Fixpoint cids_of (l : list sev) : option (list cid) :=
  match l with
  | [] => Some []
  | e :: r => match cid_of_sev e, cids_of r with
              | Some c, Some cs => Some (c :: cs)
              | _, _ => None
              end
  end.

Definition sev_nonneg (e : sev) : bool :=
  match e with SExec p n => (0 <=? p) && (0 <=? n) | _ => false end.

Definition uniform_progs (np n : Z) : list (list kind) :=
  repeat (repeat KOk (Z.to_nat n)) (Z.to_nat np).

Definition accepts_conc (progs : list (list kind)) (l : list sev) : bool :=
  forallb sev_nonneg l &&
  match cids_of l with Some cs => accepts progs cs | None => false end.

(* ---- waterfall: the history function (Spec.v states the property with it) lives here
   because the concurrent-chain block's expected observation is computed with it *)

Fixpoint spec_from (tasks : list beh) (i : nat) (args : list Z) : list ev :=
  match tasks with
  | [] => [EFinal false args]
  | b :: rest =>
      ETask i args ::
      match completions b with
      | [(false, r)] => spec_from rest (S i) r
      | [(true, r)] => [EFinal true r]
      | _ => []
      end
  end.

Definition spec (tasks : list beh) : list ev := spec_from tasks 0 [].

Definition amo (b : beh) : bool := Nat.leb (length (completions b)) 1.

Definition sev_of_ev (c : Z) (e : ev) : sev :=
  match e with
  | ETask i a => STask c (zn i) a
  | EFinal err a => SFinal c err a
  end.

Fixpoint number_chains {A} (c : nat) (l : list A) : list (Z * A) :=
  match l with [] => [] | x :: r => (zn c, x) :: number_chains (S c) r end.

(* all later callbacks are fired by the harness in a concurrent-chain block *)
Definition concw_expected (chains : list (list beh)) : option (list sev) :=
  if forallb (forallb amo) chains then
    Some (flat_map (fun ct => map (sev_of_ev (fst ct)) (spec (snd ct))) (number_chains 0 chains))
  else None.

(* ---- scheduler scripts (no chain op): driven through [tstep] only *)

Record drv := mkD {
  d_st : st;
  d_wait : list nat;                      (* posters blocked in Post, in blocking order *)
  d_back : list nat;                      (* per poster: script posts not yet attempted *)
  d_ctr : Z;                              (* the process-wide task id counter *)
  d_qids : list Z;                        (* RunTask.id of the queued tasks, parallel to [queue] (Part 1i) *)
  d_hold : list (nat * Z);                (* blocked posters: the id of the RunTask in their hands *)
  d_track : bool
}.

Definition get_back (d : drv) (p : nat) : nat := nth p (d_back d) O.

Definition nat_mem (p : nat) (l : list nat) : bool := existsb (Nat.eqb p) l.

Definition drv_post (d : drv) (p : nat) : drv :=
  if nat_mem p (d_wait d) then
    mkD (d_st d) (d_wait d) (set_nth p (S (get_back d p)) (d_back d)) (d_ctr d) (d_qids d) (d_hold d) (d_track d)
  else
    (* poster p enters Post: AllocId (Part 1i), then the send *)
    let id := alloc_id (d_ctr d) in
    match tstep (d_st d) (TPost p) with
    | Some s' =>
        mkD s' (d_wait d) (d_back d) id
            (if stopped (d_st d) then d_qids d else d_qids d ++ [id]) (d_hold d) (d_track d)
    | None => mkD (d_st d) (d_wait d ++ [p]) (d_back d) id (d_qids d) (d_hold d ++ [(p, id)]) (d_track d)
    end.

Fixpoint iter {A} (n : nat) (f : A -> A) (a : A) : A :=
  match n with O => a | S m => iter m f (f a) end.

Definition sev_of_item (it : item) : sev := SExec (zn (fst (fst it))) (zn (snd (fst it))).

(* one receive + DoTask; when a sender was blocked the Go runtime moves its value into the
   freed slot, the sender resumes with its next script post (AllocId) and blocks again *)
Definition drv_step (d : drv) : drv * list sev :=
  match tstep (d_st d) TCons with
  | None => (d, [])
  | Some s1 =>
      let e := match queue (d_st d) with
               | it :: _ => (if d_track d then [SId (hd (-1) (d_qids d))] else []) ++ [sev_of_item it]
               | [] => []
               end in
      let qids := tl (d_qids d) in
      match d_wait d with
      | [] => (mkD s1 [] (d_back d) (d_ctr d) qids (d_hold d) (d_track d), e)
      | p :: w =>
          let s2 := step_or_stay s1 (TPost p) in
          let qids2 := match held_of p (d_hold d) with Some id => qids ++ [id] | None => qids end in
          let hold2 := unhold p (d_hold d) in
          match get_back d p with
          | O => (mkD s2 w (d_back d) (d_ctr d) qids2 hold2 (d_track d), e)
          | S b =>
              let id := alloc_id (d_ctr d) in
              (mkD s2 (w ++ [p]) (set_nth p b (d_back d)) id qids2 (hold2 ++ [(p, id)]) (d_track d), e)
          end
      end
  end.

(* close(chanTask): every blocked sender panics inside Post (recovered, nil); so do its
   remaining script posts, each after its own AllocId (none of them is ever queued) *)
Definition drv_stop (d : drv) : drv :=
  match tstep (d_st d) TStop with
  | None => d
  | Some s1 =>
      let s2 := fold_left (fun s p => iter (S (get_back d p)) (fun s => step_or_stay s (TPost p)) s)
                          (d_wait d) s1 in
      let later := fold_right (fun p a => (get_back d p + a)%nat) O (d_wait d) in
      mkD s2 [] (map (fun _ => O) (d_back d)) (wrap32 (d_ctr d + zn later)) (d_qids d) [] (d_track d)
  end.


Definition drv_op (d : drv) (o : op) : drv * list sev :=
  match o with
  | OPost p _ => (drv_post d (Z.to_nat p), [])
  | OPostN p n => (iter (Z.to_nat n) (fun d => drv_post d (Z.to_nat p)) d, [])
  | OStep => drv_step d
  | OStop => (drv_stop d, [])
  | OSetId v => (mkD (d_st d) (d_wait d) (d_back d) v (d_qids d) (d_hold d) (d_track d), [])
  | _ => (d, [])
  end.

Fixpoint drv_ops (d : drv) (ops : list op) : drv * list (list sev) :=
  match ops with
  | [] => (d, [])
  | o :: r =>
      let '(d1, e) := drv_op d o in
      let '(d2, es) := drv_ops d1 r in
      (d2, e :: es)
  end.

Fixpoint drv_drain (fuel : nat) (d : drv) : drv * list sev :=
  match fuel with
  | O => (d, [])
  | S f =>
      match queue (d_st d) with
      | [] => (d, [])
      | _ :: _ =>
          let '(d1, e) := drv_step d in
          let '(d2, es) := drv_drain f d1 in
          (d2, e ++ es)
      end
  end.

(* Post results of poster i in call order: the accepted ones come first (Proofs.v:
   accepted-by-i ++ rejected-by-i = ids i n) *)
Definition post_results (s : st) : list (Z * list bool) :=
  flat_map (fun i =>
      match length (by_poster i (accepted s)), length (by_poster i (rejected s)) with
      | O, O => []
      | a, r => [(zn i, repeat true a ++ repeat false r)]
      end) (seq 0 (length (posters s))).

Definition has_stop (ops : list op) : bool :=
  existsb (fun o => match o with OStop => true | _ => false end) ops.

Definition drv_init (ops : list op) : drv :=
  mkD (init (progs_of ops) (has_stop ops)) [] (repeat O nposters) 1 [] [] (tracked ops).

(* the Part-1 state a scheduler script ends in (Proofs.v: it is [reachable]) *)
Definition script_state (ops : list op) : st :=
  d_st (fst (drv_drain (S (total_posts ops)) (fst (drv_ops (drv_init ops) ops)))).

Definition run_sched_script (ops : list op) : obs :=
  let '(d1, per) := drv_ops (drv_init ops) ops in
  let '(d2, dr) := drv_drain (S (total_posts ops)) d1 in
  Obs per dr (post_results (d_st d2)) true (escaped (d_st d2)).

(* ---- chain scripts: posts never block (see [valid]) *)

Inductive qitem := QClos (p n : nat) (k : kind) | QChain (c : Z) (it : citem).

Inductive chain_state :=
| CSche (tasks : list beh) (s : cst)      (* cst.cq is always [] here: items sit in [w_q] *)
| CSimple (tasks : list beh) (s : xst)
| CWait (tasks : list beh) (s : est).

Record mgr_state := mkM { m_reg : alist Z; m_next : Z }.   (* name -> scheduler id *)

(* Mgr.GetSche: create if missing *)
Definition m_get (m : mgr_state) (n : Z) : mgr_state * Z :=
  match aget n (m_reg m) with
  | Some id => (m, id)
  | None => (mkM (aset n (m_next m) (m_reg m)) (m_next m + 1), m_next m)
  end.

Definition m_del (m : mgr_state) (n : Z) : mgr_state := mkM (adel n (m_reg m)) (m_next m).

Inductive mop := MGet (n : Z) | MDel (n : Z).

Definition m_step (m : mgr_state) (o : mop) : mgr_state :=
  match o with MGet n => fst (m_get m n) | MDel n => m_del m n end.

Definition m_run (ops : list mop) : mgr_state := fold_left m_step ops (mkM [] 0).

Record wst := mkW {
  w_q : list qitem;
  w_stopped : bool;
  w_chains : alist chain_state;
  w_mgr : mgr_state;
  w_seq : list nat;                       (* per poster: next sequence number *)
  w_posts : list (list bool);             (* per poster: Post results so far, reversed *)
  w_qids : list Z;                        (* RunTask.id of the queued tasks, parallel to [w_q] *)
  w_ctr : Z;                              (* the process-wide task id counter *)
  w_track : bool;
  w_lists : alist (list beh)              (* the shared task lists declared so far *)
}.

Definition w_set_q (w : wst) (q : list qitem) (ids : list Z) : wst :=
  mkW q (w_stopped w) (w_chains w) (w_mgr w) (w_seq w) (w_posts w) ids (w_ctr w) (w_track w) (w_lists w).

Definition w_set_mgr (w : wst) (m : mgr_state) : wst :=
  mkW (w_q w) (w_stopped w) (w_chains w) m (w_seq w) (w_posts w) (w_qids w) (w_ctr w) (w_track w) (w_lists w).

Definition w_set_ctr (w : wst) (v : Z) : wst :=
  mkW (w_q w) (w_stopped w) (w_chains w) (w_mgr w) (w_seq w) (w_posts w) (w_qids w) v (w_track w) (w_lists w).

(* ids (ctr+1) mod 2^32, (ctr+2) mod 2^32, ... for n consecutive AllocId calls *)
Fixpoint alloc_ids (ctr : Z) (n : nat) : list Z :=
  match n with O => [] | S m => alloc_id ctr :: alloc_ids (alloc_id ctr) m end.

(* one Post call per item, in order: AllocId, then the send (which fails on a stopped
   scheduler: the id is used up all the same) *)
Definition w_enqueue (w : wst) (its : list qitem) : wst :=
  let ids := alloc_ids (w_ctr w) (length its) in
  let w1 := w_set_ctr w (last ids (w_ctr w)) in
  if w_stopped w then w1 else w_set_q w1 (w_q w ++ its) (w_qids w ++ ids).

Definition w_post (w : wst) (p : nat) (k : kind) : wst :=
  let n := nth p (w_seq w) O in
  let w1 := w_enqueue w [QClos p n k] in
  mkW (w_q w1) (w_stopped w1) (w_chains w1) (w_mgr w1) (set_nth p (S n) (w_seq w1))
      (set_nth p (negb (w_stopped w) :: nth p (w_posts w) []) (w_posts w1))
      (w_qids w1) (w_ctr w1) (w_track w1) (w_lists w1).

Definition new_events (c : Z) (old new : list ev) : list sev :=
  map (sev_of_ev c) (skipn (length old) new).

Definition w_set_chain (w : wst) (c : Z) (x : chain_state) : wst :=
  mkW (w_q w) (w_stopped w) (aset c x (w_chains w)) (w_mgr w) (w_seq w) (w_posts w)
      (w_qids w) (w_ctr w) (w_track w) (w_lists w).

Definition w_step (w : wst) : wst * list sev :=
  let idev := if w_track w then match w_qids w with id :: _ => [SId id] | [] => [] end else [] in
  match w_q w with
  | [] => (w, [])
  | QClos p n _ :: q => (w_set_q w q (tl (w_qids w)), idev ++ [SExec (zn p) (zn n)])
  | QChain c it :: q =>
      let w0 := w_set_q w q (tl (w_qids w)) in
      match aget c (w_chains w) with
      | Some (CSche tasks cs) =>
          let cs1 := run_item tasks cs it in
          let cs2 := mkC (cursor cs1) [] (pool cs1) (clog cs1) in
          (w_enqueue (w_set_chain w0 c (CSche tasks cs2)) (map (QChain c) (cq cs1)),
           idev ++ new_events c (clog cs) (clog cs1))
      | _ => (w0, idev)
      end
  end.

Definition esc_event (c : Z) (r : xres) : list sev :=
  match r with XOk => [] | _ => [SEsc c] end.

Definition e_fuel (tasks : list beh) : nat := (2 * chain_size tasks + 4)%nat.

(* what became of the caller goroutine / of the environment goroutine during one op *)
Definition caller_event (c : Z) (old new : est) : list sev :=
  match e_status old, e_status new with
  | EReturned, _ | ECallerPanic, _ | ECallerStuck, _ => []
  | _, EReturned => [SRet c]
  | _, ECallerPanic => [SEsc c]
  | _, ECallerStuck => [SHang c]
  | _, _ => []
  end.

Definition env_event (c : Z) (old new : est) : list sev :=
  (if Nat.ltb (e_envpanics old) (e_envpanics new) then [SEsc c] else [])
  ++ (if Nat.ltb (length (e_blocked old)) (length (e_blocked new)) then [SHang c] else []).

(* the ways of running a chain: 0 waterfall.Sche, 1 the Builder, 2 Simple, 3 ExecAndWait *)
Definition w_start (w : wst) (r : Z) (c : Z) (tasks : list beh) : wst * list sev :=
  match aget c (w_chains w) with
  | Some _ => (w, [])                     (* chain id already used: ignored *)
  | None =>
      if r <? 2 then
        (w_enqueue (w_set_chain w c (CSche tasks (mkC 0 [] [] []))) [QChain c IStart], [])
      else if r =? 2 then
        match x_step tasks x_init XStart with
        | Some (s', res) => (w_set_chain w c (CSimple tasks s'), new_events c [] (x_log s') ++ esc_event c res)
        | None => (w, [])
        end
      else
        let s' := e_settle (e_fuel tasks) tasks (estep_or_stay tasks e_init WStart) in
        (w_set_chain w c (CWait tasks s'), new_events c [] (e_log s') ++ caller_event c e_init s')
  end.

Definition w_op (w : wst) (o : op) : wst * list sev :=
  match o with
  | OPost p k => (w_post w (Z.to_nat p) k, [])
  | OPostN p n => (iter (Z.to_nat n) (fun w => w_post w (Z.to_nat p) KOk) w, [])
  | OStep => w_step w
  | OStop => (mkW (w_q w) true (w_chains w) (w_mgr w) (w_seq w) (w_posts w) (w_qids w) (w_ctr w) (w_track w) (w_lists w), [])
  | OChain c tasks => w_start w 0 c tasks
  | OChainB c tasks => w_start w 1 c tasks
  | OSimple c tasks => w_start w 2 c tasks
  | OWait c tasks => w_start w 3 c tasks
  | OList l tasks =>
      match aget l (w_lists w) with
      | Some _ => (w, [])                 (* list id already used: ignored *)
      | None => (mkW (w_q w) (w_stopped w) (w_chains w) (w_mgr w) (w_seq w) (w_posts w) (w_qids w) (w_ctr w)
                     (w_track w) (aset l tasks (w_lists w)), [])
      end
  | OShare c l r =>
      (* the chain reads the caller's list as it is NOW; by Part 2s (Proofs.v chain_frame) that
         is what was declared, however many chains have run or are running over it *)
      match aget l (w_lists w) with
      | Some tasks => w_start w r c tasks
      | None => (w, [])
      end
  | OFire c i k =>
      match aget c (w_chains w) with
      | None => (w, [])
      | Some (CSche tasks cs) =>
          match take_pool (Z.to_nat i, Z.to_nat k) (pool cs) with
          | None => (w, [])
          | Some (x, p') =>
              let cs1 := mkC (cursor cs) [] p' (clog cs) in
              (w_enqueue (w_set_chain w c (CSche tasks cs1)) [QChain c (item_of x)], [])
          end
      | Some (CSimple tasks s) =>
          match x_step tasks s (XFire (Z.to_nat i) (Z.to_nat k)) with
          | Some (s', r) => (w_set_chain w c (CSimple tasks s'), new_events c (x_log s) (x_log s') ++ esc_event c r)
          | None => (w, [])
          end
      | Some (CWait tasks s) =>
          match estep tasks s (WFire (Z.to_nat i) (Z.to_nat k)) with
          | Some s1 =>
              let s' := e_settle (e_fuel tasks) tasks s1 in
              (w_set_chain w c (CWait tasks s'),
               new_events c (e_log s) (e_log s') ++ env_event c s s1 ++ caller_event c s s')
          | None => (w, [])
          end
      end
  | OMgrGet n =>
      let '(m, id) := m_get (w_mgr w) n in (w_set_mgr w m, [SMgr id])
  | OMgrDel n => (w_set_mgr w (m_del (w_mgr w) n), [])
  | OSetId v => (w_set_ctr w v, [])
  | OTaskPanics _ => (w, [])
  | OConc _ _ | OConcN _ _ _ | OConcW _ _ | OConcReg _ _ | OConcS _ _ _ _ | OConcStop _ _ _ _ => (w, [])
  end.

Fixpoint w_ops (w : wst) (ops : list op) : wst * list (list sev) :=
  match ops with
  | [] => (w, [])
  | o :: r =>
      let '(w1, e) := w_op w o in
      let '(w2, es) := w_ops w1 r in
      (w2, e :: es)
  end.

Fixpoint w_drain (fuel : nat) (w : wst) : wst * list sev :=
  match fuel with
  | O => (w, [])
  | S f =>
      match w_q w with
      | [] => (w, [])
      | _ :: _ =>
          let '(w1, e) := w_step w in
          let '(w2, es) := w_drain f w1 in
          (w2, e ++ es)
      end
  end.

Definition w_post_results (w : wst) : list (Z * list bool) :=
  flat_map (fun i => match nth i (w_posts w) [] with
                     | [] => []
                     | l => [(zn i, rev l)]
                     end) (seq 0 nposters).

Definition w_init (track : bool) : wst :=
  mkW [] false [] (mkM [] 0) (repeat O nposters) (repeat [] nposters) [] 1 track [].

Definition run_chain_script (ops : list op) : obs :=
  let '(w1, per) := w_ops (w_init (tracked ops)) ops in
  let '(w2, dr) := w_drain (S (total_posts ops)) w1 in
  Obs per dr (w_post_results w2) true false.

Definition run (ops : list op) : obs :=
  if negb (valid ops) then BInvalid
  else if existsb is_chain_op ops then run_chain_script ops
  else run_sched_script ops.
