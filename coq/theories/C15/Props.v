(* C15 - property theorems only.  Each is closed by [exact] of a lemma from Proofs.v and
   followed by Print Assumptions.  Definitions of the predicates: Spec.v. *)
From Cell2V Require Import Common.Tac Common.ListX Common.AList C15.Model C15.Spec C15.Proofs.

(* ---- Part 1: scheduler.  For every number of posters, every program (closures that
   return or panic), with or without a thread that calls Stop, every schedule, every
   reachable state [s]. ---- *)

(* Safety at every state: only posted closures run and with the behaviour posted; executed
   ++ queued = acceptance order (global FIFO); nothing runs twice; nothing rejected runs.
   At quiescence of a scheduler that was not stopped: queue empty, no Post failed, every
   closure of every program ran exactly once and nothing else ran.
   At quiescence of a stopped scheduler: the consumer has left and every poster has returned
   from all its Posts (none is left blocked); closures still queued are never run. *)
Theorem C15_exactly_once : forall progs ws s, reachable progs ws s ->
  exactly_once_safe progs s /\ exactly_once_quiescent progs s /\ stopped_quiescent s.
Proof.
  exact (fun progs ws s R => conj (exactly_once_safe_holds progs ws s R)
           (conj (exactly_once_quiescent_holds progs ws s R) (stopped_quiescent_holds progs ws s R))).
Qed.
Print Assumptions C15_exactly_once.

(* The execution log restricted to poster i is (i,0),(i,1),...,(i,n-1): the order in which i
   posted, without gaps - also across blocking on a full queue; at quiescence (not stopped)
   it is i's whole program. *)
Theorem C15_per_poster_fifo : forall progs ws s, reachable progs ws s -> per_poster_fifo progs s.
Proof. exact per_poster_fifo_holds. Qed.
Print Assumptions C15_per_poster_fifo.

(* No panic leaves doTask or Post; the consumer only ends through Stop; a panicking closure at
   the head of the queue is consumed like any other and the consumer stays alive - so the
   closures behind it are covered by C15_exactly_once. *)
Theorem C15_panic_isolated : forall progs ws s, reachable progs ws s -> panic_isolated s.
Proof. exact panic_isolated_holds. Qed.
Print Assumptions C15_panic_isolated.

(* On a stopped scheduler Post is enabled (never blocks), returns nil, changes nothing but the
   poster's own progress, and no panic escapes; Post never lets a panic escape in any state;
   a nil result is only ever produced by a stopped scheduler. *)
Theorem C15_post_after_stop : forall progs ws s, reachable progs ws s ->
  post_after_stop s
  /\ (forall q closed it, fst (post q closed it) <> PostPanic)
  /\ (rejected s <> [] -> stopped s = true).
Proof.
  exact (fun progs ws s R => conj (post_after_stop_holds progs ws s R)
           (conj post_never_panics (rejected_only_stopped progs ws s R))).
Qed.
Print Assumptions C15_post_after_stop.

(* The executable acceptor applied to the logs of real concurrent runs accepts every
   quiescent run of the model, and what it accepts is the per-poster statement. *)
Theorem C15_acceptor_complete : forall progs ws s,
  reachable progs ws s -> quiescent s -> stopped s = false -> accepts progs (exec_ids s) = true.
Proof. exact accepts_complete. Qed.
Print Assumptions C15_acceptor_complete.

Theorem C15_acceptor_sound : forall progs log, accepts progs log = true ->
  forall i, (i < length progs)%nat -> by_poster i log = ids i (prog_len progs i).
Proof. exact accepts_sound. Qed.
Print Assumptions C15_acceptor_sound.

(* The deterministic script model compared with the real Sche (no chain ops) only takes
   steps of the transition system: all of the above applies to it. *)
Theorem C15_script_reachable : forall ops,
  reachable (progs_of ops) (has_stop ops) (script_state ops).
Proof. exact script_state_reachable. Qed.
Print Assumptions C15_script_reachable.

(* ---- Part 2: waterfall chain.  For every task list (any length, any behaviours), every
   interleaving of consumer steps and environment completions, every reachable state. ---- *)

(* If every task that was invoked completes at most once, the invocation log is a prefix of
   the history function [spec tasks], and equal to it once nothing is pending. *)
Theorem C15_chain_spec : forall tasks s,
  creachable tasks s -> invoked_amo tasks (clog s) ->
  prefix (clog s) (spec tasks) /\ (cquiescent s -> clog s = spec tasks).
Proof. exact chain_spec_holds. Qed.
Print Assumptions C15_chain_spec.

(* tasks run one after another in order: the k-th event is task k, only task events precede
   any event (so nothing follows a final, no task runs twice, none is skipped) *)
Theorem C15_chain_order : forall tasks s,
  creachable tasks s -> invoked_amo tasks (clog s) -> chain_order (clog s).
Proof. exact chain_order_holds. Qed.
Print Assumptions C15_chain_order.

(* task 0 receives no arguments, task i+1 receives exactly the results of task i's completion *)
Theorem C15_chain_args : forall tasks s,
  creachable tasks s -> invoked_amo tasks (clog s) -> chain_args tasks (clog s).
Proof. exact chain_args_holds. Qed.
Print Assumptions C15_chain_args.

(* final(err=true, r): r are the results of the error completion of the last task invoked (the
   remaining tasks were skipped); final(err=false, r): all tasks ran and r are the last task's
   results.  Once nothing is pending, an invoked task whose completion is an error is followed
   immediately by final with that error, and by nothing else. *)
Theorem C15_first_error_jumps : forall tasks s,
  creachable tasks s -> invoked_amo tasks (clog s) ->
  chain_finals tasks (clog s) /\ (cquiescent s -> error_jumps tasks (clog s)).
Proof.
  exact (fun tasks s R HA => conj (chain_finals_holds tasks s R HA) (error_jumps_holds tasks s R HA)).
Qed.
Print Assumptions C15_first_error_jumps.

Theorem C15_final_once : forall tasks s, creachable tasks s ->
  (invoked_amo tasks (clog s) -> (finals_in (clog s) <= 1)%nat)
  /\ (invoked_once tasks (clog s) -> cquiescent s -> finals_in (clog s) = 1%nat).
Proof.
  exact (fun tasks s R => conj (final_at_most_once tasks s R) (final_exactly_once tasks s R)).
Qed.
Print Assumptions C15_final_once.

(* Without the hypothesis (a task may call its callback twice): the chain has no guard; every
   callback invocation yields exactly one further invocation of a task or of final. *)
Theorem C15_callbacks_conserved : forall tasks s, creachable tasks s ->
  (length (clog s) + length (cq s) + length (pool s) = 1 + made tasks (clog s))%nat.
Proof. exact conserved_reachable. Qed.
Print Assumptions C15_callbacks_conserved.

(* ---- the other chain runners of utils/waterfall, and the Builder ----
   NewBuilder(s).Next(t)...Final(f).Do() only collects the tasks and calls waterfall.Sche: it
   is the same model (op OChainB = OChain) and is tied by the correspondence run. *)

(* Every clause of the property is a consequence of "the invocation log is an initial segment
   of [spec tasks]" (safety), resp. "is [spec tasks]" (liveness) - whatever produced the log. *)
Theorem C15_laws_from_spec : forall tasks l,
  (ext_of tasks l -> chain_laws tasks l)
  /\ (l = spec tasks -> error_jumps tasks l /\ (invoked_once tasks l -> finals_in l = 1%nat)).
Proof.
  exact (fun tasks l => conj (laws_of_ext tasks l)
           (fun E => conj (jumps_of_eq tasks l E) (once_of_eq tasks l E))).
Qed.
Print Assumptions C15_laws_from_spec.

(* waterfall.Simple (repaired: empty chain -> final(false)): for every task list and every
   order of environment completions, if every invoked task completes at most once the log is an
   initial segment of [spec tasks], and equal to it once no callback is outstanding.  Everything
   runs nested inside the goroutine that called Simple or the callback (measured). *)
Theorem C15_simple : forall tasks sr,
  xreachable tasks sr -> invoked_amo tasks (x_log (fst sr)) ->
  ext_of tasks (x_log (fst sr))
  /\ (x_started (fst sr) = true -> x_pool (fst sr) = [] -> x_log (fst sr) = spec tasks).
Proof. exact simple_holds. Qed.
Print Assumptions C15_simple.

(* For ALL behaviours: the nesting depth never exceeds the number of tasks (the evaluator's
   fuel is never exhausted), and a panic reaches the caller of Simple / of the callback only
   if some task panics (Simple has no recover). *)
Theorem C15_simple_results : forall tasks sr, xreachable tasks sr ->
  ~ In XFuel (snd sr) /\ (nopan tasks -> forall r, In r (snd sr) -> r = XOk).
Proof. exact simple_results. Qed.
Print Assumptions C15_simple_results.

(* waterfall.ExecAndWait (repaired likewise): for every task list and every interleaving of
   loop iterations of the caller and environment completions, if every invoked task completes
   at most once: the log is an initial segment of [spec tasks]; the caller never deadlocks on
   its own channel and no environment goroutine panics; ExecAndWait has returned only if final
   ran, exactly once, and the log is complete; and when nothing can move, every invoked task
   completed exactly once and none panicked, it HAS returned.  (A task that never completes
   parks the caller for ever; a panicking task takes the caller out of ExecAndWait with final
   never run - there is no recover.) *)
Theorem C15_wait : forall tasks s, ereachable tasks s -> invoked_amo tasks (e_log s) ->
  ext_of tasks (e_log s)
  /\ e_status s <> ECallerStuck /\ e_envpanics s = O
  /\ (e_status s = EReturned -> e_log s = spec tasks /\ finals_in (e_log s) = 1%nat)
  /\ (equiescent tasks s -> invoked_once tasks (e_log s) -> invoked_nopanic tasks (e_log s) ->
      e_status s = EReturned).
Proof. exact wait_holds. Qed.
Print Assumptions C15_wait.

(* The three runners coincide: once done, all three logs are [spec tasks]. *)
Theorem C15_runners_coincide : forall tasks sc sx se,
  creachable tasks sc -> cquiescent sc -> invoked_amo tasks (clog sc) ->
  xreachable tasks sx -> x_started (fst sx) = true -> x_pool (fst sx) = [] -> invoked_amo tasks (x_log (fst sx)) ->
  ereachable tasks se -> e_status se = EReturned -> invoked_amo tasks (e_log se) ->
  clog sc = spec tasks /\ x_log (fst sx) = spec tasks /\ e_log se = spec tasks.
Proof. exact runners_coincide. Qed.
Print Assumptions C15_runners_coincide.

(* sche.Mgr: after every history of GetSche/DelSche, a name maps to one scheduler until it is
   deleted (GetSche twice = the same one, state unchanged), other names are not affected, and a
   scheduler created after a delete is one that no name has ever had (ids below the counter). *)
Theorem C15_registry : forall ops n,
  let m := m_run ops in
  (forall k id, aget k (m_reg m) = Some id -> 0 <= id < m_next m)
  /\ m_get (fst (m_get m n)) n = (fst (m_get m n), snd (m_get m n))
  /\ (forall k, k <> n -> aget k (m_reg (fst (m_get m n))) = aget k (m_reg m))
  /\ snd (m_get (m_del m n) n) = m_next m
  /\ (forall k, k <> n -> aget k (m_reg (m_del m n)) = aget k (m_reg m)).
Proof. exact registry_laws. Qed.
Print Assumptions C15_registry.

(* Teardown (Stop with closures queued, Posts after Stop - every schedule with a Stop thread is
   among the reachable states above): in EVERY state, the only step that executes a closure is
   the consumer's; it executes the head of the queue and nothing else, one closure per step;
   Post, Stop and the consumer's exit execute nothing; after the consumer has ended nothing is
   executed any more, whatever is still queued.  With C15_exactly_once (at most once, FIFO,
   stopped_quiescent): a closure queued at Stop is run by the consumer before it ends, or never
   - never elsewhere. *)
Theorem C15_only_consumer_executes : forall s, only_consumer_executes s.
Proof. exact only_consumer_executes_holds. Qed.
Print Assumptions C15_only_consumer_executes.

(* What closures panic WITH is a parameter of the programs ([KPanicV v]; every theorem above
   quantifies over it).  Frame: programs that differ only in panic values behave alike under
   every schedule - same closures executed / queued / accepted / rejected, the consumer alive in
   both or in neither, the same steps enabled: no panic value of an earlier closure can keep a
   later one from running. *)
Theorem C15_panic_value_frame : forall progs progs' ws sched,
  same_shape progs progs' -> panic_value_frame progs progs' ws sched.
Proof. exact panic_value_frame_holds. Qed.
Print Assumptions C15_panic_value_frame.

(* ---- task ids (Part 1i): RunTask.id = (counter + 1) mod 2^32, one counter per process ----
   For every number of posters, every program, every value c0 of the counter when the
   scheduler comes into use - no range restriction - and every schedule in which each poster
   may run AllocId at any moment before its send: *)

(* Forgetting the ids gives a run of the scheduler system of Part 1 with the same closures
   executed in the same order; the task the consumer received is the task that is executed,
   with the id its Post allocated - id 0 is an id like any other. *)
Theorem C15_id_independent : forall progs ws c0 ls, id_independent progs ws c0 ls.
Proof. exact id_independent_holds. Qed.
Print Assumptions C15_id_independent.

(* ... hence exactly once, FIFO, panic isolation for every starting value of the counter *)
Theorem C15_exactly_once_any_counter : forall progs ws c0 ls,
  let s := i_st (irun (iinit progs ws c0) ls) in
  exactly_once_safe progs s /\ exactly_once_quiescent progs s /\ stopped_quiescent s /\ per_poster_fifo progs s /\ panic_isolated s.
Proof. exact any_counter. Qed.
Print Assumptions C15_exactly_once_any_counter.

(* The ids are c0+1, c0+2, ... in uint32 arithmetic: after 4294967295 comes 0. *)
Theorem C15_ids_wrap : forall progs ws c0 ls, ids_wrap progs ws c0 ls.
Proof. exact ids_wrap_holds. Qed.
Print Assumptions C15_ids_wrap.

(* ---- shared task lists (Part 2s): the caller's slices, any number of chains started over
   them (the same slice any number of times), every interleaving of their steps ---- *)

(* Frame: running chains does not change the task lists they were given. *)
Theorem C15_chain_frame : forall mem ls, sh_mem (shrun mem ls) = mem.
Proof. exact chain_frame. Qed.
Print Assumptions C15_chain_frame.

(* Hence each of k chains over one list is a run of the single-chain machine over that list
   as the caller defined it - a fresh copy would make no difference - and C15_chain_spec,
   C15_final_once (and with them order, arguments, first-error) hold of it. *)
Theorem C15_shared_chains : forall mem ls c l cs,
  nth_error (sh_chains (shrun mem ls)) c = Some (l, cs) -> shared_chain_ok (nth l mem []) cs.
Proof. exact shared_chains_spec. Qed.
Print Assumptions C15_shared_chains.

(* ---- non-vacuity and the double-callback witness ---- *)

(* two posters, a panicking closure in the middle, interleaved with the consumer *)
Example C15_example_panic :
  let s := run_sched (init [[KOk; KPanic; KOk]; [KOk]] false)
             [TPost 0; TPost 0; TCons; TPost 1; TCons; TCons; TPost 0; TCons] in
  exec_ids s = [(0, 0); (0, 1); (1, 0); (0, 2)]%nat /\ queue s = [] /\ alive s = true
  /\ escaped s = false /\ map p_rest (posters s) = [[]; []].
Proof. vm_compute. repeat split. Qed.

Example C15_example_quiescent :
  quiescent (run_sched (init [[KOk; KPanic; KOk]; [KOk]] false)
               [TPost 0; TPost 0; TCons; TPost 1; TCons; TCons; TPost 0; TCons]).
Proof. intro t. destruct t as [i| | |]; [destruct i as [|[|i]]; [| |destruct i] | | |]; reflexivity. Qed.

(* one poster beyond the capacity: its 1000th Post is not enabled until the consumer took one *)
Example C15_example_full :
  let s0 := run_sched (init [repeat KOk 1001] false) (repeat (TPost 0) 1003) in
  let s1 := run_sched s0 [TCons; TPost 0; TPost 0] in
  length (accepted s0) = 999%nat /\ tstep s0 (TPost 0) = None
  /\ length (accepted s1) = 1000%nat /\ exec_ids s1 = [(0, 0)]%nat /\ tstep s1 (TPost 0) = None.
Proof. vm_compute. repeat split. Qed.

(* Stop with a task queued: the Post after it is rejected; the consumer may take the queued
   task or leave without it *)
Example C15_example_stop :
  let s := run_sched (init [[KOk; KOk]] true) [TPost 0; TStop; TPost 0] in
  accepted s = [(0, 0)]%nat /\ rejected s = [(0, 1)]%nat /\ escaped s = false
  /\ exec_ids (run_sched s [TCons; TExit]) = [(0, 0)]%nat
  /\ exec_ids (run_sched s [TExit; TCons]) = [].
Proof. vm_compute. repeat split. Qed.

Definition ex_chain : list beh :=
  [Beh [(false, [1])] [] false; Beh [] [(false, [2; 3])] false;
   Beh [(true, [9])] [] true; Beh [(false, [4])] [] false].

(* sync, later (fired by the environment between consumer steps), error at task 2: task 3 skipped *)
Example C15_example_chain :
  let s := crun ex_chain [LCons; LCons; LCons; LFire 1 0; LCons; LCons] in
  clog s = [ETask 0 []; ETask 1 [1]; ETask 2 [2; 3]; EFinal true [9]]
  /\ clog s = spec ex_chain /\ cq s = [] /\ pool s = [].
Proof. vm_compute. repeat split. Qed.

(* Double callback, as in the real code (replayed by the harness): no deduplication.  Task 0
   calls back twice: task 2 is invoked with task 0's second results while task 1 has not
   completed, and final runs twice. *)
Example C15_double_callback :
  let t := [Beh [(false, [1]); (false, [2])] [] false; Beh [] [] false;
            Beh [(false, [3]); (true, [4])] [] false] in
  clog (crun t [LCons; LCons; LCons; LCons; LCons])
  = [ETask 0 []; ETask 1 [1]; ETask 2 [2]; EFinal false [3]; EFinal true [4]].
Proof. vm_compute. reflexivity. Qed.

(* the same chain under the three runners: the same log; ExecAndWait returns after final *)
Example C15_example_runners :
  clog (crun ex_chain [LCons; LCons; LCons; LFire 1 0; LCons; LCons]) = spec ex_chain
  /\ x_log (fst (x_run ex_chain [XStart; XFire 1 0])) = spec ex_chain
  /\ snd (x_run ex_chain [XStart; XFire 1 0]) = [XOk; XPanic]
  /\ e_log (erun ex_chain [WStart; WLoop; WFire 1 0; WLoop]) = [ETask 0 []; ETask 1 [1]; ETask 2 [2; 3]]
  /\ e_status (erun ex_chain [WStart; WLoop; WFire 1 0; WLoop]) = ECallerPanic.
Proof. vm_compute. repeat split. Qed.

(* an empty chain: all three call final(false) at once (Simple and ExecAndWait after the fix) *)
Example C15_example_empty :
  clog (crun [] [LCons]) = [EFinal false []]
  /\ x_log (fst (x_run [] [XStart])) = [EFinal false []]
  /\ e_log (erun [] [WStart]) = [EFinal false []] /\ e_status (erun [] [WStart]) = EReturned.
Proof. vm_compute. repeat split. Qed.

(* ExecAndWait waits for final: parked while task 1 is outstanding, returned after its error *)
Example C15_example_wait :
  let t := [Beh [(false, [1])] [] false; Beh [] [(true, [7])] false; Beh [(false, [2])] [] false] in
  let s1 := erun t [WStart; WLoop] in
  let s2 := erun t [WStart; WLoop; WFire 1 0; WLoop; WLoop] in
  e_status s1 = ELooping /\ estep t s1 WLoop = None /\ e_log s1 = [ETask 0 []; ETask 1 [1]]
  /\ e_status s2 = EReturned /\ e_log s2 = [ETask 0 []; ETask 1 [1]; EFinal true [7]].
Proof. vm_compute. repeat split. Qed.

(* Double callback outside the scheduler variant, as in the real code (replayed by the
   harness).  Simple: depth first - the rest of the chain runs inside the first callback, the
   second one yields a second final.  ExecAndWait: the caller blocks for ever in its own second
   send (capacity 1). *)
Example C15_double_callback_simple :
  let t := [Beh [(false, [1]); (false, [2])] [] false; Beh [(false, [3])] [] false; Beh [(false, [4])] [] false] in
  x_log (fst (x_run t [XStart]))
  = [ETask 0 []; ETask 1 [1]; ETask 2 [3]; EFinal false [4]; EFinal false [2]].
Proof. vm_compute. reflexivity. Qed.

Example C15_double_callback_wait :
  let t := [Beh [(false, [1]); (false, [2])] [] false; Beh [(false, [3])] [] false] in
  e_status (erun t [WStart]) = ECallerStuck /\ e_log (erun t [WStart]) = [ETask 0 []].
Proof. vm_compute. repeat split. Qed.

Example C15_example_registry :
  let m := m_run [MGet 1; MGet 2; MGet 1; MDel 1; MGet 1] in
  m_reg m = [(1, 2); (2, 1)] /\ m_next m = 3.
Proof. vm_compute. repeat split. Qed.

(* the counter three below the wrap: the third Post gets id 0, and its closure runs like the rest *)
Example C15_example_id_wrap :
  let s := irun (iinit [repeat KOk 5] false 4294967293)
             (repeat (IStep (TPost 0)) 5 ++ repeat (IStep TCons) 5) in
  i_given s = [((0%nat, 0%nat), 4294967294); ((0%nat, 1%nat), 4294967295); ((0%nat, 2%nat), 0); ((0%nat, 3%nat), 1); ((0%nat, 4%nat), 2)]
  /\ i_xids s = i_given s /\ i_ctr s = 2
  /\ exec_ids (i_st s) = [(0, 0); (0, 1); (0, 2); (0, 3); (0, 4)]%nat /\ queue (i_st s) = [].
Proof. vm_compute. repeat split. Qed.

(* ids need not enter the queue in allocation order (poster 0 allocates first, sends last); a
   poster blocked on the full queue keeps the id it allocated *)
Example C15_example_id_order :
  let s := irun (iinit [[KOk]; [KOk]] false 4294967295) [IAlloc 0; IStep (TPost 1); IStep (TPost 0)] in
  i_given s = [((0%nat, 0%nat), 0); ((1%nat, 0%nat), 1)] /\ i_qids s = [1; 0]
  /\ i_xids (irun s [IStep TCons; IStep TCons]) = [((1%nat, 0%nat), 1); ((0%nat, 0%nat), 0)].
Proof. vm_compute. repeat split. Qed.

Example C15_example_id_blocked :
  let s := irun (iinit [repeat KOk 1000] false 4294966297) (repeat (IStep (TPost 0)) 1001) in
  length (queue (i_st s)) = 999%nat /\ i_held s = [(0%nat, 1)] /\ i_ctr s = 1
  /\ last (i_qids (irun s [IStep TCons; IStep (TPost 0)])) 7 = 1.
Proof. vm_compute. repeat split. Qed.

(* one task list, three chains over it: two interleaved, the third after both are done *)
Example C15_example_shared :
  let s := shrun [ex_chain]
             [ShStart 0; ShStart 0; ShStep 0 LCons; ShStep 1 LCons; ShStep 1 LCons; ShStep 0 LCons;
              ShStep 0 LCons; ShStep 1 LCons; ShStep 1 (LFire 1 0); ShStep 0 (LFire 1 0);
              ShStep 0 LCons; ShStep 0 LCons; ShStep 1 LCons; ShStep 1 LCons;
              ShStart 0; ShStep 2 LCons; ShStep 2 LCons; ShStep 2 LCons; ShStep 2 (LFire 1 0);
              ShStep 2 LCons; ShStep 2 LCons] in
  map (fun lc => clog (snd lc)) (sh_chains s) = [spec ex_chain; spec ex_chain; spec ex_chain]
  /\ sh_mem s = [ex_chain].
Proof. vm_compute. repeat split. Qed.

(* two panics with the same non-comparable value type in a row, then closures that return *)
Example C15_example_panic_values :
  let sched := [TPost 0; TPost 0; TPost 1; TPost 0; TCons; TCons; TCons; TCons] in
  let s := run_sched (init [[KPanicV PSliceErr; KPanicV PSliceErr; KOk]; [KOk]] false) sched in
  exec_ids s = [(0, 0); (0, 1); (1, 0); (0, 2)]%nat /\ alive s = true /\ escaped s = false /\ queue s = []
  /\ exec_ids s = exec_ids (run_sched (init [[KPanic; KPanicV PMap; KOk]; [KOk]] false) sched).
Proof. vm_compute. repeat split. Qed.
