(* C15 - the property as Props over reachable states / logs, and the boolean monitors that
   are evaluated on the implementation's own traces.  No proofs in this file. *)
From Cell2V Require Import Common.Tac Common.ListX Common.AList C15.Model.

(* ------------------------------------------------------------------ Part 1 *)

Definition exec_ids (s : st) : list cid := map fst (executed s).
Definition queue_ids (s : st) : list cid := map fst (queue s).

Definition prog_len (progs : list (list kind)) (i : nat) : nat := length (nth i progs []).

Definition kind_of (progs : list (list kind)) (c : cid) : option kind :=
  nth_error (nth (fst c) progs []) (snd c).

(* c is the id of a Post call that some poster's program contains *)
Definition posted (progs : list (list kind)) (c : cid) : Prop :=
  (fst c < length progs)%nat /\ (snd c < prog_len progs (fst c))%nat.

(* Safety part, at every reachable state. *)
Definition exactly_once_safe (progs : list (list kind)) (s : st) : Prop :=
  (forall c k, In (c, k) (executed s) -> kind_of progs c = Some k)  (* only posted closures run, as posted *)
  /\ NoDup (accepted s)
  /\ exec_ids s ++ queue_ids s = accepted s   (* global FIFO: executed, then queued = acceptance order *)
  /\ NoDup (exec_ids s)                       (* at most once *)
  /\ (forall c, In c (exec_ids s) -> In c (accepted s))
  /\ (forall c, In c (rejected s) -> ~ In c (exec_ids s)).

(* At quiescence of a scheduler that was not stopped: exactly once, nothing left. *)
Fixpoint ccount (c : cid) (l : list cid) : nat :=
  match l with [] => O | x :: r => ((if cid_eqb c x then 1 else 0) + ccount c r)%nat end.

Definition exactly_once_quiescent (progs : list (list kind)) (s : st) : Prop :=
  quiescent s -> stopped s = false ->
  queue s = [] /\ rejected s = []
  /\ (forall c, posted progs c -> ccount c (exec_ids s) = 1%nat)
  /\ (forall c, ~ posted progs c -> ccount c (exec_ids s) = 0%nat).

(* After Stop the consumer may leave with tasks still queued (Handler's select picks the
   close channel): they are never run.  What still holds at quiescence: *)
Definition stopped_quiescent (s : st) : Prop :=
  quiescent s -> stopped s = true ->
  alive s = false /\ (forall i p, nth_error (posters s) i = Some p -> p_rest p = []).

Definition per_poster_fifo (progs : list (list kind)) (s : st) : Prop :=
  forall i,
    (exists n, by_poster i (exec_ids s) = ids i n /\ (n <= prog_len progs i)%nat)
    /\ (quiescent s -> stopped s = false -> by_poster i (exec_ids s) = ids i (prog_len progs i)).

Definition panic_isolated (s : st) : Prop :=
  escaped s = false
  /\ (alive s = false -> stopped s = true)     (* the consumer only ever leaves through Stop *)
  /\ (forall c k q', alive s = true -> queue s = (c, k) :: q' ->   (* k: returns, or panics with ANY value *)
        exists s', tstep s TCons = Some s' /\ alive s' = true /\ queue s' = q'
                   /\ executed s' = executed s ++ [(c, k)] /\ escaped s' = false).

(* Teardown.  The property says "every closure posted to a RUNNING scheduler is executed exactly
   once ON THE SCHEDULER'S CONSUMER GOROUTINE".  A closure still queued when Stop is called was
   accepted by a running scheduler; Stop does not wait for it.  What the text leaves open is
   WHETHER it still runs (the consumer may take it before it ends, or end without it); what it
   fixes is WHERE and HOW: by the consumer, one at a time - never by the goroutine that calls
   Stop, never by anybody after the consumer has ended.  In the transition system:
   the only step that executes anything is the consumer's, it executes exactly the head of the
   queue, completely (steps are atomic: no closure runs inside or next to another); Post, Stop
   and the consumer's exit execute nothing; once the consumer has ended nothing is ever executed
   again, whatever is queued. *)
Definition only_consumer_executes (s : st) : Prop :=
  (forall t s', tstep s t = Some s' ->
     match t with
     | TCons => exists it, queue s = it :: queue s' /\ executed s' = executed s ++ [it]
     | _ => executed s' = executed s
     end)
  /\ (alive s = false -> forall sched,
        executed (run_sched s sched) = executed s /\ alive (run_sched s sched) = false).

(* Frame: what closures panic WITH has no influence.  Two systems whose programs differ only in
   panic values, under the same schedule: the same steps are enabled, the same closures have
   run, are queued, were accepted / rejected, the consumer is alive in both or in neither. *)
Definition same_shape (progs progs' : list (list kind)) : Prop :=
  map (map kerase) progs = map (map kerase) progs'.

Definition panic_value_frame (progs progs' : list (list kind)) (ws : bool) (sched : list tid) : Prop :=
  let s := run_sched (init progs ws) sched in
  let s' := run_sched (init progs' ws) sched in
  st_erase s = st_erase s'
  /\ exec_ids s = exec_ids s' /\ queue_ids s = queue_ids s'
  /\ accepted s = accepted s' /\ rejected s = rejected s'
  /\ alive s = alive s' /\ stopped s = stopped s' /\ escaped s = escaped s'
  /\ (forall t, tstep s t = None <-> tstep s' t = None).

Definition post_after_stop (s : st) : Prop :=
  stopped s = true ->
  forall i n k r, nth_error (posters s) i = Some (mkP n (k :: r)) ->
    fst (post (queue s) (stopped s) ((i, n), k)) = PostNil
    /\ exists s', tstep s (TPost i) = Some s'
         /\ rejected s' = rejected s ++ [(i, n)] /\ accepted s' = accepted s
         /\ queue s' = queue s /\ executed s' = executed s
         /\ alive s' = alive s /\ escaped s' = false.

(* ------------------------------------------------------------------ Part 1i *)
(* Which closures run, when, how often and in what order does not depend on the ids their
   RunTasks carry: for EVERY value [c0] of the process-wide counter (so also right before and
   across the uint32 wrap, where a task gets id 0) and every id-annotated schedule, forgetting
   the ids leaves a run of the scheduler system of Part 1 - to which all its theorems apply -
   and every task the consumer received was executed, whatever its id (the id log is the
   execution log, entry by entry, each with the id its Post allocated). *)
Definition id_independent (progs : list (list kind)) (ws : bool) (c0 : Z) (ls : list ilabel) : Prop :=
  let s := irun (iinit progs ws c0) ls in
  i_st s = run_sched (init progs ws) (erase ls)
  /\ reachable progs ws (i_st s)
  /\ map fst (i_xids s) = exec_ids (i_st s)
  /\ (forall c id, In (c, id) (i_xids s) -> In (c, id) (i_given s))
  /\ length (i_qids s) = length (queue (i_st s)).

(* The k-th id handed out is (c0 + k) mod 2^32: uint32 arithmetic, 0 included. *)
Definition ids_wrap (progs : list (list kind)) (ws : bool) (c0 : Z) (ls : list ilabel) : Prop :=
  let s := irun (iinit progs ws c0) ls in
  map snd (i_given s) = map (fun k => wrap32 (c0 + Z.of_nat k)) (seq 1 (length (i_given s)))
  /\ (forall c id, In (c, id) (i_given s) -> 0 <= id < two32)
  /\ i_ctr s = last (map snd (i_given s)) c0.

(* ------------------------------------------------------------------ Part 2 *)

Definition is_task (e : ev) : bool := match e with ETask _ _ => true | EFinal _ _ => false end.
Definition is_final (e : ev) : bool := negb (is_task e).
Definition tasks_in (l : list ev) : nat := length (filter is_task l).
Definition finals_in (l : list ev) : nat := length (filter is_final l).

(* every task that was invoked completes at most once / exactly once *)
Definition invoked_amo (tasks : list beh) (l : list ev) : Prop :=
  forall i a b, In (ETask i a) l -> nth_error tasks i = Some b -> (length (completions b) <= 1)%nat.
Definition invoked_once (tasks : list beh) (l : list ev) : Prop :=
  forall i a b, In (ETask i a) l -> nth_error tasks i = Some b -> length (completions b) = 1%nat.

Definition creachable (tasks : list beh) (s : cst) : Prop := exists ls, s = crun tasks ls.
Definition cquiescent (s : cst) : Prop := cq s = [] /\ pool s = [].

Inductive prefix {A} : list A -> list A -> Prop :=
| prefix_intro : forall l r, prefix l (l ++ r).

(* tasks run one after another, in order: the k-th task event is task k, it is preceded by
   task events only, and nothing follows a final *)
Definition chain_order (l : list ev) : Prop :=
  forall pre e post, l = pre ++ e :: post ->
    forallb is_task pre = true /\ (forall i a, e = ETask i a -> i = length pre).

(* each task receives exactly the previous task's results *)
Definition chain_args (tasks : list beh) (l : list ev) : Prop :=
  (forall a, In (ETask 0 a) l -> a = [])
  /\ (forall i a, In (ETask (S i) a) l ->
        exists b, nth_error tasks i = Some b /\ completions b = [(false, a)]).

(* a final with err=true carries the results of the error completion of the last invoked
   task, all earlier tasks completed without error; a final with err=false comes after all
   tasks ran and carries the last task's results *)
Definition chain_finals (tasks : list beh) (l : list ev) : Prop :=
  (forall r, In (EFinal true r) l ->
      exists i b, tasks_in l = S i /\ nth_error tasks i = Some b /\ completions b = [(true, r)])
  /\ (forall r, In (EFinal false r) l ->
      tasks_in l = length tasks
      /\ match length tasks with
         | O => r = []
         | S i => exists b, nth_error tasks i = Some b /\ completions b = [(false, r)]
         end).

(* liveness half of "jumps to final at the first error": once nothing is pending *)
Definition error_jumps (tasks : list beh) (l : list ev) : Prop :=
  forall i a b r, In (ETask i a) l -> nth_error tasks i = Some b -> completions b = [(true, r)] ->
    exists pre, l = pre ++ [ETask i a; EFinal true r].

(* ---- shared task lists (Part 2s) ---- *)

(* what holds of ONE chain over a list of its own, restated for a chain state [cs] found among
   many chains sharing the list [tasks] *)
Definition shared_chain_ok (tasks : list beh) (cs : cst) : Prop :=
  creachable tasks cs
  /\ (invoked_amo tasks (clog cs) -> prefix (clog cs) (spec tasks) /\ (cquiescent cs -> clog cs = spec tasks))
  /\ (invoked_amo tasks (clog cs) -> (finals_in (clog cs) <= 1)%nat)
  /\ (invoked_once tasks (clog cs) -> cquiescent cs -> finals_in (clog cs) = 1%nat).

(* ---- the other runners (Part 2b Simple, Part 2c ExecAndWait) ---- *)

(* the log is an initial segment of the history function *)
Definition ext_of (tasks : list beh) (l : list ev) : Prop := exists ext, l ++ ext = spec tasks.

(* all clauses of the property that speak about an invocation log *)
Definition chain_laws (tasks : list beh) (l : list ev) : Prop :=
  chain_order l /\ chain_args tasks l /\ chain_finals tasks l /\ (finals_in l <= 1)%nat.

Definition no_pan (b : beh) : bool := match b with Beh _ _ p => negb p end.

Definition invoked_nopanic (tasks : list beh) (l : list ev) : Prop :=
  forall i a b, In (ETask i a) l -> nth_error tasks i = Some b -> no_pan b = true.

Definition xreachable (tasks : list beh) (sr : xst * list xres) : Prop := exists ls, sr = x_run tasks ls.
Definition ereachable (tasks : list beh) (s : est) : Prop := exists ls, s = erun tasks ls.
Definition equiescent (tasks : list beh) (s : est) : Prop := forall l, estep tasks s l = None.

(* ---- boolean monitors, evaluated on implementation traces by Corr.v ---- *)

Fixpoint prefixb {A} (eqb : A -> A -> bool) (p l : list A) : bool :=
  match p, l with
  | [], _ => true
  | x :: p', y :: l' => eqb x y && prefixb eqb p' l'
  | _ :: _, [] => false
  end.

Definition ev_eqb (a b : ev) : bool :=
  match a, b with
  | ETask i x, ETask j y => Nat.eqb i j && zlist_eqb x y
  | EFinal e x, EFinal f y => Bool.eqb e f && zlist_eqb x y
  | _, _ => false
  end.

Definition sev_eqb (a b : sev) : bool :=
  match a, b with
  | SExec p n, SExec q m => Z.eqb p q && Z.eqb n m
  | SPostFail p n, SPostFail q m => Z.eqb p q && Z.eqb n m
  | STask c i x, STask d j y => Z.eqb c d && Z.eqb i j && zlist_eqb x y
  | SFinal c e x, SFinal d f y => Z.eqb c d && Bool.eqb e f && zlist_eqb x y
  | SRet c, SRet d | SEsc c, SEsc d | SHang c, SHang d | SMgr c, SMgr d | SBad c, SBad d => Z.eqb c d
  (* "the consumer received a task": the property does not speak about the VALUE of a task id
     (how ids are allocated may change without touching it), so the value is shown in the
     observation but not compared; that the counter really was where OSetId put it, and that a
     task with id 0 was received, is measured by the harness (SBad 8, tag id0-received) *)
  | SId _, SId _ => true
  | _, _ => false
  end.

(* the events of chain c, as chain-machine events *)
Fixpoint chain_events (c : Z) (l : list sev) : list ev :=
  match l with
  | [] => []
  | STask d i a :: r => if Z.eqb c d then ETask (Z.to_nat i) a :: chain_events c r else chain_events c r
  | SFinal d e a :: r => if Z.eqb c d then EFinal e a :: chain_events c r else chain_events c r
  | _ :: r => chain_events c r
  end.

Fixpoint exec_events (l : list sev) : list (Z * Z) :=
  match l with
  | [] => []
  | SExec p n :: r => (p, n) :: exec_events r
  | _ :: r => exec_events r
  end.

Definition zz_eqb (a b : Z * Z) : bool := Z.eqb (fst a) (fst b) && Z.eqb (snd a) (snd b).

Fixpoint zz_nodup (l : list (Z * Z)) : bool :=
  match l with [] => true | x :: r => negb (existsb (zz_eqb x) r) && zz_nodup r end.

Fixpoint zseq (from : Z) (n : nat) : list Z :=
  match n with O => [] | S m => from :: zseq (from + 1) m end.

(* the sequence numbers executed for poster p must be 0,1,2,... in that order *)
Definition fifo_ok (p : Z) (ex : list (Z * Z)) : bool :=
  let mine := map snd (filter (fun x => Z.eqb (fst x) p) ex) in
  zlist_eqb mine (zseq 0 (length mine)).

(* every task invoked in [l] satisfies [f] *)
Definition invoked_all (f : beh -> bool) (tasks : list beh) (l : list ev) : bool :=
  forallb (fun e => match e with
                    | ETask i _ => match nth_error tasks i with Some b => f b | None => true end
                    | EFinal _ _ => true
                    end) l.
