(* C15 - proofs. Part 1: inductive invariant of the scheduler transition system.
   Part 2: the chain machine refines the history function [spec]. *)
From Cell2V Require Import Common.Tac Common.ListX Common.AList C15.Model C15.Spec.

(* ------------------------------------------------------------------ lists *)

Lemma cid_eqb_eq a b : cid_eqb a b = true <-> a = b.
Proof.
  destruct a as [a1 a2], b as [b1 b2]. unfold cid_eqb. cbn [fst snd].
  rewrite andb_true_iff, !Nat.eqb_eq. split.
  - intros [H1 H2]. subst. reflexivity.
  - intro H. inv H. split; reflexivity.
Qed.

Lemma cid_eqb_refl a : cid_eqb a a = true.
Proof. apply cid_eqb_eq. reflexivity. Qed.

Lemma map_seq_prefix {A} (f : nat -> A) : forall l1 l2 a n,
  l1 ++ l2 = map f (seq a n) -> l1 = map f (seq a (length l1)) /\ (length l1 <= n)%nat.
Proof.
  induction l1 as [|x l1 IH]; intros l2 a n H.
  - cbn. split; [reflexivity | lia].
  - destruct n as [|n]; [discriminate H|].
    cbn in H. inv H. destruct (IH _ _ _ H2) as [E L].
    split; [cbn; f_equal; exact E | cbn; lia].
Qed.

Lemma ids_S i n : ids i (S n) = ids i n ++ [(i, n)].
Proof. unfold ids. rewrite seq_S, map_app. reflexivity. Qed.

Lemma ids_In i n c : In c (ids i n) <-> fst c = i /\ (snd c < n)%nat.
Proof.
  unfold ids. rewrite in_map_iff. split.
  - intros [j [E I]]. apply in_seq in I. subst c. cbn. lia.
  - intros [E L]. exists (snd c). split.
    + destruct c. cbn in *. subst. reflexivity.
    + apply in_seq. lia.
Qed.

Lemma NoDup_snoc {A} (l : list A) x : NoDup l -> ~ In x l -> NoDup (l ++ [x]).
Proof.
  induction l as [|y l IH]; intros N NI; cbn.
  - constructor; [intros []|constructor].
  - inv N. constructor.
    + rewrite in_app_iff. intros [I|[E|[]]]; [contradiction|]. subst. apply NI. left. reflexivity.
    + apply IH; [assumption|]. intro I. apply NI. right. exact I.
Qed.

Lemma ids_NoDup i n : NoDup (ids i n).
Proof.
  induction n as [|n IH]; [constructor|].
  rewrite ids_S. apply NoDup_snoc; [exact IH|].
  rewrite ids_In. cbn. lia.
Qed.

Lemma NoDup_app_l {A} (l1 l2 : list A) : NoDup (l1 ++ l2) -> NoDup l1.
Proof.
  induction l1 as [|x l1 IH]; intro N; [constructor|].
  cbn in N. inv N. constructor.
  - intro I. apply H1. apply in_or_app. left. exact I.
  - apply IH. assumption.
Qed.

Lemma NoDup_app_disj {A} (l1 l2 : list A) x : NoDup (l1 ++ l2) -> In x l1 -> In x l2 -> False.
Proof.
  induction l1 as [|y l1 IH]; intros N I1 I2; [destruct I1|].
  cbn in N. inv N. destruct I1 as [E|I1].
  - subst. apply H1. apply in_or_app. right. exact I2.
  - apply IH; assumption.
Qed.

Lemma by_poster_app i l1 l2 : by_poster i (l1 ++ l2) = by_poster i l1 ++ by_poster i l2.
Proof. apply filter_app. Qed.

Lemma by_poster_In i l c : In c (by_poster i l) <-> In c l /\ fst c = i.
Proof. unfold by_poster. rewrite filter_In, Nat.eqb_eq. tauto. Qed.

Lemma by_poster_one i c : by_poster i [c] = if Nat.eqb (fst c) i then [c] else [].
Proof. reflexivity. Qed.

Lemma NoDup_by_poster l : (forall i, NoDup (by_poster i l)) -> NoDup l.
Proof.
  induction l as [|x l IH]; intro H; [constructor|].
  constructor.
  - intro I. specialize (H (fst x)). unfold by_poster in H. cbn [filter] in H.
    rewrite Nat.eqb_refl in H. inv H. apply H2. apply by_poster_In. split; [exact I|reflexivity].
  - apply IH. intro i. specialize (H i). unfold by_poster in H. cbn [filter] in H.
    destruct (Nat.eqb (fst x) i); [inv H; assumption | exact H].
Qed.

Lemma ccount_notin c l : ~ In c l -> ccount c l = 0%nat.
Proof.
  induction l as [|x l IH]; intro NI; [reflexivity|].
  cbn [ccount]. destruct (cid_eqb c x) eqn:E.
  - apply cid_eqb_eq in E. subst. exfalso. apply NI. left. reflexivity.
  - rewrite IH; [reflexivity|]. intro I. apply NI. right. exact I.
Qed.

Lemma ccount_nodup c l : NoDup l -> In c l -> ccount c l = 1%nat.
Proof.
  induction l as [|x l IH]; intros N I; [destruct I|].
  inv N. cbn [ccount]. destruct (cid_eqb c x) eqn:E.
  - apply cid_eqb_eq in E. subst. rewrite ccount_notin; [reflexivity | assumption].
  - destruct I as [I|I]; [subst; rewrite cid_eqb_refl in E; discriminate|].
    rewrite IH; [reflexivity | assumption | assumption].
Qed.

Lemma nth_error_set_nth_same {A} (l : list A) i x :
  (i < length l)%nat -> nth_error (set_nth i x l) i = Some x.
Proof.
  revert i. induction l as [|y l IH]; intros i L; cbn in L; [lia|].
  destruct i as [|i]; cbn; [reflexivity|]. apply IH. lia.
Qed.

Lemma nth_error_set_nth_other {A} (l : list A) i j x :
  i <> j -> nth_error (set_nth i x l) j = nth_error l j.
Proof.
  revert i j. induction l as [|y l IH]; intros i j NE.
  - destruct i; reflexivity.
  - destruct i as [|i], j as [|j]; cbn; try reflexivity; try congruence.
    apply IH. congruence.
Qed.

Lemma length_set_nth {A} (l : list A) i x : length (set_nth i x l) = length l.
Proof.
  revert i. induction l as [|y l IH]; intro i; [destruct i; reflexivity|].
  destruct i; cbn; [reflexivity | rewrite IH; reflexivity].
Qed.

(* ------------------------------------------------------------------ Part 1 *)

Lemma do_task_ok k : do_task k = ROk.
Proof. destruct k; reflexivity. Qed.

Lemma cap_pos : (0 < cap)%nat.
Proof. unfold cap. lia. Qed.
Global Opaque cap.

Lemma post_never_panics q c it : fst (post q c it) <> PostPanic.
Proof.
  unfold post, chan_send. destruct c; [cbn; discriminate|].
  destruct (Nat.ltb (length q) cap); cbn; discriminate.
Qed.

Lemma post_closed q it : post q true it = (PostNil, q).
Proof. reflexivity. Qed.

Definition next_of (s : st) (i : nat) : nat :=
  match nth_error (posters s) i with Some p => p_next p | None => O end.

Record Inv (progs : list (list kind)) (s : st) : Prop := {
  inv_fifo : exec_ids s ++ queue_ids s = accepted s;
  inv_len : length (posters s) = length progs;
  inv_prog : forall i p, nth_error (posters s) i = Some p ->
             exists done, nth i progs [] = done ++ p_rest p /\ length done = p_next p;
  inv_ids : forall i, by_poster i (accepted s) ++ by_poster i (rejected s) = ids i (next_of s i);
  inv_rej : stopped s = false -> rejected s = [];
  inv_kind : forall c k, In (c, k) (executed s ++ queue s) -> kind_of progs c = Some k;
  inv_esc : escaped s = false;
  inv_alive : alive s = false -> stopped s = true;
  inv_cap : (length (queue s) <= cap)%nat
}.

Lemma inv_init progs ws : Inv progs (init progs ws).
Proof.
  constructor; cbn.
  - reflexivity.
  - apply map_length.
  - intros i p H. rewrite nth_error_map in H.
    destruct (nth_error progs i) as [pr|] eqn:E; [|discriminate]. cbn in H. inv H.
    exists []. cbn. split; [|reflexivity]. apply nth_error_nth. exact E.
  - intro i. unfold next_of. cbn. rewrite nth_error_map.
    destruct (nth_error progs i); reflexivity.
  - reflexivity.
  - intros c k [].
  - reflexivity.
  - discriminate.
  - lia.
Qed.

Lemma next_of_set s i p ps' j :
  nth_error (posters s) i = Some p ->
  (match nth_error (set_nth i ps' (posters s)) j with Some q => p_next q | None => O end)
  = if Nat.eqb i j then p_next ps' else next_of s j.
Proof.
  intro H. destruct (Nat.eqb_spec i j) as [E|NE].
  - subst. rewrite nth_error_set_nth_same; [reflexivity|].
    apply nth_error_Some. congruence.
  - rewrite nth_error_set_nth_other by exact NE. reflexivity.
Qed.

Lemma inv_prog_set progs s i n k r :
  Inv progs s -> nth_error (posters s) i = Some (mkP n (k :: r)) ->
  forall j p, nth_error (set_nth i (mkP (S n) r) (posters s)) j = Some p ->
  exists done, nth j progs [] = done ++ p_rest p /\ length done = p_next p.
Proof.
  intros I H j p Hj. destruct (Nat.eq_dec i j) as [E|NE].
  - subst. rewrite nth_error_set_nth_same in Hj by (apply nth_error_Some; congruence).
    inv Hj. destruct (inv_prog _ _ I _ _ H) as [done [E1 E2]]. cbn in E1, E2.
    exists (done ++ [k]). cbn. rewrite <- app_assoc. split; [exact E1|].
    rewrite app_length. cbn. lia.
  - rewrite nth_error_set_nth_other in Hj by exact NE. apply (inv_prog _ _ I). exact Hj.
Qed.

Lemma kind_of_next progs s i n k r :
  Inv progs s -> nth_error (posters s) i = Some (mkP n (k :: r)) -> kind_of progs (i, n) = Some k.
Proof.
  intros I H. destruct (inv_prog _ _ I _ _ H) as [done [E1 E2]]. cbn in E1, E2.
  unfold kind_of. cbn [fst snd]. rewrite E1, nth_error_app2 by lia.
  rewrite E2, Nat.sub_diag. reflexivity.
Qed.

Ltac sproj := cbn [queue stopped stop_pending alive posters executed accepted rejected escaped].

Lemma inv_step progs s t s' : Inv progs s -> tstep s t = Some s' -> Inv progs s'.
Proof.
  intros I H. destruct t as [i| | |]; cbn [tstep] in H.
  - (* TPost *)
    destruct (nth_error (posters s) i) as [[n [|k r]]|] eqn:HP; try discriminate.
    unfold post, chan_send in H.
    destruct (stopped s) eqn:HS.
    + (* closed: nil *)
      inv H. constructor; sproj.
      * apply (inv_fifo _ _ I).
      * rewrite length_set_nth. apply (inv_len _ _ I).
      * apply (inv_prog_set progs s i n k r I HP).
      * intro j. unfold next_of. cbn [posters]. rewrite (next_of_set s i _ _ j HP). cbn [p_next].
        rewrite by_poster_app, app_assoc, (inv_ids _ _ I j), by_poster_one. cbn [fst].
        destruct (Nat.eqb_spec i j) as [E|NE].
        -- subst. unfold next_of. rewrite HP. cbn [p_next]. rewrite ids_S. reflexivity.
        -- rewrite app_nil_r. reflexivity.
      * discriminate.
      * apply (inv_kind _ _ I).
      * apply (inv_esc _ _ I).
      * intros _. reflexivity.
      * apply (inv_cap _ _ I).
    + destruct (Nat.ltb (length (queue s)) cap) eqn:HL; [|discriminate].
      apply Nat.ltb_lt in HL.
      inv H. constructor; sproj.
      * pose proof (inv_fifo _ _ I) as HF. unfold exec_ids, queue_ids in *. sproj.
        rewrite (map_app fst (queue s)), app_assoc, HF. reflexivity.
      * rewrite length_set_nth. apply (inv_len _ _ I).
      * apply (inv_prog_set progs s i n k r I HP).
      * intro j. unfold next_of. cbn [posters]. rewrite (next_of_set s i _ _ j HP). cbn [p_next].
        pose proof (inv_ids _ _ I j) as HI. rewrite (inv_rej _ _ I HS) in HI |- *.
        change (by_poster j []) with (@nil cid) in *. rewrite app_nil_r in HI |- *.
        rewrite by_poster_app, HI, by_poster_one. cbn [fst].
        destruct (Nat.eqb_spec i j) as [E|NE].
        -- subst. unfold next_of. rewrite HP. cbn [p_next]. rewrite ids_S. reflexivity.
        -- rewrite app_nil_r. reflexivity.
      * intros _. apply (inv_rej _ _ I HS).
      * intros c k0 HI. rewrite app_assoc in HI. apply in_app_or in HI. destruct HI as [HI|[HI|[]]].
        -- apply (inv_kind _ _ I). exact HI.
        -- inv HI. apply (kind_of_next progs s i n k0 r I HP).
      * apply (inv_esc _ _ I).
      * intro A. rewrite (inv_alive _ _ I A) in HS. discriminate.
      * rewrite app_length. cbn. lia.
  - (* TCons *)
    destruct (alive s) eqn:HA; [|discriminate].
    destruct (queue s) as [|it q'] eqn:HQ; [discriminate|].
    rewrite do_task_ok in H. inv H. constructor; sproj.
    + pose proof (inv_fifo _ _ I) as HF. unfold exec_ids, queue_ids in *. sproj.
      rewrite HQ in HF. rewrite map_app, <- app_assoc. exact HF.
    + apply (inv_len _ _ I).
    + apply (inv_prog _ _ I).
    + apply (inv_ids _ _ I).
    + apply (inv_rej _ _ I).
    + intros c k HI. apply (inv_kind _ _ I). rewrite HQ.
      rewrite <- app_assoc in HI. exact HI.
    + apply (inv_esc _ _ I).
    + discriminate.
    + pose proof (inv_cap _ _ I) as L. rewrite HQ in L. cbn in L. lia.
  - (* TStop *)
    destruct (stop_pending s); [|discriminate]. inv H. constructor; sproj.
    + apply (inv_fifo _ _ I).
    + apply (inv_len _ _ I).
    + apply (inv_prog _ _ I).
    + apply (inv_ids _ _ I).
    + discriminate.
    + apply (inv_kind _ _ I).
    + apply (inv_esc _ _ I).
    + reflexivity.
    + apply (inv_cap _ _ I).
  - (* TExit *)
    destruct (stopped s) eqn:HS; [|discriminate].
    destruct (alive s); [|discriminate]. inv H. constructor; sproj.
    + apply (inv_fifo _ _ I).
    + apply (inv_len _ _ I).
    + apply (inv_prog _ _ I).
    + apply (inv_ids _ _ I).
    + discriminate.
    + apply (inv_kind _ _ I).
    + apply (inv_esc _ _ I).
    + reflexivity.
    + apply (inv_cap _ _ I).
Qed.

Lemma inv_run progs sched : forall s, Inv progs s -> Inv progs (run_sched s sched).
Proof.
  induction sched as [|t r IH]; intros s I; [exact I|].
  cbn. apply IH. unfold step_or_stay. destruct (tstep s t) eqn:E; [|exact I].
  apply (inv_step progs s t); assumption.
Qed.

Lemma inv_reachable progs ws s : reachable progs ws s -> Inv progs s.
Proof. intros [sched E]. subst. apply inv_run. apply inv_init. Qed.

(* ---- consequences of the invariant ---- *)

Lemma accepted_nodup progs s : Inv progs s -> NoDup (accepted s).
Proof.
  intro I. apply NoDup_by_poster. intro i.
  apply (NoDup_app_l _ (by_poster i (rejected s))). rewrite (inv_ids _ _ I). apply ids_NoDup.
Qed.

Lemma exactly_once_safe_holds progs ws s : reachable progs ws s -> exactly_once_safe progs s.
Proof.
  intro R. pose proof (inv_reachable _ _ _ R) as I.
  pose proof (accepted_nodup _ _ I) as ND. pose proof (inv_fifo _ _ I) as HF.
  assert (HIn : forall c, In c (exec_ids s) -> In c (accepted s)).
  { intros c H. rewrite <- HF. apply in_or_app. left. exact H. }
  repeat split.
  - intros c k H. apply (inv_kind _ _ I). apply in_or_app. left. exact H.
  - exact ND.
  - exact HF.
  - rewrite <- HF in ND. apply (NoDup_app_l _ _ ND).
  - exact HIn.
  - intros c HR HE. apply HIn in HE.
    apply (NoDup_app_disj (by_poster (fst c) (accepted s)) (by_poster (fst c) (rejected s)) c).
    + rewrite (inv_ids _ _ I). apply ids_NoDup.
    + apply by_poster_In. split; [exact HE | reflexivity].
    + apply by_poster_In. split; [exact HR | reflexivity].
Qed.

Lemma quiescent_live progs s : Inv progs s -> quiescent s -> stopped s = false ->
  queue s = [] /\ rejected s = [] /\ (forall i, next_of s i = prog_len progs i)
  /\ exec_ids s = accepted s.
Proof.
  intros I Q HS.
  assert (HA : alive s = true).
  { destruct (alive s) eqn:E; [reflexivity|]. rewrite (inv_alive _ _ I E) in HS. discriminate. }
  assert (HQ : queue s = []).
  { pose proof (Q TCons) as QC. cbn [tstep] in QC. rewrite HA in QC.
    destruct (queue s); [reflexivity|]. rewrite do_task_ok in QC. discriminate. }
  split; [exact HQ|]. split; [apply (inv_rej _ _ I HS)|]. split.
  - intro i. unfold next_of, prog_len.
    destruct (nth_error (posters s) i) as [[n rest]|] eqn:HP.
    + destruct (inv_prog _ _ I _ _ HP) as [done [E1 E2]]. cbn [p_rest p_next] in *.
      destruct rest as [|k r].
      * rewrite E1, app_nil_r. symmetry. exact E2.
      * exfalso. pose proof (Q (TPost i)) as QP. cbn [tstep] in QP. rewrite HP in QP.
        unfold post, chan_send in QP. rewrite HS, HQ in QP. cbn [length] in QP.
        pose proof cap_pos as CP. destruct (Nat.ltb_spec 0 cap); [discriminate | lia].
    + apply nth_error_None in HP. rewrite (inv_len _ _ I) in HP.
      rewrite nth_overflow by exact HP. reflexivity.
  - pose proof (inv_fifo _ _ I) as HF. unfold queue_ids in HF. rewrite HQ in HF. cbn in HF.
    rewrite app_nil_r in HF. exact HF.
Qed.

Lemma posted_iff_len progs c : posted progs c <-> (snd c < prog_len progs (fst c))%nat.
Proof.
  unfold posted. split; [tauto|]. intro H. split; [|exact H].
  destruct (Nat.lt_ge_cases (fst c) (length progs)) as [L|G]; [exact L|].
  unfold prog_len in H. rewrite nth_overflow in H by exact G. cbn in H. lia.
Qed.

Lemma exactly_once_quiescent_holds progs ws s :
  reachable progs ws s -> exactly_once_quiescent progs s.
Proof.
  intros R Q HS. pose proof (inv_reachable _ _ _ R) as I.
  destruct (quiescent_live _ _ I Q HS) as [HQ [HR [HN HE]]].
  destruct (exactly_once_safe_holds _ _ _ R) as [_ [ND _]].
  assert (HIn : forall c, In c (accepted s) <-> posted progs c).
  { intro c. rewrite posted_iff_len. pose proof (inv_ids _ _ I (fst c)) as HI.
    rewrite HR, HN in HI. change (by_poster (fst c) []) with (@nil cid) in HI.
    rewrite app_nil_r in HI. split.
    - intro H. assert (H0 : In c (by_poster (fst c) (accepted s)))
        by (apply by_poster_In; split; [exact H | reflexivity]).
      rewrite HI in H0. apply ids_In in H0. tauto.
    - intro H. assert (H0 : In c (ids (fst c) (prog_len progs (fst c))))
        by (apply ids_In; split; [reflexivity | exact H]).
      rewrite <- HI in H0. apply by_poster_In in H0. tauto. }
  split; [exact HQ|]. split; [exact HR|]. rewrite HE. split.
  - intros c P. apply ccount_nodup; [exact ND | apply HIn; exact P].
  - intros c NP. apply ccount_notin. intro H. apply NP. apply HIn. exact H.
Qed.

Lemma stopped_quiescent_holds progs ws s : reachable progs ws s -> stopped_quiescent s.
Proof.
  intros R Q HS. pose proof (inv_reachable _ _ _ R) as I.
  assert (HA : alive s = false).
  { destruct (alive s) eqn:E; [|reflexivity]. pose proof (Q TExit) as QE. cbn [tstep] in QE.
    rewrite HS, E in QE. discriminate. }
  split; [exact HA|]. intros i [n rest] HP. cbn. destruct rest as [|k r]; [reflexivity|].
  pose proof (Q (TPost i)) as QP. cbn [tstep] in QP. rewrite HP, HS, post_closed in QP. discriminate.
Qed.

Lemma per_poster_fifo_holds progs ws s : reachable progs ws s -> per_poster_fifo progs s.
Proof.
  intros R i. pose proof (inv_reachable _ _ _ R) as I.
  pose proof (inv_ids _ _ I i) as HI. rewrite <- (inv_fifo _ _ I), by_poster_app, <- !app_assoc in HI.
  destruct (map_seq_prefix (fun j => (i, j)) _ _ _ _ HI) as [E L].
  assert (NL : (next_of s i <= prog_len progs i)%nat).
  { unfold next_of, prog_len. destruct (nth_error (posters s) i) as [p|] eqn:HP; [|lia].
    destruct (inv_prog _ _ I _ _ HP) as [done [E1 E2]]. rewrite E1, app_length. lia. }
  split.
  - exists (length (by_poster i (exec_ids s))). split; [exact E | exact (Nat.le_trans _ _ _ L NL)].
  - intros Q HS. destruct (quiescent_live _ _ I Q HS) as [HQ [HR [HN HE]]].
    pose proof (inv_ids _ _ I i) as HI2. rewrite HR, HN, <- HE in HI2.
    change (by_poster i []) with (@nil cid) in HI2. rewrite app_nil_r in HI2. exact HI2.
Qed.

Lemma panic_isolated_holds progs ws s : reachable progs ws s -> panic_isolated s.
Proof.
  intro R. pose proof (inv_reachable _ _ _ R) as I. split; [apply (inv_esc _ _ I)|].
  split; [apply (inv_alive _ _ I)|].
  intros c k q' HA HQ. cbn [tstep]. rewrite HA, HQ. cbn [snd]. rewrite do_task_ok.
  eexists. split; [reflexivity|]. sproj. repeat split. apply (inv_esc _ _ I).
Qed.

Lemma post_after_stop_holds progs ws s : reachable progs ws s -> post_after_stop s.
Proof.
  intros R HS i n k r HP. pose proof (inv_reachable _ _ _ R) as I.
  rewrite HS, post_closed. split; [reflexivity|].
  cbn [tstep]. rewrite HP, HS, post_closed.
  eexists. split; [reflexivity|]. sproj. repeat split. apply (inv_esc _ _ I).
Qed.

(* a rejected Post happens only on a stopped scheduler, an accepted one only on a running one *)
Lemma rejected_only_stopped progs ws s :
  reachable progs ws s -> rejected s <> [] -> stopped s = true.
Proof.
  intros R H. pose proof (inv_reachable _ _ _ R) as I.
  destruct (stopped s) eqn:E; [reflexivity|]. exfalso. apply H. apply (inv_rej _ _ I E).
Qed.

(* the acceptor used on concurrent runs accepts every quiescent, not stopped run *)
Lemma list_eqb_cid_refl l : list_eqb cid_eqb l l = true.
Proof. induction l as [|x l IH]; cbn; [reflexivity|]. rewrite cid_eqb_refl, IH. reflexivity. Qed.

Lemma accepts_complete progs ws s :
  reachable progs ws s -> quiescent s -> stopped s = false -> accepts progs (exec_ids s) = true.
Proof.
  intros R Q HS. unfold accepts. apply andb_true_iff. split.
  - apply forallb_forall. intros i _.
    destruct (per_poster_fifo_holds _ _ _ R i) as [_ H]. rewrite (H Q HS).
    apply list_eqb_cid_refl.
  - apply forallb_forall. intros c H. apply Nat.ltb_lt.
    destruct (exactly_once_quiescent_holds _ _ _ R Q HS) as [_ [_ [_ HN]]].
    destruct (Nat.lt_ge_cases (fst c) (length progs)) as [L|G]; [exact L|]. exfalso.
    assert (NP : ~ posted progs c) by (unfold posted; lia).
    specialize (HN c NP). revert H HN. generalize (exec_ids s). intro l.
    induction l as [|x l IH]; intros H HN; [destruct H|].
    cbn [ccount] in HN. destruct (cid_eqb c x) eqn:E; [discriminate|].
    destruct H as [H|H]; [subst; rewrite cid_eqb_refl in E; discriminate|]. apply IH; assumption.
Qed.

(* and conversely what the acceptor checks is the per-poster statement *)
Lemma accepts_sound progs log : accepts progs log = true ->
  forall i, (i < length progs)%nat -> by_poster i log = ids i (prog_len progs i).
Proof.
  intros H i L. unfold accepts in H. apply andb_true_iff in H. destruct H as [H _].
  rewrite forallb_forall in H. specialize (H i). 
  assert (HI : In i (seq 0 (length progs))) by (apply in_seq; lia).
  specialize (H HI). apply list_eqb_spec in H; [exact H|]. intros a b. apply cid_eqb_eq.
Qed.

(* ------------------------------------------------------------------ Part 2 *)

(* ---- facts about the history function ---- *)

Lemma spec_idx_ge : forall tasks i args j a, In (ETask j a) (spec_from tasks i args) -> (i <= j)%nat.
Proof.
  induction tasks as [|b tl IH]; intros i args j a H; cbn [spec_from] in H.
  - destruct H as [H|[]]. discriminate.
  - destruct H as [H|H]; [inv H; lia|].
    destruct (completions b) as [|[[|] r] [|c2 l2]]; cbn in H; try tauto.
    + destruct H as [H|[]]. discriminate.
    + apply IH in H. lia.
Qed.

Lemma spec_order : forall tasks i args pre e rest,
  pre ++ e :: rest = spec_from tasks i args ->
  forallb is_task pre = true /\ (forall j a, e = ETask j a -> j = (i + length pre)%nat).
Proof.
  induction tasks as [|b tl IH]; intros i args pre e rest H; cbn [spec_from] in H.
  - destruct pre as [|x pre]; cbn in H.
    + inv H. split; [reflexivity | intros; discriminate].
    + inv H. destruct pre; discriminate.
  - destruct pre as [|x pre]; cbn in H.
    + inv H. split; [reflexivity|]. intros j a E. inv E. cbn. lia.
    + injection H as Hx Ht. subst x.
      destruct (completions b) as [|[[|] r] [|c2 l2]].
      * destruct pre; discriminate.
      * destruct pre as [|y pre]; cbn in Ht; [|inv Ht; destruct pre; discriminate].
        inv Ht. split; [reflexivity | intros; discriminate].
      * destruct pre; discriminate.
      * destruct (IH _ _ _ _ _ Ht) as [F J]. split; [exact F|].
        intros j a E. rewrite (J j a E). cbn. lia.
      * destruct pre; discriminate.
Qed.

Lemma spec_args : forall tasks i args pre j a rest,
  pre ++ ETask j a :: rest = spec_from tasks i args ->
  (pre = [] /\ j = i /\ a = args)
  \/ (exists b, (i < j)%nat /\ nth_error tasks (j - 1 - i) = Some b /\ completions b = [(false, a)]).
Proof.
  induction tasks as [|b tl IH]; intros i args pre j a rest H; cbn [spec_from] in H.
  - destruct pre as [|x pre]; cbn in H; [discriminate|]. inv H. destruct pre; discriminate.
  - destruct pre as [|x pre]; cbn in H.
    + inv H. left. auto.
    + injection H as Hx Ht. subst x. right.
      destruct (completions b) as [|[[|] r] [|c2 l2]] eqn:EC.
      * destruct pre; discriminate.
      * destruct pre as [|y pre]; cbn in Ht; [discriminate|]. inv Ht. destruct pre; discriminate.
      * destruct pre; discriminate.
      * destruct (IH _ _ _ _ _ _ Ht) as [[E1 [E2 E3]]|[b' [L [N C]]]].
        -- subst. exists b. split; [lia|]. replace (S i - 1 - i)%nat with O by lia.
           split; [reflexivity | exact EC].
        -- exists b'. split; [lia|]. replace (j - 1 - i)%nat with (S (j - 1 - S i)) by lia.
           split; [exact N | exact C].
      * destruct pre; discriminate.
Qed.

Lemma spec_final_true : forall tasks i args pre r rest,
  pre ++ EFinal true r :: rest = spec_from tasks i args ->
  rest = [] /\ exists k b, length pre = S k /\ nth_error tasks k = Some b /\ completions b = [(true, r)].
Proof.
  induction tasks as [|b tl IH]; intros i args pre r rest H; cbn [spec_from] in H.
  - destruct pre as [|x pre]; cbn in H; [discriminate|]. inv H. destruct pre; discriminate.
  - destruct pre as [|x pre]; cbn in H; [discriminate|].
    injection H as Hx Ht. subst x.
    destruct (completions b) as [|[[|] r'] [|c2 l2]] eqn:EC.
    + destruct pre; discriminate.
    + destruct pre as [|y pre]; cbn in Ht; [|inv Ht; destruct pre; discriminate].
      inv Ht. split; [reflexivity|]. exists O, b. auto.
    + destruct pre; discriminate.
    + destruct (IH _ _ _ _ _ Ht) as [E [k [b' [L [N C]]]]]. split; [exact E|].
      exists (S k), b'. cbn. auto.
    + destruct pre; discriminate.
Qed.

Lemma spec_final_false : forall tasks i args pre r rest,
  pre ++ EFinal false r :: rest = spec_from tasks i args ->
  rest = [] /\ length pre = length tasks
  /\ match length tasks with
     | O => r = args
     | S k => exists b, nth_error tasks k = Some b /\ completions b = [(false, r)]
     end.
Proof.
  induction tasks as [|b tl IH]; intros i args pre r rest H; cbn [spec_from] in H.
  - destruct pre as [|x pre]; cbn in H.
    + inv H. cbn. auto.
    + inv H. destruct pre; discriminate.
  - destruct pre as [|x pre]; cbn in H; [discriminate|].
    injection H as Hx Ht. subst x.
    destruct (completions b) as [|[[|] r'] [|c2 l2]] eqn:EC.
    + destruct pre; discriminate.
    + destruct pre as [|y pre]; cbn in Ht; [discriminate|]. inv Ht. destruct pre; discriminate.
    + destruct pre; discriminate.
    + destruct (IH _ _ _ _ _ Ht) as [E [L M]]. split; [exact E|]. split; [cbn; lia|].
      cbn [length]. destruct tl as [|t tl'].
      * cbn in M. subst. exists b. auto.
      * cbn [length] in M. destruct M as [b' [N C]]. exists b'. auto.
    + destruct pre; discriminate.
Qed.

Lemma spec_error_jump : forall tasks i args pre j a rest b r,
  pre ++ ETask j a :: rest = spec_from tasks i args ->
  nth_error tasks (j - i) = Some b -> completions b = [(true, r)] -> rest = [EFinal true r].
Proof.
  induction tasks as [|b0 tl IH]; intros i args pre j a rest b r H N C; cbn [spec_from] in H.
  - destruct (j - i)%nat; discriminate.
  - destruct pre as [|x pre]; cbn in H.
    + inv H. rewrite Nat.sub_diag in N. inv N. rewrite C. reflexivity.
    + injection H as Hx Ht. subst x.
      assert (G : (S i <= j)%nat).
      { destruct (completions b0) as [|[[|] r'] [|c2 l2]];
          try (destruct pre; discriminate).
        - destruct pre as [|y pre]; cbn in Ht; [discriminate|]. inv Ht. destruct pre; discriminate.
        - apply (spec_idx_ge tl (S i) r' j a). rewrite <- Ht. apply in_or_app. right. left. reflexivity. }
      replace (j - i)%nat with (S (j - S i)) in N by lia. cbn in N.
      destruct (completions b0) as [|[[|] r'] [|c2 l2]];
        try (destruct pre; discriminate).
      * destruct pre as [|y pre]; cbn in Ht; [discriminate|]. inv Ht. destruct pre; discriminate.
      * apply (IH _ _ _ _ _ _ _ _ Ht N C).
Qed.

Lemma finals_in_app l1 l2 : finals_in (l1 ++ l2) = (finals_in l1 + finals_in l2)%nat.
Proof. unfold finals_in. rewrite filter_app, app_length. reflexivity. Qed.

Lemma tasks_in_app l1 l2 : tasks_in (l1 ++ l2) = (tasks_in l1 + tasks_in l2)%nat.
Proof. unfold tasks_in. rewrite filter_app, app_length. reflexivity. Qed.

Lemma tasks_in_all l : forallb is_task l = true -> tasks_in l = length l.
Proof.
  unfold tasks_in. induction l as [|x l IH]; cbn; [reflexivity|].
  intro H. apply andb_true_iff in H. destruct H as [H1 H2]. rewrite H1. cbn. rewrite IH; auto.
Qed.

Lemma spec_finals_le : forall tasks i args, (finals_in (spec_from tasks i args) <= 1)%nat.
Proof.
  induction tasks as [|b tl IH]; intros i args; cbn [spec_from].
  - cbn. lia.
  - change (ETask i args :: ?t) with ([ETask i args] ++ t). rewrite finals_in_app.
    destruct (completions b) as [|[[|] r] [|c2 l2]]; cbn; try lia.
    specialize (IH (S i) r). cbn in IH. lia.
Qed.

Lemma spec_finals_once : forall tasks i args,
  (forall j a b, In (ETask j a) (spec_from tasks i args) -> nth_error tasks (j - i) = Some b ->
                 length (completions b) = 1%nat) ->
  finals_in (spec_from tasks i args) = 1%nat.
Proof.
  induction tasks as [|b tl IH]; intros i args H; cbn [spec_from] in *.
  - reflexivity.
  - assert (HB : length (completions b) = 1%nat).
    { apply (H i args b); [left; reflexivity|]. rewrite Nat.sub_diag. reflexivity. }
    change (ETask i args :: ?t) with ([ETask i args] ++ t). rewrite finals_in_app.
    destruct (completions b) as [|[[|] r] [|c2 l2]] eqn:EC; try discriminate HB.
    + reflexivity.
    + change (finals_in [ETask i args]) with O. cbn [Nat.add]. apply IH.
      intros j a b' HI HN.
      assert (G : (S i <= j)%nat) by (apply (spec_idx_ge _ _ _ _ _ HI)).
      apply (H j a b'); [right; exact HI|].
      replace (j - i)%nat with (S (j - S i)) by lia. exact HN.
Qed.

(* ---- the chain machine refines the history function ---- *)

Definition fut (tasks : list beh) (cur : nat) (c : cb) : list ev :=
  match c with
  | (true, r) => [EFinal true r]
  | (false, r) => spec_from (skipn (S cur) tasks) (S cur) r
  end.

Inductive CInv (tasks : list beh) (s : cst) : Prop :=
| CI_start : cq s = [IStart] -> pool s = [] -> clog s = [] -> cursor s = O -> CInv tasks s
| CI_wait_q : forall e a, cq s = [ICb e a] -> pool s = [] ->
    clog s ++ fut tasks (cursor s) (e, a) = spec tasks -> CInv tasks s
| CI_wait_p : forall k c, cq s = [] -> pool s = [(k, c)] ->
    clog s ++ fut tasks (cursor s) c = spec tasks -> CInv tasks s
| CI_done : cq s = [] -> pool s = [] -> clog s = spec tasks -> CInv tasks s.

Lemma skipn_nth_error {A} (l : list A) : forall i x,
  nth_error l i = Some x -> skipn i l = x :: skipn (S i) l.
Proof.
  induction l as [|y l IH]; intros i x H; [destruct i; discriminate|].
  destruct i as [|i]; cbn in H; [inv H; reflexivity|]. cbn. apply IH. exact H.
Qed.

Lemma skipn_none {A} (l : list A) i : nth_error l i = None -> skipn i l = [].
Proof. intro H. apply skipn_all2. apply nth_error_None. exact H. Qed.

Lemma completions_cases il lt p :
  (length (completions (Beh il lt p)) <= 1)%nat ->
  (il = [] /\ lt = []) \/ (exists c, il = [c] /\ lt = []) \/ (exists c, il = [] /\ lt = [c]).
Proof.
  cbn. destruct il as [|c [|c2 il]]; destruct lt as [|d [|d2 lt]]; cbn; intro H; try lia.
  - left. auto.
  - right. right. exists d. auto.
  - right. left. exists c. auto.
Qed.

(* Chain.tryExec(i, args) on the consumer, nothing else pending *)
Lemma exec_at_inv tasks s i a :
  cq s = [] -> pool s = [] -> cursor s = i ->
  clog s ++ spec_from (skipn i tasks) i a = spec tasks ->
  (forall b, nth_error tasks i = Some b -> (length (completions b) <= 1)%nat) ->
  CInv tasks (exec_at tasks s i a).
Proof.
  intros HQ HP HC HS HA. unfold exec_at.
  destruct (nth_error tasks i) as [[il lt p]|] eqn:HN.
  - rewrite (skipn_nth_error _ _ _ HN) in HS. cbn [spec_from] in HS.
    destruct (completions_cases il lt p (HA _ eq_refl)) as [[E1 E2]|[[c [E1 E2]]|[c [E1 E2]]]];
      subst il lt; cbn [completions app] in HS; rewrite HQ, HP; cbn [map app number].
    + apply CI_done; cbn [cq pool clog]; try reflexivity.
      rewrite <- HS. reflexivity.
    + apply (CI_wait_q _ _ (fst c) (snd c)); cbn [cq pool clog cursor]; try reflexivity.
      rewrite <- HS, <- app_assoc, HC. destruct c as [[|] r]; reflexivity.
    + apply (CI_wait_p _ _ (i, O) c); cbn [cq pool clog cursor]; try reflexivity.
      rewrite <- HS, <- app_assoc, HC. destruct c as [[|] r]; reflexivity.
  - rewrite (skipn_none _ _ HN) in HS. cbn [spec_from] in HS.
    apply CI_done; cbn [cq pool clog]; assumption.
Qed.

Lemma take_pool_one k k' c : take_pool k [(k', c)] = if key_eqb k k' then Some (c, []) else None.
Proof. cbn. destruct (key_eqb k k'); reflexivity. Qed.

Lemma cstep_log_mono tasks s l s' : cstep tasks s l = Some s' -> exists ex, clog s' = clog s ++ ex.
Proof.
  destruct l as [|i k]; cbn [cstep]; intro H.
  - destruct (cq s) as [|it q]; [discriminate|]. inv H.
    destruct it as [|[|] a]; cbn [run_item]; unfold exec_at; cbn [clog cursor cq pool].
    + destruct (nth_error tasks 0) as [[il lt p]|]; cbn [clog]; eexists; reflexivity.
    + eexists; reflexivity.
    + destruct (nth_error tasks (S (cursor s))) as [[il lt p]|]; cbn [clog]; eexists; reflexivity.
  - destruct (take_pool (i, k) (pool s)) as [[c p']|]; [|discriminate]. inv H.
    exists []. cbn. rewrite app_nil_r. reflexivity.
Qed.

Lemma invoked_amo_mono tasks l ex : invoked_amo tasks (l ++ ex) -> invoked_amo tasks l.
Proof. intros H i a b HI. apply (H i a b). apply in_or_app. left. exact HI. Qed.

Lemma cinv_step tasks s l s' :
  CInv tasks s -> cstep tasks s l = Some s' -> invoked_amo tasks (clog s') -> CInv tasks s'.
Proof.
  intros I H HA. destruct I as [HQ HP HL HC|e a HQ HP HS|k c HQ HP HS|HQ HP HS].
  - (* start *)
    destruct l as [|i k]; cbn [cstep] in H.
    + rewrite HQ in H. inv H. cbn [run_item] in *.
      apply exec_at_inv; cbn [cq pool clog cursor]; try assumption; try reflexivity.
      * rewrite HL. reflexivity.
      * intros b HN. unfold exec_at in HA. cbn [clog cursor cq pool] in HA. rewrite HN in HA.
        destruct b as [il lt p]. cbn [clog] in HA.
        apply (HA O [] (Beh il lt p)); [apply in_or_app; right; left; reflexivity | exact HN].
    + rewrite HP in H. discriminate.
  - (* one callback posted *)
    destruct l as [|i k]; cbn [cstep] in H.
    + rewrite HQ in H. inv H. destruct e; cbn [run_item] in *.
      * apply CI_done; cbn [cq pool clog]; [reflexivity | exact HP | exact HS].
      * apply exec_at_inv; cbn [cq pool clog cursor]; try assumption; try reflexivity.
        intros b HN. unfold exec_at in HA. cbn [clog cursor cq pool] in HA. rewrite HN in HA.
        destruct b as [il lt p]. cbn [clog] in HA.
        apply (HA (S (cursor s)) a (Beh il lt p));
          [apply in_or_app; right; left; reflexivity | exact HN].
    + rewrite HP in H. discriminate.
  - (* one callback held by the environment *)
    destruct l as [|i k']; cbn [cstep] in H.
    + rewrite HQ in H. discriminate.
    + rewrite HP, take_pool_one in H. destruct (key_eqb (i, k') k); [|discriminate]. inv H.
      apply (CI_wait_q _ _ (fst c) (snd c)); cbn [cq pool clog cursor].
      * rewrite HQ. reflexivity.
      * reflexivity.
      * destruct c. exact HS.
  - destruct l as [|i k]; cbn [cstep] in H.
    + rewrite HQ in H. discriminate.
    + rewrite HP in H. discriminate.
Qed.

Lemma crun_snoc tasks ls l : crun tasks (ls ++ [l]) = cstep_or_stay tasks (crun tasks ls) l.
Proof. unfold crun. rewrite fold_left_app. reflexivity. Qed.

Lemma cinv_run tasks : forall ls, invoked_amo tasks (clog (crun tasks ls)) -> CInv tasks (crun tasks ls).
Proof.
  intro ls. induction ls as [|l ls IH] using rev_ind; intro HA.
  - apply CI_start; reflexivity.
  - rewrite crun_snoc in *. unfold cstep_or_stay in *.
    destruct (cstep tasks (crun tasks ls) l) as [s'|] eqn:E; [|apply IH; exact HA].
    destruct (cstep_log_mono _ _ _ _ E) as [ex EX].
    apply (cinv_step tasks (crun tasks ls) l s'); [|exact E|exact HA].
    apply IH. rewrite EX in HA. apply (invoked_amo_mono _ _ _ HA).
Qed.

Lemma cinv_prefix tasks s : CInv tasks s ->
  (exists ext, clog s ++ ext = spec tasks) /\ (cquiescent s -> clog s = spec tasks).
Proof.
  intros [HQ HP HL HC|e a HQ HP HS|k c HQ HP HS|HQ HP HS]; split.
  - exists (spec tasks). rewrite HL. reflexivity.
  - intros [Q _]. rewrite HQ in Q. discriminate.
  - eexists. exact HS.
  - intros [Q _]. rewrite HQ in Q. discriminate.
  - eexists. exact HS.
  - intros [_ P]. rewrite HP in P. discriminate.
  - exists []. rewrite app_nil_r. exact HS.
  - intros _. exact HS.
Qed.

Lemma chain_spec_holds tasks s :
  creachable tasks s -> invoked_amo tasks (clog s) ->
  prefix (clog s) (spec tasks) /\ (cquiescent s -> clog s = spec tasks).
Proof.
  intros [ls E] HA. subst s. destruct (cinv_prefix _ _ (cinv_run tasks ls HA)) as [[ext HE] HQ].
  split; [rewrite <- HE; constructor | exact HQ].
Qed.

(* ---- the clauses of the property, for every reachable chain state ---- *)

Lemma chain_ext tasks s :
  creachable tasks s -> invoked_amo tasks (clog s) -> exists ext, clog s ++ ext = spec tasks.
Proof. intros [ls E] HA. subst s. apply (cinv_prefix _ _ (cinv_run tasks ls HA)). Qed.

Lemma chain_order_holds tasks s :
  creachable tasks s -> invoked_amo tasks (clog s) -> chain_order (clog s).
Proof.
  intros R HA pre e post E. destruct (chain_ext _ _ R HA) as [ext HE].
  rewrite E, <- app_assoc in HE. cbn [app] in HE. unfold spec in HE.
  destruct (spec_order _ _ _ _ _ _ HE) as [F J]. split; [exact F|].
  intros i a Ee. rewrite (J i a Ee). reflexivity.
Qed.

Lemma chain_args_holds tasks s :
  creachable tasks s -> invoked_amo tasks (clog s) -> chain_args tasks (clog s).
Proof.
  intros R HA. destruct (chain_ext _ _ R HA) as [ext HE]. unfold spec in HE. split.
  - intros a HI. apply in_split in HI. destruct HI as [pre [post E]].
    rewrite E, <- app_assoc in HE. cbn [app] in HE.
    destruct (spec_args _ _ _ _ _ _ _ HE) as [[_ [_ EA]]|[b [L _]]]; [exact EA | lia].
  - intros i a HI. apply in_split in HI. destruct HI as [pre [post E]].
    rewrite E, <- app_assoc in HE. cbn [app] in HE.
    destruct (spec_args _ _ _ _ _ _ _ HE) as [[_ [EJ _]]|[b [L [N C]]]]; [discriminate|].
    exists b. replace (S i - 1 - 0)%nat with i in N by lia. auto.
Qed.

Lemma chain_finals_holds tasks s :
  creachable tasks s -> invoked_amo tasks (clog s) -> chain_finals tasks (clog s).
Proof.
  intros R HA. destruct (chain_ext _ _ R HA) as [ext HE]. unfold spec in HE. split.
  - intros r HI. apply in_split in HI. destruct HI as [pre [post E]].
    rewrite E, <- app_assoc in HE. cbn [app] in HE.
    destruct (spec_order _ _ _ _ _ _ HE) as [F _].
    destruct (spec_final_true _ _ _ _ _ _ HE) as [EN [k [b [L [N C]]]]].
    apply app_eq_nil in EN. destruct EN as [EP _]. subst post.
    exists k, b. rewrite E, tasks_in_app, (tasks_in_all _ F). cbn. split; [lia | auto].
  - intros r HI. apply in_split in HI. destruct HI as [pre [post E]].
    rewrite E, <- app_assoc in HE. cbn [app] in HE.
    destruct (spec_order _ _ _ _ _ _ HE) as [F _].
    destruct (spec_final_false _ _ _ _ _ _ HE) as [EN [L M]].
    apply app_eq_nil in EN. destruct EN as [EP _]. subst post.
    rewrite E, tasks_in_app, (tasks_in_all _ F). cbn. split; [lia | exact M].
Qed.

Lemma error_jumps_holds tasks s :
  creachable tasks s -> invoked_amo tasks (clog s) -> cquiescent s -> error_jumps tasks (clog s).
Proof.
  intros R HA Q i a b r HI N C. destruct (chain_spec_holds _ _ R HA) as [_ HS].
  specialize (HS Q). apply in_split in HI. destruct HI as [pre [post E]].
  exists pre. rewrite E. f_equal. f_equal. rewrite E in HS. unfold spec in HS.
  apply (spec_error_jump tasks O [] pre i a post b r HS); [rewrite Nat.sub_0_r; exact N | exact C].
Qed.

Lemma final_at_most_once tasks s :
  creachable tasks s -> invoked_amo tasks (clog s) -> (finals_in (clog s) <= 1)%nat.
Proof.
  intros R HA. destruct (chain_ext _ _ R HA) as [ext HE].
  pose proof (spec_finals_le tasks O []) as L. unfold spec in HE. rewrite <- HE, finals_in_app in L. lia.
Qed.

Lemma invoked_once_amo tasks l : invoked_once tasks l -> invoked_amo tasks l.
Proof. intros H i a b HI HN. rewrite (H i a b HI HN). lia. Qed.

Lemma final_exactly_once tasks s :
  creachable tasks s -> invoked_once tasks (clog s) -> cquiescent s -> finals_in (clog s) = 1%nat.
Proof.
  intros R HO Q. destruct (chain_spec_holds _ _ R (invoked_once_amo _ _ HO)) as [_ HS].
  specialize (HS Q). rewrite HS in *. unfold spec in *. apply spec_finals_once.
  intros j a b HI HN. rewrite Nat.sub_0_r in HN. apply (HO j a b HI HN).
Qed.

(* ---- without any hypothesis on the tasks: every callback invocation produces exactly one
   further invocation (of a task or of final); nothing is lost, nothing is deduplicated ---- *)

Fixpoint made (tasks : list beh) (l : list ev) : nat :=
  match l with
  | [] => O
  | ETask i _ :: r =>
      (match nth_error tasks i with Some b => length (completions b) | None => O end + made tasks r)%nat
  | EFinal _ _ :: r => made tasks r
  end.

Lemma made_app tasks l1 l2 : made tasks (l1 ++ l2) = (made tasks l1 + made tasks l2)%nat.
Proof.
  induction l1 as [|[i a|e a] l1 IH]; cbn [app made]; [reflexivity | rewrite IH; lia | exact IH].
Qed.

Lemma number_length i k l : length (number i k l) = length l.
Proof. revert k. induction l as [|c l IH]; intro k; cbn; [reflexivity | rewrite IH; reflexivity]. Qed.

Lemma take_pool_length k p c p' : take_pool k p = Some (c, p') -> length p = S (length p').
Proof.
  revert c p'. induction p as [|[k' c'] p IH]; intros c p' H; cbn in H; [discriminate|].
  destruct (key_eqb k k'); [inv H; reflexivity|].
  destruct (take_pool k p) as [[c2 r2]|]; [|discriminate]. inv H. cbn. rewrite (IH _ _ eq_refl). reflexivity.
Qed.

Definition conserved (tasks : list beh) (s : cst) : Prop :=
  (length (clog s) + length (cq s) + length (pool s) = 1 + made tasks (clog s))%nat.

Lemma exec_at_conserved tasks s i a q :
  (length (clog s) + S (length q) + length (pool s) = 1 + made tasks (clog s))%nat ->
  conserved tasks (exec_at tasks (mkC (cursor s) q (pool s) (clog s)) i a).
Proof.
  intro H. unfold conserved, exec_at. cbn [cursor cq pool clog].
  destruct (nth_error tasks i) as [[il lt p]|] eqn:HN; cbn [cursor cq pool clog];
    rewrite made_app, !app_length; cbn [made length]; rewrite ?HN.
  - rewrite map_length, number_length. cbn [completions]. rewrite app_length. lia.
  - lia.
Qed.

Lemma conserved_step tasks s l s' : conserved tasks s -> cstep tasks s l = Some s' -> conserved tasks s'.
Proof.
  intros C H. unfold conserved in C. destruct l as [|i k]; cbn [cstep] in H.
  - destruct (cq s) as [|it q] eqn:HQ; [discriminate|]. inv H. cbn [length] in C.
    destruct it as [|[|] a]; cbn [run_item].
    + apply exec_at_conserved. lia.
    + unfold conserved. cbn [cursor cq pool clog]. rewrite made_app, app_length. cbn [made length]. lia.
    + apply (exec_at_conserved tasks (mkC (S (cursor s)) q (pool s) (clog s))). cbn [cursor cq pool clog]. lia.
  - destruct (take_pool (i, k) (pool s)) as [[c p']|] eqn:HT; [|discriminate]. inv H.
    apply take_pool_length in HT. unfold conserved. cbn [cursor cq pool clog].
    rewrite app_length. cbn [length]. lia.
Qed.

Lemma conserved_reachable tasks s : creachable tasks s -> conserved tasks s.
Proof.
  intros [ls E]. subst s. induction ls as [|l ls IH] using rev_ind.
  - reflexivity.
  - rewrite crun_snoc. unfold cstep_or_stay.
    destruct (cstep tasks (crun tasks ls) l) eqn:E; [|exact IH].
    apply (conserved_step _ _ _ _ IH E).
Qed.

(* ------------------------------------------------------------------ Part 3 *)
(* The scheduler-script driver only ever applies [tstep]: every state it visits is reachable
   in the transition system, so Part 1 applies to what the correspondence run compares. *)

Lemma reach_step progs ws s t : reachable progs ws s -> reachable progs ws (step_or_stay s t).
Proof.
  intros [sched E]. exists (sched ++ [t]). unfold run_sched. rewrite fold_left_app. cbn.
  subst s. reflexivity.
Qed.

Lemma reach_tstep progs ws s t s' : reachable progs ws s -> tstep s t = Some s' -> reachable progs ws s'.
Proof.
  intros R H. pose proof (reach_step progs ws s t R) as R'. unfold step_or_stay in R'.
  rewrite H in R'. exact R'.
Qed.

Lemma reach_iter progs ws t : forall n s, reachable progs ws s ->
  reachable progs ws (iter n (fun s => step_or_stay s t) s).
Proof. induction n as [|n IH]; intros s R; cbn; [exact R|]. apply IH. apply reach_step. exact R. Qed.

Definition dreach progs ws (d : drv) : Prop := reachable progs ws (d_st d).

Lemma dreach_post progs ws d p : dreach progs ws d -> dreach progs ws (drv_post d p).
Proof.
  unfold dreach, drv_post. intro R. destruct (nat_mem p (d_wait d)); [exact R|].
  destruct (tstep (d_st d) (TPost p)) eqn:E; cbn [d_st]; [|exact R].
  apply (reach_tstep _ _ _ _ _ R E).
Qed.

Lemma dreach_iter_post progs ws p : forall n d, dreach progs ws d ->
  dreach progs ws (iter n (fun d => drv_post d p) d).
Proof. induction n as [|n IH]; intros d R; cbn; [exact R|]. apply IH. apply dreach_post. exact R. Qed.

Lemma dreach_step progs ws d : dreach progs ws d -> dreach progs ws (fst (drv_step d)).
Proof.
  unfold dreach, drv_step. intro R. destruct (tstep (d_st d) TCons) as [s1|] eqn:E; [|exact R].
  pose proof (reach_tstep _ _ _ _ _ R E) as R1.
  destruct (d_wait d) as [|p w]; [exact R1|].
  destruct (get_back d p); cbn [fst d_st]; apply reach_step; exact R1.
Qed.

Lemma dreach_stop progs ws d : dreach progs ws d -> dreach progs ws (drv_stop d).
Proof.
  unfold dreach, drv_stop. intro R. destruct (tstep (d_st d) TStop) as [s1|] eqn:E; [|exact R].
  pose proof (reach_tstep _ _ _ _ _ R E) as R1. cbn [d_st].
  clear E. revert s1 R1. induction (d_wait d) as [|p w IH]; intros s1 R1; cbn [fold_left]; [exact R1|].
  apply IH. apply reach_iter. exact R1.
Qed.

Lemma dreach_op progs ws d o : dreach progs ws d -> dreach progs ws (fst (drv_op d o)).
Proof.
  intro R. destruct o; cbn [drv_op fst]; try exact R.
  - apply dreach_post. exact R.
  - apply dreach_iter_post. exact R.
  - apply dreach_step. exact R.
  - apply dreach_stop. exact R.
Qed.

Lemma dreach_ops progs ws : forall ops d, dreach progs ws d -> dreach progs ws (fst (drv_ops d ops)).
Proof.
  induction ops as [|o r IH]; intros d R; cbn [drv_ops]; [exact R|].
  pose proof (dreach_op progs ws d o R) as R1. destruct (drv_op d o) as [d1 e]. cbn [fst] in R1.
  specialize (IH d1 R1). destruct (drv_ops d1 r) as [d2 es]. exact IH.
Qed.

Lemma dreach_drain progs ws : forall fuel d, dreach progs ws d -> dreach progs ws (fst (drv_drain fuel d)).
Proof.
  induction fuel as [|f IH]; intros d R; cbn [drv_drain]; [exact R|].
  destruct (queue (d_st d)); [exact R|].
  pose proof (dreach_step progs ws d R) as R1. destruct (drv_step d) as [d1 e]. cbn [fst] in R1.
  specialize (IH d1 R1). destruct (drv_drain f d1) as [d2 es]. exact IH.
Qed.

Lemma script_state_reachable ops : reachable (progs_of ops) (has_stop ops) (script_state ops).
Proof.
  unfold script_state. apply dreach_drain. apply dreach_ops. exists []. reflexivity.
Qed.

(* ------------------------------------------------------------------ Part 2, generic *)
(* Every clause of the property follows from "the log is an initial segment of [spec tasks]",
   whichever runner produced the log. *)

Lemma order_of_ext tasks l : ext_of tasks l -> chain_order l.
Proof.
  intros [ext HE] pre e post E. rewrite E, <- app_assoc in HE. cbn [app] in HE. unfold spec in HE.
  destruct (spec_order _ _ _ _ _ _ HE) as [F J]. split; [exact F|].
  intros i a Ee. rewrite (J i a Ee). reflexivity.
Qed.

Lemma args_of_ext tasks l : ext_of tasks l -> chain_args tasks l.
Proof.
  intros [ext HE]. unfold spec in HE. split.
  - intros a HI. apply in_split in HI. destruct HI as [pre [post E]].
    rewrite E, <- app_assoc in HE. cbn [app] in HE.
    destruct (spec_args _ _ _ _ _ _ _ HE) as [[_ [_ EA]]|[b [L _]]]; [exact EA | lia].
  - intros i a HI. apply in_split in HI. destruct HI as [pre [post E]].
    rewrite E, <- app_assoc in HE. cbn [app] in HE.
    destruct (spec_args _ _ _ _ _ _ _ HE) as [[_ [EJ _]]|[b [L [N C]]]]; [discriminate|].
    exists b. replace (S i - 1 - 0)%nat with i in N by lia. auto.
Qed.

Lemma finals_of_ext tasks l : ext_of tasks l -> chain_finals tasks l.
Proof.
  intros [ext HE]. unfold spec in HE. split.
  - intros r HI. apply in_split in HI. destruct HI as [pre [post E]].
    rewrite E, <- app_assoc in HE. cbn [app] in HE.
    destruct (spec_order _ _ _ _ _ _ HE) as [F _].
    destruct (spec_final_true _ _ _ _ _ _ HE) as [EN [k [b [L [N C]]]]].
    apply app_eq_nil in EN. destruct EN as [EP _]. subst post.
    exists k, b. rewrite E, tasks_in_app, (tasks_in_all _ F). cbn. split; [lia | auto].
  - intros r HI. apply in_split in HI. destruct HI as [pre [post E]].
    rewrite E, <- app_assoc in HE. cbn [app] in HE.
    destruct (spec_order _ _ _ _ _ _ HE) as [F _].
    destruct (spec_final_false _ _ _ _ _ _ HE) as [EN [L M]].
    apply app_eq_nil in EN. destruct EN as [EP _]. subst post.
    rewrite E, tasks_in_app, (tasks_in_all _ F). cbn. split; [lia | exact M].
Qed.

Lemma finals_le_of_ext tasks l : ext_of tasks l -> (finals_in l <= 1)%nat.
Proof.
  intros [ext HE]. pose proof (spec_finals_le tasks O []) as L.
  unfold spec in HE. rewrite <- HE, finals_in_app in L. lia.
Qed.

Lemma laws_of_ext tasks l : ext_of tasks l -> chain_laws tasks l.
Proof.
  intro H. split; [apply (order_of_ext _ _ H)|]. split; [apply (args_of_ext _ _ H)|].
  split; [apply (finals_of_ext _ _ H) | apply (finals_le_of_ext _ _ H)].
Qed.

(* ... and the two liveness clauses from "the log IS [spec tasks]" *)
Lemma jumps_of_eq tasks l : l = spec tasks -> error_jumps tasks l.
Proof.
  intros HS i a b r HI N C. apply in_split in HI. destruct HI as [pre [post E]].
  exists pre. rewrite E. f_equal. f_equal. rewrite E in HS. unfold spec in HS.
  apply (spec_error_jump tasks O [] pre i a post b r HS); [rewrite Nat.sub_0_r; exact N | exact C].
Qed.

Lemma once_of_eq tasks l : l = spec tasks -> invoked_once tasks l -> finals_in l = 1%nat.
Proof.
  intros HS HO. rewrite HS in *. unfold spec in *. apply spec_finals_once.
  intros j a b HI HN. rewrite Nat.sub_0_r in HN. apply (HO j a b HI HN).
Qed.

(* ------------------------------------------------------------------ Part 2b: Simple *)

Definition rec_mono (rec : xst -> nat -> list Z -> xst * xres) : Prop :=
  forall s i a, exists L, x_log (fst (rec s i a)) = x_log s ++ L.

Lemma x_calls_mono rec : rec_mono rec ->
  forall l s, exists L, x_log (fst (x_calls rec s l)) = x_log s ++ L.
Proof.
  intro HR. induction l as [|[[|] a] l IH]; intro s; cbn [x_calls].
  - exists []. rewrite app_nil_r. reflexivity.
  - destruct (IH (x_logev s (EFinal true a))) as [L E]. exists ([EFinal true a] ++ L).
    rewrite E. cbn [x_logev x_log]. rewrite <- app_assoc. reflexivity.
  - destruct (HR (mkX (x_started s) (S (x_cursor s)) (x_pool s) (x_log s)) (S (x_cursor s)) a) as [L1 E1].
    destruct (rec (mkX (x_started s) (S (x_cursor s)) (x_pool s) (x_log s)) (S (x_cursor s)) a) as [s2 r].
    cbn [fst x_log] in E1. destruct r.
    + destruct (IH s2) as [L2 E2]. exists (L1 ++ L2). rewrite E2, E1, app_assoc. reflexivity.
    + exists L1. exact E1.
    + exists L1. exact E1.
Qed.

Lemma x_exec_mono tasks : forall fuel, rec_mono (x_exec fuel tasks).
Proof.
  induction fuel as [|f IH]; intros s i a; cbn [x_exec].
  - exists []. rewrite app_nil_r. reflexivity.
  - destruct (nth_error tasks i) as [[il lt pan]|].
    + destruct (x_calls_mono _ IH il (x_logev s (ETask i a))) as [L E].
      destruct (x_calls (x_exec f tasks) (x_logev s (ETask i a)) il) as [s2 r]. cbn [fst] in E.
      cbn [x_logev x_log] in E. exists ([ETask i a] ++ L). rewrite app_assoc, <- E.
      destruct r; reflexivity.
    + exists [EFinal false a]. reflexivity.
Qed.

(* fuel, cursor monotonicity, and where XPanic can come from - for ALL behaviours *)
Definition nopan (tasks : list beh) : Prop := forall b, In b tasks -> no_pan b = true.

Definition rec_safe (tasks : list beh) (rec : xst -> nat -> list Z -> xst * xres) (f : nat) : Prop :=
  forall s i a, (i <= x_cursor s)%nat -> (length tasks - i < f)%nat ->
    (x_cursor s <= x_cursor (fst (rec s i a)))%nat
    /\ snd (rec s i a) <> XFuel /\ (nopan tasks -> snd (rec s i a) = XOk).

Lemma x_calls_safe tasks rec f : rec_safe tasks rec f ->
  forall l s c0, (c0 <= x_cursor s)%nat -> (length tasks - S c0 < f)%nat ->
    (x_cursor s <= x_cursor (fst (x_calls rec s l)))%nat
    /\ snd (x_calls rec s l) <> XFuel /\ (nopan tasks -> snd (x_calls rec s l) = XOk).
Proof.
  intro HR. induction l as [|[[|] a] l IH]; intros s c0 HC HF; cbn [x_calls].
  - cbn. split; [lia|]. split; [discriminate | reflexivity].
  - apply (IH (x_logev s (EFinal true a)) c0); [exact HC | exact HF].
  - set (s1 := mkX (x_started s) (S (x_cursor s)) (x_pool s) (x_log s)).
    assert (H1 : (S (x_cursor s) <= x_cursor s1)%nat) by (cbn; lia).
    assert (H2 : (length tasks - S (x_cursor s) < f)%nat) by lia.
    destruct (HR s1 (S (x_cursor s)) a H1 H2) as [M [NF NP]].
    destruct (rec s1 (S (x_cursor s)) a) as [s2 r]. cbn [fst snd] in *. cbn [x_cursor s1] in M.
    destruct r.
    + assert (H3 : (c0 <= x_cursor s2)%nat) by (cbn in M; lia).
      destruct (IH s2 c0 H3 HF) as [M2 R2]. split; [cbn in M; lia | exact R2].
    + cbn [fst snd]. split; [cbn in M; lia|]. split; [discriminate | exact NP].
    + contradiction.
Qed.

Lemma x_exec_safe tasks : forall f, rec_safe tasks (x_exec f tasks) f.
Proof.
  induction f as [|f IH]; intros s i a HC HF; [lia|]. cbn [x_exec].
  destruct (nth_error tasks i) as [[il lt pan]|] eqn:HN.
  - assert (HI : (i < length tasks)%nat) by (apply nth_error_Some; congruence).
    assert (HF2 : (length tasks - S i < f)%nat) by lia.
    destruct (x_calls_safe tasks _ f IH il (x_logev s (ETask i a)) i HC HF2) as [M [NF NP]].
    destruct (x_calls (x_exec f tasks) (x_logev s (ETask i a)) il) as [s2 r]. cbn [fst snd] in *.
    cbn [x_logev x_cursor] in M. destruct r; cbn [fst snd x_cursor].
    + split; [exact M|]. split; [destruct pan; discriminate|].
      intro P. specialize (P _ (nth_error_In _ _ HN)). cbn in P. destruct pan; [discriminate | reflexivity].
    + split; [exact M|]. split; [discriminate | exact NP].
    + contradiction.
  - cbn. split; [lia|]. split; [discriminate | reflexivity].
Qed.

(* under "invoked tasks complete at most once": one top-level exec either finishes the rest of
   the history, or leaves exactly one callback with the environment *)
Definition XOut (tasks : list beh) (s s' : xst) (i : nat) (args : list Z) : Prop :=
  x_started s' = x_started s /\
  exists L, x_log s' = x_log s ++ L /\
    ((x_pool s' = x_pool s /\ L = spec_from (skipn i tasks) i args)
     \/ (exists k c, x_pool s' = x_pool s ++ [(k, c)]
                     /\ L ++ fut tasks (x_cursor s') c = spec_from (skipn i tasks) i args)).

Lemma x_exec_out tasks : forall fuel s i args s' r,
  x_exec fuel tasks s i args = (s', r) -> x_cursor s = i ->
  invoked_amo tasks (x_log s') -> r <> XFuel -> XOut tasks s s' i args.
Proof.
  induction fuel as [|f IH]; intros s i args s' r H HC HA HF; subst i; cbn [x_exec] in H.
  - inv H. contradiction.
  - destruct (nth_error tasks (x_cursor s)) as [[il lt pan]|] eqn:HN.
    + (* the task is invoked *)
      assert (HB : (length (completions (Beh il lt pan)) <= 1)%nat).
      { destruct (x_calls_mono _ (x_exec_mono tasks f) il (x_logev s (ETask (x_cursor s) args))) as [L E].
        destruct (x_calls (x_exec f tasks) (x_logev s (ETask (x_cursor s) args)) il) as [s2 r2]. cbn [fst] in E.
        assert (EL : x_log s' = x_log s2) by (destruct r2; inv H; reflexivity).
        apply (HA (x_cursor s) args _); [|exact HN]. rewrite EL, E. cbn [x_logev x_log].
        apply in_or_app. left. apply in_or_app. right. left. reflexivity. }
      destruct (completions_cases il lt pan HB) as [[E1 E2]|[[c [E1 E2]]|[c [E1 E2]]]]; subst il lt.
      * cbn [x_calls] in H. inv H. split; [reflexivity|]. exists [ETask (x_cursor s) args]. split; [reflexivity|].
        left. cbn [x_pool x_logev number]. rewrite app_nil_r. split; [reflexivity|].
        rewrite (skipn_nth_error _ _ _ HN). reflexivity.
      * destruct c as [[|] a]; cbn [x_calls] in H.
        -- inv H. split; [reflexivity|]. exists [ETask (x_cursor s) args; EFinal true a].
           cbn [x_log x_logev x_pool number]. rewrite <- app_assoc, app_nil_r. split; [reflexivity|].
           left. split; [reflexivity|]. rewrite (skipn_nth_error _ _ _ HN). reflexivity.
        -- cbn [x_logev x_started x_cursor x_pool x_log] in H.
           destruct (x_exec f tasks (mkX (x_started s) (S (x_cursor s)) (x_pool s) (x_log s ++ [ETask (x_cursor s) args]))
                            (S (x_cursor s)) a) as [s3 r3] eqn:HR.
           assert (ES : x_log s' = x_log s3 /\ x_started s' = x_started s3 /\ x_cursor s' = x_cursor s3
                        /\ x_pool s' = x_pool s3 /\ (r3 = XFuel -> r = XFuel)).
           { destruct r3; cbn [x_calls] in H; inv H; cbn [x_log x_started x_cursor x_pool number];
               rewrite ?app_nil_r; repeat split; try discriminate; auto. }
           destruct ES as [EL [ESt [ECu [EPo EFu]]]].
           assert (HF3 : r3 <> XFuel) by (intro X; apply HF; apply EFu; exact X).
           rewrite EL in HA.
           destruct (IH _ _ _ _ _ HR eq_refl HA HF3) as [St [L3 [EL3 Cases]]].
           cbn [x_started x_log x_pool] in St, EL3, Cases.
           split; [rewrite ESt; exact St|]. exists (ETask (x_cursor s) args :: L3).
           split; [rewrite EL, EL3, <- app_assoc; reflexivity|].
           rewrite (skipn_nth_error _ _ _ HN). cbn [spec_from completions app].
           destruct Cases as [[P3 S3]|[k [c [P3 S3]]]].
           ++ left. split; [rewrite EPo; exact P3 | rewrite S3; reflexivity].
           ++ right. exists k, c. split; [rewrite EPo; exact P3|].
              rewrite ECu. cbn [app]. rewrite S3. reflexivity.
      * cbn [x_calls] in H. inv H. split; [reflexivity|]. exists [ETask (x_cursor s) args].
        split; [reflexivity|]. right. exists (x_cursor s, O), c.
        cbn [x_pool x_logev x_cursor number]. split; [reflexivity|].
        rewrite (skipn_nth_error _ _ _ HN). cbn [spec_from completions app].
        destruct c as [[|] a]; reflexivity.
    + inv H. split; [reflexivity|]. exists [EFinal false args]. split; [reflexivity|].
      left. split; [reflexivity|]. rewrite (skipn_none _ _ HN). reflexivity.
Qed.

Inductive XInv (tasks : list beh) (s : xst) : Prop :=
| XI_init : x_started s = false -> x_pool s = [] -> x_log s = [] -> x_cursor s = O -> XInv tasks s
| XI_wait : forall k c, x_started s = true -> x_pool s = [(k, c)] ->
    x_log s ++ fut tasks (x_cursor s) c = spec tasks -> XInv tasks s
| XI_done : x_started s = true -> x_pool s = [] -> x_log s = spec tasks -> XInv tasks s.

Lemma x_step_mono tasks s l s' r : x_step tasks s l = Some (s', r) -> exists L, x_log s' = x_log s ++ L.
Proof.
  destruct l as [|i k]; cbn [x_step]; intro H.
  - destruct (x_started s); [discriminate|]. assert (H1 : x_exec (x_fuel tasks) tasks (mkX true (x_cursor s) (x_pool s) (x_log s)) O [] = (s', r)) by congruence.
    destruct (x_exec_mono tasks (x_fuel tasks) (mkX true (x_cursor s) (x_pool s) (x_log s)) O []) as [L E].
    rewrite H1 in E. exists L. exact E.
  - destruct (take_pool (i, k) (x_pool s)) as [[[[|] a] p']|]; [| |discriminate].
    + inv H. exists [EFinal true a]. reflexivity.
    + assert (H1 : x_exec (x_fuel tasks) tasks (mkX (x_started s) (S (x_cursor s)) p' (x_log s)) (S (x_cursor s)) a = (s', r)) by congruence.
      destruct (x_exec_mono tasks (x_fuel tasks) (mkX (x_started s) (S (x_cursor s)) p' (x_log s)) (S (x_cursor s)) a) as [L E].
      rewrite H1 in E. exists L. exact E.
Qed.

Lemma x_step_safe tasks s l s' r : x_step tasks s l = Some (s', r) ->
  r <> XFuel /\ (nopan tasks -> r = XOk).
Proof.
  destruct l as [|i k]; cbn [x_step]; intro H.
  - destruct (x_started s); [discriminate|]. assert (H1 : x_exec (x_fuel tasks) tasks (mkX true (x_cursor s) (x_pool s) (x_log s)) O [] = (s', r)) by congruence.
    destruct (x_exec_safe tasks (x_fuel tasks) (mkX true (x_cursor s) (x_pool s) (x_log s)) O []) as [_ R].
    + lia.
    + unfold x_fuel. lia.
    + rewrite H1 in R. exact R.
  - destruct (take_pool (i, k) (x_pool s)) as [[[[|] a] p']|]; [| |discriminate].
    + inv H. split; [discriminate | reflexivity].
    + assert (H1 : x_exec (x_fuel tasks) tasks (mkX (x_started s) (S (x_cursor s)) p' (x_log s)) (S (x_cursor s)) a = (s', r)) by congruence.
      destruct (x_exec_safe tasks (x_fuel tasks) (mkX (x_started s) (S (x_cursor s)) p' (x_log s)) (S (x_cursor s)) a) as [_ R].
      * cbn. lia.
      * unfold x_fuel. lia.
      * rewrite H1 in R. exact R.
Qed.

Lemma xinv_of_out tasks s0 s' i args :
  XOut tasks s0 s' i args -> x_started s0 = true -> x_pool s0 = [] ->
  x_log s0 ++ spec_from (skipn i tasks) i args = spec tasks -> XInv tasks s'.
Proof.
  intros [St [L [EL Cases]]] HS HP HSp. destruct Cases as [[P E]|[k [c [P E]]]].
  - apply XI_done; [congruence | congruence | rewrite EL, E; exact HSp].
  - apply (XI_wait _ _ k c); [congruence | rewrite P, HP; reflexivity|].
    rewrite EL, <- app_assoc, E. exact HSp.
Qed.

Lemma xinv_step tasks s l s' r :
  XInv tasks s -> x_step tasks s l = Some (s', r) -> invoked_amo tasks (x_log s') -> XInv tasks s'.
Proof.
  intros I H HA. pose proof (x_step_safe _ _ _ _ _ H) as [NF _].
  destruct I as [HS HP HL HC|k c HS HP HSp|HS HP HSp]; destruct l as [|i k']; cbn [x_step] in H.
  - rewrite HS in H. assert (H1 : x_exec (x_fuel tasks) tasks (mkX true (x_cursor s) (x_pool s) (x_log s)) O [] = (s', r)) by congruence.
    apply (xinv_of_out tasks (mkX true (x_cursor s) (x_pool s) (x_log s)) s' O []).
    + apply (x_exec_out tasks _ _ _ _ _ _ H1); [exact HC | exact HA | exact NF].
    + reflexivity.
    + exact HP.
    + cbn [x_log]. rewrite HL. reflexivity.
  - rewrite HP in H. discriminate.
  - rewrite HS in H. discriminate.
  - rewrite HP, take_pool_one in H. destruct (key_eqb (i, k') k); [|discriminate].
    destruct c as [[|] a].
    + inv H. apply XI_done; cbn [x_started x_pool x_log x_logev]; [exact HS | reflexivity | exact HSp].
    + assert (H1 : x_exec (x_fuel tasks) tasks (mkX (x_started s) (S (x_cursor s)) [] (x_log s)) (S (x_cursor s)) a = (s', r)) by congruence.
      apply (xinv_of_out tasks (mkX (x_started s) (S (x_cursor s)) [] (x_log s)) s' (S (x_cursor s)) a).
      * apply (x_exec_out tasks _ _ _ _ _ _ H1); [reflexivity | exact HA | exact NF].
      * exact HS.
      * reflexivity.
      * exact HSp.
  - rewrite HS in H. discriminate.
  - rewrite HP in H. discriminate.
Qed.

Lemma x_run_snoc tasks ls l : x_run tasks (ls ++ [l]) = x_step_or_stay tasks (x_run tasks ls) l.
Proof. unfold x_run. rewrite fold_left_app. reflexivity. Qed.

Lemma xinv_run tasks : forall ls,
  invoked_amo tasks (x_log (fst (x_run tasks ls))) -> XInv tasks (fst (x_run tasks ls)).
Proof.
  intro ls. induction ls as [|l ls IH] using rev_ind; intro HA.
  - apply XI_init; reflexivity.
  - rewrite x_run_snoc in *. unfold x_step_or_stay in *.
    destruct (x_step tasks (fst (x_run tasks ls)) l) as [[s' r]|] eqn:E; [|apply IH; exact HA].
    cbn [fst] in *. destruct (x_step_mono _ _ _ _ _ E) as [L EL].
    apply (xinv_step tasks (fst (x_run tasks ls)) l s' r); [|exact E|exact HA].
    apply IH. rewrite EL in HA. apply (invoked_amo_mono _ _ _ HA).
Qed.

Lemma simple_holds tasks sr :
  xreachable tasks sr -> invoked_amo tasks (x_log (fst sr)) ->
  ext_of tasks (x_log (fst sr))
  /\ (x_started (fst sr) = true -> x_pool (fst sr) = [] -> x_log (fst sr) = spec tasks).
Proof.
  intros [ls E] HA. subst sr. destruct (xinv_run tasks ls HA) as [HS HP HL HC|k c HS HP HSp|HS HP HSp].
  - split; [exists (spec tasks); rewrite HL; reflexivity | congruence].
  - split; [eexists; exact HSp | intros _ P; rewrite HP in P; discriminate].
  - split; [exists []; rewrite app_nil_r; exact HSp | intros _ _; exact HSp].
Qed.

Lemma simple_results tasks sr : xreachable tasks sr ->
  ~ In XFuel (snd sr) /\ (nopan tasks -> forall r, In r (snd sr) -> r = XOk).
Proof.
  intros [ls E]. subst sr. induction ls as [|l ls IH] using rev_ind.
  - cbn. split; [tauto | intros _ r []].
  - rewrite x_run_snoc. unfold x_step_or_stay.
    destruct (x_step tasks (fst (x_run tasks ls)) l) as [[s' r]|] eqn:ES; [|exact IH].
    destruct (x_step_safe _ _ _ _ _ ES) as [NF NP]. destruct IH as [I1 I2]. cbn [snd]. split.
    + intro H. apply in_app_or in H. destruct H as [H|[H|[]]]; [tauto | congruence].
    + intros P r0 H. apply in_app_or in H. destruct H as [H|[H|[]]]; [apply (I2 P _ H) | subst; apply NP; exact P].
Qed.

(* ------------------------------------------------------------------ Part 2c: ExecAndWait *)

Lemma e_csend_log s c : e_log (e_csend s c) = e_log s.
Proof.
  unfold e_csend, e_store. destruct (fst c); cbn [e_closed e_chan];
    destruct (e_closed s); try reflexivity; destruct (e_chan s); reflexivity.
Qed.

Lemma e_fold_log : forall il s,
  e_log (fold_left (fun s c => if e_running s then e_csend s c else s) il s) = e_log s.
Proof.
  induction il as [|c il IH]; intro s; cbn [fold_left]; [reflexivity|].
  rewrite IH. destruct (e_running s); [apply e_csend_log | reflexivity].
Qed.

Lemma e_task_log s i b args : e_log (e_task s i b args) = e_log s ++ [ETask i args].
Proof.
  destruct b as [il lt pan]. unfold e_task.
  set (s1 := fold_left _ il _).
  assert (E : e_log s1 = e_log s ++ [ETask i args]) by (unfold s1; rewrite e_fold_log; reflexivity).
  destruct (e_running s1); [|exact E]. destruct pan; cbn [e_set_status e_log]; exact E.
Qed.

Lemma e_gofinal_log s args : e_log (e_gofinal_false s args) = e_log s.
Proof.
  unfold e_gofinal_false. cbn [e_closed e_chan]. destruct (e_closed s); [reflexivity|].
  destruct (e_chan s); reflexivity.
Qed.

Lemma e_try_log tasks s i args : exists L, e_log (e_try tasks s i args) = e_log s ++ L.
Proof.
  unfold e_try. destruct (nth_error tasks i) as [b|].
  - exists [ETask i args]. apply e_task_log.
  - exists []. rewrite app_nil_r. apply e_gofinal_log.
Qed.

Lemma e_esend_log s c : e_log (e_esend s c) = e_log s.
Proof.
  unfold e_esend, e_store. destruct (fst c); cbn [e_closed e_chan];
    destruct (e_closed s); try reflexivity; destruct (e_chan s); reflexivity.
Qed.

Lemma estep_log_mono tasks s l s' : estep tasks s l = Some s' -> exists L, e_log s' = e_log s ++ L.
Proof.
  destruct l as [| |i k]; cbn [estep]; intro H.
  - destruct (e_status s); try discriminate. destruct tasks as [|b tl]; inv H.
    + exists [EFinal false []]. reflexivity.
    + apply (e_try_log (b :: tl) (e_set_status s ELooping) O []).
  - destruct (e_running s); [|discriminate]. destruct (e_chan s) as [|t rest].
    + destruct (e_closed s); inv H. exists []. rewrite app_nil_r. reflexivity.
    + destruct t; inv H.
      * match goal with |- context [e_try tasks ?x ?j ?a] => destruct (e_try_log tasks x j a) as [L E] end.
        exists L. exact E.
      * eexists. reflexivity.
  - destruct (take_pool (i, k) (e_pool s)) as [[c p']|]; inv H.
    exists []. rewrite app_nil_r. rewrite e_esend_log. reflexivity.
Qed.

Inductive EInv (tasks : list beh) (s : est) : Prop :=
| EI_init : s = e_init -> EInv tasks s
| EI_next : e_status s = ELooping -> e_chan s = [TNext] -> e_closed s = false -> e_pool s = [] ->
    e_blocked s = [] -> e_envpanics s = O ->
    e_log s ++ spec_from (skipn (S (e_cursor s)) tasks) (S (e_cursor s)) (e_args s) = spec tasks ->
    EInv tasks s
| EI_final : e_status s = ELooping -> e_chan s = [TFinal] -> e_closed s = false -> e_pool s = [] ->
    e_blocked s = [] -> e_envpanics s = O ->
    e_log s ++ [EFinal (e_err s) (e_args s)] = spec tasks -> EInv tasks s
| EI_pool : forall k c, e_status s = ELooping -> e_chan s = [] -> e_closed s = false ->
    e_pool s = [(k, c)] -> e_blocked s = [] -> e_envpanics s = O ->
    e_log s ++ fut tasks (e_cursor s) c = spec tasks -> EInv tasks s
| EI_parked : e_status s = ELooping -> e_chan s = [] -> e_closed s = false -> e_pool s = [] ->
    e_blocked s = [] -> e_envpanics s = O -> e_log s = spec tasks ->
    (exists i a b, In (ETask i a) (e_log s) /\ nth_error tasks i = Some b /\ completions b = []) ->
    EInv tasks s
| EI_closing : e_status s = ELooping -> e_chan s = [] -> e_closed s = true -> e_pool s = [] ->
    e_blocked s = [] -> e_envpanics s = O -> e_log s = spec tasks -> finals_in (e_log s) = 1%nat ->
    EInv tasks s
| EI_returned : e_status s = EReturned -> e_pool s = [] -> e_blocked s = [] -> e_envpanics s = O ->
    e_log s = spec tasks -> finals_in (e_log s) = 1%nat -> EInv tasks s
| EI_dead : e_status s = ECallerPanic -> e_closed s = false -> e_envpanics s = O ->
    ext_of tasks (e_log s) ->
    (exists i a il lt, In (ETask i a) (e_log s) /\ nth_error tasks i = Some (Beh il lt true)) ->
    EInv tasks s.

(* donext / the first exec, with an empty channel and nothing else pending *)
Lemma e_try_inv tasks cu ar er lo i args :
  lo ++ spec_from (skipn i tasks) i args = spec tasks -> cu = i ->
  (forall b, nth_error tasks i = Some b -> (length (completions b) <= 1)%nat) ->
  EInv tasks (e_try tasks (mkE ELooping cu [] [] false ar er [] lo 0) i args).
Proof.
  intros HS HC HA. subst cu. unfold e_try. destruct (nth_error tasks i) as [[il lt pan]|] eqn:HN.
  - rewrite (skipn_nth_error _ _ _ HN) in HS. cbn [spec_from] in HS.
    destruct (completions_cases il lt pan (HA _ eq_refl)) as [[E1 E2]|[[c [E1 E2]]|[c [E1 E2]]]];
      subst il lt; cbn [completions app] in HS.
    + destruct pan; cbn.
      * apply EI_dead; cbn; try reflexivity.
        -- exists []. rewrite app_nil_r. exact HS.
        -- exists i, args, [], []. split; [apply in_or_app; right; left; reflexivity | exact HN].
      * apply EI_parked; cbn; try reflexivity; [exact HS|].
        exists i, args, (Beh [] [] false). split; [apply in_or_app; right; left; reflexivity|]. auto.
    + destruct c as [[|] a]; destruct pan; cbn.
      * apply EI_dead; cbn; try reflexivity.
        -- exists [EFinal true a]. rewrite <- app_assoc. exact HS.
        -- exists i, args, [(true, a)], []. split; [apply in_or_app; right; left; reflexivity | exact HN].
      * apply EI_final; cbn; try reflexivity. rewrite <- app_assoc. exact HS.
      * apply EI_dead; cbn; try reflexivity.
        -- eexists. rewrite <- app_assoc. exact HS.
        -- exists i, args, [(false, a)], []. split; [apply in_or_app; right; left; reflexivity | exact HN].
      * apply EI_next; cbn; try reflexivity. rewrite <- app_assoc. exact HS.
    + destruct pan; cbn.
      * apply EI_dead; cbn; try reflexivity.
        -- eexists. rewrite <- app_assoc. exact HS.
        -- exists i, args, [], [c]. split; [apply in_or_app; right; left; reflexivity | exact HN].
      * apply (EI_pool _ _ (i, O) c); cbn; try reflexivity.
        rewrite <- app_assoc. cbn [app]. destruct c as [[|] a]; exact HS.
  - rewrite (skipn_none _ _ HN) in HS. cbn [spec_from] in HS. cbn.
    apply EI_final; cbn; try reflexivity. exact HS.
Qed.

Lemma amo_of_try tasks s i args :
  invoked_amo tasks (e_log (e_try tasks s i args)) ->
  forall b, nth_error tasks i = Some b -> (length (completions b) <= 1)%nat.
Proof.
  intros HA b HN. apply (HA i args b); [|exact HN]. unfold e_try. rewrite HN, e_task_log.
  apply in_or_app. right. left. reflexivity.
Qed.

Lemma finals_one_of_final tasks lo e a : lo ++ [EFinal e a] = spec tasks -> finals_in (lo ++ [EFinal e a]) = 1%nat.
Proof.
  intro H. pose proof (spec_finals_le tasks O []) as L. unfold spec in H. rewrite <- H in L.
  rewrite finals_in_app in *. cbn in *. lia.
Qed.

Lemma e_esend_dead s c : e_closed s = false ->
  e_status (e_esend s c) = e_status s /\ e_closed (e_esend s c) = false
  /\ e_envpanics (e_esend s c) = e_envpanics s.
Proof.
  intro HC. unfold e_esend, e_store. destruct (fst c); cbn [e_closed e_chan]; rewrite HC;
    destruct (e_chan s); cbn; auto.
Qed.

Lemma einv_step tasks s l s' :
  EInv tasks s -> estep tasks s l = Some s' -> invoked_amo tasks (e_log s') -> EInv tasks s'.
Proof.
  intros I H HA.
  destruct I as [E|HSt HCh HCl HPo HBl HEp HS|HSt HCh HCl HPo HBl HEp HS|k c HSt HCh HCl HPo HBl HEp HS
                 |HSt HCh HCl HPo HBl HEp HS HW|HSt HCh HCl HPo HBl HEp HS HF|HSt HPo HBl HEp HS HF
                 |HSt HCl HEp HX HW].
  - (* not started *)
    subst s. destruct l as [| |i k]; cbn in H; try discriminate.
    destruct tasks as [|b tl].
    + inv H. apply EI_returned; reflexivity.
    + inv H. change (e_set_status e_init ELooping) with (mkE ELooping 0 [] [] false [] false [] [] 0) in *.
      apply e_try_inv; [reflexivity | reflexivity | apply (amo_of_try _ _ _ _ HA)].
  - destruct s as [st cu ch bl cl ar er po lo ep]. cbn in HSt, HCh, HCl, HPo, HBl, HEp, HS. subst.
    destruct l as [| |i k]; cbn in H; try discriminate. inv H.
    apply e_try_inv; [exact HS | reflexivity | apply (amo_of_try _ _ _ _ HA)].
  - destruct s as [st cu ch bl cl ar er po lo ep]. cbn in HSt, HCh, HCl, HPo, HBl, HEp, HS. subst.
    destruct l as [| |i k]; cbn in H; try discriminate. inv H.
    apply EI_closing; cbn; try reflexivity; [exact HS | apply (finals_one_of_final _ _ _ _ HS)].
  - destruct s as [st cu ch bl cl ar er po lo ep]. cbn in HSt, HCh, HCl, HPo, HBl, HEp, HS. subst.
    destruct l as [| |i k']; cbn [estep e_status e_running e_chan e_closed e_pool] in H; try discriminate.
    rewrite take_pool_one in H. destruct (key_eqb (i, k') k); [|discriminate]. inv H.
    destruct c as [[|] a]; cbn.
    + apply EI_final; cbn; try reflexivity. exact HS.
    + apply EI_next; cbn; try reflexivity. exact HS.
  - destruct s as [st cu ch bl cl ar er po lo ep]. cbn in HSt, HCh, HCl, HPo, HBl, HEp, HS. subst.
    destruct l as [| |i k]; cbn in H; discriminate.
  - destruct s as [st cu ch bl cl ar er po lo ep]. cbn in HSt, HCh, HCl, HPo, HBl, HEp, HS, HF. subst.
    destruct l as [| |i k]; cbn in H; try discriminate. inv H.
    apply EI_returned; cbn; try reflexivity. exact HF.
  - destruct s as [st cu ch bl cl ar er po lo ep]. cbn in HSt, HPo, HBl, HEp, HS. subst.
    destruct l as [| |i k]; cbn in H; discriminate.
  - destruct l as [| |i k]; cbn [estep] in H.
    + rewrite HSt in H. discriminate.
    + unfold e_running in H. rewrite HSt in H. discriminate.
    + destruct (take_pool (i, k) (e_pool s)) as [[c p']|]; [|discriminate]. inv H.
      match goal with |- EInv _ (e_esend ?x c) =>
        destruct (e_esend_dead x c HCl) as [A [B C]]; pose proof (e_esend_log x c) as D end.
      cbn [e_status e_envpanics e_log] in A, C, D.
      apply EI_dead; [rewrite A; exact HSt | exact B | rewrite C; exact HEp | rewrite D; exact HX | rewrite D; exact HW].
Qed.

Lemma erun_snoc tasks ls l : erun tasks (ls ++ [l]) = estep_or_stay tasks (erun tasks ls) l.
Proof. unfold erun. rewrite fold_left_app. reflexivity. Qed.

Lemma einv_run tasks : forall ls, invoked_amo tasks (e_log (erun tasks ls)) -> EInv tasks (erun tasks ls).
Proof.
  intro ls. induction ls as [|l ls IH] using rev_ind; intro HA.
  - apply EI_init. reflexivity.
  - rewrite erun_snoc in *. unfold estep_or_stay in *.
    destruct (estep tasks (erun tasks ls) l) as [s'|] eqn:E; [|apply IH; exact HA].
    destruct (estep_log_mono _ _ _ _ E) as [L EL].
    apply (einv_step tasks (erun tasks ls) l s'); [|exact E|exact HA].
    apply IH. rewrite EL in HA. apply (invoked_amo_mono _ _ _ HA).
Qed.

Lemma wait_holds tasks s : ereachable tasks s -> invoked_amo tasks (e_log s) ->
  ext_of tasks (e_log s)
  /\ e_status s <> ECallerStuck /\ e_envpanics s = O
  /\ (e_status s = EReturned -> e_log s = spec tasks /\ finals_in (e_log s) = 1%nat)
  /\ (equiescent tasks s -> invoked_once tasks (e_log s) -> invoked_nopanic tasks (e_log s) ->
      e_status s = EReturned).
Proof.
  intros [ls E] HA. subst s.
  destruct (einv_run tasks ls HA) as [E|HSt HCh HCl HPo HBl HEp HS|HSt HCh HCl HPo HBl HEp HS|k c HSt HCh HCl HPo HBl HEp HS
                 |HSt HCh HCl HPo HBl HEp HS HW|HSt HCh HCl HPo HBl HEp HS HF|HSt HPo HBl HEp HS HF
                 |HSt HCl HEp HX HW].
  - rewrite E. cbn. split; [exists (spec tasks); reflexivity|]. split; [discriminate|]. split; [reflexivity|].
    split; [discriminate|]. intros Q _ _. specialize (Q WStart). cbn in Q.
    destruct tasks; discriminate.
  - split; [eexists; exact HS|]. split; [congruence|]. split; [exact HEp|]. split; [congruence|].
    intros Q _ _. specialize (Q WLoop). cbn [estep] in Q. unfold e_running in Q. rewrite HSt, HCh in Q. discriminate.
  - split; [eexists; exact HS|]. split; [congruence|]. split; [exact HEp|]. split; [congruence|].
    intros Q _ _. specialize (Q WLoop). cbn [estep] in Q. unfold e_running in Q. rewrite HSt, HCh in Q. discriminate.
  - split; [eexists; exact HS|]. split; [congruence|]. split; [exact HEp|]. split; [congruence|].
    intros Q _ _. specialize (Q (WFire (fst k) (snd k))). cbn [estep] in Q.
    rewrite HPo, take_pool_one in Q. unfold key_eqb in Q. cbn [fst snd] in Q. rewrite !Nat.eqb_refl in Q.
    discriminate.
  - split; [exists []; rewrite app_nil_r; exact HS|]. split; [congruence|]. split; [exact HEp|].
    split; [congruence|]. intros _ HO _. destruct HW as [i [a [b [HI [HN HC]]]]].
    specialize (HO i a b HI HN). rewrite HC in HO. discriminate.
  - split; [exists []; rewrite app_nil_r; exact HS|]. split; [congruence|]. split; [exact HEp|].
    split; [congruence|]. intros Q _ _. specialize (Q WLoop). cbn [estep] in Q. unfold e_running in Q.
    rewrite HSt, HCh, HCl in Q. discriminate.
  - split; [exists []; rewrite app_nil_r; exact HS|]. split; [congruence|]. split; [exact HEp|].
    split; [intros _; split; assumption | intros _ _ _; exact HSt].
  - split; [exact HX|]. split; [congruence|]. split; [exact HEp|]. split; [congruence|].
    intros _ _ HN. destruct HW as [i [a [il [lt [HI HT]]]]]. specialize (HN i a _ HI HT). discriminate.
Qed.

(* the three runners agree once they are done *)
Lemma runners_coincide tasks sc sx se :
  creachable tasks sc -> cquiescent sc -> invoked_amo tasks (clog sc) ->
  xreachable tasks sx -> x_started (fst sx) = true -> x_pool (fst sx) = [] -> invoked_amo tasks (x_log (fst sx)) ->
  ereachable tasks se -> e_status se = EReturned -> invoked_amo tasks (e_log se) ->
  clog sc = spec tasks /\ x_log (fst sx) = spec tasks /\ e_log se = spec tasks.
Proof.
  intros RC QC AC RX SX PX AX RE SE AE.
  split; [apply (proj2 (chain_spec_holds _ _ RC AC) QC)|].
  split; [apply (proj2 (simple_holds _ _ RX AX) SX PX)|].
  destruct (wait_holds _ _ RE AE) as [_ [_ [_ [H _]]]]. apply (H SE).
Qed.

(* ------------------------------------------------------------------ registry *)

Definition reg_bounded (m : mgr_state) : Prop :=
  0 <= m_next m /\ forall n id, aget n (m_reg m) = Some id -> 0 <= id < m_next m.

Lemma reg_bounded_step m o : reg_bounded m -> reg_bounded (m_step m o).
Proof.
  intros [B0 B]. destruct o as [k|k]; cbn [m_step].
  - unfold m_get. destruct (aget k (m_reg m)) as [x|] eqn:E; cbn [fst m_reg m_next].
    + split; [exact B0 | exact B].
    + unfold reg_bounded. cbn [m_reg m_next]. split; [lia|]. intros n id H. destruct (Z.eq_dec n k) as [EQ|NE].
      * subst. rewrite aget_aset_same in H. inv H. lia.
      * rewrite aget_aset_other in H by exact NE. specialize (B n id H). lia.
  - unfold m_del, reg_bounded. cbn [m_reg m_next]. split; [exact B0|]. intros n id H.
    destruct (Z.eq_dec n k) as [EQ|NE].
    + subst. rewrite aget_adel_same in H. discriminate.
    + rewrite aget_adel_other in H by exact NE. apply (B n id H).
Qed.

Lemma reg_bounded_run ops : reg_bounded (m_run ops).
Proof.
  unfold m_run. induction ops as [|o ops IH] using rev_ind.
  - split; [reflexivity | intros n id H; discriminate H].
  - rewrite fold_left_app. cbn [fold_left]. apply reg_bounded_step. exact IH.
Qed.

Lemma registry_laws ops n :
  let m := m_run ops in
  (forall k id, aget k (m_reg m) = Some id -> 0 <= id < m_next m)
  /\ m_get (fst (m_get m n)) n = (fst (m_get m n), snd (m_get m n))
  /\ (forall k, k <> n -> aget k (m_reg (fst (m_get m n))) = aget k (m_reg m))
  /\ snd (m_get (m_del m n) n) = m_next m
  /\ (forall k, k <> n -> aget k (m_reg (m_del m n)) = aget k (m_reg m)).
Proof.
  intro m. destruct (reg_bounded_run ops) as [_ B]. fold m in B. split; [exact B|]. split.
  - unfold m_get. destruct (aget n (m_reg m)) as [x|] eqn:E; cbn [fst snd m_reg].
    + rewrite E. reflexivity.
    + rewrite aget_aset_same. reflexivity.
  - split.
    + intros k NE. unfold m_get. destruct (aget n (m_reg m)); cbn [fst m_reg]; [reflexivity|].
      apply aget_aset_other. exact NE.
    + split.
      * unfold m_get, m_del. cbn [m_reg m_next]. rewrite aget_adel_same. reflexivity.
      * intros k NE. unfold m_del. cbn [m_reg]. apply aget_adel_other. exact NE.
Qed.

(* ------------------------------------------------------------------ Part 1i *)
(* Task ids: the id-annotated system is the scheduler system with bookkeeping that nothing
   reads - for every starting value of the process-wide counter, across the uint32 wrap. *)

Lemma i_alloc_st s i s1 : i_alloc s i = Some s1 -> i_st s1 = i_st s.
Proof.
  unfold i_alloc. destruct (held_of i (i_held s)); [discriminate|].
  destruct (next_cid (i_st s) i); [|discriminate]. intro H. inv H. reflexivity.
Qed.

Lemma held_of_In i h id : held_of i h = Some id -> In (i, id) h.
Proof.
  unfold held_of. destruct (find (fun x => Nat.eqb (fst x) i) h) as [x|] eqn:F; [|discriminate].
  intro H. inv H. apply find_some in F. destruct F as [I E]. apply Nat.eqb_eq in E.
  destruct x as [j v]. cbn [fst snd] in *. subst. exact I.
Qed.

Lemma held_of_app_new i h id : held_of i h = None -> held_of i (h ++ [(i, id)]) = Some id.
Proof.
  unfold held_of. induction h as [|x h IH]; cbn [find app fst].
  - rewrite Nat.eqb_refl. reflexivity.
  - destruct (Nat.eqb (fst x) i); [discriminate|]. exact IH.
Qed.

Lemma next_cid_none s i : next_cid s i = None -> tstep s (TPost i) = None.
Proof.
  unfold next_cid. cbn [tstep]. destruct (nth_error (posters s) i) as [[n [|k r]]|]; try reflexivity.
  discriminate.
Qed.

Lemma i_st_step s l :
  i_st (istep_or_stay s l) = match l with IStep t => step_or_stay (i_st s) t | IAlloc _ => i_st s end.
Proof.
  unfold istep_or_stay. destruct l as [i|t].
  - cbn [istep]. destruct (i_alloc s i) as [s1|] eqn:EA; [apply (i_alloc_st _ _ _ EA) | reflexivity].
  - destruct t as [i| | |].
    + cbn [istep]. unfold step_or_stay. destruct (i_alloc s i) as [s1|] eqn:EA.
      * pose proof (i_alloc_st _ _ _ EA) as ES.
        assert (HH : held_of i (i_held s1) <> None).
        { unfold i_alloc in EA. destruct (held_of i (i_held s)) eqn:EH; [discriminate|].
          destruct (next_cid (i_st s) i); [|discriminate]. inv EA. cbn [i_held].
          rewrite (held_of_app_new _ _ _ EH). discriminate. }
        destruct (held_of i (i_held s1)) as [id|]; [|contradiction].
        rewrite ES. destruct (tstep (i_st s) (TPost i)); [reflexivity | exact ES].
      * destruct (held_of i (i_held s)) as [id|] eqn:EH.
        -- destruct (tstep (i_st s) (TPost i)); reflexivity.
        -- unfold i_alloc in EA. rewrite EH in EA.
           destruct (next_cid (i_st s) i) eqn:EN; [discriminate|].
           rewrite (next_cid_none _ _ EN). reflexivity.
    + cbn [istep]. unfold step_or_stay. destruct (tstep (i_st s) TCons); reflexivity.
    + cbn [istep]. unfold step_or_stay. destruct (tstep (i_st s) TStop); reflexivity.
    + cbn [istep]. unfold step_or_stay. destruct (tstep (i_st s) TExit); reflexivity.
Qed.

Lemma id_blind_run : forall ls s, i_st (irun s ls) = run_sched (i_st s) (erase ls).
Proof.
  induction ls as [|l ls IH]; intro s; [reflexivity|].
  unfold irun. cbn [fold_left]. fold (irun (istep_or_stay s l) ls). rewrite IH, i_st_step.
  destruct l; reflexivity.
Qed.

Lemma id_blind progs ws c0 ls :
  i_st (irun (iinit progs ws c0) ls) = run_sched (init progs ws) (erase ls).
Proof. apply id_blind_run. Qed.

Lemma id_reachable progs ws c0 ls : reachable progs ws (i_st (irun (iinit progs ws c0) ls)).
Proof. exists (erase ls). apply id_blind. Qed.

(* ---- which id each executed task carried ---- *)

Lemma last_nonempty_default {A} : forall (l : list A) x d1 d2, last (x :: l) d1 = last (x :: l) d2.
Proof.
  induction l as [|y l IH]; intros x d1 d2; [reflexivity|].
  change (last (x :: y :: l) d1) with (last (y :: l) d1).
  change (last (x :: y :: l) d2) with (last (y :: l) d2). apply IH.
Qed.

Lemma alloc_ids_snoc : forall n c0, alloc_ids c0 (S n) = alloc_ids c0 n ++ [alloc_id (last (alloc_ids c0 n) c0)].
Proof.
  induction n as [|n IH]; intro c0; [reflexivity|].
  change (alloc_ids c0 (S (S n))) with (alloc_id c0 :: alloc_ids (alloc_id c0) (S n)).
  rewrite IH. change (alloc_ids c0 (S n)) with (alloc_id c0 :: alloc_ids (alloc_id c0) n).
  cbn [app]. do 3 f_equal.
  destruct (alloc_ids (alloc_id c0) n) as [|x r] eqn:E; [reflexivity|].
  change (last (alloc_id c0 :: x :: r) c0) with (last (x :: r) c0). f_equal. apply last_nonempty_default.
Qed.

Lemma alloc_ids_length : forall n c0, length (alloc_ids c0 n) = n.
Proof. induction n as [|n IH]; intro c0; cbn; [reflexivity | rewrite IH; reflexivity]. Qed.

Lemma wrap32_succ z k : wrap32 (wrap32 (z + 1) + Z.of_nat k) = wrap32 (z + Z.of_nat (S k)).
Proof.
  unfold wrap32. rewrite Zplus_mod_idemp_l. f_equal. rewrite Nat2Z.inj_succ. unfold Z.succ.
  rewrite <- !Z.add_assoc. f_equal. apply Z.add_comm.
Qed.

(* the k-th id handed out from counter value c0 is (c0 + k) mod 2^32 *)
Lemma alloc_ids_closed : forall n c0,
  alloc_ids c0 n = map (fun k => wrap32 (c0 + Z.of_nat k)) (seq 1 n).
Proof.
  induction n as [|n IH]; intro c0; [reflexivity|].
  cbn [alloc_ids seq map]. f_equal.
  rewrite IH, <- (seq_shift n 1), map_map. apply map_ext. intro k. unfold alloc_id. apply wrap32_succ.
Qed.

Lemma wrap32_range z : 0 <= wrap32 z < two32.
Proof. unfold wrap32, two32. apply Z.mod_pos_bound. reflexivity. Qed.

Lemma tstep_post_shape s i s' : tstep s (TPost i) = Some s' ->
  exists n k r, nth_error (posters s) i = Some (mkP n (k :: r))
    /\ posters s' = set_nth i (mkP (S n) r) (posters s)
    /\ executed s' = executed s
    /\ queue s' = if stopped s then queue s else queue s ++ [((i, n), k)].
Proof.
  cbn [tstep]. destruct (nth_error (posters s) i) as [[n [|k r]]|]; try discriminate.
  unfold post, chan_send. intro H. exists n, k, r. split; [reflexivity|].
  destruct (stopped s).
  - inv H. repeat split.
  - destruct (Nat.ltb (length (queue s)) cap); inv H. repeat split.
Qed.

Lemma tstep_cons_shape s s' : tstep s TCons = Some s' ->
  exists it q', queue s = it :: q' /\ queue s' = q' /\ executed s' = executed s ++ [it]
    /\ posters s' = posters s.
Proof.
  cbn [tstep]. destruct (alive s); [|discriminate]. destruct (queue s) as [|it q']; [discriminate|].
  rewrite do_task_ok. intro H. inv H. exists it, q'. repeat split.
Qed.

Lemma next_cid_posters s s' i : posters s' = posters s -> next_cid s' i = next_cid s i.
Proof. unfold next_cid. intro E. rewrite E. reflexivity. Qed.

Lemma combine_app {A B} (l1 : list A) (r1 : list B) l2 r2 :
  length l1 = length r1 -> combine (l1 ++ l2) (r1 ++ r2) = combine l1 r1 ++ combine l2 r2.
Proof.
  revert r1. induction l1 as [|x l1 IH]; intros [|y r1] L; cbn in L; try discriminate; [reflexivity|].
  cbn. f_equal. apply IH. lia.
Qed.

Record IInv (c0 : Z) (s : ist) : Prop := {
  ii_len : length (i_qids s) = length (queue (i_st s));
  ii_q : forall c id, In (c, id) (combine (map fst (queue (i_st s))) (i_qids s)) -> In (c, id) (i_given s);
  ii_held : forall i id, In (i, id) (i_held s) ->
            exists c, next_cid (i_st s) i = Some c /\ In (c, id) (i_given s);
  ii_x : map fst (i_xids s) = exec_ids (i_st s);
  ii_xg : forall c id, In (c, id) (i_xids s) -> In (c, id) (i_given s);
  ii_ids : map snd (i_given s) = alloc_ids c0 (length (i_given s));
  ii_ctr : i_ctr s = last (map snd (i_given s)) c0
}.

Lemma iinv_init progs ws c0 : IInv c0 (iinit progs ws c0).
Proof. constructor; cbn; try reflexivity; intros ? ? []. Qed.

Ltac iproj := cbn [i_st i_ctr i_held i_qids i_xids i_given].

Lemma iinv_alloc c0 s i s1 : IInv c0 s -> i_alloc s i = Some s1 -> IInv c0 s1.
Proof.
  intros I H. unfold i_alloc in H. destruct (held_of i (i_held s)) eqn:EH; [discriminate|].
  destruct (next_cid (i_st s) i) as [c|] eqn:EN; [|discriminate]. inv H. constructor; iproj.
  - apply (ii_len _ _ I).
  - intros c1 id H. apply in_or_app. left. apply (ii_q _ _ I). exact H.
  - intros j id H. apply in_app_or in H. destruct H as [H|[H|[]]].
    + destruct (ii_held _ _ I _ _ H) as [c1 [E1 G1]]. exists c1. split; [exact E1|].
      apply in_or_app. left. exact G1.
    + inv H. exists c. split; [exact EN|]. apply in_or_app. right. left. reflexivity.
  - apply (ii_x _ _ I).
  - intros c1 id H. apply in_or_app. left. apply (ii_xg _ _ I). exact H.
  - rewrite map_app, app_length. cbn [map snd length]. rewrite Nat.add_1_r, alloc_ids_snoc.
    rewrite <- (ii_ids _ _ I), <- (ii_ctr _ _ I). reflexivity.
  - rewrite map_app. cbn [map snd]. rewrite last_last. reflexivity.
Qed.

Lemma iinv_send c0 s i id st' :
  IInv c0 s -> held_of i (i_held s) = Some id -> tstep (i_st s) (TPost i) = Some st' ->
  IInv c0 (mkI st' (i_ctr s) (unhold i (i_held s))
               (if stopped (i_st s) then i_qids s else i_qids s ++ [id]) (i_xids s) (i_given s)).
Proof.
  intros I EH ET. destruct (tstep_post_shape _ _ _ ET) as [n [k [r [HP [EP [EX EQ]]]]]].
  apply held_of_In in EH. destruct (ii_held _ _ I _ _ EH) as [c [EN G]].
  assert (EC : c = (i, n)). { unfold next_cid in EN. rewrite HP in EN. inv EN. reflexivity. }
  subst c.
  assert (HO : forall j v, In (j, v) (unhold i (i_held s)) ->
               exists c, next_cid st' j = Some c /\ In (c, v) (i_given s)).
  { intros j v H. unfold unhold in H. apply filter_In in H. destruct H as [H NE]. cbn [fst] in NE.
    apply negb_true_iff, Nat.eqb_neq in NE. destruct (ii_held _ _ I _ _ H) as [c [E1 G1]].
    exists c. split; [|exact G1]. unfold next_cid in *. rewrite EP.
    rewrite nth_error_set_nth_other by congruence. exact E1. }
  constructor; iproj.
  - rewrite EQ. destruct (stopped (i_st s)); [apply (ii_len _ _ I)|].
    rewrite !app_length, (ii_len _ _ I). reflexivity.
  - rewrite EQ. destruct (stopped (i_st s)); [apply (ii_q _ _ I)|].
    intros c1 v H. rewrite map_app, combine_app in H by (rewrite map_length; symmetry; apply (ii_len _ _ I)).
    apply in_app_or in H. destruct H as [H|[H|[]]]; [apply (ii_q _ _ I); exact H|].
    cbn [fst] in H. inv H. exact G.
  - exact HO.
  - unfold exec_ids. rewrite EX. apply (ii_x _ _ I).
  - apply (ii_xg _ _ I).
  - apply (ii_ids _ _ I).
  - apply (ii_ctr _ _ I).
Qed.

Lemma iinv_keep c0 s st' :
  IInv c0 s -> queue st' = queue (i_st s) -> executed st' = executed (i_st s) ->
  posters st' = posters (i_st s) ->
  IInv c0 (mkI st' (i_ctr s) (i_held s) (i_qids s) (i_xids s) (i_given s)).
Proof.
  intros I EQ EX EP. constructor; iproj.
  - rewrite EQ. apply (ii_len _ _ I).
  - rewrite EQ. apply (ii_q _ _ I).
  - intros i id H. rewrite (next_cid_posters _ _ i EP). apply (ii_held _ _ I). exact H.
  - unfold exec_ids. rewrite EX. apply (ii_x _ _ I).
  - apply (ii_xg _ _ I).
  - apply (ii_ids _ _ I).
  - apply (ii_ctr _ _ I).
Qed.

Lemma iinv_step c0 s l s' : IInv c0 s -> istep s l = Some s' -> IInv c0 s'.
Proof.
  intros I H. destruct l as [i|t].
  - apply (iinv_alloc c0 s i); assumption.
  - destruct t as [i| | |]; cbn [istep] in H.
    + assert (I1 : IInv c0 (match i_alloc s i with Some s1 => s1 | None => s end)).
      { destruct (i_alloc s i) eqn:EA; [apply (iinv_alloc c0 s i); assumption | exact I]. }
      destruct (match i_alloc s i with Some s1 => s1 | None => s end) as [st1 ctr1 held1 q1 x1 g1] eqn:E1.
      cbn [i_held i_st i_ctr i_qids i_xids i_given] in H.
      destruct (held_of i held1) as [id|] eqn:EH; [|discriminate].
      destruct (tstep st1 (TPost i)) as [st'|] eqn:ET; inv H; [|exact I1].
      apply (iinv_send c0 (mkI st1 ctr1 held1 q1 x1 g1) i id st' I1 EH ET).
    + destruct (tstep (i_st s) TCons) as [st'|] eqn:ET; [|discriminate]. inv H.
      destruct (tstep_cons_shape _ _ ET) as [it [q' [EQ [EQ' [EX EP]]]]].
      pose proof (ii_len _ _ I) as L. rewrite EQ in L.
      destruct (i_qids s) as [|id ids] eqn:EI; [discriminate L|]. cbn [tl t_id].
      rewrite EQ. constructor; iproj.
      * rewrite EQ'. cbn in L. lia.
      * rewrite EQ'. intros c v H. apply (ii_q _ _ I). rewrite EQ, EI. cbn [map combine]. right. exact H.
      * intros j v H. rewrite (next_cid_posters _ _ j EP). apply (ii_held _ _ I). exact H.
      * unfold exec_ids. rewrite EX, !map_app. cbn [map fst]. f_equal. apply (ii_x _ _ I).
      * intros c v H. apply in_app_or in H. destruct H as [H|[H|[]]]; [apply (ii_xg _ _ I); exact H|].
        inv H. apply (ii_q _ _ I). rewrite EQ, EI. cbn [map combine]. left. reflexivity.
      * apply (ii_ids _ _ I).
      * apply (ii_ctr _ _ I).
    + destruct (tstep (i_st s) TStop) as [st'|] eqn:ET; [|discriminate]. inv H.
      cbn [tstep] in ET. destruct (stop_pending (i_st s)); [|discriminate]. inv ET.
      apply iinv_keep; [exact I | reflexivity | reflexivity | reflexivity].
    + destruct (tstep (i_st s) TExit) as [st'|] eqn:ET; [|discriminate]. inv H.
      cbn [tstep] in ET. destruct (stopped (i_st s) && alive (i_st s)); [|discriminate]. inv ET.
      apply iinv_keep; [exact I | reflexivity | reflexivity | reflexivity].
Qed.

Lemma iinv_run c0 : forall ls s, IInv c0 s -> IInv c0 (irun s ls).
Proof.
  induction ls as [|l ls IH]; intros s I; [exact I|].
  unfold irun. cbn [fold_left]. apply IH. unfold istep_or_stay.
  destruct (istep s l) eqn:E; [apply (iinv_step c0 s l); assumption | exact I].
Qed.

Lemma id_independent_holds progs ws c0 ls : id_independent progs ws c0 ls.
Proof.
  pose proof (iinv_run c0 ls _ (iinv_init progs ws c0)) as I. unfold id_independent.
  split; [apply id_blind|]. split; [apply id_reachable|].
  split; [apply (ii_x _ _ I)|]. split; [apply (ii_xg _ _ I) | apply (ii_len _ _ I)].
Qed.

Lemma ids_wrap_holds progs ws c0 ls : ids_wrap progs ws c0 ls.
Proof.
  pose proof (iinv_run c0 ls _ (iinv_init progs ws c0)) as I. unfold ids_wrap.
  assert (E : map snd (i_given (irun (iinit progs ws c0) ls))
              = map (fun k => wrap32 (c0 + Z.of_nat k)) (seq 1 (length (i_given (irun (iinit progs ws c0) ls))))).
  { rewrite <- alloc_ids_closed. apply (ii_ids _ _ I). }
  split; [exact E|]. split; [|apply (ii_ctr _ _ I)].
  intros c id H. apply (in_map snd) in H. cbn [snd] in H. rewrite E in H.
  apply in_map_iff in H. destruct H as [k [EK _]]. subst id. apply wrap32_range.
Qed.

(* ------------------------------------------------------------------ Part 2s *)
(* Shared task lists: a chain leaves the list it was given as it found it, so any number of
   chains over one list - in any interleaving - are each a run of the single-chain machine
   over the list as the caller defined it. *)

Lemma set_nth_same {A} (d : A) : forall (mem : list A) l, set_nth l (nth l mem d) mem = mem.
Proof.
  induction mem as [|y r IH]; intro l; [destruct l; reflexivity|].
  destruct l as [|l]; cbn; [reflexivity | rewrite IH; reflexivity].
Qed.

Lemma cstep_mem_frame mem s l m' s' : cstep_mem mem s l = Some (m', s') -> m' = mem /\ cstep mem s l = Some s'.
Proof.
  unfold cstep_mem. destruct (cstep mem s l); [|discriminate]. intro H. inv H. split; reflexivity.
Qed.

Lemma shstep_frame s l s' : shstep s l = Some s' -> sh_mem s' = sh_mem s.
Proof.
  destruct l as [l|c lab]; cbn [shstep]; [intro H; inv H; reflexivity|].
  destruct (nth_error (sh_chains s) c) as [[l cs]|]; [|discriminate].
  destruct (cstep_mem (nth l (sh_mem s) []) cs lab) as [[m' cs']|] eqn:E; [|discriminate].
  intro H. inv H. cbn [sh_mem]. destruct (cstep_mem_frame _ _ _ _ _ E) as [EM _]. subst m'.
  apply set_nth_same.
Qed.

Lemma shrun_snoc mem ls l : shrun mem (ls ++ [l]) = shstep_or_stay (shrun mem ls) l.
Proof. unfold shrun. rewrite fold_left_app. reflexivity. Qed.

Lemma chain_frame mem ls : sh_mem (shrun mem ls) = mem.
Proof.
  induction ls as [|l ls IH] using rev_ind; [reflexivity|].
  rewrite shrun_snoc. unfold shstep_or_stay.
  destruct (shstep (shrun mem ls) l) eqn:E; [|exact IH].
  rewrite (shstep_frame _ _ _ E). exact IH.
Qed.

Lemma Forall_set_nth {A} (P : A -> Prop) x : forall l i, Forall P l -> P x -> Forall P (set_nth i x l).
Proof.
  induction l as [|y l IH]; intros i F HX; [destruct i; constructor|].
  inv F. destruct i as [|i]; cbn; constructor; try assumption. apply IH; assumption.
Qed.

Lemma shared_chains_inv mem ls :
  Forall (fun lc => creachable (nth (fst lc) mem []) (snd lc)) (sh_chains (shrun mem ls)).
Proof.
  induction ls as [|l ls IH] using rev_ind; [constructor|].
  rewrite shrun_snoc. unfold shstep_or_stay.
  destruct (shstep (shrun mem ls) l) as [s'|] eqn:E; [|exact IH].
  pose proof (chain_frame mem ls) as EM.
  destruct l as [l|c lab]; cbn [shstep] in E.
  - inv E. cbn [sh_chains]. apply Forall_app. split; [exact IH|].
    constructor; [|constructor]. cbn [fst snd]. exists []. reflexivity.
  - destruct (nth_error (sh_chains (shrun mem ls)) c) as [[l cs]|] eqn:EN; [|discriminate].
    destruct (cstep_mem (nth l (sh_mem (shrun mem ls)) []) cs lab) as [[m' cs']|] eqn:EC; [|discriminate].
    inv E. cbn [sh_chains]. apply Forall_set_nth; [exact IH|]. cbn [fst snd].
    destruct (cstep_mem_frame _ _ _ _ _ EC) as [_ ES]. rewrite EM in ES.
    rewrite Forall_forall in IH. specialize (IH _ (nth_error_In _ _ EN)). cbn [fst snd] in IH.
    destruct IH as [ls0 E0]. exists (ls0 ++ [lab]). rewrite crun_snoc. unfold cstep_or_stay.
    rewrite <- E0, ES. reflexivity.
Qed.

Lemma shared_chains mem ls c l cs :
  nth_error (sh_chains (shrun mem ls)) c = Some (l, cs) ->
  creachable (nth l mem []) cs.
Proof.
  intro H. pose proof (shared_chains_inv mem ls) as F. rewrite Forall_forall in F.
  apply (F _ (nth_error_In _ _ H)).
Qed.

Lemma shared_chains_spec mem ls c l cs :
  nth_error (sh_chains (shrun mem ls)) c = Some (l, cs) -> shared_chain_ok (nth l mem []) cs.
Proof.
  intro H. pose proof (shared_chains mem ls c l cs H) as R. unfold shared_chain_ok.
  split; [exact R|]. split; [apply chain_spec_holds; exact R|].
  split; [apply final_at_most_once; exact R | apply final_exactly_once; exact R].
Qed.

Lemma any_counter progs ws c0 ls :
  let s := i_st (irun (iinit progs ws c0) ls) in
  exactly_once_safe progs s /\ exactly_once_quiescent progs s /\ stopped_quiescent s /\ per_poster_fifo progs s /\ panic_isolated s.
Proof.
  pose proof (id_reachable progs ws c0 ls) as R. cbv zeta.
  split; [apply (exactly_once_safe_holds _ _ _ R)|]. split; [apply (exactly_once_quiescent_holds _ _ _ R)|].
  split; [apply (stopped_quiescent_holds _ _ _ R)|]. split; [apply (per_poster_fifo_holds _ _ _ R) | apply (panic_isolated_holds _ _ _ R)].
Qed.

(* ------------------------------------------------------------------ panic values *)
(* [tstep] commutes with forgetting what closures panic with: the recover handler of doTask
   treats every value alike. *)

Lemma set_nth_map {A B} (f : A -> B) x : forall l i, set_nth i (f x) (map f l) = map f (set_nth i x l).
Proof.
  induction l as [|y l IH]; intro i; [destruct i; reflexivity|].
  destruct i as [|i]; cbn; [reflexivity | rewrite IH; reflexivity].
Qed.

Lemma tstep_erase s t : tstep (st_erase s) t = option_map st_erase (tstep s t).
Proof.
  destruct t as [i| | |]; cbn [tstep st_erase queue stopped stop_pending alive posters executed accepted rejected escaped].
  - rewrite nth_error_map. destruct (nth_error (posters s) i) as [[n [|k r]]|]; try reflexivity.
    cbn [option_map poster_erase p_next p_rest map]. unfold post, chan_send. rewrite map_length.
    destruct (stopped s).
    + cbn [option_map]. unfold st_erase. sproj.
      rewrite <- (set_nth_map poster_erase (mkP (S n) r)). reflexivity.
    + destruct (Nat.ltb (length (queue s)) cap); [|reflexivity].
      cbn [option_map]. unfold st_erase. sproj.
      rewrite <- (set_nth_map poster_erase (mkP (S n) r)), map_app. reflexivity.
  - destruct (alive s); [|reflexivity]. destruct (queue s) as [|it q']; [reflexivity|].
    cbn [map item_erase snd]. rewrite !do_task_ok. cbn [option_map]. unfold st_erase. sproj.
    rewrite map_app. reflexivity.
  - destruct (stop_pending s); reflexivity.
  - destruct (stopped s && alive s); reflexivity.
Qed.

Lemma run_sched_erase : forall sched s, st_erase (run_sched s sched) = run_sched (st_erase s) sched.
Proof.
  induction sched as [|t r IH]; intro s; [reflexivity|].
  unfold run_sched. cbn [fold_left]. fold (run_sched (step_or_stay s t) r).
  fold (run_sched (step_or_stay (st_erase s) t) r). rewrite IH. f_equal.
  unfold step_or_stay. rewrite tstep_erase. destruct (tstep s t); reflexivity.
Qed.

Lemma init_erase progs ws : st_erase (init progs ws) = init (map (map kerase) progs) ws.
Proof. unfold st_erase, init. sproj. cbn [map]. rewrite !map_map. reflexivity. Qed.

Lemma erase_ids s : exec_ids (st_erase s) = exec_ids s /\ queue_ids (st_erase s) = queue_ids s.
Proof.
  unfold exec_ids, queue_ids, st_erase. sproj. rewrite !map_map. split; apply map_ext; reflexivity.
Qed.

Lemma tstep_none_erase s t : tstep s t = None <-> tstep (st_erase s) t = None.
Proof. rewrite tstep_erase. destruct (tstep s t); cbn; split; congruence. Qed.

Lemma panic_value_frame_holds progs progs' ws sched :
  same_shape progs progs' -> panic_value_frame progs progs' ws sched.
Proof.
  intro H. unfold panic_value_frame. cbv zeta.
  assert (E : st_erase (run_sched (init progs ws) sched) = st_erase (run_sched (init progs' ws) sched)).
  { rewrite !run_sched_erase, !init_erase. unfold same_shape in H. rewrite H. reflexivity. }
  split; [exact E|].
  destruct (erase_ids (run_sched (init progs ws) sched)) as [X1 Q1].
  destruct (erase_ids (run_sched (init progs' ws) sched)) as [X2 Q2].
  split; [rewrite <- X1, <- X2, E; reflexivity|]. split; [rewrite <- Q1, <- Q2, E; reflexivity|].
  split; [exact (f_equal accepted E)|]. split; [exact (f_equal rejected E)|].
  split; [exact (f_equal alive E)|]. split; [exact (f_equal stopped E)|]. split; [exact (f_equal escaped E)|].
  intro t. rewrite (tstep_none_erase (run_sched (init progs ws) sched)), (tstep_none_erase (run_sched (init progs' ws) sched)), E.
  reflexivity.
Qed.

(* ------------------------------------------------------------------ teardown *)

Lemma dead_stays_dead s t s' : alive s = false -> tstep s t = Some s' -> executed s' = executed s /\ alive s' = false.
Proof.
  intros A H. destruct t as [i| | |]; cbn [tstep] in H.
  - destruct (nth_error (posters s) i) as [[n [|k r]]|]; try discriminate.
    destruct (post (queue s) (stopped s) (i, n, k)) as [[| | |] q']; inv H; sproj; split; (reflexivity || exact A).
  - rewrite A in H. discriminate.
  - destruct (stop_pending s); [|discriminate]. inv H. sproj. split; [reflexivity | exact A].
  - rewrite A, andb_false_r in H. discriminate.
Qed.

Lemma dead_run : forall sched s, alive s = false ->
  executed (run_sched s sched) = executed s /\ alive (run_sched s sched) = false.
Proof.
  induction sched as [|t r IH]; intros s A; [split; [reflexivity | exact A]|].
  unfold run_sched. cbn [fold_left]. fold (run_sched (step_or_stay s t) r). unfold step_or_stay.
  destruct (tstep s t) as [s'|] eqn:E; [|apply IH; exact A].
  destruct (dead_stays_dead _ _ _ A E) as [EX A']. destruct (IH s' A') as [E1 E2].
  split; [rewrite E1; exact EX | exact E2].
Qed.

Lemma only_consumer_executes_holds s : only_consumer_executes s.
Proof.
  split; [|intros A sched; apply dead_run; exact A].
  intros t s' H. destruct t as [i| | |]; cbn [tstep] in H.
  - destruct (nth_error (posters s) i) as [[n [|k r]]|]; try discriminate.
    destruct (post (queue s) (stopped s) (i, n, k)) as [[| | |] q']; inv H; reflexivity.
  - destruct (alive s); [|discriminate]. destruct (queue s) as [|it q'] eqn:EQ; [discriminate|].
    rewrite do_task_ok in H. inv H. exists it. sproj. split; reflexivity.
  - destruct (stop_pending s); [|discriminate]. inv H. reflexivity.
  - destruct (stopped s && alive s); [|discriminate]. inv H. reflexivity.
Qed.
