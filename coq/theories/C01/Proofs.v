(* C01 - proofs.
   Part 1: every model step is a chain of primitive transitions over configurations
           (in-flight id, state, trace so far); invariants are then checked per primitive.
   Part 2: the acceptor of Spec.v is sound for the trace clauses of the property.
   Part 3: clash-free model traces are accepted (simulation), wrap-around, timer, drain. *)
From Cell2V Require Import Common.Tac Common.ListX Common.AList C01.Model C01.Spec.

(* ------------------------------------------------------------------ small list facts *)

Lemma noclash_app a b : noclash (a ++ b) <-> noclash a /\ noclash b.
Proof.
  unfold noclash. split.
  - intro H. split; intros id sp I; apply (H id sp); apply in_or_app; auto.
  - intros [H1 H2] id sp I. apply in_app_or in I. destruct I as [I|I]; [eapply H1 | eapply H2]; eauto.
Qed.

Lemma noclash_nil : noclash [].
Proof. intros id sp I. inversion I. Qed.

Definition nomark (o : list ev) : Prop := forall e, In e o -> is_marker e = false.

Lemma nomark_app a b : nomark a -> nomark b -> nomark (a ++ b).
Proof. intros Ha Hb e I. apply in_app_or in I. destruct I; auto. Qed.

Definition lm_from (acc : option ev) (l : list ev) : option ev :=
  fold_left (fun acc e => if is_marker e then Some e else acc) l acc.

Lemma last_marker_app a b : last_marker (a ++ b) = lm_from (last_marker a) b.
Proof. unfold last_marker, lm_from. apply fold_left_app. Qed.

Lemma lm_from_nomark o : nomark o -> forall acc, lm_from acc o = acc.
Proof.
  induction o as [|e r IH]; intros H acc; [reflexivity|].
  unfold lm_from. simpl. rewrite (H e (or_introl eq_refl)). apply IH.
  intros x I. apply H. right. exact I.
Qed.

Lemma last_marker_nomark tr o : nomark o -> last_marker (tr ++ o) = last_marker tr.
Proof. intro H. rewrite last_marker_app. apply lm_from_nomark. exact H. Qed.

Lemma dedup_spec l : forall seen,
  NoDup (dedup seen l) /\ (forall x, In x (dedup seen l) -> In x l /\ ~ In x seen).
Proof.
  induction l as [|x r IH]; intro seen; simpl.
  - split; [constructor | intros y []].
  - destruct (zmem x seen) eqn:E.
    + destruct (IH seen) as [N S]. split; [exact N|]. intros y I. destruct (S y I). auto.
    + destruct (IH (x :: seen)) as [N S]. split.
      * constructor; [|exact N]. intro I. destruct (S x I) as [_ K]. apply K. left. reflexivity.
      * intros y [<-|I].
        { split; [auto|]. intro K. apply zmem_In in K. congruence. }
        { destruct (S y I) as [I1 I2]. split; [auto|]. intro K. apply I2. right. exact K. }
Qed.

(* ------------------------------------------------------------------ induction over act *)

Section ActInd.
  Variable P : act -> Prop.
  Hypothesis HReq : forall p, Forall P p -> P (AReq p).
  Hypothesis HUnser : forall p, Forall P p -> P (AUnser p).
  Hypothesis HNotify : P ANotify.
  Hypothesis HNoRoute : forall p, Forall P p -> P (ANoRoute p).
  Hypothesis HNotifyNR : P ANotifyNR.

  Fixpoint act_ind' (a : act) : P a :=
    let fix go (l : list act) : Forall P l :=
      match l with
      | [] => Forall_nil P
      | x :: r => Forall_cons x (act_ind' x) (go r)
      end in
    match a with
    | AReq p => HReq p (go p)
    | AUnser p => HUnser p (go p)
    | ANotify => HNotify
    | ANoRoute p => HNoRoute p (go p)
    | ANotifyNR => HNotifyNR
    end.
End ActInd.

(* ---- keys, blocks, views *)

Definition has_block (M j : Z) (m : alist entry) : Prop :=
  exists k e, aget k m = Some e /\ inc_of M k = j.

Lemma inc_of_key M j i : 0 <= i <= M -> inc_of M (key M j i) = j.
Proof.
  intro H. unfold inc_of, key, Span. rewrite Z.div_add_l by lia.
  rewrite Z.div_small by lia. lia.
Qed.

Lemma key_pos M j i : 1 <= M -> 0 <= j -> 1 <= i -> 1 <= key M j i.
Proof. intros HM Hj Hi. unfold key, Span. nia. Qed.

Lemma block_nil_iff M j (m : alist entry) :
  sorted m -> (block M j m = [] <-> ~ has_block M j m).
Proof.
  intro S. unfold block. split.
  - intros E (k & e & G & I). apply aget_in in G.
    assert (In (k, e) (filter (fun kv => inc_of M (fst kv) =? j) m)).
    { apply filter_In. split; [exact G|]. cbn [fst]. lia. }
    rewrite E in H. inversion H.
  - intro N. destruct (filter (fun kv => inc_of M (fst kv) =? j) m) as [|[k e] r] eqn:F; [reflexivity|].
    exfalso. apply N. assert (I : In (k, e) (filter (fun kv => inc_of M (fst kv) =? j) m)) by (rewrite F; left; reflexivity).
    apply filter_In in I. destruct I as [I E]. cbn [fst] in E.
    exists k, e. split; [apply in_aget; assumption | lia].
Qed.

Lemma view_focus s j j' : view (focus s j) j' = view s j'.
Proof.
  unfold focus, park.
  destruct (Z.eq_dec j (foc s)) as [->|Nj].
  - rewrite aget_aset_same. unfold view; cbn [foc next armed nalloc rest].
    destruct (Z.eqb_spec j' (foc s)) as [->|N]; [reflexivity|].
    rewrite aget_aset_other by exact N. reflexivity.
  - rewrite aget_aset_other by exact Nj.
    assert (V : view s j = match aget j (rest s) with Some p => p | None => (0, false, 0) end).
    { unfold view. destruct (Z.eqb_spec j (foc s)); [contradiction | reflexivity]. }
    destruct (aget j (rest s)) as [[[n a] c]|] eqn:G; unfold view at 1; cbn [foc next armed nalloc rest].
    + destruct (Z.eqb_spec j' j) as [->|N]; [symmetry; exact V|].
      unfold view. destruct (Z.eqb_spec j' (foc s)) as [->|N2].
      * rewrite aget_aset_same. reflexivity.
      * rewrite aget_aset_other by exact N2. reflexivity.
    + destruct (Z.eqb_spec j' j) as [->|N]; [symmetry; exact V|].
      unfold view. destruct (Z.eqb_spec j' (foc s)) as [->|N2].
      * rewrite aget_aset_same. reflexivity.
      * rewrite aget_aset_other by exact N2. reflexivity.
Qed.

Lemma focus_frame s j :
  pending (focus s j) = pending s /\ clock (focus s j) = clock s /\ ntags (focus s j) = ntags s /\
  cur (focus s j) = cur s /\ foc (focus s j) = j.
Proof. unfold focus. destruct (aget j (park s)) as [[[n a] c]|]; cbn; auto. Qed.

Lemma view_foc s : view s (foc s) = (next s, armed s, nalloc s).
Proof. unfold view. rewrite Z.eqb_refl. reflexivity. Qed.

(* a change of the focused incarnation's own values leaves the other views alone *)
Lemma view_other s s' j :
  foc s' = foc s -> rest s' = rest s -> j <> foc s -> view s' j = view s j.
Proof.
  intros F R N. unfold view. rewrite F, R. destruct (Z.eqb_spec j (foc s)); [contradiction | reflexivity].
Qed.

(* ------------------------------------------------------------------ configurations *)

Definition cfg := (option Z * st * list ev)%type.
Definition cf (c : cfg) : option Z := fst (fst c).
Definition cs (c : cfg) : st := snd (fst c).
Definition ct (c : cfg) : list ev := snd c.

Section Prims.
  Variable M : Z.

  (* what user code can do, also from inside a callback *)
  Inductive iprim : cfg -> cfg -> Prop :=
  | IReg f s tr u p :
      iprim (f, s, tr) (f, fst (register M s u p), tr ++ snd (register M s u p))
  | INotify f s tr : iprim (f, s, tr) (f, s, tr ++ [ESent 0 (-1)])
  | INoRoute f s tr :
      iprim (f, s, tr)
            (f, set_ntags s (ntags s + 1), tr ++ [ENoRoute (ntags s); ECb (ntags s) RNoService]).

  Inductive prim : cfg -> cfg -> Prop :=
  | PInner c c' : iprim c c' -> prim c c'
  | PMark s tr m : m = EDo \/ m = EIdle -> prim (None, s, tr) (None, s, tr ++ [m])
  | PDrop s tr id k :
      aget id (pending s) = None -> prim (None, s, tr) (None, s, tr ++ [EResp id k; EDrop id])
  | PRespBegin s tr id k e :
      aget id (pending s) = Some e ->
      prim (None, s, tr) (Some id, s, tr ++ [EResp id k; ECb (e_tag e) (cls_of k)])
  | PTickOff s tr :
      armed s = true -> block M (foc s) (pending s) = [] ->
      prim (None, s, tr) (None, set_armed s false, tr ++ [ETick (clock s)])
  | PTickOn s tr :
      armed s = true -> block M (foc s) (pending s) <> [] ->
      prim (None, s, tr) (None, s, tr ++ [ETick (clock s)])
  | PTimeout s tr id e :
      aget id (pending s) = Some e -> (noclash tr -> e_dl e < clock s) ->
      last_marker tr = Some (ETick (clock s)) ->
      prim (None, s, tr) (Some id, s, tr ++ [ECb (e_tag e) RTimeout])
  | PEnd s tr id : prim (Some id, s, tr) (None, set_pending s (adel id (pending s)), tr)
  | PClock s tr dt : 0 <= dt -> prim (None, s, tr) (None, set_clock s (clock s + dt), tr)
  | PSetNext s tr v :
      0 <= v <= M -> pending s = [] -> prim (None, s, tr) (None, set_next s v, tr)
  | PFocus s tr j : 0 <= j -> prim (None, s, tr) (None, focus s j, tr)
  | PCrash s tr : prim (None, s, tr) (None, set_cur s (cur s + 1), tr ++ [ECrash]).

  Inductive istar : cfg -> cfg -> Prop :=
  | istar_refl c : istar c c
  | istar_step c1 c2 c3 : iprim c1 c2 -> istar c2 c3 -> istar c1 c3.

  Inductive star : cfg -> cfg -> Prop :=
  | star_refl c : star c c
  | star_step c1 c2 c3 : prim c1 c2 -> star c2 c3 -> star c1 c3.

  Lemma istar_trans c1 c2 c3 : istar c1 c2 -> istar c2 c3 -> istar c1 c3.
  Proof.
    induction 1 as [c|a b c Hab _ IH]; intro H2; [exact H2|].
    eapply istar_step; [exact Hab | apply IH; exact H2].
  Qed.

  Lemma star_trans c1 c2 c3 : star c1 c2 -> star c2 c3 -> star c1 c3.
  Proof.
    induction 1 as [c|a b c Hab _ IH]; intro H2; [exact H2|].
    eapply star_step; [exact Hab | apply IH; exact H2].
  Qed.

  Lemma star_one c1 c2 : prim c1 c2 -> star c1 c2.
  Proof. intro H. econstructor; [exact H | constructor]. Qed.

  Lemma istar_star c1 c2 : istar c1 c2 -> star c1 c2.
  Proof. induction 1; [constructor | econstructor; [apply PInner; eassumption | assumption]]. Qed.

  (* ---- exec / exec_prog are chains of inner primitives *)

  Definition exec_chain (a : act) : Prop :=
    forall f s tr, istar (f, s, tr) (f, fst (exec M a s), tr ++ snd (exec M a s)).

  Lemma exec_prog_chain p : Forall exec_chain p ->
    forall f s tr, istar (f, s, tr) (f, fst (exec_prog M p s), tr ++ snd (exec_prog M p s)).
  Proof.
    induction 1 as [|a r Ha _ IH]; intros f s tr; simpl.
    - rewrite app_nil_r. constructor.
    - rewrite app_assoc. eapply istar_trans; [apply Ha | apply IH].
  Qed.

  Lemma exec_noroute p s :
    exec M (ANoRoute p) s =
    (fst (exec_prog M p (set_ntags s (ntags s + 1))),
     ENoRoute (ntags s) :: ECb (ntags s) RNoService :: snd (exec_prog M p (set_ntags s (ntags s + 1)))).
  Proof. reflexivity. Qed.

  Lemma exec_is_chain a : exec_chain a.
  Proof.
    induction a as [p _|p _| |p IH|] using act_ind'; intros f s tr.
    - change (exec M (AReq p) s) with (register M s false p).
      eapply istar_step; [apply IReg | apply istar_refl].
    - change (exec M (AUnser p) s) with (register M s true p).
      eapply istar_step; [apply IReg | apply istar_refl].
    - change (exec M ANotify s) with (s, [ESent 0 (-1)]). cbn [fst snd].
      eapply istar_step; [apply INotify | apply istar_refl].
    - rewrite exec_noroute. cbn [fst snd].
      eapply istar_step; [apply INoRoute|].
      change (ENoRoute (ntags s) :: ECb (ntags s) RNoService ::
              snd (exec_prog M p (set_ntags s (ntags s + 1))))
        with ([ENoRoute (ntags s); ECb (ntags s) RNoService] ++
              snd (exec_prog M p (set_ntags s (ntags s + 1)))).
      rewrite app_assoc. apply exec_prog_chain. exact IH.
    - change (exec M ANotifyNR s) with (s, @nil ev). cbn [fst snd]. rewrite app_nil_r. apply istar_refl.
  Qed.

  Lemma exec_prog_istar p f s tr :
    istar (f, s, tr) (f, fst (exec_prog M p s), tr ++ snd (exec_prog M p s)).
  Proof. apply exec_prog_chain. apply Forall_forall. intros a _. apply exec_is_chain. Qed.

  (* ---- what a chain of inner primitives can and cannot do *)

  Definition ifacts (c c' : cfg) : Prop :=
    cf c' = cf c /\ clock (cs c') = clock (cs c) /\
    (forall id e', aget id (pending (cs c')) = Some e' ->
       aget id (pending (cs c)) = Some e' \/ e_dl e' = clock (cs c) + Timeout) /\
    exists o, ct c' = ct c ++ o /\ nomark o /\
      (noclash o -> forall id e, aget id (pending (cs c)) = Some e ->
                                 aget id (pending (cs c')) = Some e).

  Lemma iprim_facts c c' : iprim c c' -> ifacts c c'.
  Proof.
    destruct 1 as [f s tr u p|f s tr|f s tr]; unfold ifacts, cf, cs, ct; cbn [fst snd].
    - unfold register; cbn [fst snd pending clock].
      set (k := key M (foc s) (alloc_id M (next s))).
      split; [reflexivity|]. split; [reflexivity|]. split.
      + intros id e' H. destruct (Z.eq_dec id k) as [->|N].
        * rewrite aget_aset_same in H. inv H. right. reflexivity.
        * rewrite aget_aset_other in H by exact N. left. exact H.
      + eexists. split; [reflexivity|]. split.
        * intros e I. apply in_app_or in I. destruct I as [I|I].
          { destruct (aget k (pending s)); [|inversion I].
            destruct I as [<-|[]]. reflexivity. }
          { destruct I as [<-|I]; [reflexivity|]. destruct u; [inversion I|].
            destruct I as [<-|[]]. reflexivity. }
        * intros NC id e H. destruct (Z.eq_dec id k) as [->|N].
          { exfalso. rewrite H in NC. eapply NC. left. reflexivity. }
          { rewrite aget_aset_other by exact N. exact H. }
    - split; [reflexivity|]. split; [reflexivity|]. split; [auto|].
      eexists. split; [reflexivity|]. split; [|auto].
      intros e [<-|[]]. reflexivity.
    - cbn [pending clock set_ntags]. split; [reflexivity|]. split; [reflexivity|]. split; [auto|].
      eexists. split; [reflexivity|]. split; [|auto].
      intros e [<-|[<-|[]]]; reflexivity.
  Qed.

  Lemma istar_facts c c' : istar c c' -> ifacts c c'.
  Proof.
    induction 1 as [c|c1 c2 c3 H1 _ IH].
    - unfold ifacts. split; [reflexivity|]. split; [reflexivity|]. split; [auto|].
      exists []. rewrite app_nil_r. split; [reflexivity|]. split; [intros e []|auto].
    - apply iprim_facts in H1.
      destruct H1 as (F1 & C1 & N1 & o1 & T1 & M1 & K1).
      destruct IH as (F2 & C2 & N2 & o2 & T2 & M2 & K2).
      unfold ifacts. split; [congruence|]. split; [congruence|]. split.
      + intros id e' H. destruct (N2 id e' H) as [H2|H2].
        * apply N1. exact H2.
        * right. rewrite H2, C1. reflexivity.
      + exists (o1 ++ o2). split; [rewrite T2, T1, app_assoc; reflexivity|].
        split; [apply nomark_app; assumption|].
        intros NC id e H. apply noclash_app in NC. destruct NC as [NC1 NC2]. auto.
  Qed.

  (* ---- fire, handle_resp, fire_all, tick, step, run *)

  Lemma fire_resp_star s tr id k e :
    aget id (pending s) = Some e ->
    star (None, s, tr)
         (None, fst (fire M s id (cls_of k)), tr ++ EResp id k :: snd (fire M s id (cls_of k))).
  Proof.
    intro H. unfold fire. rewrite H. cbn [fst snd].
    eapply star_step; [apply (PRespBegin s tr id k e H)|].
    eapply star_trans; [apply istar_star, (exec_prog_istar (e_prog e))|].
    replace (tr ++ EResp id k :: ECb (e_tag e) (cls_of k) :: snd (exec_prog M (e_prog e) s))
      with ((tr ++ [EResp id k; ECb (e_tag e) (cls_of k)]) ++ snd (exec_prog M (e_prog e) s))
      by (rewrite <- app_assoc; reflexivity).
    apply star_one. apply PEnd.
  Qed.

  Lemma handle_resp_star s tr id k :
    star (None, s, tr) (None, fst (handle_resp M s id k), tr ++ snd (handle_resp M s id k)).
  Proof.
    unfold handle_resp. destruct (aget id (pending s)) as [e|] eqn:H; cbn [fst snd].
    - eapply fire_resp_star. exact H.
    - apply star_one. apply PDrop. exact H.
  Qed.

  Lemma fire_all_star ids : forall s tr,
    NoDup ids ->
    (forall id, In id ids -> noclash tr ->
                exists e, aget id (pending s) = Some e /\ e_dl e < clock s) ->
    last_marker tr = Some (ETick (clock s)) ->
    star (None, s, tr) (None, fst (fire_all M s ids), tr ++ snd (fire_all M s ids)).
  Proof.
    induction ids as [|id r IH]; intros s tr ND Hexp LM; cbn [fire_all fst snd].
    - rewrite app_nil_r. constructor.
    - inv ND. unfold fire at 1 2 3. destruct (aget id (pending s)) as [e|] eqn:H; cbn [fst snd].
      + pose proof (istar_facts _ _ (exec_prog_istar (e_prog e) (Some id) s
                                       (tr ++ [ECb (e_tag e) RTimeout]))) as F.
        destruct F as (_ & C1 & _ & o & T1 & M1 & K1). unfold cs, ct in *; cbn [fst snd] in *.
        apply app_inv_head in T1. subst o.
        eapply star_step.
        { apply (PTimeout s tr id e H); [|exact LM].
          intro NC. destruct (Hexp id (or_introl eq_refl) NC) as (e' & H' & D). congruence. }
        eapply star_trans; [apply istar_star, (exec_prog_istar (e_prog e))|].
        eapply star_step; [apply PEnd|].
        replace (tr ++ (ECb (e_tag e) RTimeout :: snd (exec_prog M (e_prog e) s)) ++
                 snd (fire_all M (set_pending (fst (exec_prog M (e_prog e) s))
                                    (adel id (pending (fst (exec_prog M (e_prog e) s))))) r))
          with (((tr ++ [ECb (e_tag e) RTimeout]) ++ snd (exec_prog M (e_prog e) s)) ++
                snd (fire_all M (set_pending (fst (exec_prog M (e_prog e) s))
                                   (adel id (pending (fst (exec_prog M (e_prog e) s))))) r))
          by (rewrite <- !app_assoc; reflexivity).
        apply IH; [assumption| |].
        * intros id' I NC. cbn [pending clock set_pending].
          apply noclash_app in NC. destruct NC as [NC NC2].
          apply noclash_app in NC. destruct NC as [NC NC1].
          destruct (Hexp id' (or_intror I) NC) as (e' & H' & D).
          exists e'. split; [|rewrite C1; exact D].
          rewrite aget_adel_other by (intro; subst; contradiction).
          apply K1; assumption.
        * cbn [clock set_pending]. rewrite C1.
          rewrite last_marker_nomark by exact M1.
          rewrite last_marker_nomark by (intros x [<-|[]]; reflexivity). exact LM.
      + apply IH; [assumption| |exact LM].
        intros id' I NC. apply Hexp; [right; exact I | exact NC].
  Qed.

  Lemma expired_in s id : In id (expired_ids M s) ->
    exists e, aget id (pending s) = Some e /\ e_dl e < clock s.
  Proof.
    unfold expired_ids. intro I. apply filter_In in I. destruct I as [_ E].
    unfold expired_b in E. apply andb_true_iff in E. destruct E as [_ E].
    destruct (aget id (pending s)) as [e|]; [|discriminate].
    exists e. split; [reflexivity | lia].
  Qed.

  Lemma order_spec h s :
    NoDup (order M h s) /\ forall id, In id (order M h s) -> In id (expired_ids M s).
  Proof.
    unfold order. destruct (dedup_spec
      (flat_map (fun t => filter (fun id => tag_is s id t) (expired_ids M s)) h ++ expired_ids M s) [])
      as [N S].
    split; [exact N|]. intros id I. destruct (S id I) as [I1 _].
    apply in_app_or in I1. destruct I1 as [I1|I1]; [|exact I1].
    apply in_flat_map in I1. destruct I1 as (t & _ & I2). apply filter_In in I2. tauto.
  Qed.

  Lemma tick_star s tr h :
    star (None, s, tr) (None, fst (tick M s h), tr ++ snd (tick M s h)).
  Proof.
    unfold tick. destruct (armed s) eqn:A; cbn [fst snd].
    - unfold check_expired. destruct (block M (foc s) (pending s)) as [|x m] eqn:P; cbn [isnil fst snd].
      + apply star_one. apply PTickOff; assumption.
      + eapply star_step; [apply PTickOn; [exact A | rewrite P; discriminate]|].
        change (tr ++ ETick (clock s) :: snd (fire_all M s (order M h s)))
          with (tr ++ [ETick (clock s)] ++ snd (fire_all M s (order M h s))).
        rewrite app_assoc. destruct (order_spec h s) as [N S].
        apply fire_all_star; [exact N| |].
        * intros id I _. apply expired_in. apply S. exact I.
        * rewrite last_marker_app. reflexivity.
    - apply star_one. apply PMark. right. reflexivity.
  Qed.

  Lemma tick_all_star js : forall s tr h,
    Forall (fun j => 0 <= j) js ->
    star (None, s, tr) (None, fst (tick_all M s js h), tr ++ snd (tick_all M s js h)).
  Proof.
    induction js as [|j r IH]; intros s tr h F; cbn [tick_all fst snd].
    - rewrite app_nil_r. constructor.
    - inv F. eapply star_step; [apply (PFocus s tr j); assumption|].
      rewrite app_assoc. eapply star_trans; [apply tick_star | apply IH; assumption].
  Qed.

  Lemma incs_nonneg s : Forall (fun j => 0 <= j) (incs s).
  Proof. unfold incs. apply Forall_forall. intros j I. apply in_map_iff in I. destruct I as (n & <- & _). lia. Qed.

  (* what a primitive does to the incarnation counter *)
  Lemma prim_cur c c' : prim c c' -> 0 <= cur (cs c) -> 0 <= cur (cs c').
  Proof.
    intros P H.
    destruct P as [c c' P|s tr m Hm|s tr id k G|s tr id k e G|s tr Ar Pe|s tr Ar Pn|s tr id e G D LM
                   |s tr id|s tr dt Hd|s tr v Hv Pe|s tr j Hj|s tr]; unfold cs in *; cbn [fst snd] in *;
      try exact H.
    - destruct P; cbn [fst snd register cur set_ntags] in *; exact H.
    - destruct (focus_frame s j) as (_ & _ & _ & C & _). rewrite C. exact H.
    - cbn [set_cur cur]. lia.
  Qed.

  Lemma star_cur c c' : star c c' -> 0 <= cur (cs c) -> 0 <= cur (cs c').
  Proof. induction 1 as [c|a b c Hab _ IH]; intro H; [exact H | apply IH; eapply prim_cur; eassumption]. Qed.

  Lemma tick_all_cur js : forall s h, cur (fst (tick_all M s js h)) = cur s.
  Proof.
    assert (IS : forall c c', istar c c' -> cur (cs c') = cur (cs c)).
    { induction 1 as [c|c1 c2 c3 H1 _ IH2]; [reflexivity|]. rewrite IH2.
      destruct H1; unfold cs; cbn [fst snd register cur set_ntags]; reflexivity. }
    assert (FA : forall ids s0, cur (fst (fire_all M s0 ids)) = cur s0).
    { induction ids as [|i r IH]; intro s0; cbn [fire_all fst]; [reflexivity|]. rewrite IH.
      unfold fire. destruct (aget i (pending s0)) as [e|]; cbn [fst set_pending cur]; [|reflexivity].
      apply (IS _ _ (exec_prog_istar (e_prog e) None s0 [])). }
    induction js as [|j r IH]; intros s h; cbn [tick_all fst]; [reflexivity|].
    rewrite IH. destruct (focus_frame s j) as (_ & _ & _ & C & _). rewrite <- C.
    generalize (focus s j). intro s0. unfold tick. destruct (armed s0); [|reflexivity]. cbn [fst].
    unfold check_expired. destruct (isnil (block M (foc s0) (pending s0))); [reflexivity | apply FA].
  Qed.

  Lemma tick_op_star s tr h :
    0 <= cur s ->
    star (None, s, tr) (None, fst (tick_op M s h), tr ++ snd (tick_op M s h)).
  Proof.
    intro C. unfold tick_op. cbn [fst snd].
    eapply star_trans; [apply tick_all_star, incs_nonneg|]. apply star_one. apply PFocus. exact C.
  Qed.

  Lemma tick_op_cur s h : cur (fst (tick_op M s h)) = cur s.
  Proof.
    unfold tick_op. cbn [fst]. destruct (focus_frame (fst (tick_all M s (incs s) h)) (cur s)) as (_ & _ & _ & C & _).
    rewrite C. apply tick_all_cur.
  Qed.

  Lemma step_star s tr o :
    0 <= cur s ->
    star (None, s, tr) (None, fst (step M s o), tr ++ snd (step M s o)).
  Proof.
    intro HC. destruct o as [a|id k| |id|h|h|dt|v|v|u|]; cbn [step fst snd].
    - eapply star_step; [apply PMark; left; reflexivity|].
      change (tr ++ EDo :: snd (exec M a s)) with (tr ++ [EDo] ++ snd (exec M a s)).
      rewrite app_assoc. apply istar_star. apply exec_is_chain.
    - apply handle_resp_star.
    - apply star_one. apply PMark. right. reflexivity.
    - apply star_one. apply PMark. right. reflexivity.
    - apply tick_op_star. exact HC.
    - rewrite app_assoc. eapply star_trans; apply tick_op_star; [exact HC | rewrite tick_op_cur; exact HC].
    - eapply star_step; [apply PMark; right; reflexivity|].
      destruct (0 <=? dt) eqn:E; [|constructor].
      apply star_one. apply PClock. lia.
    - eapply star_step; [apply PMark; right; reflexivity|].
      destruct ((0 <=? v) && (v <=? M) && isnil (pending s)) eqn:E; [|constructor].
      apply star_one. apply andb_true_iff in E. destruct E as [E1 E2].
      apply PSetNext; [lia|]. destruct (pending s); [reflexivity | discriminate].
    - apply star_one. apply PMark. right. reflexivity.
    - apply star_one. apply PMark. right. reflexivity.
    - unfold crash. cbn [fst snd]. eapply star_step; [apply (PFocus s tr (cur s + 1)); lia|].
      replace (set_cur (focus s (cur s + 1)) (cur s + 1))
        with (set_cur (focus s (cur s + 1)) (cur (focus s (cur s + 1)) + 1)).
      + apply star_one. apply PCrash.
      + f_equal. unfold focus. destruct (aget (cur s + 1) (park s)) as [[[n a] c]|]; reflexivity.
  Qed.

  Lemma run_star ops : forall s tr,
    0 <= cur s ->
    star (None, s, tr) (None, fst (run_from M s ops), tr ++ concat (snd (run_from M s ops))).
  Proof.
    induction ops as [|o r IH]; intros s tr HC; cbn [run_from fst snd concat].
    - rewrite app_nil_r. constructor.
    - rewrite app_assoc. pose proof (step_star s tr o HC) as S1.
      eapply star_trans; [exact S1 | apply IH]. apply (star_cur _ _ S1). exact HC.
  Qed.

  (* the generic invariant rule *)
  Lemma star_inv (I : cfg -> Prop) :
    (forall c c', prim c c' -> I c -> I c') -> forall c c', star c c' -> I c -> I c'.
  Proof.
    intros HP c c' S. induction S as [c|a b c Hab _ IH]; intro Ha; [exact Ha|].
    apply IH. eapply HP; eassumption.
  Qed.

  Lemma run_inv (I : cfg -> Prop) :
    (forall c c', prim c c' -> I c -> I c') -> I (None, init, []) ->
    forall ops, I (None, final_g M ops, trace_g M ops).
  Proof.
    intros HP H0 ops. unfold final_g, trace_g.
    eapply star_inv; [exact HP | apply (run_star ops init []); cbn; lia | exact H0].
  Qed.
End Prims.

(* ================================================================== Part 2: the acceptor *)

Lemma snoc_split {A} (tr pre post : list A) (e x : A) :
  tr ++ [e] = pre ++ x :: post ->
  (post = [] /\ pre = tr /\ x = e) \/ (exists post', post = post' ++ [e] /\ tr = pre ++ x :: post').
Proof.
  revert tr. induction pre as [|p pre IH]; intros tr H.
  - destruct tr as [|a tr]; simpl in H.
    + inv H. left. auto.
    + inv H. right. exists tr. auto.
  - destruct tr as [|a tr]; simpl in H.
    + inv H. destruct pre; discriminate.
    + inv H. match goal with K : tr ++ [e] = _ |- _ => destruct (IH _ K) as [(-> & -> & ->)|(q & -> & ->)] end.
      * left. auto.
      * right. exists q. auto.
Qed.

Definition cb_inc (t : Z) (e : ev) : nat :=
  match e with ECb t' _ => if t =? t' then 1%nat else 0%nat | _ => 0%nat end.
Definition issue_inc (t : Z) (e : ev) : nat :=
  match e with EIssue t' _ _ => if t =? t' then 1%nat else 0%nat | _ => 0%nat end.

Lemma count_cb_app t a b : count_cb t (a ++ b) = (count_cb t a + count_cb t b)%nat.
Proof.
  induction a as [|e r IH]; [reflexivity|]. destruct e; simpl; try exact IH.
  destruct (t =? tag); rewrite IH; reflexivity.
Qed.

Lemma count_cb_snoc t tr e : count_cb t (tr ++ [e]) = (count_cb t tr + cb_inc t e)%nat.
Proof.
  rewrite count_cb_app. f_equal; destruct e; simpl; try reflexivity; destruct (t =? tag); reflexivity.
Qed.

Lemma count_issue_app t a b : count_issue t (a ++ b) = (count_issue t a + count_issue t b)%nat.
Proof.
  induction a as [|e r IH]; [reflexivity|]. destruct e; simpl; try exact IH.
  destruct (t =? tag); rewrite IH; reflexivity.
Qed.

Lemma count_issue_snoc t tr e : count_issue t (tr ++ [e]) = (count_issue t tr + issue_inc t e)%nat.
Proof.
  rewrite count_issue_app. f_equal; destruct e; simpl; try reflexivity; destruct (t =? tag); reflexivity.
Qed.

Lemma count_issue_in t id n tr : In (EIssue t id n) tr -> (0 < count_issue t tr)%nat.
Proof.
  induction tr as [|e r IH]; [intros []|]. intros [->|I].
  - simpl. rewrite Z.eqb_refl. lia.
  - specialize (IH I). destruct e; simpl; try exact IH. destruct (t =? tag); lia.
Qed.

Definition issue_d (e : ev) : Z := match e with EIssue _ _ _ => 1 | _ => 0 end.
Definition done_d (e : ev) : Z :=
  match e with ECb _ RNoService => 0 | ECb _ _ => 1 | _ => 0 end.

Lemma n_issue_app a b : n_issue (a ++ b) = n_issue a + n_issue b.
Proof. induction a as [|e r IH]; [reflexivity|]. destruct e; cbn [n_issue app]; lia. Qed.
Lemma n_done_app a b : n_done (a ++ b) = n_done a + n_done b.
Proof.
  induction a as [|e r IH]; [reflexivity|].
  destruct e; cbn [n_done app]; try lia;
    match goal with |- context [match ?c with _ => _ end] => destruct c end; lia.
Qed.
Lemma n_issue_snoc tr e : n_issue (tr ++ [e]) = n_issue tr + issue_d e.
Proof. rewrite n_issue_app. destruct e; cbn [n_issue issue_d]; lia. Qed.
Lemma n_done_snoc tr e : n_done (tr ++ [e]) = n_done tr + done_d e.
Proof.
  rewrite n_done_app.
  destruct e; cbn [n_done done_d]; try lia;
    match goal with |- context [match ?c with _ => _ end] => destruct c end; lia.
Qed.

Lemma last_marker_snoc tr e :
  last_marker (tr ++ [e]) = if is_marker e then Some e else last_marker tr.
Proof. rewrite last_marker_app. reflexivity. Qed.

Lemma matching_snoc tr e :
  matching tr -> (forall t c, e = ECb t c -> justified tr t c) -> matching (tr ++ [e]).
Proof.
  intros Hm He pre t c post E. apply snoc_split in E.
  destruct E as [(-> & -> & E)|(post' & -> & ->)].
  - apply He. symmetry. exact E.
  - eapply Hm. reflexivity.
Qed.

Lemma no_resp_snoc id y e : no_resp id y -> (forall k, e <> EResp id k) -> no_resp id (y ++ [e]).
Proof.
  intros H N k I. apply in_app_or in I. destruct I as [I|[I|[]]]; [eapply H; eauto | eapply N; eauto].
Qed.

Lemma no_resp_app id a b : no_resp id a -> no_resp id b -> no_resp id (a ++ b).
Proof. intros Ha Hb k I. apply in_app_or in I. destruct I; [eapply Ha | eapply Hb]; eauto. Qed.

(* alist length / keys *)
Lemma length_aset_fresh {V} k (v : V) m : aget k m = None -> length (aset k v m) = S (length m).
Proof.
  induction m as [|[k' v'] r IH]; simpl; intro H; [reflexivity|].
  destruct (Z.eqb_spec k k'); [discriminate|].
  destruct (Z.ltb_spec k k'); simpl; [reflexivity|].
  destruct (Z.eqb_spec k k'); [contradiction|]. simpl. rewrite IH by exact H. reflexivity.
Qed.

Lemma adel_absent {V} k (m : alist V) : lb k m -> adel k m = m.
Proof.
  induction m as [|[k' v'] r IH]; simpl; [reflexivity|]. intros [L1 L2].
  destruct (Z.eqb_spec k k'); [lia|]. rewrite IH; [reflexivity|exact L2].
Qed.

Lemma length_adel_present {V} k (v : V) m :
  sorted m -> aget k m = Some v -> S (length (adel k m)) = length m.
Proof.
  induction m as [|[k' v'] r IH]; simpl; [discriminate|]. intros [L S] H.
  destruct (Z.eqb_spec k k').
  - subst. rewrite adel_absent by exact L. reflexivity.
  - simpl. rewrite IH; auto.
Qed.

Lemma find_tag_spec t id n (m : alist (Z * Z)) :
  find_tag t m = Some (id, n) -> exists t', In (id, (t', n)) m /\ t' = t.
Proof.
  unfold find_tag. destruct (filter _ m) as [|[id' [t' n']] r] eqn:F; [discriminate|].
  intro H. inv H. assert (I : In (id, (t', n)) (filter (fun kv => fst (snd kv) =? t) m))
    by (rewrite F; left; reflexivity).
  apply filter_In in I. destruct I as [I E]. simpl in E. exists t'. split; [exact I | lia].
Qed.

Lemma find_tag_complete t id n (m : alist (Z * Z)) :
  In (id, (t, n)) m ->
  (forall id' n', In (id', (t, n')) m -> id' = id /\ n' = n) ->
  find_tag t m = Some (id, n).
Proof.
  intros I U. unfold find_tag.
  destruct (filter (fun kv => fst (snd kv) =? t) m) as [|[id' [t' n']] r] eqn:F.
  - assert (K : In (id, (t, n)) (filter (fun kv => fst (snd kv) =? t) m))
      by (apply filter_In; split; [exact I | simpl; lia]).
    rewrite F in K. inversion K.
  - assert (K : In (id', (t', n')) (filter (fun kv => fst (snd kv) =? t) m))
      by (rewrite F; left; reflexivity).
    apply filter_In in K. destruct K as [K E]. simpl in E. assert (t' = t) by lia. subst.
    destruct (U id' n' K) as [-> ->]. reflexivity.
Qed.

Definition mtail (a : ast) : list ev :=
  match a_mode a with MMustCb id k => [EResp id k] | _ => [] end.

Record AInv (a : ast) (tr : list ev) : Prop := {
  ai_sorted : sorted (a_open a);
  ai_open : forall id t n, aget id (a_open a) = Some (t, n) ->
      t < a_nt a /\ count_cb t tr = 0%nat /\ id <> 0 /\
      exists x y, tr = x ++ EIssue t id n :: y ++ mtail a /\ no_resp id y;
  ai_tags : forall id1 id2 t n1 n2,
      aget id1 (a_open a) = Some (t, n1) -> aget id2 (a_open a) = Some (t, n2) -> id1 = id2;
  ai_fresh : forall t, a_nt a <= t -> count_cb t tr = 0%nat /\ count_issue t tr = 0%nat;
  ai_once : at_most_once tr;
  ai_iuniq : issue_unique tr;
  ai_match : matching tr;
  ai_tick : forall now, a_tick a = Some now -> last_marker tr = Some (ETick now);
  ai_mode : match a_mode a with
            | MIdle => True
            | MMustCb id k => aget id (a_open a) <> None
            | MMayDrop id => (exists p k, tr = p ++ [EResp id k]) /\ aget id (a_open a) = None
            | MMustNS t => (exists p, tr = p ++ [ENoRoute t]) /\ count_cb t tr = 0%nat /\
                           count_issue t tr = 0%nat /\ t < a_nt a
            end;
  ai_count : Z.of_nat (length (a_open a)) = n_issue tr - n_done tr;
  ai_done : forall t id n, In (EIssue t id n) tr ->
      count_cb t tr = 1%nat \/ aget id (a_open a) = Some (t, n);
  ai_drops : drops_ok tr;
  ai_sent : sent_after_issue tr
}.

Lemma AInv_init : AInv a0 [].
Proof.
  constructor; cbn [a0 a_open a_nt a_tick a_mode].
  - exact I.
  - intros id t n H. discriminate.
  - intros id1 id2 t n1 n2 H. discriminate.
  - intros t _. split; reflexivity.
  - intro t. simpl. lia.
  - intro t. simpl. lia.
  - intros pre t c post E. destruct pre; discriminate.
  - intros now H. discriminate.
  - exact I.
  - reflexivity.
  - intros t id n [].
  - intros pre id post E. destruct pre; discriminate.
  - intros pre id t post E. destruct pre; discriminate.
Qed.

(* open_in, from the invariant *)
Lemma AInv_open_in a tr id :
  AInv a tr -> (open_in tr id <-> aget id (a_open a) <> None).
Proof.
  intro H. split.
  - intros (t & n & I & C). destruct (ai_done _ _ H t id n I) as [D|D]; [lia | congruence].
  - intro N. destruct (aget id (a_open a)) as [[t n]|] eqn:E; [|contradiction].
    destruct (ai_open _ _ H id t n E) as (_ & C & _ & x & y & T & _).
    exists t, n. split; [|exact C]. rewrite T. apply in_or_app. right. left. reflexivity.
Qed.

Lemma drops_snoc tr e :
  drops_ok tr ->
  (forall id, e = EDrop id -> exists p k, tr = p ++ [EResp id k] /\ ~ open_in p id) ->
  drops_ok (tr ++ [e]).
Proof.
  intros Hd He pre id post E. apply snoc_split in E.
  destruct E as [(-> & -> & E)|(post' & -> & ->)].
  - apply He. symmetry. exact E.
  - eapply Hd. reflexivity.
Qed.

Lemma sent_snoc tr e :
  sent_after_issue tr ->
  (forall id t, e = ESent id t -> id <> 0 -> exists n, In (EIssue t id n) tr) ->
  sent_after_issue (tr ++ [e]).
Proof.
  intros Hs He pre id t post E N. apply snoc_split in E.
  destruct E as [(-> & -> & E)|(post' & -> & ->)].
  - apply He; [symmetry; exact E | exact N].
  - eapply Hs; [reflexivity | exact N].
Qed.

Lemma in_snoc {A} (x e : A) tr : In x (tr ++ [e]) <-> In x tr \/ x = e.
Proof.
  split.
  - intro I. apply in_app_or in I. destruct I as [I|[I|[]]]; auto.
  - intros [I| ->]; apply in_or_app; [left; exact I | right; left; reflexivity].
Qed.

(* transitions that leave the open table alone *)
Lemma AInv_keep a a' tr e :
  AInv a tr -> mtail a = [] ->
  a_open a' = a_open a -> a_nt a <= a_nt a' ->
  (forall t, cb_inc t e = 0%nat) -> (forall t, issue_inc t e = 0%nat) ->
  (forall now, a_tick a' = Some now -> last_marker (tr ++ [e]) = Some (ETick now)) ->
  match a_mode a' with
  | MIdle => True
  | MMustCb id k => e = EResp id k /\ aget id (a_open a) <> None
  | MMayDrop id => (exists k, e = EResp id k) /\ aget id (a_open a) = None
  | MMustNS t => e = ENoRoute t /\ a_nt a <= t < a_nt a'
  end ->
  (forall id k, e = EResp id k -> a_mode a' = MMustCb id k \/ aget id (a_open a) = None) ->
  (forall id, e = EDrop id -> exists p k, tr = p ++ [EResp id k] /\ ~ open_in p id) ->
  (forall id t, e = ESent id t -> id <> 0 -> exists n, In (EIssue t id n) tr) ->
  AInv a' (tr ++ [e]).
Proof.
  intros H MT Ho Hn Hcb His Htk Hm Hr Hd Hs.
  assert (Hid : issue_d e = 0).
  { destruct e; try reflexivity. specialize (His tag). simpl in His. rewrite Z.eqb_refl in His. discriminate. }
  assert (Hdd : done_d e = 0).
  { destruct e; try reflexivity. specialize (Hcb tag). simpl in Hcb. rewrite Z.eqb_refl in Hcb. discriminate. }
  constructor.
  - rewrite Ho. apply (ai_sorted _ _ H).
  - intros id t n G. rewrite Ho in G.
    destruct (ai_open _ _ H id t n G) as (L & C & N0 & x & y & T & NR).
    split; [lia|]. split; [rewrite count_cb_snoc, Hcb; lia|]. split; [exact N0|].
    rewrite MT, app_nil_r in T.
    destruct (a_mode a') as [|id' k'|id'|t'] eqn:Em; unfold mtail; rewrite Em.
    + exists x, (y ++ [e]). split; [rewrite T, app_nil_r, <- app_assoc; reflexivity|].
      apply no_resp_snoc; [exact NR|]. intros k E. destruct (Hr id k E) as [K|K]; congruence.
    + destruct Hm as [-> _]. exists x, y. split; [rewrite T, <- app_assoc; reflexivity | exact NR].
    + exists x, (y ++ [e]). split; [rewrite T, app_nil_r, <- app_assoc; reflexivity|].
      apply no_resp_snoc; [exact NR|]. intros k E. destruct (Hr id k E) as [K|K]; congruence.
    + exists x, (y ++ [e]). split; [rewrite T, app_nil_r, <- app_assoc; reflexivity|].
      apply no_resp_snoc; [exact NR|]. intros k E. destruct (Hr id k E) as [K|K]; congruence.
  - rewrite Ho. apply (ai_tags _ _ H).
  - intros t L. destruct (ai_fresh _ _ H t) as [C1 C2]; [lia|].
    rewrite count_cb_snoc, count_issue_snoc, Hcb, His. lia.
  - intro t. rewrite count_cb_snoc, Hcb. pose proof (ai_once _ _ H t). lia.
  - intro t. rewrite count_issue_snoc, His. pose proof (ai_iuniq _ _ H t). lia.
  - apply matching_snoc; [apply (ai_match _ _ H)|]. intros t c E. subst e.
    specialize (Hcb t). simpl in Hcb. rewrite Z.eqb_refl in Hcb. discriminate.
  - exact Htk.
  - destruct (a_mode a') as [|id' k'|id'|t'].
    + exact I.
    + rewrite Ho. tauto.
    + destruct Hm as [[k ->] G]. rewrite Ho. split; [exists tr, k; reflexivity | exact G].
    + destruct Hm as [-> L]. split; [exists tr; reflexivity|].
      rewrite count_cb_snoc, count_issue_snoc. destruct (ai_fresh _ _ H t') as [C C2]; [lia|].
      rewrite C, C2. split; [reflexivity|]. split; [reflexivity | lia].
  - rewrite Ho, n_issue_snoc, n_done_snoc, Hid, Hdd. pose proof (ai_count _ _ H). lia.
  - intros t id n I. apply in_snoc in I. destruct I as [I|E].
    + rewrite Ho. destruct (ai_done _ _ H t id n I) as [D|D]; [left|right; exact D].
      rewrite count_cb_snoc, Hcb. lia.
    + subst e. specialize (His t). simpl in His. rewrite Z.eqb_refl in His. discriminate.
  - apply drops_snoc; [apply (ai_drops _ _ H) | exact Hd].
  - apply sent_snoc; [apply (ai_sent _ _ H) | exact Hs].
Qed.

Lemma AInv_issue a tr t id n :
  AInv a tr -> mtail a = [] -> t = a_nt a -> aget id (a_open a) = None -> id <> 0 ->
  AInv (mkA (aset id (t, n) (a_open a)) (a_nt a + 1) (a_tick a) MIdle) (tr ++ [EIssue t id n]).
Proof.
  intros H MT -> G N0. constructor; cbn [a_open a_nt a_tick a_mode].
  - apply sorted_aset. apply (ai_sorted _ _ H).
  - intros id' t' n' G'. unfold mtail; cbn [a_mode]. destruct (Z.eq_dec id' id) as [->|Ne].
    + rewrite aget_aset_same in G'. inv G'. split; [lia|].
      destruct (ai_fresh _ _ H (a_nt a)) as [C _]; [lia|].
      split; [rewrite count_cb_snoc, C; reflexivity|]. split; [exact N0|].
      exists tr, []. split; [reflexivity | intros k []].
    + rewrite aget_aset_other in G' by exact Ne.
      destruct (ai_open _ _ H id' t' n' G') as (L & C & N0' & x & y & T & NR).
      split; [lia|]. split; [rewrite count_cb_snoc, C; reflexivity|]. split; [exact N0'|].
      rewrite MT, app_nil_r in T. exists x, (y ++ [EIssue (a_nt a) id n]).
      split; [rewrite T, app_nil_r, <- app_assoc; reflexivity|].
      apply no_resp_snoc; [exact NR | intros k; discriminate].
  - intros id1 id2 t n1 n2 G1 G2.
    destruct (Z.eq_dec id1 id) as [->|N1]; destruct (Z.eq_dec id2 id) as [->|N2]; [reflexivity| | |].
    + rewrite aget_aset_same in G1. rewrite aget_aset_other in G2 by exact N2. inv G1.
      destruct (ai_open _ _ H id2 _ n2 G2) as (L & _). lia.
    + rewrite aget_aset_same in G2. rewrite aget_aset_other in G1 by exact N1. inv G2.
      destruct (ai_open _ _ H id1 _ n1 G1) as (L & _). lia.
    + rewrite aget_aset_other in G1 by exact N1. rewrite aget_aset_other in G2 by exact N2.
      eapply (ai_tags _ _ H); eassumption.
  - intros t L. destruct (ai_fresh _ _ H t) as [C1 C2]; [lia|].
    rewrite count_cb_snoc, count_issue_snoc, C1, C2. cbn [cb_inc issue_inc].
    destruct (Z.eqb_spec t (a_nt a)); [lia | split; reflexivity].
  - intro t. rewrite count_cb_snoc. cbn [cb_inc]. pose proof (ai_once _ _ H t). lia.
  - intro t. rewrite count_issue_snoc. cbn [issue_inc]. destruct (Z.eqb_spec t (a_nt a)) as [->|Ne].
    + destruct (ai_fresh _ _ H (a_nt a)) as [_ C]; [lia|]. rewrite C. lia.
    + pose proof (ai_iuniq _ _ H t). lia.
  - apply matching_snoc; [apply (ai_match _ _ H) | intros; discriminate].
  - intros now E. rewrite last_marker_snoc. cbn [is_marker]. apply (ai_tick _ _ H). exact E.
  - exact I.
  - rewrite length_aset_fresh by exact G. rewrite n_issue_snoc, n_done_snoc. cbn [issue_d done_d].
    pose proof (ai_count _ _ H). lia.
  - intros t' id' n' I. apply in_snoc in I. destruct I as [I|E].
    + destruct (ai_done _ _ H t' id' n' I) as [D|D].
      * left. rewrite count_cb_snoc, D. reflexivity.
      * right. rewrite aget_aset_other; [exact D | intro; subst; congruence].
    + inv E. right. apply aget_aset_same.
  - apply drops_snoc; [apply (ai_drops _ _ H) | intros; discriminate].
  - apply sent_snoc; [apply (ai_sent _ _ H) | intros; discriminate].
Qed.

Lemma AInv_close a tr t c id n :
  AInv a tr -> aget id (a_open a) = Some (t, n) -> c <> RNoService -> justified tr t c ->
  (forall id' k, In (EResp id' k) (mtail a) -> id' = id) ->
  AInv (mkA (adel id (a_open a)) (a_nt a) (a_tick a) MIdle) (tr ++ [ECb t c]).
Proof.
  intros H G Nns J Hmt.
  destruct (ai_open _ _ H id t n G) as (Lt & Ct & _).
  assert (Hdd : done_d (ECb t c) = 1) by (destruct c; try reflexivity; contradiction).
  constructor; cbn [a_open a_nt a_tick a_mode].
  - apply sorted_adel. apply (ai_sorted _ _ H).
  - intros id' t' n' G'. unfold mtail at 1; cbn [a_mode].
    destruct (Z.eq_dec id' id) as [->|Ne]; [rewrite aget_adel_same in G'; discriminate|].
    rewrite aget_adel_other in G' by exact Ne.
    destruct (ai_open _ _ H id' t' n' G') as (L & C & N0' & x & y & T & NR).
    split; [lia|]. split.
    { rewrite count_cb_snoc, C. cbn [cb_inc]. destruct (Z.eqb_spec t' t) as [->|]; [|reflexivity].
      exfalso. apply Ne. eapply (ai_tags _ _ H); eassumption. }
    split; [exact N0'|].
    exists x, (y ++ mtail a ++ [ECb t c]).
    split; [rewrite T, app_nil_r; repeat (rewrite <- app_assoc; cbn [app]); reflexivity|].
    apply no_resp_app; [exact NR|]. apply no_resp_app.
    + intros k I. apply Ne. eapply Hmt. exact I.
    + intros k [I|[]]. discriminate.
  - intros id1 id2 t0 n1 n2 G1 G2.
    destruct (Z.eq_dec id1 id) as [->|N1]; [rewrite aget_adel_same in G1; discriminate|].
    destruct (Z.eq_dec id2 id) as [->|N2]; [rewrite aget_adel_same in G2; discriminate|].
    rewrite aget_adel_other in G1 by exact N1. rewrite aget_adel_other in G2 by exact N2.
    eapply (ai_tags _ _ H); eassumption.
  - intros t0 L. destruct (ai_fresh _ _ H t0 L) as [C1 C2].
    rewrite count_cb_snoc, count_issue_snoc, C1, C2. cbn [cb_inc issue_inc].
    destruct (Z.eqb_spec t0 t); [lia | split; reflexivity].
  - intro t0. rewrite count_cb_snoc. cbn [cb_inc]. destruct (Z.eqb_spec t0 t) as [->|].
    + rewrite Ct. lia.
    + pose proof (ai_once _ _ H t0). lia.
  - intro t0. rewrite count_issue_snoc. cbn [issue_inc]. pose proof (ai_iuniq _ _ H t0). lia.
  - apply matching_snoc; [apply (ai_match _ _ H)|]. intros t0 c0 E. injection E as <- <-. exact J.
  - intros now E. rewrite last_marker_snoc. cbn [is_marker]. apply (ai_tick _ _ H). exact E.
  - exact I.
  - pose proof (length_adel_present id (t, n) (a_open a) (ai_sorted _ _ H) G) as Len.
    rewrite n_issue_snoc, n_done_snoc, Hdd. cbn [issue_d]. pose proof (ai_count _ _ H). lia.
  - intros t' id' n' I. apply in_snoc in I. destruct I as [I|E]; [|discriminate].
    destruct (ai_done _ _ H t' id' n' I) as [D|D].
    + left. rewrite count_cb_snoc, D. cbn [cb_inc]. destruct (Z.eqb_spec t' t) as [->|]; [lia | reflexivity].
    + destruct (Z.eq_dec id' id) as [->|Ne].
      * left. rewrite G in D. inv D. rewrite count_cb_snoc, Ct. cbn [cb_inc]. rewrite Z.eqb_refl. reflexivity.
      * right. rewrite aget_adel_other by exact Ne. exact D.
  - apply drops_snoc; [apply (ai_drops _ _ H) | intros; discriminate].
  - apply sent_snoc; [apply (ai_sent _ _ H) | intros; discriminate].
Qed.

Lemma AInv_ns a tr t :
  AInv a tr -> a_mode a = MMustNS t ->
  AInv (mkA (a_open a) (a_nt a) (a_tick a) MIdle) (tr ++ [ECb t RNoService]).
Proof.
  intros H Em. pose proof (ai_mode _ _ H) as Hm. rewrite Em in Hm.
  destruct Hm as ((p & Tp) & Ct & Cit & Lt).
  assert (MT : mtail a = []) by (unfold mtail; rewrite Em; reflexivity).
  assert (Hne : forall t' id n, In (EIssue t' id n) tr -> t' <> t).
  { intros t' id n I ->. apply count_issue_in in I. lia. }
  constructor; cbn [a_open a_nt a_tick a_mode].
  - apply (ai_sorted _ _ H).
  - intros id t' n G. unfold mtail at 1; cbn [a_mode].
    destruct (ai_open _ _ H id t' n G) as (L & C & N0 & x & y & T & NR).
    split; [exact L|]. split.
    { rewrite count_cb_snoc, C. cbn [cb_inc]. destruct (Z.eqb_spec t' t) as [->|]; [|reflexivity].
      exfalso. eapply Hne; [|reflexivity]. rewrite T. apply in_or_app. right. left. reflexivity. }
    split; [exact N0|]. rewrite MT, app_nil_r in T.
    exists x, (y ++ [ECb t RNoService]). split; [rewrite T, app_nil_r, <- app_assoc; reflexivity|].
    apply no_resp_snoc; [exact NR | intros; discriminate].
  - apply (ai_tags _ _ H).
  - intros t0 L. destruct (ai_fresh _ _ H t0 L) as [C1 C2].
    rewrite count_cb_snoc, count_issue_snoc, C1, C2. cbn [cb_inc issue_inc].
    destruct (Z.eqb_spec t0 t); [lia | split; reflexivity].
  - intro t0. rewrite count_cb_snoc. cbn [cb_inc]. destruct (Z.eqb_spec t0 t) as [->|].
    + rewrite Ct. lia.
    + pose proof (ai_once _ _ H t0). lia.
  - intro t0. rewrite count_issue_snoc. cbn [issue_inc]. pose proof (ai_iuniq _ _ H t0). lia.
  - apply matching_snoc; [apply (ai_match _ _ H)|]. intros t0 c0 E. injection E as <- <-. exists p. exact Tp.
  - intros now E. rewrite last_marker_snoc. cbn [is_marker]. apply (ai_tick _ _ H). exact E.
  - exact I.
  - rewrite n_issue_snoc, n_done_snoc. cbn [issue_d done_d]. pose proof (ai_count _ _ H). lia.
  - intros t' id' n' I. apply in_snoc in I. destruct I as [I|E]; [|discriminate].
    destruct (ai_done _ _ H t' id' n' I) as [D|D]; [left | right; exact D].
    rewrite count_cb_snoc, D. cbn [cb_inc].
    destruct (Z.eqb_spec t' t) as [->|]; [exfalso; eapply Hne; eauto | reflexivity].
  - apply drops_snoc; [apply (ai_drops _ _ H) | intros; discriminate].
  - apply sent_snoc; [apply (ai_sent _ _ H) | intros; discriminate].
Qed.

Lemma val_eqb_eq a b : val_eqb a b = true -> a = b.
Proof. destruct a, b; simpl; intro H; try discriminate; try reflexivity; f_equal; lia. Qed.

Lemma val_eqb_refl a : val_eqb a a = true.
Proof. destruct a; simpl; rewrite ?Z.eqb_refl; reflexivity. Qed.

Lemma cls_eqb_eq a b : cls_eqb a b = true -> a = b.
Proof.
  destruct a, b; simpl; intro H; try discriminate; try reflexivity.
  - f_equal. apply val_eqb_eq. exact H.
  - f_equal. lia.
  - f_equal. apply Bool.eqb_prop. exact H.
Qed.

Lemma cls_eqb_refl a : cls_eqb a a = true.
Proof.
  destruct a; simpl; try reflexivity;
    [apply val_eqb_refl | apply Z.eqb_refl | apply Bool.eqb_reflx].
Qed.

Lemma ty_eqb_refl t : ty_eqb t t = true.
Proof. destruct t; reflexivity. Qed.

Lemma body_eqb_refl b : body_eqb b b = true.
Proof. destruct b; simpl; rewrite ?Z.eqb_refl; reflexivity. Qed.

Lemma wire_eqb_refl w : wire_eqb w w = true.
Proof. destruct w; simpl. rewrite !Z.eqb_refl, ty_eqb_refl, body_eqb_refl. reflexivity. Qed.

Lemma pmsg_eqb_refl m : pmsg_eqb m m = true.
Proof. destruct m; simpl; rewrite ?Z.eqb_refl; reflexivity. Qed.

Lemma kind_eqb_refl k : kind_eqb k k = true.
Proof.
  destruct k; simpl; [rewrite !Z.eqb_refl, pmsg_eqb_refl; reflexivity | apply wire_eqb_refl].
Qed.

(* ---- the decoding, case by case *)

Lemma decode_body_shape t b :
  decode_body t b <> RTimeout /\ decode_body t b <> RNoService /\ decode_body t b <> ROther /\
  forall e, decode_body t b <> RErr e.
Proof. destruct t, b; simpl; repeat split; try intro; discriminate. Qed.

Lemma decode_shape w : decode w <> RTimeout /\ decode w <> RNoService /\ decode w <> ROther.
Proof.
  destruct w as [c e t b]. unfold decode. destruct (c =? 0).
  - destruct (decode_body_shape t b) as (A & B & C & _). auto.
  - repeat split; discriminate.
Qed.

Lemma decode_exact c e t b :
  (forall x, decode (Wire c e t b) = RErr x <-> c <> 0 /\ x = e) /\
  (decode (Wire c e t b) = RNil <-> c = 0 /\ t = TyNone) /\
  (forall v, decode (Wire c e t b) = RReply v <->
     c = 0 /\ ((t = TyHello /\ exists i s, b = BFields i s /\ v = VHello i s) \/
               (t = TyEmpty /\ b <> BJunk /\ v = VEmpty))) /\
  (forall p, decode (Wire c e t b) = RBad p <->
     c = 0 /\ ((p = false /\ t = TyUnknown) \/
               (p = true /\ b = BJunk /\ (t = TyHello \/ t = TyEmpty)))) /\
  decode (Wire c e t b) <> RTimeout /\ decode (Wire c e t b) <> RNoService /\
  decode (Wire c e t b) <> ROther.
Proof.
  split; [|split; [|split; [|split]]].
  - intro x. unfold decode. destruct (Z.eqb_spec c 0) as [->|N].
    + split; [|intros [H _]; contradiction].
      intro H. destruct (decode_body_shape t b) as (_ & _ & _ & D). exfalso. exact (D x H).
    + split; [intro H; inv H; auto | intros [_ ->]; reflexivity].
  - unfold decode. destruct (Z.eqb_spec c 0) as [->|N].
    + split.
      * intro H. split; [reflexivity|]. destruct t, b; simpl in H; try discriminate; reflexivity.
      * intros [_ ->]. reflexivity.
    + split; [discriminate | intros [H _]; contradiction].
  - intro v. unfold decode. destruct (Z.eqb_spec c 0) as [->|N].
    + split.
      * intro H. split; [reflexivity|].
        destruct t, b as [i s|]; simpl in H; try discriminate; inv H.
        -- left. split; [reflexivity|]. exists i, s. split; reflexivity.
        -- right. split; [reflexivity|]. split; [discriminate | reflexivity].
      * intros (_ & [(-> & i & s & -> & ->) | (-> & B & ->)]); simpl; [reflexivity|].
        destruct b as [i s|]; [reflexivity | exfalso; apply B; reflexivity].
    + split; [discriminate | intros [H _]; contradiction].
  - intro p. unfold decode. destruct (Z.eqb_spec c 0) as [->|N].
    + split.
      * intro H. split; [reflexivity|].
        destruct t, b as [i s|]; simpl in H; try discriminate; inv H; auto 6.
      * intros (_ & [(-> & ->) | (-> & -> & [->| ->])]); reflexivity.
    + split; [discriminate | intros [H _]; contradiction].
  - apply decode_shape.
Qed.

(* what the peer hands to Service.Response is what the callback receives: the message itself
   (a typed nil pointer arrives as the zero message), nil for nil, and for an error code the
   error text alone whatever message came with it *)
Lemma roundtrip code info m :
  cls_of (KAns code info m) =
  if code =? 0
  then match m with
       | MNil => RNil
       | MTypedNil => RReply (VHello 0 0)
       | MHello i s => RReply (VHello i s)
       | MEmpty => RReply VEmpty
       end
  else RErr info.
Proof.
  unfold cls_of, wire_of, encode. destruct (code =? 0) eqn:C.
  - destruct m; reflexivity.
  - simpl. rewrite C. reflexivity.
Qed.

Lemma cls_of_reply k : cls_of k <> RNoService /\ cls_of k <> RTimeout.
Proof. destruct (decode_shape (wire_of k)) as (A & B & _). split; assumption. Qed.

Lemma cls_of_not_other k : cls_of k <> ROther.
Proof. destruct (decode_shape (wire_of k)) as (_ & _ & C). exact C. Qed.

Lemma justified_reply tr t k :
  (exists a id n b, tr = a ++ EIssue t id n :: b ++ [EResp id k] /\ no_resp id b) ->
  justified tr t (cls_of k).
Proof.
  intros (a & id & n & b & T & NR).
  destruct (cls_of_reply k) as [N1 N2].
  destruct (cls_of k) eqn:E; try contradiction; simpl;
    exists a, id, n, b, k; (split; [exact T | split; [exact NR | symmetry; exact E]]).
Qed.

Lemma acc_idle_inv a a' tr e :
  AInv a tr -> mtail a = [] -> acc_idle a e = Some a' -> AInv a' (tr ++ [e]).
Proof.
  intros H MT S. destruct e as [| | |id k|now|t id n|id sp|id t|t|t c|id]; cbn [acc_idle] in S.
  - inv S. apply (AInv_keep a); cbn [a_open a_nt a_tick a_mode]; auto; try lia; try discriminate.
  - inv S. apply (AInv_keep a); cbn [a_open a_nt a_tick a_mode]; auto; try lia; try discriminate.
  - inv S. apply (AInv_keep a); cbn [a_open a_nt a_tick a_mode]; auto; try lia; try discriminate.
  - inv S. apply (AInv_keep a); cbn [a_open a_nt a_tick a_mode]; auto; try lia; try discriminate.
    + destruct (aget id (a_open a)) eqn:G;
        [split; [reflexivity | rewrite G; discriminate] | split; [eexists; reflexivity | exact G]].
    + intros id' k' E. injection E as <- <-. destruct (aget id (a_open a)) eqn:G; [left; reflexivity | right; reflexivity].
  - inv S. apply (AInv_keep a); cbn [a_open a_nt a_tick a_mode]; auto; try lia; try discriminate.
    intros now' E. inv E. rewrite last_marker_snoc. reflexivity.
  - destruct ((t =? a_nt a) && isnone (aget id (a_open a)) && negb (id =? 0)) eqn:C; [|discriminate].
    inv S. apply andb_true_iff in C. destruct C as [C C3]. apply andb_true_iff in C. destruct C as [C1 C2].
    apply AInv_issue; [exact H | exact MT | lia | destruct (aget id (a_open a)); [discriminate | reflexivity] | lia].
  - discriminate.
  - assert (K : forall now, a_tick a = Some now -> last_marker (tr ++ [ESent id t]) = Some (ETick now)).
    { intros now E. rewrite last_marker_snoc. cbn [is_marker]. apply (ai_tick _ _ H). exact E. }
    destruct (Z.eqb_spec id 0) as [->|N0].
    + destruct (t =? -1); [|discriminate]. inv S.
      apply (AInv_keep a); cbn [a_open a_nt a_tick a_mode]; auto; try lia; try discriminate.
      intros id' t' E Ne. inv E. contradiction.
    + destruct (aget id (a_open a)) as [[t' n]|] eqn:G; [|discriminate].
      destruct (Z.eqb_spec t' t) as [->|]; [|discriminate]. inv S.
      apply (AInv_keep a); cbn [a_open a_nt a_tick a_mode]; auto; try lia; try discriminate.
      intros id' t' E _. injection E as <- <-.
      destruct (ai_open _ _ H id t n G) as (_ & _ & _ & x & y & T & _).
      exists n. rewrite T. apply in_or_app. right. left. reflexivity.
  - destruct (Z.eqb_spec t (a_nt a)) as [->|]; [|discriminate]. inv S.
    apply (AInv_keep a); cbn [a_open a_nt a_tick a_mode]; auto; try lia; try discriminate.
    + intros now E. rewrite last_marker_snoc. cbn [is_marker]. apply (ai_tick _ _ H). exact E.
    + split; [reflexivity | lia].
  - destruct c; try discriminate.
    destruct (a_tick a) as [now|] eqn:Tk; [|discriminate].
    destruct (find_tag t (a_open a)) as [[id n]|] eqn:F; [|discriminate].
    destruct (n + Timeout <? now) eqn:Lt; [|discriminate]. inv S.
    apply find_tag_spec in F. destruct F as (t' & I & ->).
    apply (in_aget _ _ _ (ai_sorted _ _ H)) in I.
    rewrite <- Tk.
    apply (AInv_close a tr t RTimeout id n H I); [discriminate| |rewrite MT; intros id' k []].
    destruct (ai_open _ _ H id t n I) as (_ & _ & _ & x & y & T & NR).
    rewrite MT, app_nil_r in T. exists x, id, n, y, now.
    split; [exact T|]. split; [exact NR|]. split; [apply (ai_tick _ _ H); exact Tk | lia].
  - discriminate.
Qed.


Lemma open_in_snoc_resp p id id' k : open_in (p ++ [EResp id' k]) id <-> open_in p id.
Proof.
  unfold open_in. split; intros (t & n & I & C); exists t, n.
  - apply in_snoc in I. destruct I as [I|E]; [|discriminate].
    rewrite count_cb_snoc in C. cbn [cb_inc] in C. split; [exact I | lia].
  - split; [apply in_snoc; left; exact I|]. rewrite count_cb_snoc. cbn [cb_inc]. lia.
Qed.

Lemma acc_step_inv a a' tr e :
  AInv a tr -> acc_step a e = Some a' -> AInv a' (tr ++ [e]).
Proof.
  intros H S. unfold acc_step in S. destruct (a_mode a) as [|id k|id|t] eqn:Em.
  - apply (acc_idle_inv a); [exact H | unfold mtail; rewrite Em; reflexivity | exact S].
  - destruct e; try discriminate.
    destruct (aget id (a_open a)) as [[t' n]|] eqn:G; [|discriminate].
    destruct ((tag =? t') && cls_eqb c (cls_of k)) eqn:C; [|discriminate]. inv S.
    apply andb_true_iff in C. destruct C as [C1 C2]. apply cls_eqb_eq in C2. subst c.
    assert (tag = t') by lia. subst tag.
    destruct (cls_of_reply k) as [N1 N2].
    apply (AInv_close a tr t' (cls_of k) id n H G N1).
    + apply justified_reply.
      destruct (ai_open _ _ H id t' n G) as (_ & _ & _ & x & y & T & NR).
      unfold mtail in T. rewrite Em in T. exists x, id, n, y. split; [exact T | exact NR].
    + unfold mtail. rewrite Em. intros id' k' [E|[]]. inv E. reflexivity.
  - assert (MT : mtail a = []) by (unfold mtail; rewrite Em; reflexivity).
    destruct e; try (apply (acc_idle_inv a); [exact H | exact MT | exact S]).
    destruct (Z.eqb_spec id id0) as [<-|]; [|discriminate]. inv S.
    pose proof (ai_mode _ _ H) as Hm. rewrite Em in Hm. destruct Hm as ((p & k & Tp) & G).
    apply (AInv_keep a); cbn [a_open a_nt a_tick a_mode]; auto; try lia; try discriminate.
    + intros now E. rewrite last_marker_snoc. cbn [is_marker]. apply (ai_tick _ _ H). exact E.
    + intros id' E. injection E as <-. exists p, k. split; [exact Tp|].
      intro O. apply (open_in_snoc_resp p id id k) in O. rewrite <- Tp in O.
      apply (AInv_open_in a tr id H) in O. contradiction.
  - destruct e; try discriminate. destruct c; try discriminate.
    destruct (Z.eqb_spec t tag) as [<-|]; [|discriminate]. inv S.
    apply AInv_ns; assumption.
Qed.

Lemma acc_from_inv tr2 : forall a tr a',
  AInv a tr -> acc_from a tr2 = Some a' -> AInv a' (tr ++ tr2).
Proof.
  induction tr2 as [|e r IH]; intros a tr a' H S; cbn [acc_from] in S.
  - inv S. rewrite app_nil_r. exact H.
  - destruct (acc_step a e) as [a1|] eqn:E; [|discriminate].
    change (e :: r) with ([e] ++ r). rewrite app_assoc.
    eapply IH; [eapply acc_step_inv; eassumption | exact S].
Qed.

Lemma acc_from_app a tr1 tr2 :
  acc_from a (tr1 ++ tr2) =
  match acc_from a tr1 with Some a1 => acc_from a1 tr2 | None => None end.
Proof.
  revert a. induction tr1 as [|e r IH]; intro a; cbn [acc_from app]; [reflexivity|].
  destruct (acc_step a e); [apply IH | reflexivity].
Qed.

(* ---- a response for an open id is completed by the very next event *)

Definition resp_weak (tr : list ev) : Prop :=
  forall pre id k rest, tr = pre ++ EResp id k :: rest -> open_in pre id ->
    rest = [] \/
    exists (t n : Z) (post : list ev), rest = ECb t (cls_of k) :: post /\
                     In (EIssue t id n) pre /\ count_cb t pre = 0%nat.

Definition RInv (a : ast) (tr : list ev) : Prop :=
  resp_weak tr /\
  (forall p id k, tr = p ++ [EResp id k] -> a_mode a = MMustCb id k \/ a_mode a = MMayDrop id).

Lemma acc_step_resp_mode a id k a' :
  acc_step a (EResp id k) = Some a' -> a_mode a' = MMustCb id k \/ a_mode a' = MMayDrop id.
Proof.
  unfold acc_step. destruct (a_mode a); cbn [acc_idle]; intro H; try discriminate;
    inv H; cbn [a_mode]; destruct (aget id (a_open a)); auto.
Qed.

Lemma acc_step_mustcb a id k e a' :
  a_mode a = MMustCb id k -> acc_step a e = Some a' ->
  exists t n, e = ECb t (cls_of k) /\ aget id (a_open a) = Some (t, n).
Proof.
  intros Em H. unfold acc_step in H. rewrite Em in H. destruct e; try discriminate.
  destruct (aget id (a_open a)) as [[t' n]|]; [|discriminate].
  destruct ((tag =? t') && cls_eqb c (cls_of k)) eqn:C; [|discriminate].
  apply andb_true_iff in C. destruct C as [C1 C2]. apply cls_eqb_eq in C2. subst c.
  exists t', n. split; [f_equal; lia | reflexivity].
Qed.

Lemma RInv_init : RInv a0 [].
Proof.
  split.
  - intros pre id k rest E. destruct pre; discriminate.
  - intros p id k E. destruct p; discriminate.
Qed.

Lemma RInv_step a a' tr e :
  AInv a tr -> RInv a tr -> acc_step a e = Some a' -> RInv a' (tr ++ [e]).
Proof.
  intros AI [RW RL] S. split.
  - intros pre id k rest E O. apply snoc_split in E.
    destruct E as [(-> & -> & E)|(rest' & -> & ->)]; [left; reflexivity|].
    destruct (RW pre id k rest' eq_refl O) as [->|(t & n & post & -> & I & C)].
    + right. cbn [app].
      destruct (RL pre id k eq_refl) as [Em|Em].
      * destruct (acc_step_mustcb a id k e a' Em S) as (t & n & -> & G).
        destruct (ai_open _ _ AI id t n G) as (_ & C & _ & x & y & T & _).
        exists t, n, []. split; [reflexivity|].
        assert (I : In (EIssue t id n) (pre ++ [EResp id k])).
        { rewrite T. apply in_or_app. right. left. reflexivity. }
        apply in_snoc in I. destruct I as [I|I]; [|discriminate].
        split; [exact I|]. rewrite count_cb_snoc in C. cbn [cb_inc] in C. lia.
      * exfalso. pose proof (ai_mode _ _ AI) as Hm. rewrite Em in Hm. destruct Hm as [_ G].
        apply (open_in_snoc_resp pre id id k) in O.
        apply (AInv_open_in a _ id AI) in O. contradiction.
    + right. exists t, n, (post ++ [e]). split; [reflexivity | split; assumption].
  - intros p id k E. apply app_inj_tail in E. destruct E as [_ ->].
    eapply acc_step_resp_mode. exact S.
Qed.

Lemma RInv_from tr2 : forall a tr a',
  AInv a tr -> RInv a tr -> acc_from a tr2 = Some a' -> RInv a' (tr ++ tr2).
Proof.
  induction tr2 as [|e r IH]; intros a tr a' AI R S; cbn [acc_from] in S.
  - inv S. rewrite app_nil_r. exact R.
  - destruct (acc_step a e) as [a1|] eqn:E; [|discriminate].
    change (e :: r) with ([e] ++ r). rewrite app_assoc.
    eapply IH; [eapply acc_step_inv; eassumption | eapply RInv_step; eassumption | exact S].
Qed.

Lemma accepts_resp_completes tr : accepts tr = true -> resp_completes tr.
Proof.
  unfold accepts. destruct (acc_from a0 tr) as [a|] eqn:E; [|discriminate]. intro St.
  pose proof (acc_from_inv tr a0 [] a AInv_init E) as AI. cbn [app] in AI.
  destruct (RInv_from tr a0 [] a AInv_init RInv_init E) as [RW RL]. cbn [app] in RW, RL.
  intros pre id k rest T O. destruct (RW pre id k rest T O) as [->|H]; [|exact H]. exfalso.
  destruct (RL pre id k T) as [Em|Em]; unfold settled in St; rewrite Em in St; [discriminate|].
  pose proof (ai_mode _ _ AI) as Hm. rewrite Em in Hm. destruct Hm as [_ G].
  rewrite T in AI. apply (open_in_snoc_resp pre id id k) in O.
  apply (AInv_open_in a _ id AI) in O. contradiction.
Qed.

(* the acceptor is sound for the trace clauses of the property *)
Theorem acceptor_sound tr a :
  acc_from a0 tr = Some a ->
  at_most_once tr /\ issue_unique tr /\ matching tr /\ drops_ok tr /\ sent_after_issue tr /\
  (forall id, open_in tr id <-> aget id (a_open a) <> None) /\
  Z.of_nat (length (a_open a)) = n_issue tr - n_done tr.
Proof.
  intro S. pose proof (acc_from_inv tr a0 [] a AInv_init S) as H. cbn [app] in H.
  split; [apply (ai_once _ _ H)|]. split; [apply (ai_iuniq _ _ H)|].
  split; [apply (ai_match _ _ H)|]. split; [apply (ai_drops _ _ H)|].
  split; [apply (ai_sent _ _ H)|]. split; [|apply (ai_count _ _ H)].
  intro id. apply AInv_open_in. exact H.
Qed.

(* ================================================================== Part 3: simulation *)

Definition ent (e : entry) : Z * Z := (e_tag e, e_dl e - Timeout).

Definition inflight (f : option Z) (id : Z) : bool :=
  match f with Some i => i =? id | None => false end.

Definition tick_of (m : option ev) : option Z :=
  match m with Some (ETick n) => Some n | _ => None end.

Record Rel (c : cfg) (a : ast) : Prop := {
  r_acc : acc_from a0 (ct c) = Some a;
  r_idle : a_mode a = MIdle;
  r_nt : a_nt a = ntags (cs c);
  r_tick : a_tick a = tick_of (last_marker (ct c));
  r_open : forall id, aget id (a_open a) =
                      if inflight (cf c) id then None
                      else option_map ent (aget id (pending (cs c)));
  r_flight : forall id, cf c = Some id -> aget id (pending (cs c)) <> None
}.

Section Sim.
  Variable M : Z.
  Hypothesis M_pos : 1 <= M.

  Definition base (c : cfg) : Prop :=
    sorted (pending (cs c)) /\
    (forall j, 0 <= next_of (cs c) j <= M) /\
    (forall j, has_block M j (pending (cs c)) -> armed_of (cs c) j = true) /\
    0 <= foc (cs c) /\ 0 <= cur (cs c).

  Definition Sim (c : cfg) : Prop := base c /\ (noclash (ct c) -> exists a, Rel c a).

  Lemma alloc_range n : 0 <= n <= M -> 1 <= alloc_id M n <= M.
  Proof. unfold alloc_id. intro H. destruct (Z.leb_spec M n); lia. Qed.

  Lemma next_of_foc s : next_of s (foc s) = next s.
  Proof. unfold next_of. rewrite view_foc. reflexivity. Qed.

  Lemma armed_of_foc s : armed_of s (foc s) = armed s.
  Proof. unfold armed_of. rewrite view_foc. reflexivity. Qed.

  (* the views of a state that differs from s only in the focused incarnation's own values *)
  Lemma views_upd s s' :
    foc s' = foc s -> rest s' = rest s ->
    forall j, view s' j = if j =? foc s then (next s', armed s', nalloc s') else view s j.
  Proof.
    intros F R j. destruct (Z.eqb_spec j (foc s)) as [->|N].
    - rewrite <- F. apply view_foc.
    - apply view_other; assumption.
  Qed.

  Lemma base_upd s s' :
    sorted (pending s') -> foc s' = foc s -> rest s' = rest s -> cur s' = cur s ->
    0 <= next s' <= M ->
    (forall j, has_block M j (pending s') -> j <> foc s -> has_block M j (pending s)) ->
    (has_block M (foc s) (pending s') -> armed s' = true) ->
    forall f tr f' tr', base (f, s, tr) -> base (f', s', tr').
  Proof.
    intros S' F R C N HB HA f tr f' tr' (S & Rg & A & Fo & Cu). unfold base, cs in *; cbn [fst snd] in *.
    split; [exact S'|]. split; [|split; [|split; [rewrite F; exact Fo | rewrite C; exact Cu]]].
    - intro j. unfold next_of. rewrite (views_upd s s' F R j).
      destruct (Z.eqb_spec j (foc s)); [exact N | apply Rg].
    - intros j H. unfold armed_of. rewrite (views_upd s s' F R j).
      destruct (Z.eqb_spec j (foc s)) as [->|Ne]; [apply HA; exact H | apply A; apply HB; assumption].
  Qed.

  Lemma base_prim c c' : prim M c c' -> base c -> base c'.
  Proof.
    intros P B.
    destruct P as [c c' P|s tr m Hm|s tr id k G|s tr id k e G|s tr Ar Pe|s tr Ar Pn|s tr id e G D LM
                   |s tr id|s tr dt Hd|s tr v Hv Pe|s tr j Hj|s tr];
      try exact B.
    - destruct P as [f s tr u p|f s tr|f s tr].
      + pose proof B as (S & Rg & A & Fo & Cu). unfold cs in *; cbn [fst snd] in *.
        pose proof (Rg (foc s)) as R0. rewrite next_of_foc in R0. pose proof (alloc_range _ R0) as Hid.
        eapply base_upd; [| | | | | | |exact B]; unfold register; cbn [fst snd pending foc rest cur next armed];
          try reflexivity.
        * apply sorted_aset; exact S.
        * lia.
        * intros j (k & e & G & I) Ne.
          destruct (Z.eq_dec k (key M (foc s) (alloc_id M (next s)))) as [->|Nk].
          { rewrite inc_of_key in I by lia. congruence. }
          { rewrite aget_aset_other in G by exact Nk. exists k, e. auto. }
      + exact B.
      + eapply base_upd; [| | | | | | |exact B]; cbn [fst snd set_ntags pending foc rest cur next armed]; try reflexivity.
        * apply B.
        * destruct B as (_ & Rg & _). specialize (Rg (foc s)). rewrite next_of_foc in Rg. exact Rg.
        * auto.
        * destruct B as (_ & _ & A & _). intro H. specialize (A _ H). rewrite armed_of_foc in A. exact A.
    - (* tick off *)
      pose proof B as (S & Rg & A & Fo & Cu). unfold cs in *; cbn [fst snd] in *.
      eapply base_upd; [| | | | | | |exact B]; cbn [set_armed pending foc rest cur next armed]; try reflexivity.
      + exact S.
      + specialize (Rg (foc s)). rewrite next_of_foc in Rg. exact Rg.
      + auto.
      + intro H. exfalso. apply (proj1 (block_nil_iff M (foc s) (pending s) S) Pe). exact H.
    - (* end of a callback *)
      pose proof B as (S & Rg & A & Fo & Cu). unfold cs in *; cbn [fst snd] in *.
      eapply base_upd; [| | | | | | |exact B]; cbn [set_pending pending foc rest cur next armed]; try reflexivity.
      + apply sorted_adel; exact S.
      + specialize (Rg (foc s)). rewrite next_of_foc in Rg. exact Rg.
      + intros j (k & e & G & I) _. destruct (Z.eq_dec k id) as [->|Nk]; [rewrite aget_adel_same in G; discriminate|].
        rewrite aget_adel_other in G by exact Nk. exists k, e. auto.
      + intros (k & e & G & I). destruct (Z.eq_dec k id) as [->|Nk]; [rewrite aget_adel_same in G; discriminate|].
        rewrite aget_adel_other in G by exact Nk. rewrite <- armed_of_foc. apply A. exists k, e. auto.
    - (* set next *)
      pose proof B as (S & Rg & A & Fo & Cu). unfold cs in *; cbn [fst snd] in *.
      eapply base_upd; [| | | | | | |exact B]; cbn [set_next pending foc rest cur next armed]; try reflexivity.
      + exact S.
      + lia.
      + auto.
      + rewrite Pe. intros (k & e & G & _). discriminate.
    - (* focus *)
      destruct B as (S & Rg & A & Fo & Cu). unfold base, cs in *; cbn [fst snd] in *.
      destruct (focus_frame s j) as (P & _ & _ & C & F). rewrite P, C, F.
      split; [exact S|]. split; [|split; [|split; assumption]].
      + intro j'. unfold next_of. rewrite view_focus. apply Rg.
      + intros j' H. unfold armed_of. rewrite view_focus. apply A. exact H.
    - (* restart *)
      destruct B as (S & Rg & A & Fo & Cu). unfold base, cs in *; cbn [fst snd set_cur pending foc cur] in *.
      split; [exact S|]. split; [exact Rg|]. split; [exact A|]. split; [exact Fo | lia].
  Qed.

  Lemma acc_snoc a tr e a' :
    acc_from a0 tr = Some a -> acc_step a e = Some a' -> acc_from a0 (tr ++ [e]) = Some a'.
  Proof. intros H S. rewrite acc_from_app, H. cbn [acc_from]. rewrite S. reflexivity. Qed.

  Lemma tick_of_nomark tr o : nomark o -> tick_of (last_marker (tr ++ o)) = tick_of (last_marker tr).
  Proof. intro H. rewrite last_marker_nomark by exact H. reflexivity. Qed.

  Lemma rel_prim c c' a :
    prim M c c' -> base c -> noclash (ct c') -> Rel c a -> exists a', Rel c' a'.
  Proof.
    intros P B NC R. destruct B as (S & Rg & _ & Fo & _).
    pose proof (acc_from_inv (ct c) a0 [] a AInv_init (r_acc _ _ R)) as AI. cbn [app] in AI.
    destruct R as [Racc Ridle Rnt Rtick Ropen Rfl].
    destruct P as [c c' P|s tr m Hm|s tr id k G|s tr id k e G|s tr Ar Pe|s tr Ar Pn|s tr id e G D LM
                   |s tr id|s tr dt Hd|s tr v Hv Pe|s tr j Hj|s tr]; unfold cs, ct, cf in *; cbn [fst snd] in *.
    - destruct P as [f s tr u p|f s tr|f s tr]; cbn [fst snd] in *.
      + (* register *)
        unfold register in *; cbn [fst snd] in *.
        set (id := key M (foc s) (alloc_id M (next s))) in *. set (t := ntags s) in *.
        assert (Hid : 1 <= id).
        { pose proof (Rg (foc s)) as R0. rewrite next_of_foc in R0. pose proof (alloc_range _ R0).
          apply key_pos; lia. }
        apply noclash_app in NC. destruct NC as [_ NC]. apply noclash_app in NC. destruct NC as [NC _].
        assert (G : aget id (pending s) = None).
        { destruct (aget id (pending s)) eqn:E; [|reflexivity]. exfalso. eapply NC. left. reflexivity. }
        assert (Fl : inflight f id = false).
        { destruct f as [i|]; [|reflexivity]. simpl. destruct (Z.eqb_spec i id) as [->|]; [|reflexivity].
          exfalso. apply (Rfl id eq_refl). exact G. }
        assert (Go : aget id (a_open a) = None) by (rewrite Ropen, Fl, G; reflexivity).
        set (a1 := mkA (aset id (t, clock s) (a_open a)) (a_nt a + 1) (a_tick a) MIdle).
        assert (S1 : acc_step a (EIssue t id (clock s)) = Some a1).
        { unfold acc_step. rewrite Ridle. cbn [acc_idle]. rewrite Go.
          replace (t =? a_nt a) with true by (symmetry; apply Z.eqb_eq; symmetry; exact Rnt).
          cbn [isnone andb]. destruct (Z.eqb_spec id 0); [lia|]. reflexivity. }
        assert (S2 : acc_step a1 (ESent id t) = Some a1).
        { unfold acc_step. cbn [a1 a_mode acc_idle a_open a_nt a_tick].
          destruct (Z.eqb_spec id 0); [lia|]. rewrite aget_aset_same, Z.eqb_refl. reflexivity. }
        exists a1. rewrite G. cbn [app]. constructor; unfold cs, ct, cf; cbn [fst snd a1 a_open a_nt a_tick a_mode pending ntags].
        * destruct u.
          { apply acc_snoc with (a := a); assumption. }
          { change (tr ++ [EIssue t id (clock s); ESent id t]) with (tr ++ [EIssue t id (clock s)] ++ [ESent id t]).
            rewrite app_assoc. apply acc_snoc with (a := a1); [apply acc_snoc with (a := a); assumption | exact S2]. }
        * reflexivity.
        * rewrite Rnt. reflexivity.
        * rewrite Rtick. symmetry. apply tick_of_nomark.
          intros x I. destruct I as [<-|I]; [reflexivity|]. destruct u; [inversion I|].
          destruct I as [<-|[]]. reflexivity.
        * intro id'. destruct (Z.eq_dec id' id) as [->|Ne].
          { rewrite !aget_aset_same, Fl. cbn [option_map]. unfold ent. cbn [e_tag e_dl]. rewrite Z.add_simpl_r. reflexivity. }
          { rewrite !aget_aset_other by exact Ne. apply Ropen. }
        * intros id' E. destruct (Z.eq_dec id' id) as [->|Ne].
          { rewrite aget_aset_same. discriminate. }
          { rewrite aget_aset_other by exact Ne. apply Rfl. exact E. }
      + (* notify *)
        exists (mkA (a_open a) (a_nt a) (a_tick a) MIdle).
        constructor; unfold cs, ct, cf; cbn [fst snd a_open a_nt a_tick a_mode]; auto.
        * apply acc_snoc with (a := a); [exact Racc|]. unfold acc_step. rewrite Ridle. reflexivity.
        * rewrite Rtick. symmetry. apply tick_of_nomark. intros x [<-|[]]. reflexivity.
      + (* no route *)
        exists (mkA (a_open a) (a_nt a + 1) (a_tick a) MIdle).
        constructor; unfold cs, ct, cf; cbn [fst snd a_open a_nt a_tick a_mode set_ntags pending ntags]; auto.
        * change (tr ++ [ENoRoute (ntags s); ECb (ntags s) RNoService])
            with (tr ++ [ENoRoute (ntags s)] ++ [ECb (ntags s) RNoService]).
          rewrite app_assoc.
          apply acc_snoc with (a := mkA (a_open a) (a_nt a + 1) (a_tick a) (MMustNS (ntags s))).
          { apply acc_snoc with (a := a); [exact Racc|]. unfold acc_step. rewrite Ridle. cbn [acc_idle].
            rewrite Rnt, Z.eqb_refl. reflexivity. }
          { unfold acc_step. cbn [a_mode]. rewrite Z.eqb_refl. reflexivity. }
        * rewrite Rnt. reflexivity.
        * rewrite Rtick. symmetry. apply tick_of_nomark. intros x [<-|[<-|[]]]; reflexivity.
    - (* marker *)
      exists (mkA (a_open a) (a_nt a) None MIdle).
      constructor; unfold cs, ct, cf; cbn [fst snd a_open a_nt a_tick a_mode]; auto.
      + apply acc_snoc with (a := a); [exact Racc|]. unfold acc_step. rewrite Ridle.
        destruct Hm as [->| ->]; reflexivity.
      + rewrite last_marker_snoc. destruct Hm as [->| ->]; reflexivity.
    - (* drop *)
      exists (mkA (a_open a) (a_nt a) None MIdle).
      assert (Go : aget id (a_open a) = None) by (rewrite Ropen; cbn [inflight]; rewrite G; reflexivity).
      constructor; unfold cs, ct, cf; cbn [fst snd a_open a_nt a_tick a_mode]; auto.
      + change (tr ++ [EResp id k; EDrop id]) with (tr ++ [EResp id k] ++ [EDrop id]). rewrite app_assoc.
        apply acc_snoc with (a := mkA (a_open a) (a_nt a) None (MMayDrop id)).
        { apply acc_snoc with (a := a); [exact Racc|]. unfold acc_step. rewrite Ridle. cbn [acc_idle].
          rewrite Go. reflexivity. }
        { unfold acc_step. cbn [a_mode]. rewrite Z.eqb_refl. reflexivity. }
      + change (tr ++ [EResp id k; EDrop id]) with (tr ++ [EResp id k] ++ [EDrop id]).
        rewrite app_assoc, last_marker_snoc. cbn [is_marker]. rewrite last_marker_snoc. reflexivity.
    - (* response for a pending id: its callback *)
      assert (Go : aget id (a_open a) = Some (ent e)) by (rewrite Ropen; cbn [inflight]; rewrite G; reflexivity).
      exists (mkA (adel id (a_open a)) (a_nt a) None MIdle).
      constructor; unfold cs, ct, cf; cbn [fst snd a_open a_nt a_tick a_mode]; auto.
      + change (tr ++ [EResp id k; ECb (e_tag e) (cls_of k)])
          with (tr ++ [EResp id k] ++ [ECb (e_tag e) (cls_of k)]). rewrite app_assoc.
        apply acc_snoc with (a := mkA (a_open a) (a_nt a) None (MMustCb id k)).
        { apply acc_snoc with (a := a); [exact Racc|]. unfold acc_step. rewrite Ridle. cbn [acc_idle].
          rewrite Go. reflexivity. }
        { unfold acc_step. cbn [a_mode a_open a_nt a_tick]. rewrite Go. unfold ent.
          rewrite Z.eqb_refl, cls_eqb_refl. reflexivity. }
      + change (tr ++ [EResp id k; ECb (e_tag e) (cls_of k)])
          with (tr ++ [EResp id k] ++ [ECb (e_tag e) (cls_of k)]).
        rewrite app_assoc, last_marker_snoc. cbn [is_marker]. rewrite last_marker_snoc. reflexivity.
      + intro id'. cbn [inflight]. destruct (Z.eqb_spec id id') as [<-|Ne].
        * apply aget_adel_same.
        * rewrite aget_adel_other by (intro; subst; contradiction). rewrite Ropen. reflexivity.
      + intros id' E. inv E. rewrite G. discriminate.
    - (* scan on an empty table *)
      exists (mkA (a_open a) (a_nt a) (Some (clock s)) MIdle).
      constructor; unfold cs, ct, cf; cbn [fst snd a_open a_nt a_tick a_mode set_armed pending ntags]; auto.
      + apply acc_snoc with (a := a); [exact Racc|]. unfold acc_step. rewrite Ridle. reflexivity.
      + rewrite last_marker_snoc. reflexivity.
    - (* scan *)
      exists (mkA (a_open a) (a_nt a) (Some (clock s)) MIdle).
      constructor; unfold cs, ct, cf; cbn [fst snd a_open a_nt a_tick a_mode]; auto.
      + apply acc_snoc with (a := a); [exact Racc|]. unfold acc_step. rewrite Ridle. reflexivity.
      + rewrite last_marker_snoc. reflexivity.
    - (* timeout callback *)
      assert (Go : aget id (a_open a) = Some (ent e)) by (rewrite Ropen; cbn [inflight]; rewrite G; reflexivity).
      apply noclash_app in NC. destruct NC as [NC _]. specialize (D NC).
      assert (Tk : a_tick a = Some (clock s)) by (rewrite Rtick, LM; reflexivity).
      assert (F : find_tag (e_tag e) (a_open a) = Some (id, e_dl e - Timeout)).
      { apply find_tag_complete.
        - apply aget_in. exact Go.
        - intros id' n' I. apply (in_aget _ _ _ (ai_sorted _ _ AI)) in I.
          assert (id' = id) by (eapply (ai_tags _ _ AI); [exact I | exact Go]). subst id'.
          rewrite Go in I. inv I. auto. }
      exists (mkA (adel id (a_open a)) (a_nt a) (a_tick a) MIdle).
      constructor; unfold cs, ct, cf; cbn [fst snd a_open a_nt a_tick a_mode]; auto.
      + apply acc_snoc with (a := a); [exact Racc|]. unfold acc_step. rewrite Ridle. cbn [acc_idle].
        rewrite Tk, F. destruct (Z.ltb_spec (e_dl e - Timeout + Timeout) (clock s)); [reflexivity | lia].
      + rewrite Rtick. symmetry. apply tick_of_nomark. intros x [<-|[]]. reflexivity.
      + intro id'. cbn [inflight]. destruct (Z.eqb_spec id id') as [<-|Ne].
        * apply aget_adel_same.
        * rewrite aget_adel_other by (intro; subst; contradiction). rewrite Ropen. reflexivity.
      + intros id' E. inv E. rewrite G. discriminate.
    - (* end of a callback: delete *)
      exists a. constructor; unfold cs, ct, cf; cbn [fst snd set_pending pending ntags]; auto.
      + intro id'. cbn [inflight]. rewrite Ropen. cbn [inflight]. destruct (Z.eqb_spec id id') as [<-|Ne].
        * rewrite aget_adel_same. reflexivity.
        * rewrite aget_adel_other by (intro; subst; contradiction). reflexivity.
      + intros id' E. discriminate.
    - exists a. constructor; unfold cs, ct, cf; cbn [fst snd set_clock pending ntags]; auto.
    - exists a. constructor; unfold cs, ct, cf; cbn [fst snd set_next pending ntags]; auto.
    - (* focus *)
      destruct (focus_frame s j) as (P & _ & T & _).
      exists a. constructor; unfold cs, ct, cf; cbn [fst snd]; rewrite ?P, ?T; auto.
    - (* restart *)
      exists (mkA (a_open a) (a_nt a) None MIdle).
      constructor; unfold cs, ct, cf; cbn [fst snd a_open a_nt a_tick a_mode set_cur pending ntags]; auto.
      + apply acc_snoc with (a := a); [exact Racc|]. unfold acc_step. rewrite Ridle. reflexivity.
      + rewrite last_marker_snoc. reflexivity.
  Qed.
End Sim.

(* ================================================================== results *)

Lemma prim_trace M c c' : prim M c c' -> exists o, ct c' = ct c ++ o.
Proof.
  destruct 1 as [c c' P| | | | | | | | | | | ]; unfold ct; cbn [snd];
    try (eexists; reflexivity); try (exists []; rewrite app_nil_r; reflexivity).
  destruct P; cbn [snd]; eexists; reflexivity.
Qed.

Lemma run_from_app M a b : forall s,
  run_from M s (a ++ b) =
  (fst (run_from M (fst (run_from M s a)) b),
   snd (run_from M s a) ++ snd (run_from M (fst (run_from M s a)) b)).
Proof.
  induction a as [|o r IH]; intro s; cbn [run_from app fst snd].
  - destruct (run_from M s b); reflexivity.
  - rewrite IH. reflexivity.
Qed.

Lemma final_snoc M h o : final_g M (h ++ [o]) = fst (step M (final_g M h) o).
Proof. unfold final_g. rewrite run_from_app. reflexivity. Qed.

Lemma trace_snoc M h o : trace_g M (h ++ [o]) = trace_g M h ++ snd (step M (final_g M h) o).
Proof.
  unfold trace_g, final_g. rewrite run_from_app. cbn [fst snd run_from].
  rewrite concat_app. cbn [concat]. rewrite app_nil_r. reflexivity.
Qed.

Lemma trace_app M h r :
  trace_g M (h ++ r) = trace_g M h ++ concat (snd (run_from M (final_g M h) r)).
Proof. unfold trace_g, final_g. rewrite run_from_app. cbn [snd]. apply concat_app. Qed.

(* sorted association lists that agree on which keys are present have the same keys *)
Lemma akeys_ext {V W} (f : W -> V) (m1 : alist V) : forall (m2 : alist W),
  sorted m1 -> sorted m2 -> (forall k, aget k m1 = option_map f (aget k m2)) -> akeys m1 = akeys m2.
Proof.
  induction m1 as [|[k1 v1] r1 IH]; intros [|[k2 v2] r2] S1 S2 H; cbn [akeys map fst].
  - reflexivity.
  - specialize (H k2). simpl in H. rewrite Z.eqb_refl in H. discriminate.
  - specialize (H k1). simpl in H. rewrite Z.eqb_refl in H. discriminate.
  - destruct S1 as [L1 S1]. destruct S2 as [L2 S2].
    assert (k1 = k2).
    { destruct (Z.lt_trichotomy k1 k2) as [Lt|[E|Gt]]; [|exact E|].
      - pose proof (H k1) as K. simpl in K. rewrite Z.eqb_refl in K.
        destruct (Z.eqb_spec k1 k2); [lia|]. rewrite (lb_not_in k1 r2) in K; [discriminate|].
        apply lb_trans with k2; assumption.
      - pose proof (H k2) as K. simpl in K. rewrite Z.eqb_refl in K.
        destruct (Z.eqb_spec k2 k1); [lia|]. rewrite (lb_not_in k2 r1) in K; [discriminate|].
        apply lb_trans with k1; assumption. }
    subst k2. f_equal. apply (IH r2 S1 S2). intro k. specialize (H k). simpl in H.
    destruct (Z.eqb_spec k k1) as [E|N]; [|exact H].
    rewrite E, (lb_not_in _ _ L1), (lb_not_in _ _ L2). reflexivity.
Qed.

Section Final.
  Variable M : Z.
  Hypothesis M_pos : 1 <= M.

  Lemma sim_prim c c' : prim M c c' -> Sim M c -> Sim M c'.
  Proof.
    intros P [B R]. split; [eapply base_prim; eassumption|].
    intro NC. destruct (prim_trace M c c' P) as [o E].
    assert (NC0 : noclash (ct c)) by (rewrite E in NC; apply noclash_app in NC; tauto).
    destruct (R NC0) as [a Ra]. eapply rel_prim; eassumption.
  Qed.

  Lemma sim_init : Sim M (None, init, []).
  Proof.
    split.
    - unfold base, cs; cbn [fst snd init pending foc cur].
      split; [exact I|]. split; [intro j; unfold next_of, view; cbn; destruct (j =? 0); cbn; lia|].
      split; [intros j (k & e & G & _); discriminate | lia].
    - intros _. exists a0. constructor; unfold cs, ct, cf; cbn; auto. intros id E. discriminate.
  Qed.

  Lemma sim_run ops : Sim M (None, final_g M ops, trace_g M ops).
  Proof. apply (run_inv M (Sim M)); [intros c c' P; apply sim_prim; exact P | apply sim_init]. Qed.

  (* clash-free model traces are accepted; the acceptor's open table is the pending table *)
  Theorem model_accepted ops :
    noclash (trace_g M ops) ->
    exists a, acc_from a0 (trace_g M ops) = Some a /\ a_mode a = MIdle /\
              a_tick a = tick_of (last_marker (trace_g M ops)) /\
              (forall id, aget id (a_open a) = option_map ent (aget id (pending (final_g M ops)))) /\
              akeys (a_open a) = akeys (pending (final_g M ops)).
  Proof.
    intro NC. destruct (sim_run ops) as [(S & _) R]. destruct (R NC) as [a Ra].
    destruct Ra as [Racc Ridle Rnt Rtick Ropen Rfl]. unfold cs, ct, cf in *; cbn [fst snd inflight] in *.
    exists a. split; [exact Racc|]. split; [exact Ridle|]. split; [exact Rtick|]. split; [exact Ropen|].
    pose proof (acc_from_inv _ a0 [] a AInv_init Racc) as AI. cbn [app] in AI.
    apply (akeys_ext ent); [apply (ai_sorted _ _ AI) | exact S | exact Ropen].
  Qed.

  Theorem model_trace_props ops :
    noclash (trace_g M ops) ->
    at_most_once (trace_g M ops) /\ issue_unique (trace_g M ops) /\ matching (trace_g M ops) /\
    drops_ok (trace_g M ops) /\ sent_after_issue (trace_g M ops).
  Proof.
    intro NC. destruct (model_accepted ops NC) as (a & Acc & _).
    pose proof (acceptor_sound _ _ Acc). tauto.
  Qed.

  Theorem pending_iff_open ops id :
    noclash (trace_g M ops) ->
    (aget id (pending (final_g M ops)) <> None <-> open_in (trace_g M ops) id).
  Proof.
    intro NC. destruct (model_accepted ops NC) as (a & Acc & _ & _ & Op & _).
    destruct (acceptor_sound _ _ Acc) as (_ & _ & _ & _ & _ & O & _).
    rewrite O, Op. destruct (aget id (pending (final_g M ops))); simpl; split; congruence.
  Qed.

  Theorem drain_count ops :
    noclash (trace_g M ops) ->
    Z.of_nat (length (pending (final_g M ops))) = n_issue (trace_g M ops) - n_done (trace_g M ops).
  Proof.
    intro NC. destruct (model_accepted ops NC) as (a & Acc & _ & _ & _ & K).
    destruct (acceptor_sound _ _ Acc) as (_ & _ & _ & _ & _ & _ & C).
    rewrite <- C. f_equal. unfold akeys in K.
    rewrite <- (map_length fst (pending (final_g M ops))), <- K, map_length. reflexivity.
  Qed.

  (* timer: the timer of an incarnation is armed whenever one of its requests is pending, in
     every reachable state, clash or not - also long after the incarnation was replaced *)
  Theorem timer_armed ops j k e :
    aget k (pending (final_g M ops)) = Some e -> inc_of M k = j ->
    armed_of (final_g M ops) j = true.
  Proof. intros G I. destruct (sim_run ops) as [(_ & _ & A & _) _]. apply A. exists k, e. auto. Qed.

  Theorem next_range ops j : 0 <= next_of (final_g M ops) j <= M.
  Proof. destruct (sim_run ops) as [(_ & R & _) _]. apply R. Qed.

  Theorem base_run ops : base M (None, final_g M ops, trace_g M ops).
  Proof. destruct (sim_run ops) as [B _]. exact B. Qed.
End Final.

(* discard and frame: state level, any state *)
Lemma discard_step M s id k :
  aget id (pending s) = None -> step M s (Resp id k) = (s, [EResp id k; EDrop id]).
Proof. intro H. cbn [step]. unfold handle_resp. rewrite H. reflexivity. Qed.

Lemma notify_step M s : step M s (Do ANotify) = (s, [EDo; ESent 0 (-1)]).
Proof. reflexivity. Qed.

Lemma noroute_step M s :
  step M s (Do (ANoRoute [])) =
  (set_ntags s (ntags s + 1), [EDo; ENoRoute (ntags s); ECb (ntags s) RNoService]).
Proof. reflexivity. Qed.

Lemma suppressed_step M s : step M s RespNotify = (s, [EIdle]) /\
                            forall id, step M s (RespNoSender id) = (s, [EIdle]).
Proof. split; reflexivity. Qed.

(* ------------------------------------------------------------------ an expiry scan leaves nothing expired *)

Lemma dedup_complete l : forall seen x, In x l -> ~ In x seen -> In x (dedup seen l).
Proof.
  induction l as [|y r IH]; intros seen x I N; [inversion I|]. simpl.
  destruct (zmem y seen) eqn:E.
  - destruct I as [->|I]; [apply zmem_In in E; contradiction | apply IH; assumption].
  - destruct (Z.eq_dec x y) as [->|Ne]; [left; reflexivity|]. right.
    destruct I as [->|I]; [contradiction|]. apply IH; [exact I|]. intros [->|K]; contradiction.
Qed.

Lemma timeout_pos : 0 <= Timeout.
Proof. unfold Timeout. lia. Qed.

Section Scan.
  Variable M : Z.

  Lemma fire_facts s id c :
    clock (fst (fire M s id c)) = clock s /\ nomark (snd (fire M s id c)) /\
    (forall id' e', aget id' (pending (fst (fire M s id c))) = Some e' ->
        id' <> id /\ aget id' (pending s) = Some e' \/ e_dl e' = clock s + Timeout \/
        aget id (pending s) = None /\ aget id' (pending s) = Some e').
  Proof.
    unfold fire. destruct (aget id (pending s)) as [e|] eqn:G; cbn [fst snd].
    - destruct (istar_facts M _ _ (exec_prog_istar M (e_prog e) None s [])) as (_ & C & N & o & T & Mk & _).
      unfold cs, ct in *; cbn [fst snd app] in *. subst o.
      cbn [set_pending clock pending]. split; [exact C|]. split.
      + intros x [<-|I]; [reflexivity | apply Mk; exact I].
      + intros id' e' H. destruct (Z.eq_dec id' id) as [->|Ne]; [rewrite aget_adel_same in H; discriminate|].
        rewrite aget_adel_other in H by exact Ne. destruct (N id' e' H) as [K|K]; [left; auto | right; left; exact K].
    - split; [reflexivity|]. split; [intros x []|]. intros id' e' H. right. right. auto.
  Qed.

  Lemma fire_all_facts ids : forall s,
    clock (fst (fire_all M s ids)) = clock s /\ nomark (snd (fire_all M s ids)) /\
    ((forall id e, aget id (pending s) = Some e -> e_dl e < clock s -> In id ids) ->
     forall id e, aget id (pending (fst (fire_all M s ids))) = Some e -> clock s <= e_dl e).
  Proof.
    induction ids as [|id0 r IH]; intro s; cbn [fire_all fst snd].
    - split; [reflexivity|]. split; [intros x []|]. intros P id e H.
      destruct (Z.lt_ge_cases (e_dl e) (clock s)) as [L|L]; [destruct (P id e H L) | exact L].
    - destruct (fire_facts s id0 RTimeout) as (C1 & M1 & N1).
      destruct (IH (fst (fire M s id0 RTimeout))) as (C2 & M2 & P2).
      split; [congruence|]. split; [apply nomark_app; assumption|].
      intros P id e H. rewrite <- C1. refine (P2 _ id e H).
      intros id' e' H' L'. rewrite C1 in L'.
      destruct (N1 id' e' H') as [[Ne K]|[K|[K0 K]]].
      + destruct (P id' e' K L') as [E|I]; [congruence | exact I].
      + pose proof timeout_pos. lia.
      + destruct (P id' e' K L') as [E|I]; [subst; congruence | exact I].
  Qed.

  Lemma tick_post s h :
    armed s = true ->
    forall id e, aget id (pending (fst (tick M s h))) = Some e -> clock s <= e_dl e.
  Proof.
    intros A id e. unfold tick. rewrite A. cbn [fst]. unfold check_expired.
    destruct (pending s) as [|x m] eqn:P; cbn [isnil fst].
    - cbn [set_armed pending]. rewrite P. discriminate.
    - destruct (fire_all_facts (order M h s) s) as (_ & _ & K). apply K.
      intros id' e' H L. unfold order. apply dedup_complete; [|intros []].
      apply in_or_app. right. unfold expired_ids. apply filter_In. split.
      + apply aget_in in H. apply (in_map fst) in H. exact H.
      + unfold expired_b. rewrite H. lia.
  Qed.

  Lemma tick_clock s h : clock (fst (tick M s h)) = clock s.
  Proof.
    unfold tick. destruct (armed s); [|reflexivity]. cbn [fst]. unfold check_expired.
    destruct (isnil (pending s)); [reflexivity|]. apply fire_all_facts.
  Qed.

  Lemma tick_shape s h :
    (armed s = true /\ exists o, snd (tick M s h) = ETick (clock s) :: o /\ nomark o) \/
    (armed s = false /\ tick M s h = (s, [EIdle])).
  Proof.
    unfold tick. destruct (armed s); [left | right; auto]. split; [reflexivity|]. cbn [snd].
    eexists. split; [reflexivity|]. unfold check_expired.
    destruct (isnil (pending s)); [intros x []|]. apply fire_all_facts.
  Qed.

  (* the timer is switched off only by a scan that finds the table empty *)
  Lemma tick_disarm s h :
    armed s = true -> armed (fst (tick M s h)) = false ->
    pending s = [] /\ tick M s h = (set_armed s false, [ETick (clock s)]).
  Proof.
    intros A D. destruct (pending s) as [|x m] eqn:P.
    - split; [reflexivity|]. unfold tick, check_expired. rewrite A, P. reflexivity.
    - exfalso. assert (K : forall ids s0, armed s0 = true -> armed (fst (fire_all M s0 ids)) = true).
      { induction ids as [|i r IH]; intros s0 A0; cbn [fire_all fst]; [exact A0|]. apply IH.
        unfold fire. destruct (aget i (pending s0)) as [e|]; cbn [fst]; [|exact A0].
        cbn [set_pending armed]. clear - A0.
        assert (G : forall c c', istar M c c' -> armed (cs c) = true -> armed (cs c') = true).
        { induction 1 as [c|c1 c2 c3 H1 _ IH2]; [auto|]. intro A1. apply IH2.
          destruct H1; unfold cs in *; cbn [fst snd register armed set_ntags] in *; auto. }
        apply (G _ _ (exec_prog_istar M (e_prog e) None s0 [])). exact A0. }
      unfold tick, check_expired in D. rewrite A, P in D. cbn [isnil fst] in D.
      rewrite K in D; [discriminate | exact A].
  Qed.
End Scan.

(* ------------------------------------------------------------------ drain *)

Lemma aget_all_none {V} (m : alist V) : (forall id, aget id m = None) -> m = [].
Proof.
  destruct m as [|[k v] r]; [reflexivity|]. intro H. specialize (H k). simpl in H.
  rewrite Z.eqb_refl in H. discriminate.
Qed.

Section Drain.
  Variable M : Z.
  Hypothesis M_pos : 1 <= M.

  (* entries that survive a Tick operation are not expired, armed or not *)
  Lemma after_tick h hint id e :
    aget id (pending (final_g M (h ++ [Tick hint]))) = Some e -> clock (final_g M h) <= e_dl e.
  Proof.
    rewrite final_snoc. cbn [step]. intro H.
    destruct (armed (final_g M h)) eqn:A.
    - eapply tick_post; eassumption.
    - exfalso. unfold tick in H. rewrite A in H. cbn [fst] in H.
      assert (P : pending (final_g M h) = []).
      { destruct (pending (final_g M h)) eqn:P; [reflexivity|].
        rewrite (timer_armed M M_pos h) in A; [discriminate | rewrite P; discriminate]. }
      rewrite P in H. discriminate.
  Qed.

  Theorem drain_complete h hint t id n :
    noclash (trace_g M (h ++ [Tick hint])) ->
    In (EIssue t id n) (trace_g M (h ++ [Tick hint])) ->
    n + Timeout < clock (final_g M h) ->
    count_cb t (trace_g M (h ++ [Tick hint])) = 1%nat.
  Proof.
    intros NC I L. destruct (model_accepted M M_pos _ NC) as (a & Acc & _ & _ & Op & _).
    pose proof (acc_from_inv _ a0 [] a AInv_init Acc) as AI. cbn [app] in AI.
    destruct (ai_done _ _ AI t id n I) as [D|D]; [exact D|]. exfalso.
    rewrite Op in D. destruct (aget id (pending (final_g M (h ++ [Tick hint])))) as [e|] eqn:G; [|discriminate].
    cbn [option_map] in D. unfold ent in D. inv D.
    pose proof (after_tick h hint id e G). lia.
  Qed.

  Theorem drain_quiescent h hint :
    noclash (trace_g M (h ++ [Tick hint])) ->
    (forall t id n, In (EIssue t id n) (trace_g M (h ++ [Tick hint])) ->
                    n + Timeout < clock (final_g M h)) ->
    pending (final_g M (h ++ [Tick hint])) = [] /\
    forall t id n, In (EIssue t id n) (trace_g M (h ++ [Tick hint])) ->
                   count_cb t (trace_g M (h ++ [Tick hint])) = 1%nat.
  Proof.
    intros NC All. split.
    - apply aget_all_none. intro id.
      destruct (aget id (pending (final_g M (h ++ [Tick hint])))) as [e|] eqn:G; [|reflexivity]. exfalso.
      destruct (model_accepted M M_pos _ NC) as (a & Acc & _ & _ & Op & _).
      pose proof (acc_from_inv _ a0 [] a AInv_init Acc) as AI. cbn [app] in AI.
      assert (Go : aget id (a_open a) = Some (ent e)) by (rewrite Op, G; reflexivity).
      destruct (ai_open _ _ AI id _ _ Go) as (_ & _ & _ & x & y & T & _).
      assert (I : In (EIssue (e_tag e) id (e_dl e - Timeout)) (trace_g M (h ++ [Tick hint]))).
      { rewrite T. apply in_or_app. right. left. reflexivity. }
      pose proof (All _ _ _ I). pose proof (after_tick h hint id e G). lia.
    - intros t id n I. eapply drain_complete; eauto.
  Qed.
End Drain.

(* ------------------------------------------------------------------ id wrap-around *)

Section Wrap.
  Variable M : Z.
  Hypothesis M_pos : 1 <= M.

  (* where the id of an entry allocated j allocations ago lies, while j < M *)
  Definition pos_ok (s : st) (id : Z) (e : entry) : Prop :=
    e_ser e < nalloc s /\
    (nalloc s - 1 - e_ser e < M ->
     id = if 1 <=? next s - (nalloc s - 1 - e_ser e)
          then next s - (nalloc s - 1 - e_ser e)
          else next s - (nalloc s - 1 - e_ser e) + M).

  Definition W (c : cfg) : Prop :=
    0 <= next (cs c) <= M /\
    (forall id e, aget id (pending (cs c)) = Some e -> pos_ok (cs c) id e) /\
    (forall id sp, In (EClash id sp) (ct c) -> M <= sp).

  Lemma W_prim c c' : prim M c c' -> W c -> W c'.
  Proof.
    intros P (R & Pos & Cl). unfold W.
    destruct P as [c c' P|s tr m Hm|s tr id k G|s tr id k e G|s tr Ar Pe|s tr Ar Pn|s tr id e G D LM
                   |s tr id|s tr dt Hd|s tr v Hv Pe]; unfold cs, ct in *; cbn [fst snd] in *.
    - destruct P as [f s tr u p|f s tr|f s tr]; cbn [fst snd] in *.
      + unfold register; cbn [fst snd pending next nalloc].
        pose proof (alloc_range M M_pos (next s) R) as Hid.
        split; [lia|]. split.
        * intros id e H. destruct (Z.eq_dec id (alloc_id M (next s))) as [->|Ne].
          { rewrite aget_aset_same in H. inv H. unfold pos_ok; cbn [e_ser nalloc next].
            split; [lia|]. intros _. replace (nalloc s + 1 - 1 - nalloc s) with 0 by lia.
            rewrite Z.sub_0_r. destruct (Z.leb_spec 1 (alloc_id M (next s))); [reflexivity | lia]. }
          { rewrite aget_aset_other in H by exact Ne. destruct (Pos id e H) as [L F].
            unfold pos_ok; cbn [nalloc next]. split; [lia|]. intro J.
            assert (J0 : nalloc s - 1 - e_ser e < M) by lia. specialize (F J0).
            unfold alloc_id in *. destruct (Z.leb_spec M (next s)).
            - assert (next s = M) by lia.
              destruct (Z.leb_spec 1 (next s - (nalloc s - 1 - e_ser e)));
              destruct (Z.leb_spec 1 (1 - (nalloc s + 1 - 1 - e_ser e))); lia.
            - destruct (Z.leb_spec 1 (next s - (nalloc s - 1 - e_ser e)));
              destruct (Z.leb_spec 1 (next s + 1 - (nalloc s + 1 - 1 - e_ser e))); lia. }
        * intros id sp I. apply in_app_or in I. destruct I as [I|I]; [apply (Cl id sp I)|].
          apply in_app_or in I. destruct I as [I|I].
          { destruct (aget (alloc_id M (next s)) (pending s)) as [v|] eqn:G; [|inversion I].
            destruct I as [E|[]]. inv E. destruct (Pos _ _ G) as [L F].
            destruct (Z.lt_ge_cases (nalloc s - e_ser v) M) as [Lt|Ge]; [|exact Ge]. exfalso.
            assert (J0 : nalloc s - 1 - e_ser v < M) by lia. specialize (F J0).
            unfold alloc_id in *. destruct (Z.leb_spec M (next s));
              destruct (Z.leb_spec 1 (next s - (nalloc s - 1 - e_ser v))); lia. }
          { destruct I as [E|I]; [discriminate|]. destruct u; [inversion I|]. destruct I as [E|[]]. discriminate. }
      + split; [exact R|]. split; [exact Pos|]. intros id sp I. apply in_snoc in I. destruct I as [I|E]; [eapply Cl; eassumption | discriminate].
      + cbn [set_ntags next pending]. split; [exact R|]. split; [exact Pos|].
        intros id sp I. apply in_app_or in I. destruct I as [I|[E|[E|[]]]]; [eapply Cl; eassumption | discriminate | discriminate].
    - split; [exact R|]. split; [exact Pos|]. intros id' sp I. apply in_snoc in I.
      destruct I as [I|E]; [eapply Cl; eassumption | destruct Hm; subst; discriminate].
    - split; [exact R|]. split; [exact Pos|]. intros id' sp I. apply in_app_or in I.
      destruct I as [I|[E|[E|[]]]]; [eapply Cl; eassumption | discriminate | discriminate].
    - split; [exact R|]. split; [exact Pos|]. intros id' sp I. apply in_app_or in I.
      destruct I as [I|[E|[E|[]]]]; [eapply Cl; eassumption | discriminate | discriminate].
    - cbn [set_armed next pending]. split; [exact R|]. split; [exact Pos|]. intros id' sp I. apply in_snoc in I.
      destruct I as [I|E]; [eapply Cl; eassumption | discriminate].
    - split; [exact R|]. split; [exact Pos|]. intros id' sp I. apply in_snoc in I.
      destruct I as [I|E]; [eapply Cl; eassumption | discriminate].
    - split; [exact R|]. split; [exact Pos|]. intros id' sp I. apply in_snoc in I.
      destruct I as [I|E]; [eapply Cl; eassumption | discriminate].
    - cbn [set_pending next pending]. split; [exact R|]. split; [|exact Cl].
      intros id' e' H. destruct (Z.eq_dec id' id) as [->|Ne]; [rewrite aget_adel_same in H; discriminate|].
      rewrite aget_adel_other in H by exact Ne. apply (Pos id' e' H).
    - cbn [set_clock next pending]. split; [exact R|]. split; [exact Pos | exact Cl].
    - cbn [set_next next pending]. split; [lia|]. split; [|exact Cl]. rewrite Pe. intros id' e' H. discriminate.
  Qed.

  (* a registration overwrites a live entry only if at least M ids were allocated since
     (and including) that entry's own *)
  Theorem clash_needs_wrap ops id sp : In (EClash id sp) (trace_g M ops) -> M <= sp.
  Proof.
    assert (H : W (None, final_g M ops, trace_g M ops)).
    { apply (run_inv M W); [intros c c' P; apply W_prim; exact P|].
      unfold W, cs, ct; cbn. split; [lia|]. split; [intros; discriminate | intros ? ? []]. }
    destruct H as (_ & _ & Cl). apply Cl.
  Qed.
End Wrap.

(* ------------------------------------------------------------------ the monitor accepts every clash-free model run *)

From Cell2V Require Import C01.Corr.

Lemma last_marker_block tr m x :
  is_marker m = true -> nomark x -> last_marker (tr ++ m :: x) = Some m.
Proof.
  intros Hm Hx. rewrite last_marker_app. unfold lm_from. cbn [fold_left]. rewrite Hm.
  apply (lm_from_nomark x Hx).
Qed.

Lemma peer_eqb_refl l : peer_eqb l l = true.
Proof.
  unfold peer_eqb. apply list_eqb_spec; [|reflexivity].
  intros p q. apply pair_eqb_spec; intros; apply Z.eqb_eq.
Qed.

Section Monitor.
  Variable M : Z.
  Hypothesis M_pos : 1 <= M.

  Lemma exec_nomark a s : nomark (snd (exec M a s)).
  Proof.
    destruct (istar_facts M _ _ (exec_is_chain M a None s [])) as (_ & _ & _ & o & T & Mk & _).
    unfold ct in T; cbn [snd app] in T. subst o. exact Mk.
  Qed.

  Lemma head_ok_step s o : head_ok o (snd (step M s o)) = true.
  Proof.
    destruct o as [a|id k| |id|h|h|dt|v|v|u]; cbn [step snd head_ok]; try reflexivity.
    - unfold handle_resp. destruct (aget id (pending s)); cbn [snd]; rewrite Z.eqb_refl, kind_eqb_refl; reflexivity.
    - destruct (tick_shape M s h) as [(_ & o & -> & _)|(_ & ->)]; reflexivity.
    - destruct (tick_shape M s h) as [(_ & o & -> & _)|(_ & ->)]; reflexivity.
  Qed.

  Lemma step_scan s o tr now :
    tick_of (last_marker (tr ++ snd (step M s o))) = Some now ->
    forall id e, aget id (pending (fst (step M s o))) = Some e -> now <= e_dl e.
  Proof.
    destruct o as [a|id k| |id|h|h|dt|v|v|u]; cbn [step snd fst].
    - rewrite last_marker_block; [discriminate | reflexivity | apply exec_nomark].
    - unfold handle_resp. destruct (aget id (pending s)) eqn:G; cbn [snd].
      + rewrite last_marker_block; [discriminate | reflexivity | apply fire_facts].
      + rewrite last_marker_block; [discriminate | reflexivity | intros x [<-|[]]; reflexivity].
    - rewrite last_marker_snoc. discriminate.
    - rewrite last_marker_snoc. discriminate.
    - destruct (tick_shape M s h) as [(A & o & E & Mk)|(A & E)]; rewrite E; cbn [snd].
      + rewrite (last_marker_block tr (ETick (clock s)) o eq_refl Mk). intro K. inv K.
        apply tick_post. exact A.
      + rewrite last_marker_snoc. discriminate.
    - rewrite app_assoc.
      destruct (tick_shape M (fst (tick M s h)) []) as [(A & o & E & Mk)|(A & E)]; rewrite E; cbn [snd].
      + rewrite (last_marker_block _ (ETick (clock (fst (tick M s h)))) o eq_refl Mk). intro K. inv K.
        apply tick_post. exact A.
      + rewrite last_marker_snoc. discriminate.
    - rewrite last_marker_snoc. discriminate.
    - rewrite last_marker_snoc. discriminate.
    - rewrite last_marker_snoc. discriminate.
    - rewrite last_marker_snoc. discriminate.
  Qed.

  Lemma monitor_run r : forall h a,
    noclash (trace_g M (h ++ r)) -> acc_from a0 (trace_g M h) = Some a ->
    mon_from a r (run_obs M (final_g M h) r) = true.
  Proof.
    induction r as [|o r IH]; intros h a NC Acc; [reflexivity|].
    cbn [run_obs mon_from observe].
    assert (E : h ++ o :: r = (h ++ [o]) ++ r) by (rewrite <- app_assoc; reflexivity).
    rewrite E in NC. assert (NC1 : noclash (trace_g M (h ++ [o]))).
    { rewrite trace_app in NC. apply noclash_app in NC. tauto. }
    destruct (model_accepted M M_pos _ NC1) as (a' & Acc' & Idle & Tk & Op & Keys).
    pose proof (acc_from_inv _ a0 [] a' AInv_init Acc') as AI. cbn [app] in AI.
    rewrite head_ok_step. cbn [andb].
    assert (S : acc_from a (snd (step M (final_g M h) o)) = Some a').
    { rewrite trace_snoc, acc_from_app, Acc in Acc'. exact Acc'. }
    rewrite S. rewrite <- final_snoc.
    assert (B1 : settled a' = true) by (unfold settled; rewrite Idle; reflexivity).
    assert (B2 : zlist_eqb (akeys (a_open a')) (akeys (pending (final_g M (h ++ [o])))) = true)
      by (apply zlist_eqb_spec; exact Keys).
    assert (B3 : isnil (akeys (pending (final_g M (h ++ [o])))) || armed (final_g M (h ++ [o])) = true).
    { destruct (pending (final_g M (h ++ [o]))) eqn:P; [reflexivity|].
      rewrite (timer_armed M M_pos (h ++ [o])); [apply orb_true_r | rewrite P; discriminate]. }
    assert (B4 : scan_post a' = true).
    { unfold scan_post. destruct (a_tick a') as [now|] eqn:T; [|reflexivity].
      apply forallb_forall. intros [id [t n]] I. cbn [snd].
      apply (in_aget _ _ _ (ai_sorted _ _ AI)) in I. rewrite Op in I.
      destruct (aget id (pending (final_g M (h ++ [o])))) as [e|] eqn:G; [|discriminate].
      cbn [option_map] in I. unfold ent in I. inv I.
      rewrite trace_snoc in Tk. symmetry in Tk. rewrite final_snoc in G.
      pose proof (step_scan _ _ _ _ Tk id e G). lia. }
    rewrite B1, B2, B3, B4, Z.eqb_refl, peer_eqb_refl. cbn [andb].
    apply IH; [exact NC | exact Acc'].
  Qed.

  Theorem monitor_sound ops :
    noclash (trace_g M ops) -> mon_from a0 ops (run_obs M init ops) = true.
  Proof. intro NC. apply (monitor_run ops [] a0); [exact NC | reflexivity]. Qed.
End Monitor.

(* ------------------------------------------------------------------ statements as used by Props.v *)

Lemma noclash_b_spec tr : noclash_b tr = true -> noclash tr.
Proof.
  unfold noclash_b. intros H id sp I. rewrite forallb_forall in H. specialize (H _ I). discriminate.
Qed.

Lemma maxreqid_pos : 1 <= MaxReqId.
Proof. unfold MaxReqId. lia. Qed.

Lemma model_at_most_once M ops : 1 <= M -> noclash (trace_g M ops) -> at_most_once (trace_g M ops).
Proof. intros P NC. apply (model_trace_props M P ops NC). Qed.

Lemma model_issue_unique M ops : 1 <= M -> noclash (trace_g M ops) -> issue_unique (trace_g M ops).
Proof. intros P NC. apply (model_trace_props M P ops NC). Qed.

Lemma model_matching M ops : 1 <= M -> noclash (trace_g M ops) -> matching (trace_g M ops).
Proof. intros P NC. apply (model_trace_props M P ops NC). Qed.

Lemma model_drops M ops : 1 <= M -> noclash (trace_g M ops) -> drops_ok (trace_g M ops).
Proof. intros P NC. apply (model_trace_props M P ops NC). Qed.

Lemma model_sent M ops : 1 <= M -> noclash (trace_g M ops) -> sent_after_issue (trace_g M ops).
Proof. intros P NC. apply (model_trace_props M P ops NC). Qed.

Lemma model_resp_completes M ops :
  1 <= M -> noclash (trace_g M ops) -> resp_completes (trace_g M ops).
Proof.
  intros P NC. apply accepts_resp_completes.
  destruct (model_accepted M P ops NC) as (a & Acc & Idle & _).
  unfold accepts, settled. rewrite Acc, Idle. reflexivity.
Qed.

Lemma model_accepts M ops : 1 <= M -> noclash (trace_g M ops) -> accepts (trace_g M ops) = true.
Proof.
  intros P NC. destruct (model_accepted M P ops NC) as (a & Acc & Idle & _).
  unfold accepts, settled. rewrite Acc, Idle. reflexivity.
Qed.

Lemma accepts_sound tr :
  accepts tr = true ->
  at_most_once tr /\ issue_unique tr /\ matching tr /\ drops_ok tr /\ sent_after_issue tr.
Proof.
  unfold accepts. destruct (acc_from a0 tr) as [a|] eqn:E; [|discriminate]. intros _.
  pose proof (acceptor_sound tr a E). tauto.
Qed.

(* ---- the value received by the callback *)

Lemma matching_value_exact tr : matching tr -> value_exact tr.
Proof.
  intros Hm pre t c post E RC. specialize (Hm pre t c post E).
  destruct c; simpl in RC; try discriminate; simpl in Hm; exact Hm.
Qed.

Lemma matching_wellformed tr : matching tr -> values_wellformed tr.
Proof.
  intros Hm t I. apply in_split in I. destruct I as (pre & post & E).
  specialize (Hm pre t ROther post E). simpl in Hm.
  destruct Hm as (a & id & n & b & k & _ & _ & C).
  exact (cls_of_not_other k (eq_sym C)).
Qed.

Lemma accepts_value tr : accepts tr = true -> value_exact tr /\ values_wellformed tr.
Proof.
  intro A. destruct (accepts_sound tr A) as (_ & _ & Hm & _).
  split; [apply matching_value_exact | apply matching_wellformed]; exact Hm.
Qed.

Lemma model_value M ops :
  1 <= M -> noclash (trace_g M ops) ->
  value_exact (trace_g M ops) /\ values_wellformed (trace_g M ops).
Proof.
  intros P NC. pose proof (model_matching M ops P NC) as Hm.
  split; [apply matching_value_exact | apply matching_wellformed]; exact Hm.
Qed.

(* an all-default reply, a typed nil pointer and a typed response with an empty body are
   delivered as the non-nil zero message; nil only for the untyped nil; an error code wins over
   whatever body travels with it *)
Lemma value_boundaries :
  cls_of (KAns 0 0 (MHello 0 0)) = RReply (VHello 0 0) /\
  cls_of (KAns 0 0 MTypedNil) = RReply (VHello 0 0) /\
  cls_of (KAns 0 0 MEmpty) = RReply VEmpty /\
  cls_of (KAns 0 0 MNil) = RNil /\
  (forall e, cls_of (KRaw (Wire 0 e TyHello (BFields 0 0))) = RReply (VHello 0 0)) /\
  (forall e b, cls_of (KRaw (Wire 0 e TyUnknown b)) = RBad false) /\
  (forall e b, cls_of (KRaw (Wire 0 e TyNone b)) = RNil) /\
  (forall c e t b, c <> 0 -> cls_of (KRaw (Wire c e t b)) = RErr e) /\
  (forall c e m, c <> 0 -> cls_of (KAns c e m) = RErr e).
Proof.
  repeat split; try reflexivity.
  - intros c e t b N. unfold cls_of, wire_of, decode. destruct (Z.eqb_spec c 0); [contradiction | reflexivity].
  - intros c e m N. rewrite roundtrip. destruct (Z.eqb_spec c 0); [contradiction | reflexivity].
Qed.

Lemma monitor_model ops : noclash (trace ops) -> monitor (ops, run ops) = true.
Proof. intro NC. apply (monitor_sound MaxReqId maxreqid_pos ops NC). Qed.

(* a Tick op run in a state whose timer is armed leaves no expired entry *)
Lemma scan_complete M s h id e :
  armed s = true -> aget id (pending (fst (step M s (Tick h)))) = Some e -> clock s <= e_dl e.
Proof. intros A H. eapply tick_post; eassumption. Qed.

Lemma timer_disarm M s h :
  armed s = true -> armed (fst (step M s (Tick h))) = false ->
  pending s = [] /\ step M s (Tick h) = (set_armed s false, [ETick (clock s)]).
Proof. apply tick_disarm. Qed.

Lemma istar_armed M c c' : istar M c c' -> armed (cs c) = true -> armed (cs c') = true.
Proof.
  induction 1 as [c|c1 c2 c3 H1 _ IH2]; [auto|]. intro A1. apply IH2.
  destruct H1; unfold cs in *; cbn [fst snd register armed set_ntags] in *; auto.
Qed.

(* only a Tick can switch the timer off *)
Lemma step_keeps_armed M s o :
  armed s = true -> (forall h, o <> Tick h) -> (forall h, o <> TickReal h) ->
  armed (fst (step M s o)) = true.
Proof.
  intros A N1 N2. destruct o as [a|id k| |id|h|h|dt|v|v|u]; cbn [step fst].
  - apply (istar_armed M _ _ (exec_is_chain M a None s [])). exact A.
  - unfold handle_resp. destruct (aget id (pending s)) as [e|] eqn:G; cbn [fst]; [|exact A].
    unfold fire. rewrite G. cbn [fst set_pending armed].
    apply (istar_armed M _ _ (exec_prog_istar M (e_prog e) None s [])). exact A.
  - exact A.
  - exact A.
  - destruct (N1 h eq_refl).
  - destruct (N2 h eq_refl).
  - destruct (0 <=? dt); exact A.
  - destruct ((0 <=? v) && (v <=? M) && isnil (pending s)); exact A.
  - exact A.
  - exact A.
Qed.

(* ------------------------------------------------------------------ a response for a pending id, state level *)

Lemma resp_step M s id k e :
  aget id (pending s) = Some e ->
  let r := exec_prog M (e_prog e) s in
  step M s (Resp id k) =
    (set_pending (fst r) (adel id (pending (fst r))),
     EResp id k :: ECb (e_tag e) (cls_of k) :: snd r) /\
  aget id (pending (fst (step M s (Resp id k)))) = None /\
  (noclash (snd r) -> forall id' e', id' <> id -> aget id' (pending s) = Some e' ->
                      aget id' (pending (fst (step M s (Resp id k)))) = Some e') /\
  (e_prog e = [] ->
   step M s (Resp id k) =
     (set_pending s (adel id (pending s)), [EResp id k; ECb (e_tag e) (cls_of k)])).
Proof.
  intros G r.
  assert (E : step M s (Resp id k) =
              (set_pending (fst r) (adel id (pending (fst r))),
               EResp id k :: ECb (e_tag e) (cls_of k) :: snd r)).
  { cbn [step]. unfold handle_resp. rewrite G. unfold fire. rewrite G. reflexivity. }
  split; [exact E|]. rewrite E. cbn [fst set_pending pending]. split; [apply aget_adel_same|]. split.
  - intros NC id' e' Ne H. rewrite aget_adel_other by exact Ne.
    destruct (istar_facts M _ _ (exec_prog_istar M (e_prog e) None s [])) as (_ & _ & _ & o & T & _ & K).
    unfold cs, ct in *; cbn [fst snd app] in *. subst o. apply K; assumption.
  - intro P. unfold r. rewrite P. reflexivity.
Qed.

(* ------------------------------------------------------------------ the model agrees with itself
   (the hints Corr.v derives from a run's own timeout order reproduce that run) *)

Lemma timeout_tags_app a b : timeout_tags (a ++ b) = timeout_tags a ++ timeout_tags b.
Proof.
  induction a as [|e r IH]; [reflexivity|]. destruct e; cbn [timeout_tags app]; try exact IH.
  destruct c; cbn [app]; rewrite ?IH; reflexivity.
Qed.

Lemma istar_no_timeouts M c c' :
  istar M c c' -> exists o, ct c' = ct c ++ o /\ timeout_tags o = [].
Proof.
  induction 1 as [c|c1 c2 c3 H1 _ (o2 & T2 & N2)].
  - exists []. rewrite app_nil_r. auto.
  - assert (exists o1, ct c2 = ct c1 ++ o1 /\ timeout_tags o1 = []) as (o1 & T1 & N1).
    { destruct H1 as [f s tr u p|f s tr|f s tr]; unfold ct; cbn [snd]; eexists; (split; [reflexivity|]).
      - unfold register; cbn [snd]. destruct (aget (alloc_id M (next s)) (pending s)); destruct u; reflexivity.
      - reflexivity.
      - reflexivity. }
    exists (o1 ++ o2). split; [rewrite T2, T1, app_assoc; reflexivity|].
    rewrite timeout_tags_app, N1, N2. reflexivity.
Qed.

Definition tag_at (s : st) (id : Z) : Z :=
  match aget id (pending s) with Some e => e_tag e | None => 0 end.

Lemma dedup_all_seen r : forall seen, (forall x, In x r -> In x seen) -> dedup seen r = [].
Proof.
  induction r as [|x r IH]; intros seen H; [reflexivity|]. simpl.
  assert (E : zmem x seen = true) by (apply zmem_In; apply H; left; reflexivity).
  rewrite E. apply IH. intros y I. apply H. right. exact I.
Qed.

Lemma dedup_app_self l : forall seen r,
  NoDup l -> (forall x, In x l -> ~ In x seen) -> (forall x, In x r -> In x l \/ In x seen) ->
  dedup seen (l ++ r) = l.
Proof.
  induction l as [|x l IH]; intros seen r ND D S; cbn [app].
  - apply dedup_all_seen. intros y I. destruct (S y I) as [[]|K]; exact K.
  - inv ND. simpl. destruct (zmem x seen) eqn:E.
    + apply zmem_In in E. exfalso. apply (D x); [left; reflexivity | exact E].
    + f_equal. apply IH; [assumption| |].
      * intros y I [->|K]; [contradiction | apply (D y); [right; exact I | exact K]].
      * intros y I. destruct (S y I) as [[->|K]|K]; [right; left; reflexivity | left; exact K | right; right; exact K].
Qed.

Lemma filter_singleton (f : Z -> bool) (E : list Z) id :
  NoDup E -> In id E -> (forall x, In x E -> (f x = true <-> x = id)) -> filter f E = [id].
Proof.
  induction E as [|y E IH]; intros ND I H; [inversion I|]. inv ND. simpl.
  destruct (Z.eq_dec y id) as [->|Ne].
  - assert (F : f id = true) by (apply H; [left; reflexivity | reflexivity]). rewrite F. f_equal.
    assert (K : forall x, In x E -> f x = false).
    { intros x Ix. destruct (f x) eqn:Fx; [|reflexivity]. apply H in Fx; [subst; contradiction | right; exact Ix]. }
    clear - K. induction E as [|z E IH]; [reflexivity|]. simpl. rewrite (K z (or_introl eq_refl)).
    apply IH. intros x Ix. apply K. right. exact Ix.
  - destruct (f y) eqn:Fy; [apply H in Fy; [contradiction | left; reflexivity]|].
    destruct I as [->|I]; [contradiction|]. apply IH; [assumption | exact I|].
    intros x Ix. apply H. right. exact Ix.
Qed.

Lemma flat_map_singleton {A} (g : A -> list A) l : (forall x, In x l -> g x = [x]) -> flat_map g l = l.
Proof.
  induction l as [|x l IH]; intro H; [reflexivity|]. simpl. rewrite (H x (or_introl eq_refl)).
  simpl. f_equal. apply IH. intros y I. apply H. right. exact I.
Qed.

Lemma list_eqb_refl {A} (eqb : A -> A -> bool) : (forall x, eqb x x = true) -> forall l, list_eqb eqb l l = true.
Proof. intros H l. induction l as [|x l IH]; [reflexivity|]. simpl. rewrite H, IH. reflexivity. Qed.

Lemma ev_eqb_refl e : ev_eqb e e = true.
Proof.
  destruct e; simpl; rewrite ?Z.eqb_refl, ?kind_eqb_refl, ?cls_eqb_refl; reflexivity.
Qed.

Lemma obs_eqb_refl o : obs_eqb o o = true.
Proof.
  destruct o as [e p a g s l]. simpl.
  rewrite (list_eqb_refl ev_eqb ev_eqb_refl), Z.eqb_refl, peer_eqb_refl.
  assert (Zl : zlist_eqb p p = true) by (apply zlist_eqb_spec; reflexivity).
  rewrite Zl. destruct a; reflexivity.
Qed.

Section Rehint.
  Variable M : Z.
  Hypothesis M_pos : 1 <= M.

  Definition tags_distinct (s : st) : Prop :=
    forall id1 id2 e1 e2, aget id1 (pending s) = Some e1 -> aget id2 (pending s) = Some e2 ->
                          e_tag e1 = e_tag e2 -> id1 = id2.

  Lemma fire_all_tags l : forall s,
    NoDup l -> (forall id, In id l -> aget id (pending s) <> None) ->
    noclash (snd (fire_all M s l)) ->
    timeout_tags (snd (fire_all M s l)) = map (tag_at s) l.
  Proof.
    induction l as [|id r IH]; intros s ND P NC; [reflexivity|]. inv ND.
    cbn [fire_all snd map] in *. unfold fire in *.
    destruct (aget id (pending s)) as [e|] eqn:G; [|exfalso; apply (P id); [left; reflexivity | exact G]].
    cbn [fst snd] in *.
    pose proof (exec_prog_istar M (e_prog e) None s []) as IS.
    destruct (istar_no_timeouts M _ _ IS) as (o & T & N0).
    destruct (istar_facts M _ _ IS) as (_ & _ & _ & o' & T' & _ & K).
    unfold cs, ct in *; cbn [fst snd app] in *. subst o o'.
    assert (NC' : noclash (snd (exec_prog M (e_prog e) s) ++
                           snd (fire_all M (set_pending (fst (exec_prog M (e_prog e) s))
                                  (adel id (pending (fst (exec_prog M (e_prog e) s))))) r)))
      by (intros i sp I; apply (NC i sp); right; exact I).
    apply noclash_app in NC'. destruct NC' as [NC1 NC2].
    cbn [timeout_tags]. rewrite timeout_tags_app, N0. cbn [app]. unfold tag_at at 1. rewrite G. f_equal.
    set (s1 := set_pending (fst (exec_prog M (e_prog e) s))
                 (adel id (pending (fst (exec_prog M (e_prog e) s))))) in *.
    assert (Keep : forall id', In id' r -> aget id' (pending s1) = aget id' (pending s)).
    { intros id' I. unfold s1; cbn [set_pending pending].
      rewrite aget_adel_other by (intro; subst; contradiction).
      destruct (aget id' (pending s)) as [e'|] eqn:G'; [apply K; assumption|].
      exfalso. apply (P id'); [right; exact I | exact G']. }
    rewrite IH; [| assumption | | exact NC2].
    - apply map_ext_in. intros id' I. unfold tag_at. rewrite (Keep id' I). reflexivity.
    - intros id' I. rewrite (Keep id' I). apply P. right. exact I.
  Qed.

  Lemma order_rehint s h :
    sorted (pending s) -> tags_distinct s ->
    order M (map (tag_at s) (order M h s)) s = order M h s.
  Proof.
    intros S D. destruct (order_spec h s) as [ND Sub].
    assert (NE : NoDup (expired_ids M s)).
    { unfold expired_ids. apply NoDup_filter. apply sorted_nodup_keys. exact S. }
    unfold order at 1. rewrite flat_map_concat_map, map_map, <- flat_map_concat_map.
    rewrite (flat_map_singleton (fun id => filter (fun id' => tag_is s id' (tag_at s id)) (expired_ids M s))).
    - apply dedup_app_self; [exact ND | intros x _ [] |].
      intros x I. left. unfold order. apply dedup_complete; [|intros []]. apply in_or_app. right. exact I.
    - intros id I. apply filter_singleton; [exact NE | apply Sub; exact I|].
      intros x Ix. destruct (expired_in s x Ix) as (ex & Gx & _).
      destruct (expired_in s id (Sub id I)) as (ei & Gi & _).
      unfold tag_is, tag_at. rewrite Gx, Gi. split.
      + intro E. apply (D x id ex ei Gx Gi). lia.
      + intros ->. rewrite Gx in Gi. inv Gi. apply Z.eqb_refl.
  Qed.

  Lemma tick_rehint s h :
    sorted (pending s) -> tags_distinct s -> noclash (snd (tick M s h)) ->
    tick M s (timeout_tags (snd (tick M s h))) = tick M s h.
  Proof.
    intros S D NC. unfold tick in *. destruct (armed s); [|reflexivity]. cbn [snd fst] in *.
    unfold check_expired in *. destruct (isnil (pending s)); [reflexivity|].
    cbn [timeout_tags].
    change (ETick (clock s) :: snd (fire_all M s (order M h s)))
      with ([ETick (clock s)] ++ snd (fire_all M s (order M h s))) in NC.
    apply noclash_app in NC. destruct NC as [_ NC].
    destruct (order_spec h s) as [ND Sub].
    rewrite fire_all_tags; [|exact ND| |exact NC].
    - rewrite order_rehint by assumption. reflexivity.
    - intros id I. destruct (expired_in s id (Sub id I)) as (e & G & _). congruence.
  Qed.

  Lemma second_tick_quiet s h :
    timeout_tags (snd (tick M (fst (tick M s h)) [])) = [].
  Proof.
    destruct (tick_shape M s h) as [(A & _)|(A & E)].
    - set (s1 := fst (tick M s h)).
      assert (Ex : expired_ids M s1 = []).
      { unfold expired_ids. assert (F : forall id, expired_b M s1 id = false).
        { intro id. unfold expired_b. destruct (aget id (pending s1)) as [e|] eqn:G; [|reflexivity].
          pose proof (tick_post M s h A id e G). unfold s1. rewrite tick_clock. lia. }
        induction (akeys (pending s1)) as [|x l IH]; [reflexivity|]. simpl. rewrite F. exact IH. }
      unfold tick. destruct (armed s1); [|reflexivity]. cbn [snd]. unfold check_expired.
      destruct (isnil (pending s1)); [reflexivity|]. unfold order. rewrite Ex. reflexivity.
    - rewrite E. cbn [fst]. unfold tick. rewrite A. reflexivity.
  Qed.

  Definition rehint (o : op) (evs : list ev) : op :=
    match o with
    | Tick _ => Tick (timeout_tags evs)
    | TickReal _ => TickReal (timeout_tags evs)
    | _ => o
    end.

  Lemma step_rehint s o :
    sorted (pending s) -> tags_distinct s -> noclash (snd (step M s o)) ->
    step M s (rehint o (snd (step M s o))) = step M s o /\
    got_of (rehint o (snd (step M s o))) = got_of o.
  Proof.
    intros S D NC. destruct o as [a|id k| |id|h|h|dt|v|v|u]; cbn [rehint]; try (split; reflexivity).
    - cbn [step] in *. split; [apply tick_rehint; assumption | reflexivity].
    - cbn [step snd] in *. split; [|reflexivity].
      rewrite timeout_tags_app, second_tick_quiet, app_nil_r.
      apply noclash_app in NC. destruct NC as [NC1 _].
      rewrite tick_rehint by assumption. reflexivity.
  Qed.

  Lemma reach_tags_distinct h : noclash (trace_g M h) -> tags_distinct (final_g M h).
  Proof.
    intros NC id1 id2 e1 e2 G1 G2 E.
    destruct (model_accepted M M_pos h NC) as (a & Acc & _ & _ & Op & _).
    pose proof (acc_from_inv _ a0 [] a AInv_init Acc) as AI. cbn [app] in AI.
    assert (O1 : aget id1 (a_open a) = Some (ent e1)) by (rewrite Op, G1; reflexivity).
    assert (O2 : aget id2 (a_open a) = Some (ent e2)) by (rewrite Op, G2; reflexivity).
    unfold ent in *. rewrite E in O1. eapply (ai_tags _ _ AI); eassumption.
  Qed.

  Lemma with_hints_cons o r b br :
    with_hints (o :: r) (b :: br) =
    rehint o (match b with Obs evs _ _ _ _ _ => evs end) :: with_hints r br.
  Proof. destruct b. destruct o; reflexivity. Qed.

  Lemma rehint_run r : forall h,
    noclash (trace_g M (h ++ r)) ->
    run_obs M (final_g M h) (with_hints r (run_obs M (final_g M h) r)) = run_obs M (final_g M h) r.
  Proof.
    induction r as [|o r IH]; intros h NC; [reflexivity|].
    cbn [run_obs]. rewrite with_hints_cons. cbn [observe run_obs].
    assert (E : h ++ o :: r = (h ++ [o]) ++ r) by (rewrite <- app_assoc; reflexivity).
    rewrite E in NC. assert (NC1 : noclash (trace_g M (h ++ [o]))).
    { rewrite trace_app in NC. apply noclash_app in NC. tauto. }
    rewrite trace_snoc in NC1. apply noclash_app in NC1. destruct NC1 as [NC0 NCo].
    destruct (sim_run M M_pos h) as [(S & _) _]. unfold cs in S; cbn [fst snd] in S.
    destruct (step_rehint (final_g M h) o S (reach_tags_distinct h NC0) NCo) as [Es Eg].
    rewrite Es. unfold observe. rewrite Eg. f_equal.
    rewrite <- final_snoc. apply IH. exact NC.
  Qed.
End Rehint.

Lemma agree_model ops : noclash (trace ops) -> agree (ops, run ops) = true.
Proof.
  intro NC. unfold agree, run. cbn [fst snd].
  pose proof (rehint_run MaxReqId maxreqid_pos ops [] NC) as H. unfold final_g in H. cbn [run_from fst app] in H.
  rewrite H. apply list_eqb_refl. exact obs_eqb_refl.
Qed.
