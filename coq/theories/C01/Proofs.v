(* C01 - proofs.
   Part 1: every model step is a chain of primitive transitions over configurations
           (in-flight id, state, trace so far); invariants are then checked per primitive.
   Part 2: the acceptor of Spec.v is sound for the trace clauses of the property.
   Part 3: clash-free model traces are accepted (simulation), wrap-around, timer, drain. *)
From Cell2V Require Import Common.Tac Common.ListX Common.AList C01.Model C01.Spec.

(* ------------------------------------------------------------------ small list facts *)

Lemma noclash_app a b : noclash (a ++ b) <-> noclash a /\ noclash b.
Proof.
  unfold noclash. split.
  - intro H. split; intros id sp I; apply (H id sp); apply in_or_app; auto.
  - intros [H1 H2] id sp I. apply in_app_or in I. destruct I as [I|I]; [eapply H1 | eapply H2]; eauto.
Qed.

Lemma noclash_nil : noclash [].
Proof. intros id sp I. inversion I. Qed.

Definition nomark (o : list ev) : Prop := forall e, In e o -> is_marker e = false.

Lemma nomark_app a b : nomark a -> nomark b -> nomark (a ++ b).
Proof. intros Ha Hb e I. apply in_app_or in I. destruct I; auto. Qed.

Definition lm_from (acc : option ev) (l : list ev) : option ev :=
  fold_left (fun acc e => if is_marker e then Some e else acc) l acc.

Lemma last_marker_app a b : last_marker (a ++ b) = lm_from (last_marker a) b.
Proof. unfold last_marker, lm_from. apply fold_left_app. Qed.

Lemma lm_from_nomark o : nomark o -> forall acc, lm_from acc o = acc.
Proof.
  induction o as [|e r IH]; intros H acc; [reflexivity|].
  unfold lm_from. simpl. rewrite (H e (or_introl eq_refl)). apply IH.
  intros x I. apply H. right. exact I.
Qed.

Lemma last_marker_nomark tr o : nomark o -> last_marker (tr ++ o) = last_marker tr.
Proof. intro H. rewrite last_marker_app. apply lm_from_nomark. exact H. Qed.

Lemma dedup_spec l : forall seen,
  NoDup (dedup seen l) /\ (forall x, In x (dedup seen l) -> In x l /\ ~ In x seen).
Proof.
  induction l as [|x r IH]; intro seen; simpl.
  - split; [constructor | intros y []].
  - destruct (zmem x seen) eqn:E.
    + destruct (IH seen) as [N S]. split; [exact N|]. intros y I. destruct (S y I). auto.
    + destruct (IH (x :: seen)) as [N S]. split.
      * constructor; [|exact N]. intro I. destruct (S x I) as [_ K]. apply K. left. reflexivity.
      * intros y [<-|I].
        { split; [auto|]. intro K. apply zmem_In in K. congruence. }
        { destruct (S y I) as [I1 I2]. split; [auto|]. intro K. apply I2. right. exact K. }
Qed.

(* ------------------------------------------------------------------ induction over act *)

Section ActInd.
  Variable P : act -> Prop.
  Hypothesis HReq : forall p, Forall P p -> P (AReq p).
  Hypothesis HUnser : forall p, Forall P p -> P (AUnser p).
  Hypothesis HNotify : P ANotify.
  Hypothesis HNoRoute : forall p, Forall P p -> P (ANoRoute p).
  Hypothesis HNotifyNR : P ANotifyNR.
  Hypothesis HRep : forall n a, P a -> P (ARep n a).

  Fixpoint act_ind' (a : act) : P a :=
    let fix go (l : list act) : Forall P l :=
      match l with
      | [] => Forall_nil P
      | x :: r => Forall_cons x (act_ind' x) (go r)
      end in
    match a with
    | AReq p => HReq p (go p)
    | AUnser p => HUnser p (go p)
    | ANotify => HNotify
    | ANoRoute p => HNoRoute p (go p)
    | ANotifyNR => HNotifyNR
    | ARep n b => HRep n b (act_ind' b)
    end.
End ActInd.

(* ---- keys, blocks, views *)

Definition has_block (M j : Z) (m : alist entry) : Prop :=
  exists k e, aget k m = Some e /\ inc_of M k = j.

Lemma inc_of_key M j i : 0 <= i <= M -> inc_of M (key M j i) = j.
Proof.
  intro H. unfold inc_of, key, Span. rewrite Z.div_add_l by lia.
  rewrite Z.div_small by lia. lia.
Qed.

Lemma key_pos M j i : 1 <= M -> 0 <= j -> 1 <= i -> 1 <= key M j i.
Proof. intros HM Hj Hi. unfold key, Span. nia. Qed.

Lemma block_nil_iff M j (m : alist entry) :
  sorted m -> (block M j m = [] <-> ~ has_block M j m).
Proof.
  intro S. unfold block. split.
  - intros E (k & e & G & I). apply aget_in in G.
    assert (In (k, e) (filter (fun kv => inc_of M (fst kv) =? j) m)).
    { apply filter_In. split; [exact G|]. cbn [fst]. lia. }
    rewrite E in H. inversion H.
  - intro N. destruct (filter (fun kv => inc_of M (fst kv) =? j) m) as [|[k e] r] eqn:F; [reflexivity|].
    exfalso. apply N. assert (I : In (k, e) (filter (fun kv => inc_of M (fst kv) =? j) m)) by (rewrite F; left; reflexivity).
    apply filter_In in I. destruct I as [I E]. cbn [fst] in E.
    exists k, e. split; [apply in_aget; assumption | lia].
Qed.

Lemma view_focus s j j' : view (focus s j) j' = view s j'.
Proof.
  unfold focus, park.
  destruct (Z.eq_dec j (foc s)) as [->|Nj].
  - rewrite aget_aset_same. unfold view; cbn [foc next armed nalloc rest].
    destruct (Z.eqb_spec j' (foc s)) as [->|N]; [reflexivity|].
    rewrite aget_aset_other by exact N. reflexivity.
  - rewrite aget_aset_other by exact Nj.
    assert (V : view s j = match aget j (rest s) with Some p => p | None => (0, false, 0) end).
    { unfold view. destruct (Z.eqb_spec j (foc s)); [contradiction | reflexivity]. }
    destruct (aget j (rest s)) as [[[n a] c]|] eqn:G; unfold view at 1; cbn [foc next armed nalloc rest].
    + destruct (Z.eqb_spec j' j) as [->|N]; [symmetry; exact V|].
      unfold view. destruct (Z.eqb_spec j' (foc s)) as [->|N2].
      * rewrite aget_aset_same. reflexivity.
      * rewrite aget_aset_other by exact N2. reflexivity.
    + destruct (Z.eqb_spec j' j) as [->|N]; [symmetry; exact V|].
      unfold view. destruct (Z.eqb_spec j' (foc s)) as [->|N2].
      * rewrite aget_aset_same. reflexivity.
      * rewrite aget_aset_other by exact N2. reflexivity.
Qed.

Lemma focus_frame s j :
  pending (focus s j) = pending s /\ clock (focus s j) = clock s /\ ntags (focus s j) = ntags s /\
  cur (focus s j) = cur s /\ foc (focus s j) = j.
Proof. unfold focus. destruct (aget j (park s)) as [[[n a] c]|]; cbn; auto. Qed.

Lemma view_foc s : view s (foc s) = (next s, armed s, nalloc s).
Proof. unfold view. rewrite Z.eqb_refl. reflexivity. Qed.

(* a change of the focused incarnation's own values leaves the other views alone *)
Lemma view_other s s' j :
  foc s' = foc s -> rest s' = rest s -> j <> foc s -> view s' j = view s j.
Proof.
  intros F R N. unfold view. rewrite F, R. destruct (Z.eqb_spec j (foc s)); [contradiction | reflexivity].
Qed.

(* ------------------------------------------------------------------ configurations *)

Definition cfg := (option Z * st * list ev)%type.
Definition cf (c : cfg) : option Z := fst (fst c).
Definition cs (c : cfg) : st := snd (fst c).
Definition ct (c : cfg) : list ev := snd c.

Section Prims.
  Variable M : Z.

  (* what user code can do, also from inside a callback *)
  Inductive iprim : cfg -> cfg -> Prop :=
  | IReg f s tr u p :
      iprim (f, s, tr) (f, fst (register M s u p), tr ++ snd (register M s u p))
  | INotify f s tr : iprim (f, s, tr) (f, s, tr ++ [ESent 0 (-1)])
  | INoRoute f s tr :
      iprim (f, s, tr)
            (f, set_ntags s (ntags s + 1), tr ++ [ENoRoute (ntags s); ECb (ntags s) RNoService]).

  Inductive prim : cfg -> cfg -> Prop :=
  | PInner c c' : iprim c c' -> prim c c'
  | PMark s tr m : m = EDo \/ m = EIdle -> prim (None, s, tr) (None, s, tr ++ [m])
  | PDrop s tr id k :
      aget id (pending s) = None -> prim (None, s, tr) (None, s, tr ++ [EResp id k; EDrop id])
  | PRespBegin s tr id k e :
      aget id (pending s) = Some e ->
      prim (None, s, tr) (Some id, s, tr ++ [EResp id k; ECb (e_tag e) (cls_of k)])
  | PTickOff s tr :
      armed s = true -> block M (foc s) (pending s) = [] ->
      prim (None, s, tr) (None, set_armed s false, tr ++ [ETick (clock s)])
  | PTickOn s tr :
      armed s = true -> block M (foc s) (pending s) <> [] ->
      prim (None, s, tr) (None, s, tr ++ [ETick (clock s)])
  | PTimeout s tr id e :
      aget id (pending s) = Some e -> (noclash tr -> e_dl e < clock s) ->
      last_marker tr = Some (ETick (clock s)) ->
      prim (None, s, tr) (Some id, s, tr ++ [ECb (e_tag e) RTimeout])
  | PEnd s tr id : prim (Some id, s, tr) (None, set_pending s (adel id (pending s)), tr)
  | PClock s tr dt : 0 <= dt -> prim (None, s, tr) (None, set_clock s (clock s + dt), tr)
  | PSetNext s tr v :
      0 <= v <= M -> pending s = [] -> prim (None, s, tr) (None, set_next s v, tr)
  | PFocus s tr j : 0 <= j <= cur s -> prim (None, s, tr) (None, focus s j, tr)
  | PCrash s tr : prim (None, s, tr) (None, set_cur s (cur s + 1), tr ++ [ECrash]).

  Inductive istar : cfg -> cfg -> Prop :=
  | istar_refl c : istar c c
  | istar_step c1 c2 c3 : iprim c1 c2 -> istar c2 c3 -> istar c1 c3.

  Inductive star : cfg -> cfg -> Prop :=
  | star_refl c : star c c
  | star_step c1 c2 c3 : prim c1 c2 -> star c2 c3 -> star c1 c3.

  Lemma istar_trans c1 c2 c3 : istar c1 c2 -> istar c2 c3 -> istar c1 c3.
  Proof.
    induction 1 as [c|a b c Hab _ IH]; intro H2; [exact H2|].
    eapply istar_step; [exact Hab | apply IH; exact H2].
  Qed.

  Lemma star_trans c1 c2 c3 : star c1 c2 -> star c2 c3 -> star c1 c3.
  Proof.
    induction 1 as [c|a b c Hab _ IH]; intro H2; [exact H2|].
    eapply star_step; [exact Hab | apply IH; exact H2].
  Qed.

  Lemma star_one c1 c2 : prim c1 c2 -> star c1 c2.
  Proof. intro H. econstructor; [exact H | constructor]. Qed.

  Lemma istar_star c1 c2 : istar c1 c2 -> star c1 c2.
  Proof. induction 1; [constructor | econstructor; [apply PInner; eassumption | assumption]]. Qed.

  (* ---- exec / exec_prog are chains of inner primitives *)

  Definition exec_chain (a : act) : Prop :=
    forall f s tr, istar (f, s, tr) (f, fst (exec M a s), tr ++ snd (exec M a s)).

  Lemma exec_prog_chain p : Forall exec_chain p ->
    forall f s tr, istar (f, s, tr) (f, fst (exec_prog M p s), tr ++ snd (exec_prog M p s)).
  Proof.
    induction 1 as [|a r Ha _ IH]; intros f s tr; simpl.
    - rewrite app_nil_r. constructor.
    - rewrite app_assoc. eapply istar_trans; [apply Ha | apply IH].
  Qed.

  Lemma exec_noroute p s :
    exec M (ANoRoute p) s =
    (fst (exec_prog M p (set_ntags s (ntags s + 1))),
     ENoRoute (ntags s) :: ECb (ntags s) RNoService :: snd (exec_prog M p (set_ntags s (ntags s + 1)))).
  Proof. reflexivity. Qed.

  (* a bulk action is the action, n times *)
  Lemma exec_rep n a s : exec M (ARep n a) s = exec_prog M (repeat a (Z.to_nat n)) s.
  Proof.
    change (exec M (ARep n a) s) with
      ((fix rep (k : nat) (s0 : st) {struct k} : st * list ev :=
          match k with
          | O => (s0, [])
          | S k' => let r1 := exec M a s0 in let r2 := rep k' (fst r1) in (fst r2, snd r1 ++ snd r2)
          end) (Z.to_nat n) s).
    generalize (Z.to_nat n). intro k. revert s. induction k as [|k IH]; intro s; [reflexivity|].
    cbn [repeat exec_prog]. rewrite <- IH. reflexivity.
  Qed.

  Lemma exec_is_chain a : exec_chain a.
  Proof.
    induction a as [p _|p _| |p IH| |n a IHa] using act_ind'; intros f s tr.
    - change (exec M (AReq p) s) with (register M s false p).
      eapply istar_step; [apply IReg | apply istar_refl].
    - change (exec M (AUnser p) s) with (register M s true p).
      eapply istar_step; [apply IReg | apply istar_refl].
    - change (exec M ANotify s) with (s, [ESent 0 (-1)]). cbn [fst snd].
      eapply istar_step; [apply INotify | apply istar_refl].
    - rewrite exec_noroute. cbn [fst snd].
      eapply istar_step; [apply INoRoute|].
      change (ENoRoute (ntags s) :: ECb (ntags s) RNoService ::
              snd (exec_prog M p (set_ntags s (ntags s + 1))))
        with ([ENoRoute (ntags s); ECb (ntags s) RNoService] ++
              snd (exec_prog M p (set_ntags s (ntags s + 1)))).
      rewrite app_assoc. apply exec_prog_chain. exact IH.
    - change (exec M ANotifyNR s) with (s, @nil ev). cbn [fst snd]. rewrite app_nil_r. apply istar_refl.
    - rewrite exec_rep. apply exec_prog_chain. apply Forall_forall. intros x I.
      apply repeat_spec in I. subst x. exact IHa.
  Qed.

  Lemma exec_prog_istar p f s tr :
    istar (f, s, tr) (f, fst (exec_prog M p s), tr ++ snd (exec_prog M p s)).
  Proof. apply exec_prog_chain. apply Forall_forall. intros a _. apply exec_is_chain. Qed.

  (* ---- what a chain of inner primitives can and cannot do *)

  Definition ifacts (c c' : cfg) : Prop :=
    cf c' = cf c /\ clock (cs c') = clock (cs c) /\
    (forall id e', aget id (pending (cs c')) = Some e' ->
       aget id (pending (cs c)) = Some e' \/ e_dl e' = clock (cs c) + Timeout) /\
    exists o, ct c' = ct c ++ o /\ nomark o /\
      (noclash o -> forall id e, aget id (pending (cs c)) = Some e ->
                                 aget id (pending (cs c')) = Some e).

  Lemma iprim_facts c c' : iprim c c' -> ifacts c c'.
  Proof.
    destruct 1 as [f s tr u p|f s tr|f s tr]; unfold ifacts, cf, cs, ct; cbn [fst snd].
    - unfold register; cbn [fst snd pending clock].
      set (k := key M (foc s) (alloc_id M (next s))).
      split; [reflexivity|]. split; [reflexivity|]. split.
      + intros id e' H. destruct (Z.eq_dec id k) as [->|N].
        * rewrite aget_aset_same in H. inv H. right. reflexivity.
        * rewrite aget_aset_other in H by exact N. left. exact H.
      + eexists. split; [reflexivity|]. split.
        * intros e I. apply in_app_or in I. destruct I as [I|I].
          { destruct (aget k (pending s)); [|inversion I].
            destruct I as [<-|[]]. reflexivity. }
          { destruct I as [<-|I]; [reflexivity|]. destruct u; [inversion I|].
            destruct I as [<-|[]]. reflexivity. }
        * intros NC id e H. destruct (Z.eq_dec id k) as [->|N].
          { exfalso. rewrite H in NC. eapply NC. left. reflexivity. }
          { rewrite aget_aset_other by exact N. exact H. }
    - split; [reflexivity|]. split; [reflexivity|]. split; [auto|].
      eexists. split; [reflexivity|]. split; [|auto].
      intros e [<-|[]]. reflexivity.
    - cbn [pending clock set_ntags]. split; [reflexivity|]. split; [reflexivity|]. split; [auto|].
      eexists. split; [reflexivity|]. split; [|auto].
      intros e [<-|[<-|[]]]; reflexivity.
  Qed.

  Lemma istar_facts c c' : istar c c' -> ifacts c c'.
  Proof.
    induction 1 as [c|c1 c2 c3 H1 _ IH].
    - unfold ifacts. split; [reflexivity|]. split; [reflexivity|]. split; [auto|].
      exists []. rewrite app_nil_r. split; [reflexivity|]. split; [intros e []|auto].
    - apply iprim_facts in H1.
      destruct H1 as (F1 & C1 & N1 & o1 & T1 & M1 & K1).
      destruct IH as (F2 & C2 & N2 & o2 & T2 & M2 & K2).
      unfold ifacts. split; [congruence|]. split; [congruence|]. split.
      + intros id e' H. destruct (N2 id e' H) as [H2|H2].
        * apply N1. exact H2.
        * right. rewrite H2, C1. reflexivity.
      + exists (o1 ++ o2). split; [rewrite T2, T1, app_assoc; reflexivity|].
        split; [apply nomark_app; assumption|].
        intros NC id e H. apply noclash_app in NC. destruct NC as [NC1 NC2]. auto.
  Qed.

  (* ---- fire, handle_resp, fire_all, tick, step, run *)

  Lemma fire_resp_star s tr id k e :
    aget id (pending s) = Some e ->
    star (None, s, tr)
         (None, fst (fire M s id (cls_of k)), tr ++ EResp id k :: snd (fire M s id (cls_of k))).
  Proof.
    intro H. unfold fire. rewrite H. cbn [fst snd].
    eapply star_step; [apply (PRespBegin s tr id k e H)|].
    eapply star_trans; [apply istar_star, (exec_prog_istar (e_prog e))|].
    replace (tr ++ EResp id k :: ECb (e_tag e) (cls_of k) :: snd (exec_prog M (e_prog e) s))
      with ((tr ++ [EResp id k; ECb (e_tag e) (cls_of k)]) ++ snd (exec_prog M (e_prog e) s))
      by (rewrite <- app_assoc; reflexivity).
    apply star_one. apply PEnd.
  Qed.

  Lemma handle_resp_star s tr id k :
    star (None, s, tr) (None, fst (handle_resp M s id k), tr ++ snd (handle_resp M s id k)).
  Proof.
    unfold handle_resp. destruct (aget id (pending s)) as [e|] eqn:H; cbn [fst snd].
    - eapply fire_resp_star. exact H.
    - apply star_one. apply PDrop. exact H.
  Qed.

  Lemma fire_all_star ids : forall s tr,
    NoDup ids ->
    (forall id, In id ids -> noclash tr ->
                exists e, aget id (pending s) = Some e /\ e_dl e < clock s) ->
    last_marker tr = Some (ETick (clock s)) ->
    star (None, s, tr) (None, fst (fire_all M s ids), tr ++ snd (fire_all M s ids)).
  Proof.
    induction ids as [|id r IH]; intros s tr ND Hexp LM; cbn [fire_all fst snd].
    - rewrite app_nil_r. constructor.
    - inv ND. unfold fire at 1 2 3. destruct (aget id (pending s)) as [e|] eqn:H; cbn [fst snd].
      + pose proof (istar_facts _ _ (exec_prog_istar (e_prog e) (Some id) s
                                       (tr ++ [ECb (e_tag e) RTimeout]))) as F.
        destruct F as (_ & C1 & _ & o & T1 & M1 & K1). unfold cs, ct in *; cbn [fst snd] in *.
        apply app_inv_head in T1. subst o.
        eapply star_step.
        { apply (PTimeout s tr id e H); [|exact LM].
          intro NC. destruct (Hexp id (or_introl eq_refl) NC) as (e' & H' & D). congruence. }
        eapply star_trans; [apply istar_star, (exec_prog_istar (e_prog e))|].
        eapply star_step; [apply PEnd|].
        replace (tr ++ (ECb (e_tag e) RTimeout :: snd (exec_prog M (e_prog e) s)) ++
                 snd (fire_all M (set_pending (fst (exec_prog M (e_prog e) s))
                                    (adel id (pending (fst (exec_prog M (e_prog e) s))))) r))
          with (((tr ++ [ECb (e_tag e) RTimeout]) ++ snd (exec_prog M (e_prog e) s)) ++
                snd (fire_all M (set_pending (fst (exec_prog M (e_prog e) s))
                                   (adel id (pending (fst (exec_prog M (e_prog e) s))))) r))
          by (rewrite <- !app_assoc; reflexivity).
        apply IH; [assumption| |].
        * intros id' I NC. cbn [pending clock set_pending].
          apply noclash_app in NC. destruct NC as [NC NC2].
          apply noclash_app in NC. destruct NC as [NC NC1].
          destruct (Hexp id' (or_intror I) NC) as (e' & H' & D).
          exists e'. split; [|rewrite C1; exact D].
          rewrite aget_adel_other by (intro; subst; contradiction).
          apply K1; assumption.
        * cbn [clock set_pending]. rewrite C1.
          rewrite last_marker_nomark by exact M1.
          rewrite last_marker_nomark by (intros x [<-|[]]; reflexivity). exact LM.
      + apply IH; [assumption| |exact LM].
        intros id' I NC. apply Hexp; [right; exact I | exact NC].
  Qed.

  Lemma expired_in s id : In id (expired_ids M s) ->
    exists e, aget id (pending s) = Some e /\ e_dl e < clock s.
  Proof.
    unfold expired_ids. intro I. apply filter_In in I. destruct I as [_ E].
    unfold expired_b in E. apply andb_true_iff in E. destruct E as [_ E].
    destruct (aget id (pending s)) as [e|]; [|discriminate].
    exists e. split; [reflexivity | lia].
  Qed.

  (* the plain reading of [order] *)
  Lemma order_unfold h s :
    order M h s =
    dedup [] (flat_map (fun t => filter (fun id => tag_is s id t) (expired_ids M s)) h ++ expired_ids M s).
  Proof.
    unfold order. cbv zeta. f_equal. f_equal. apply flat_map_ext. intro t.
    generalize (expired_ids M s). intro E. induction E as [|id E IH]; [reflexivity|].
    cbn [map filter]. unfold tag_match at 1, tag_is at 1, otag at 1. cbn [fst].
    destruct (aget id (pending s)) as [e|]; cbn [option_map].
    - destruct (e_tag e =? t); cbn [map snd]; rewrite IH; reflexivity.
    - exact IH.
  Qed.

  Lemma order_spec h s :
    NoDup (order M h s) /\ forall id, In id (order M h s) -> In id (expired_ids M s).
  Proof.
    rewrite order_unfold. destruct (dedup_spec
      (flat_map (fun t => filter (fun id => tag_is s id t) (expired_ids M s)) h ++ expired_ids M s) [])
      as [N S].
    split; [exact N|]. intros id I. destruct (S id I) as [I1 _].
    apply in_app_or in I1. destruct I1 as [I1|I1]; [|exact I1].
    apply in_flat_map in I1. destruct I1 as (t & _ & I2). apply filter_In in I2. tauto.
  Qed.

  Lemma tick_star s tr h :
    star (None, s, tr) (None, fst (tick M s h), tr ++ snd (tick M s h)).
  Proof.
    unfold tick. destruct (armed s) eqn:A; cbn [fst snd].
    - unfold check_expired. destruct (block M (foc s) (pending s)) as [|x m] eqn:P; cbn [isnil fst snd].
      + apply star_one. apply PTickOff; assumption.
      + eapply star_step; [apply PTickOn; [exact A | rewrite P; discriminate]|].
        change (tr ++ ETick (clock s) :: snd (fire_all M s (order M h s)))
          with (tr ++ [ETick (clock s)] ++ snd (fire_all M s (order M h s))).
        rewrite app_assoc. destruct (order_spec h s) as [N S].
        apply fire_all_star; [exact N| |].
        * intros id I _. apply expired_in. apply S. exact I.
        * rewrite last_marker_app. reflexivity.
    - apply star_one. apply PMark. right. reflexivity.
  Qed.

  Lemma incs_range s j : 0 <= cur s -> In j (incs s) -> 0 <= j <= cur s.
  Proof.
    intros C I. unfold incs in I. apply in_map_iff in I. destruct I as (n & <- & I).
    apply in_seq in I. lia.
  Qed.

  Lemma incs_all s j : 0 <= j <= cur s -> In j (incs s).
  Proof.
    intro H. unfold incs. apply in_map_iff. exists (Z.to_nat j). split; [lia|]. apply in_seq. lia.
  Qed.

  (* what a primitive does to the incarnation counter *)
  Lemma prim_cur c c' : prim c c' -> 0 <= cur (cs c) -> 0 <= cur (cs c').
  Proof.
    intros P H.
    destruct P as [c c' P|s tr m Hm|s tr id k G|s tr id k e G|s tr Ar Pe|s tr Ar Pn|s tr id e G D LM
                   |s tr id|s tr dt Hd|s tr v Hv Pe|s tr j Hj|s tr]; unfold cs in *; cbn [fst snd] in *;
      try exact H.
    - destruct P; cbn [fst snd register cur set_ntags] in *; exact H.
    - destruct (focus_frame s j) as (_ & _ & _ & C & _). rewrite C. exact H.
    - cbn [set_cur cur]. lia.
  Qed.

  Lemma star_cur c c' : star c c' -> 0 <= cur (cs c) -> 0 <= cur (cs c').
  Proof. induction 1 as [c|a b c Hab _ IH]; intro H; [exact H | apply IH; eapply prim_cur; eassumption]. Qed.

  Lemma tick_cur s h : cur (fst (tick M s h)) = cur s.
  Proof.
    assert (IS : forall c c', istar c c' -> cur (cs c') = cur (cs c)).
    { induction 1 as [c|c1 c2 c3 H1 _ IH2]; [reflexivity|]. rewrite IH2.
      destruct H1; unfold cs; cbn [fst snd register cur set_ntags]; reflexivity. }
    assert (FA : forall ids s0, cur (fst (fire_all M s0 ids)) = cur s0).
    { induction ids as [|i r IH]; intro s0; cbn [fire_all fst]; [reflexivity|]. rewrite IH.
      unfold fire. destruct (aget i (pending s0)) as [e|]; cbn [fst set_pending cur]; [|reflexivity].
      apply (IS _ _ (exec_prog_istar (e_prog e) None s0 [])). }
    unfold tick. destruct (armed s); [|reflexivity]. cbn [fst].
    unfold check_expired. destruct (isnil (block M (foc s) (pending s))); [reflexivity | apply FA].
  Qed.

  Lemma tick_all_cur js : forall s h, cur (fst (tick_all M s js h)) = cur s.
  Proof.
    induction js as [|j r IH]; intros s h; cbn [tick_all fst]; [reflexivity|].
    rewrite IH, tick_cur. apply (focus_frame s j).
  Qed.

  Lemma tick_all_star js : forall s tr h,
    (forall j, In j js -> 0 <= j <= cur s) ->
    star (None, s, tr) (None, fst (tick_all M s js h), tr ++ snd (tick_all M s js h)).
  Proof.
    induction js as [|j r IH]; intros s tr h F; cbn [tick_all fst snd].
    - rewrite app_nil_r. constructor.
    - eapply star_step; [apply (PFocus s tr j); apply F; left; reflexivity|].
      rewrite app_assoc. eapply star_trans; [apply tick_star | apply IH].
      intros j' I. rewrite tick_cur. destruct (focus_frame s j) as (_ & _ & _ & C & _). rewrite C.
      apply F. right. exact I.
  Qed.

  Lemma tick_op_star s tr h :
    0 <= cur s ->
    star (None, s, tr) (None, fst (tick_op M s h), tr ++ snd (tick_op M s h)).
  Proof.
    intro C. unfold tick_op. cbn [fst snd].
    eapply star_trans; [apply tick_all_star; intros j I; apply incs_range; [exact C | exact I]|].
    apply star_one. apply PFocus. rewrite tick_all_cur. lia.
  Qed.

  Lemma tick_op_cur s h : cur (fst (tick_op M s h)) = cur s.
  Proof.
    unfold tick_op. cbn [fst]. destruct (focus_frame (fst (tick_all M s (incs s) h)) (cur s)) as (_ & _ & _ & C & _).
    rewrite C. apply tick_all_cur.
  Qed.

  Lemma step_star s tr o :
    0 <= cur s ->
    star (None, s, tr) (None, fst (step M s o), tr ++ snd (step M s o)).
  Proof.
    intro HC. destruct o as [a|id k| |id|h|h|dt|v|v|u|]; cbn [step tick_real fst snd].
    - eapply star_step; [apply PMark; left; reflexivity|].
      change (tr ++ EDo :: snd (exec M a s)) with (tr ++ [EDo] ++ snd (exec M a s)).
      rewrite app_assoc. apply istar_star. apply exec_is_chain.
    - apply handle_resp_star.
    - apply star_one. apply PMark. right. reflexivity.
    - apply star_one. apply PMark. right. reflexivity.
    - apply tick_op_star. exact HC.
    - rewrite app_assoc. eapply star_trans; apply tick_op_star; [exact HC | rewrite tick_op_cur; exact HC].
    - eapply star_step; [apply PMark; right; reflexivity|].
      destruct (0 <=? dt) eqn:E; [|constructor].
      apply star_one. apply PClock. lia.
    - eapply star_step; [apply PMark; right; reflexivity|].
      destruct ((0 <=? v) && (v <=? M) && isnil (pending s)) eqn:E; [|constructor].
      apply star_one. apply andb_true_iff in E. destruct E as [E1 E2].
      apply PSetNext; [lia|]. destruct (pending s); [reflexivity | discriminate].
    - apply star_one. apply PMark. right. reflexivity.
    - apply star_one. apply PMark. right. reflexivity.
    - unfold crash. cbn [fst snd]. eapply star_step; [apply (PCrash s tr)|].
      apply star_one. apply PFocus. cbn [set_cur cur]. lia.
  Qed.

  Lemma run_star ops : forall s tr,
    0 <= cur s ->
    star (None, s, tr) (None, fst (run_from M s ops), tr ++ concat (snd (run_from M s ops))).
  Proof.
    induction ops as [|o r IH]; intros s tr HC; cbn [run_from fst snd concat].
    - rewrite app_nil_r. constructor.
    - rewrite app_assoc. pose proof (step_star s tr o HC) as S1.
      eapply star_trans; [exact S1 | apply IH]. apply (star_cur _ _ S1). exact HC.
  Qed.

  (* the generic invariant rule *)
  Lemma star_inv (I : cfg -> Prop) :
    (forall c c', prim c c' -> I c -> I c') -> forall c c', star c c' -> I c -> I c'.
  Proof.
    intros HP c c' S. induction S as [c|a b c Hab _ IH]; intro Ha; [exact Ha|].
    apply IH. eapply HP; eassumption.
  Qed.

  Lemma run_inv (I : cfg -> Prop) :
    (forall c c', prim c c' -> I c -> I c') -> I (None, init, []) ->
    forall ops, I (None, final_g M ops, trace_g M ops).
  Proof.
    intros HP H0 ops. unfold final_g, trace_g.
    eapply star_inv; [exact HP | apply (run_star ops init []); cbn; lia | exact H0].
  Qed.
End Prims.

(* ================================================================== Part 2: the acceptor *)

Lemma snoc_split {A} (tr pre post : list A) (e x : A) :
  tr ++ [e] = pre ++ x :: post ->
  (post = [] /\ pre = tr /\ x = e) \/ (exists post', post = post' ++ [e] /\ tr = pre ++ x :: post').
Proof.
  revert tr. induction pre as [|p pre IH]; intros tr H.
  - destruct tr as [|a tr]; simpl in H.
    + inv H. left. auto.
    + inv H. right. exists tr. auto.
  - destruct tr as [|a tr]; simpl in H.
    + inv H. destruct pre; discriminate.
    + inv H. match goal with K : tr ++ [e] = _ |- _ => destruct (IH _ K) as [(-> & -> & ->)|(q & -> & ->)] end.
      * left. auto.
      * right. exists q. auto.
Qed.

Definition cb_inc (t : Z) (e : ev) : nat :=
  match e with ECb t' _ => if t =? t' then 1%nat else 0%nat | _ => 0%nat end.
Definition issue_inc (t : Z) (e : ev) : nat :=
  match e with EIssue t' _ _ => if t =? t' then 1%nat else 0%nat | _ => 0%nat end.

Lemma count_cb_app t a b : count_cb t (a ++ b) = (count_cb t a + count_cb t b)%nat.
Proof.
  induction a as [|e r IH]; [reflexivity|]. destruct e; simpl; try exact IH.
  destruct (t =? tag); rewrite IH; reflexivity.
Qed.

Lemma count_cb_snoc t tr e : count_cb t (tr ++ [e]) = (count_cb t tr + cb_inc t e)%nat.
Proof.
  rewrite count_cb_app. f_equal; destruct e; simpl; try reflexivity; destruct (t =? tag); reflexivity.
Qed.

Lemma count_issue_app t a b : count_issue t (a ++ b) = (count_issue t a + count_issue t b)%nat.
Proof.
  induction a as [|e r IH]; [reflexivity|]. destruct e; simpl; try exact IH.
  destruct (t =? tag); rewrite IH; reflexivity.
Qed.

Lemma count_issue_snoc t tr e : count_issue t (tr ++ [e]) = (count_issue t tr + issue_inc t e)%nat.
Proof.
  rewrite count_issue_app. f_equal; destruct e; simpl; try reflexivity; destruct (t =? tag); reflexivity.
Qed.

Lemma count_issue_in t id n tr : In (EIssue t id n) tr -> (0 < count_issue t tr)%nat.
Proof.
  induction tr as [|e r IH]; [intros []|]. intros [->|I].
  - simpl. rewrite Z.eqb_refl. lia.
  - specialize (IH I). destruct e; simpl; try exact IH. destruct (t =? tag); lia.
Qed.

Definition issue_d (e : ev) : Z := match e with EIssue _ _ _ => 1 | _ => 0 end.
Definition done_d (e : ev) : Z :=
  match e with ECb _ RNoService => 0 | ECb _ _ => 1 | _ => 0 end.

Lemma n_issue_app a b : n_issue (a ++ b) = n_issue a + n_issue b.
Proof. induction a as [|e r IH]; [reflexivity|]. destruct e; cbn [n_issue app]; lia. Qed.
Lemma n_done_app a b : n_done (a ++ b) = n_done a + n_done b.
Proof.
  induction a as [|e r IH]; [reflexivity|].
  destruct e; cbn [n_done app]; try lia;
    match goal with |- context [match ?c with _ => _ end] => destruct c end; lia.
Qed.
Lemma n_issue_snoc tr e : n_issue (tr ++ [e]) = n_issue tr + issue_d e.
Proof. rewrite n_issue_app. destruct e; cbn [n_issue issue_d]; lia. Qed.
Lemma n_done_snoc tr e : n_done (tr ++ [e]) = n_done tr + done_d e.
Proof.
  rewrite n_done_app.
  destruct e; cbn [n_done done_d]; try lia;
    match goal with |- context [match ?c with _ => _ end] => destruct c end; lia.
Qed.

Lemma last_marker_snoc tr e :
  last_marker (tr ++ [e]) = if is_marker e then Some e else last_marker tr.
Proof. rewrite last_marker_app. reflexivity. Qed.

Lemma matching_snoc tr e :
  matching tr -> (forall t c, e = ECb t c -> justified tr t c) -> matching (tr ++ [e]).
Proof.
  intros Hm He pre t c post E. apply snoc_split in E.
  destruct E as [(-> & -> & E)|(post' & -> & ->)].
  - apply He. symmetry. exact E.
  - eapply Hm. reflexivity.
Qed.

Lemma no_resp_snoc id y e : no_resp id y -> (forall k, e <> EResp id k) -> no_resp id (y ++ [e]).
Proof.
  intros H N k I. apply in_app_or in I. destruct I as [I|[I|[]]]; [eapply H; eauto | eapply N; eauto].
Qed.

Lemma no_resp_app id a b : no_resp id a -> no_resp id b -> no_resp id (a ++ b).
Proof. intros Ha Hb k I. apply in_app_or in I. destruct I; [eapply Ha | eapply Hb]; eauto. Qed.

(* alist length / keys *)
Lemma length_aset_fresh {V} k (v : V) m : aget k m = None -> length (aset k v m) = S (length m).
Proof.
  induction m as [|[k' v'] r IH]; simpl; intro H; [reflexivity|].
  destruct (Z.eqb_spec k k'); [discriminate|].
  destruct (Z.ltb_spec k k'); simpl; [reflexivity|].
  destruct (Z.eqb_spec k k'); [contradiction|]. simpl. rewrite IH by exact H. reflexivity.
Qed.

Lemma adel_absent {V} k (m : alist V) : lb k m -> adel k m = m.
Proof.
  induction m as [|[k' v'] r IH]; simpl; [reflexivity|]. intros [L1 L2].
  destruct (Z.eqb_spec k k'); [lia|]. rewrite IH; [reflexivity|exact L2].
Qed.

Lemma length_adel_present {V} k (v : V) m :
  sorted m -> aget k m = Some v -> S (length (adel k m)) = length m.
Proof.
  induction m as [|[k' v'] r IH]; simpl; [discriminate|]. intros [L S] H.
  destruct (Z.eqb_spec k k').
  - subst. rewrite adel_absent by exact L. reflexivity.
  - simpl. rewrite IH; auto.
Qed.

Lemma find_tag_spec t id n (m : alist (Z * Z)) :
  find_tag t m = Some (id, n) -> exists t', In (id, (t', n)) m /\ t' = t.
Proof.
  unfold find_tag. destruct (filter _ m) as [|[id' [t' n']] r] eqn:F; [discriminate|].
  intro H. inv H. assert (I : In (id, (t', n)) (filter (fun kv => fst (snd kv) =? t) m))
    by (rewrite F; left; reflexivity).
  apply filter_In in I. destruct I as [I E]. simpl in E. exists t'. split; [exact I | lia].
Qed.

Lemma find_tag_complete t id n (m : alist (Z * Z)) :
  In (id, (t, n)) m ->
  (forall id' n', In (id', (t, n')) m -> id' = id /\ n' = n) ->
  find_tag t m = Some (id, n).
Proof.
  intros I U. unfold find_tag.
  destruct (filter (fun kv => fst (snd kv) =? t) m) as [|[id' [t' n']] r] eqn:F.
  - assert (K : In (id, (t, n)) (filter (fun kv => fst (snd kv) =? t) m))
      by (apply filter_In; split; [exact I | simpl; lia]).
    rewrite F in K. inversion K.
  - assert (K : In (id', (t', n')) (filter (fun kv => fst (snd kv) =? t) m))
      by (rewrite F; left; reflexivity).
    apply filter_In in K. destruct K as [K E]. simpl in E. assert (t' = t) by lia. subst.
    destruct (U id' n' K) as [-> ->]. reflexivity.
Qed.

Definition mtail (a : ast) : list ev :=
  match a_mode a with MMustCb id k => [EResp id k] | _ => [] end.

Record AInv (a : ast) (tr : list ev) : Prop := {
  ai_sorted : sorted (a_open a);
  ai_open : forall id t n, aget id (a_open a) = Some (t, n) ->
      t < a_nt a /\ count_cb t tr = 0%nat /\ id <> 0 /\
      exists x y, tr = x ++ EIssue t id n :: y ++ mtail a /\ no_resp id y;
  ai_tags : forall id1 id2 t n1 n2,
      aget id1 (a_open a) = Some (t, n1) -> aget id2 (a_open a) = Some (t, n2) -> id1 = id2;
  ai_fresh : forall t, a_nt a <= t -> count_cb t tr = 0%nat /\ count_issue t tr = 0%nat;
  ai_once : at_most_once tr;
  ai_iuniq : issue_unique tr;
  ai_match : matching tr;
  ai_tick : forall now, a_tick a = Some now -> last_marker tr = Some (ETick now);
  ai_mode : match a_mode a with
            | MIdle => True
            | MMustCb id k => aget id (a_open a) <> None
            | MMayDrop id => (exists p k, tr = p ++ [EResp id k]) /\ aget id (a_open a) = None
            | MMustNS t => (exists p, tr = p ++ [ENoRoute t]) /\ count_cb t tr = 0%nat /\
                           count_issue t tr = 0%nat /\ t < a_nt a
            end;
  ai_count : Z.of_nat (length (a_open a)) = n_issue tr - n_done tr;
  ai_done : forall t id n, In (EIssue t id n) tr ->
      count_cb t tr = 1%nat \/ aget id (a_open a) = Some (t, n);
  ai_drops : drops_ok tr;
  ai_sent : sent_after_issue tr
}.

Lemma AInv_init : AInv a0 [].
Proof.
  constructor; cbn [a0 a_open a_nt a_tick a_mode].
  - exact I.
  - intros id t n H. discriminate.
  - intros id1 id2 t n1 n2 H. discriminate.
  - intros t _. split; reflexivity.
  - intro t. simpl. lia.
  - intro t. simpl. lia.
  - intros pre t c post E. destruct pre; discriminate.
  - intros now H. discriminate.
  - exact I.
  - reflexivity.
  - intros t id n [].
  - intros pre id post E. destruct pre; discriminate.
  - intros pre id t post E. destruct pre; discriminate.
Qed.

(* open_in, from the invariant *)
Lemma AInv_open_in a tr id :
  AInv a tr -> (open_in tr id <-> aget id (a_open a) <> None).
Proof.
  intro H. split.
  - intros (t & n & I & C). destruct (ai_done _ _ H t id n I) as [D|D]; [lia | congruence].
  - intro N. destruct (aget id (a_open a)) as [[t n]|] eqn:E; [|contradiction].
    destruct (ai_open _ _ H id t n E) as (_ & C & _ & x & y & T & _).
    exists t, n. split; [|exact C]. rewrite T. apply in_or_app. right. left. reflexivity.
Qed.

Lemma drops_snoc tr e :
  drops_ok tr ->
  (forall id, e = EDrop id -> exists p k, tr = p ++ [EResp id k] /\ ~ open_in p id) ->
  drops_ok (tr ++ [e]).
Proof.
  intros Hd He pre id post E. apply snoc_split in E.
  destruct E as [(-> & -> & E)|(post' & -> & ->)].
  - apply He. symmetry. exact E.
  - eapply Hd. reflexivity.
Qed.

Lemma sent_snoc tr e :
  sent_after_issue tr ->
  (forall id t, e = ESent id t -> id <> 0 -> exists n, In (EIssue t id n) tr) ->
  sent_after_issue (tr ++ [e]).
Proof.
  intros Hs He pre id t post E N. apply snoc_split in E.
  destruct E as [(-> & -> & E)|(post' & -> & ->)].
  - apply He; [symmetry; exact E | exact N].
  - eapply Hs; [reflexivity | exact N].
Qed.

Lemma in_snoc {A} (x e : A) tr : In x (tr ++ [e]) <-> In x tr \/ x = e.
Proof.
  split.
  - intro I. apply in_app_or in I. destruct I as [I|[I|[]]]; auto.
  - intros [I| ->]; apply in_or_app; [left; exact I | right; left; reflexivity].
Qed.

(* transitions that leave the open table alone *)
Lemma AInv_keep a a' tr e :
  AInv a tr -> mtail a = [] ->
  a_open a' = a_open a -> a_nt a <= a_nt a' ->
  (forall t, cb_inc t e = 0%nat) -> (forall t, issue_inc t e = 0%nat) ->
  (forall now, a_tick a' = Some now -> last_marker (tr ++ [e]) = Some (ETick now)) ->
  match a_mode a' with
  | MIdle => True
  | MMustCb id k => e = EResp id k /\ aget id (a_open a) <> None
  | MMayDrop id => (exists k, e = EResp id k) /\ aget id (a_open a) = None
  | MMustNS t => e = ENoRoute t /\ a_nt a <= t < a_nt a'
  end ->
  (forall id k, e = EResp id k -> a_mode a' = MMustCb id k \/ aget id (a_open a) = None) ->
  (forall id, e = EDrop id -> exists p k, tr = p ++ [EResp id k] /\ ~ open_in p id) ->
  (forall id t, e = ESent id t -> id <> 0 -> exists n, In (EIssue t id n) tr) ->
  AInv a' (tr ++ [e]).
Proof.
  intros H MT Ho Hn Hcb His Htk Hm Hr Hd Hs.
  assert (Hid : issue_d e = 0).
  { destruct e; try reflexivity. specialize (His tag). simpl in His. rewrite Z.eqb_refl in His. discriminate. }
  assert (Hdd : done_d e = 0).
  { destruct e; try reflexivity. specialize (Hcb tag). simpl in Hcb. rewrite Z.eqb_refl in Hcb. discriminate. }
  constructor.
  - rewrite Ho. apply (ai_sorted _ _ H).
  - intros id t n G. rewrite Ho in G.
    destruct (ai_open _ _ H id t n G) as (L & C & N0 & x & y & T & NR).
    split; [lia|]. split; [rewrite count_cb_snoc, Hcb; lia|]. split; [exact N0|].
    rewrite MT, app_nil_r in T.
    destruct (a_mode a') as [|id' k'|id'|t'] eqn:Em; unfold mtail; rewrite Em.
    + exists x, (y ++ [e]). split; [rewrite T, app_nil_r, <- app_assoc; reflexivity|].
      apply no_resp_snoc; [exact NR|]. intros k E. destruct (Hr id k E) as [K|K]; congruence.
    + destruct Hm as [-> _]. exists x, y. split; [rewrite T, <- app_assoc; reflexivity | exact NR].
    + exists x, (y ++ [e]). split; [rewrite T, app_nil_r, <- app_assoc; reflexivity|].
      apply no_resp_snoc; [exact NR|]. intros k E. destruct (Hr id k E) as [K|K]; congruence.
    + exists x, (y ++ [e]). split; [rewrite T, app_nil_r, <- app_assoc; reflexivity|].
      apply no_resp_snoc; [exact NR|]. intros k E. destruct (Hr id k E) as [K|K]; congruence.
  - rewrite Ho. apply (ai_tags _ _ H).
  - intros t L. destruct (ai_fresh _ _ H t) as [C1 C2]; [lia|].
    rewrite count_cb_snoc, count_issue_snoc, Hcb, His. lia.
  - intro t. rewrite count_cb_snoc, Hcb. pose proof (ai_once _ _ H t). lia.
  - intro t. rewrite count_issue_snoc, His. pose proof (ai_iuniq _ _ H t). lia.
  - apply matching_snoc; [apply (ai_match _ _ H)|]. intros t c E. subst e.
    specialize (Hcb t). simpl in Hcb. rewrite Z.eqb_refl in Hcb. discriminate.
  - exact Htk.
  - destruct (a_mode a') as [|id' k'|id'|t'].
    + exact I.
    + rewrite Ho. tauto.
    + destruct Hm as [[k ->] G]. rewrite Ho. split; [exists tr, k; reflexivity | exact G].
    + destruct Hm as [-> L]. split; [exists tr; reflexivity|].
      rewrite count_cb_snoc, count_issue_snoc. destruct (ai_fresh _ _ H t') as [C C2]; [lia|].
      rewrite C, C2. split; [reflexivity|]. split; [reflexivity | lia].
  - rewrite Ho, n_issue_snoc, n_done_snoc, Hid, Hdd. pose proof (ai_count _ _ H). lia.
  - intros t id n I. apply in_snoc in I. destruct I as [I|E].
    + rewrite Ho. destruct (ai_done _ _ H t id n I) as [D|D]; [left|right; exact D].
      rewrite count_cb_snoc, Hcb. lia.
    + subst e. specialize (His t). simpl in His. rewrite Z.eqb_refl in His. discriminate.
  - apply drops_snoc; [apply (ai_drops _ _ H) | exact Hd].
  - apply sent_snoc; [apply (ai_sent _ _ H) | exact Hs].
Qed.

Lemma AInv_issue a tr t id n :
  AInv a tr -> mtail a = [] -> t = a_nt a -> aget id (a_open a) = None -> id <> 0 ->
  AInv (mkA (aset id (t, n) (a_open a)) (a_nt a + 1) (a_tick a) MIdle) (tr ++ [EIssue t id n]).
Proof.
  intros H MT -> G N0. constructor; cbn [a_open a_nt a_tick a_mode].
  - apply sorted_aset. apply (ai_sorted _ _ H).
  - intros id' t' n' G'. unfold mtail; cbn [a_mode]. destruct (Z.eq_dec id' id) as [->|Ne].
    + rewrite aget_aset_same in G'. inv G'. split; [lia|].
      destruct (ai_fresh _ _ H (a_nt a)) as [C _]; [lia|].
      split; [rewrite count_cb_snoc, C; reflexivity|]. split; [exact N0|].
      exists tr, []. split; [reflexivity | intros k []].
    + rewrite aget_aset_other in G' by exact Ne.
      destruct (ai_open _ _ H id' t' n' G') as (L & C & N0' & x & y & T & NR).
      split; [lia|]. split; [rewrite count_cb_snoc, C; reflexivity|]. split; [exact N0'|].
      rewrite MT, app_nil_r in T. exists x, (y ++ [EIssue (a_nt a) id n]).
      split; [rewrite T, app_nil_r, <- app_assoc; reflexivity|].
      apply no_resp_snoc; [exact NR | intros k; discriminate].
  - intros id1 id2 t n1 n2 G1 G2.
    destruct (Z.eq_dec id1 id) as [->|N1]; destruct (Z.eq_dec id2 id) as [->|N2]; [reflexivity| | |].
    + rewrite aget_aset_same in G1. rewrite aget_aset_other in G2 by exact N2. inv G1.
      destruct (ai_open _ _ H id2 _ n2 G2) as (L & _). lia.
    + rewrite aget_aset_same in G2. rewrite aget_aset_other in G1 by exact N1. inv G2.
      destruct (ai_open _ _ H id1 _ n1 G1) as (L & _). lia.
    + rewrite aget_aset_other in G1 by exact N1. rewrite aget_aset_other in G2 by exact N2.
      eapply (ai_tags _ _ H); eassumption.
  - intros t L. destruct (ai_fresh _ _ H t) as [C1 C2]; [lia|].
    rewrite count_cb_snoc, count_issue_snoc, C1, C2. cbn [cb_inc issue_inc].
    destruct (Z.eqb_spec t (a_nt a)); [lia | split; reflexivity].
  - intro t. rewrite count_cb_snoc. cbn [cb_inc]. pose proof (ai_once _ _ H t). lia.
  - intro t. rewrite count_issue_snoc. cbn [issue_inc]. destruct (Z.eqb_spec t (a_nt a)) as [->|Ne].
    + destruct (ai_fresh _ _ H (a_nt a)) as [_ C]; [lia|]. rewrite C. lia.
    + pose proof (ai_iuniq _ _ H t). lia.
  - apply matching_snoc; [apply (ai_match _ _ H) | intros; discriminate].
  - intros now E. rewrite last_marker_snoc. cbn [is_marker]. apply (ai_tick _ _ H). exact E.
  - exact I.
  - rewrite length_aset_fresh by exact G. rewrite n_issue_snoc, n_done_snoc. cbn [issue_d done_d].
    pose proof (ai_count _ _ H). lia.
  - intros t' id' n' I. apply in_snoc in I. destruct I as [I|E].
    + destruct (ai_done _ _ H t' id' n' I) as [D|D].
      * left. rewrite count_cb_snoc, D. reflexivity.
      * right. rewrite aget_aset_other; [exact D | intro; subst; congruence].
    + inv E. right. apply aget_aset_same.
  - apply drops_snoc; [apply (ai_drops _ _ H) | intros; discriminate].
  - apply sent_snoc; [apply (ai_sent _ _ H) | intros; discriminate].
Qed.

Lemma AInv_close a tr t c id n :
  AInv a tr -> aget id (a_open a) = Some (t, n) -> c <> RNoService -> justified tr t c ->
  (forall id' k, In (EResp id' k) (mtail a) -> id' = id) ->
  AInv (mkA (adel id (a_open a)) (a_nt a) (a_tick a) MIdle) (tr ++ [ECb t c]).
Proof.
  intros H G Nns J Hmt.
  destruct (ai_open _ _ H id t n G) as (Lt & Ct & _).
  assert (Hdd : done_d (ECb t c) = 1) by (destruct c; try reflexivity; contradiction).
  constructor; cbn [a_open a_nt a_tick a_mode].
  - apply sorted_adel. apply (ai_sorted _ _ H).
  - intros id' t' n' G'. unfold mtail at 1; cbn [a_mode].
    destruct (Z.eq_dec id' id) as [->|Ne]; [rewrite aget_adel_same in G'; discriminate|].
    rewrite aget_adel_other in G' by exact Ne.
    destruct (ai_open _ _ H id' t' n' G') as (L & C & N0' & x & y & T & NR).
    split; [lia|]. split.
    { rewrite count_cb_snoc, C. cbn [cb_inc]. destruct (Z.eqb_spec t' t) as [->|]; [|reflexivity].
      exfalso. apply Ne. eapply (ai_tags _ _ H); eassumption. }
    split; [exact N0'|].
    exists x, (y ++ mtail a ++ [ECb t c]).
    split; [rewrite T, app_nil_r; repeat (rewrite <- app_assoc; cbn [app]); reflexivity|].
    apply no_resp_app; [exact NR|]. apply no_resp_app.
    + intros k I. apply Ne. eapply Hmt. exact I.
    + intros k [I|[]]. discriminate.
  - intros id1 id2 t0 n1 n2 G1 G2.
    destruct (Z.eq_dec id1 id) as [->|N1]; [rewrite aget_adel_same in G1; discriminate|].
    destruct (Z.eq_dec id2 id) as [->|N2]; [rewrite aget_adel_same in G2; discriminate|].
    rewrite aget_adel_other in G1 by exact N1. rewrite aget_adel_other in G2 by exact N2.
    eapply (ai_tags _ _ H); eassumption.
  - intros t0 L. destruct (ai_fresh _ _ H t0 L) as [C1 C2].
    rewrite count_cb_snoc, count_issue_snoc, C1, C2. cbn [cb_inc issue_inc].
    destruct (Z.eqb_spec t0 t); [lia | split; reflexivity].
  - intro t0. rewrite count_cb_snoc. cbn [cb_inc]. destruct (Z.eqb_spec t0 t) as [->|].
    + rewrite Ct. lia.
    + pose proof (ai_once _ _ H t0). lia.
  - intro t0. rewrite count_issue_snoc. cbn [issue_inc]. pose proof (ai_iuniq _ _ H t0). lia.
  - apply matching_snoc; [apply (ai_match _ _ H)|]. intros t0 c0 E. injection E as <- <-. exact J.
  - intros now E. rewrite last_marker_snoc. cbn [is_marker]. apply (ai_tick _ _ H). exact E.
  - exact I.
  - pose proof (length_adel_present id (t, n) (a_open a) (ai_sorted _ _ H) G) as Len.
    rewrite n_issue_snoc, n_done_snoc, Hdd. cbn [issue_d]. pose proof (ai_count _ _ H). lia.
  - intros t' id' n' I. apply in_snoc in I. destruct I as [I|E]; [|discriminate].
    destruct (ai_done _ _ H t' id' n' I) as [D|D].
    + left. rewrite count_cb_snoc, D. cbn [cb_inc]. destruct (Z.eqb_spec t' t) as [->|]; [lia | reflexivity].
    + destruct (Z.eq_dec id' id) as [->|Ne].
      * left. rewrite G in D. inv D. rewrite count_cb_snoc, Ct. cbn [cb_inc]. rewrite Z.eqb_refl. reflexivity.
      * right. rewrite aget_adel_other by exact Ne. exact D.
  - apply drops_snoc; [apply (ai_drops _ _ H) | intros; discriminate].
  - apply sent_snoc; [apply (ai_sent _ _ H) | intros; discriminate].
Qed.

Lemma AInv_ns a tr t :
  AInv a tr -> a_mode a = MMustNS t ->
  AInv (mkA (a_open a) (a_nt a) (a_tick a) MIdle) (tr ++ [ECb t RNoService]).
Proof.
  intros H Em. pose proof (ai_mode _ _ H) as Hm. rewrite Em in Hm.
  destruct Hm as ((p & Tp) & Ct & Cit & Lt).
  assert (MT : mtail a = []) by (unfold mtail; rewrite Em; reflexivity).
  assert (Hne : forall t' id n, In (EIssue t' id n) tr -> t' <> t).
  { intros t' id n I ->. apply count_issue_in in I. lia. }
  constructor; cbn [a_open a_nt a_tick a_mode].
  - apply (ai_sorted _ _ H).
  - intros id t' n G. unfold mtail at 1; cbn [a_mode].
    destruct (ai_open _ _ H id t' n G) as (L & C & N0 & x & y & T & NR).
    split; [exact L|]. split.
    { rewrite count_cb_snoc, C. cbn [cb_inc]. destruct (Z.eqb_spec t' t) as [->|]; [|reflexivity].
      exfalso. eapply Hne; [|reflexivity]. rewrite T. apply in_or_app. right. left. reflexivity. }
    split; [exact N0|]. rewrite MT, app_nil_r in T.
    exists x, (y ++ [ECb t RNoService]). split; [rewrite T, app_nil_r, <- app_assoc; reflexivity|].
    apply no_resp_snoc; [exact NR | intros; discriminate].
  - apply (ai_tags _ _ H).
  - intros t0 L. destruct (ai_fresh _ _ H t0 L) as [C1 C2].
    rewrite count_cb_snoc, count_issue_snoc, C1, C2. cbn [cb_inc issue_inc].
    destruct (Z.eqb_spec t0 t); [lia | split; reflexivity].
  - intro t0. rewrite count_cb_snoc. cbn [cb_inc]. destruct (Z.eqb_spec t0 t) as [->|].
    + rewrite Ct. lia.
    + pose proof (ai_once _ _ H t0). lia.
  - intro t0. rewrite count_issue_snoc. cbn [issue_inc]. pose proof (ai_iuniq _ _ H t0). lia.
  - apply matching_snoc; [apply (ai_match _ _ H)|]. intros t0 c0 E. injection E as <- <-. exists p. exact Tp.
  - intros now E. rewrite last_marker_snoc. cbn [is_marker]. apply (ai_tick _ _ H). exact E.
  - exact I.
  - rewrite n_issue_snoc, n_done_snoc. cbn [issue_d done_d]. pose proof (ai_count _ _ H). lia.
  - intros t' id' n' I. apply in_snoc in I. destruct I as [I|E]; [|discriminate].
    destruct (ai_done _ _ H t' id' n' I) as [D|D]; [left | right; exact D].
    rewrite count_cb_snoc, D. cbn [cb_inc].
    destruct (Z.eqb_spec t' t) as [->|]; [exfalso; eapply Hne; eauto | reflexivity].
  - apply drops_snoc; [apply (ai_drops _ _ H) | intros; discriminate].
  - apply sent_snoc; [apply (ai_sent _ _ H) | intros; discriminate].
Qed.

Lemma val_eqb_eq a b : val_eqb a b = true -> a = b.
Proof. destruct a, b; simpl; intro H; try discriminate; try reflexivity; f_equal; lia. Qed.

Lemma val_eqb_refl a : val_eqb a a = true.
Proof. destruct a; simpl; rewrite ?Z.eqb_refl; reflexivity. Qed.

Lemma cls_eqb_eq a b : cls_eqb a b = true -> a = b.
Proof.
  destruct a, b; simpl; intro H; try discriminate; try reflexivity.
  - f_equal. apply val_eqb_eq. exact H.
  - f_equal. lia.
  - f_equal. apply Bool.eqb_prop. exact H.
Qed.

Lemma cls_eqb_refl a : cls_eqb a a = true.
Proof.
  destruct a; simpl; try reflexivity;
    [apply val_eqb_refl | apply Z.eqb_refl | apply Bool.eqb_reflx].
Qed.

Lemma ty_eqb_refl t : ty_eqb t t = true.
Proof. destruct t; reflexivity. Qed.

Lemma body_eqb_refl b : body_eqb b b = true.
Proof. destruct b; simpl; rewrite ?Z.eqb_refl; reflexivity. Qed.

Lemma wire_eqb_refl w : wire_eqb w w = true.
Proof. destruct w; simpl. rewrite !Z.eqb_refl, ty_eqb_refl, body_eqb_refl. reflexivity. Qed.

Lemma pmsg_eqb_refl m : pmsg_eqb m m = true.
Proof. destruct m; simpl; rewrite ?Z.eqb_refl; reflexivity. Qed.

Lemma ans_eqb_refl a : ans_eqb a a = true.
Proof.
  destruct a; simpl; [rewrite !Z.eqb_refl, pmsg_eqb_refl; reflexivity | apply wire_eqb_refl].
Qed.

Lemma kind_eqb_refl k : kind_eqb k k = true.
Proof. unfold kind_eqb. apply ans_eqb_refl. Qed.

(* ---- the decoding, case by case *)

Lemma decode_body_shape t b :
  decode_body t b <> RTimeout /\ decode_body t b <> RNoService /\ decode_body t b <> ROther /\
  forall e, decode_body t b <> RErr e.
Proof. destruct t, b; simpl; repeat split; try intro; discriminate. Qed.

Lemma decode_shape w : decode w <> RTimeout /\ decode w <> RNoService /\ decode w <> ROther.
Proof.
  destruct w as [c e t b]. unfold decode. destruct (c =? 0).
  - destruct (decode_body_shape t b) as (A & B & C & _). auto.
  - repeat split; discriminate.
Qed.

Lemma decode_exact c e t b :
  (forall x, decode (Wire c e t b) = RErr x <-> c <> 0 /\ x = e) /\
  (decode (Wire c e t b) = RNil <-> c = 0 /\ t = TyNone) /\
  (forall v, decode (Wire c e t b) = RReply v <->
     c = 0 /\ ((t = TyHello /\ exists i s, b = BFields i s /\ v = VHello i s) \/
               (t = TyEmpty /\ b <> BJunk /\ v = VEmpty))) /\
  (forall p, decode (Wire c e t b) = RBad p <->
     c = 0 /\ ((p = false /\ t = TyUnknown) \/
               (p = true /\ b = BJunk /\ (t = TyHello \/ t = TyEmpty)))) /\
  decode (Wire c e t b) <> RTimeout /\ decode (Wire c e t b) <> RNoService /\
  decode (Wire c e t b) <> ROther.
Proof.
  split; [|split; [|split; [|split]]].
  - intro x. unfold decode. destruct (Z.eqb_spec c 0) as [->|N].
    + split; [|intros [H _]; contradiction].
      intro H. destruct (decode_body_shape t b) as (_ & _ & _ & D). exfalso. exact (D x H).
    + split; [intro H; inv H; auto | intros [_ ->]; reflexivity].
  - unfold decode. destruct (Z.eqb_spec c 0) as [->|N].
    + split.
      * intro H. split; [reflexivity|]. destruct t, b; simpl in H; try discriminate; reflexivity.
      * intros [_ ->]. reflexivity.
    + split; [discriminate | intros [H _]; contradiction].
  - intro v. unfold decode. destruct (Z.eqb_spec c 0) as [->|N].
    + split.
      * intro H. split; [reflexivity|].
        destruct t, b as [i s|]; simpl in H; try discriminate; inv H.
        -- left. split; [reflexivity|]. exists i, s. split; reflexivity.
        -- right. split; [reflexivity|]. split; [discriminate | reflexivity].
      * intros (_ & [(-> & i & s & -> & ->) | (-> & B & ->)]); simpl; [reflexivity|].
        destruct b as [i s|]; [reflexivity | exfalso; apply B; reflexivity].
    + split; [discriminate | intros [H _]; contradiction].
  - intro p. unfold decode. destruct (Z.eqb_spec c 0) as [->|N].
    + split.
      * intro H. split; [reflexivity|].
        destruct t, b as [i s|]; simpl in H; try discriminate; inv H; auto 6.
      * intros (_ & [(-> & ->) | (-> & -> & [->| ->])]); reflexivity.
    + split; [discriminate | intros [H _]; contradiction].
  - apply decode_shape.
Qed.

(* what the peer hands to Service.Response is what the callback receives: the message itself
   (a typed nil pointer arrives as the zero message), nil for nil, and for an error code the
   error text alone whatever message came with it *)
Lemma roundtrip code info m :
  cls_of_ans (KAns code info m) =
  if code =? 0
  then match m with
       | MNil => RNil
       | MTypedNil => RReply (VHello 0 0)
       | MHello i s => RReply (VHello i s)
       | MEmpty => RReply VEmpty
       end
  else RErr info.
Proof.
  unfold cls_of_ans, wire_of_ans, encode. destruct (code =? 0) eqn:C.
  - destruct m; reflexivity.
  - simpl. rewrite C. reflexivity.
Qed.

Lemma cls_of_reply k : cls_of k <> RNoService /\ cls_of k <> RTimeout.
Proof. destruct (decode_shape (wire_of k)) as (A & B & _). split; assumption. Qed.

Lemma cls_of_not_other k : cls_of k <> ROther.
Proof. destruct (decode_shape (wire_of k)) as (_ & _ & C). exact C. Qed.

Lemma justified_reply tr t k :
  (exists a id n b, tr = a ++ EIssue t id n :: b ++ [EResp id k] /\ no_resp id b) ->
  justified tr t (cls_of k).
Proof.
  intros (a & id & n & b & T & NR).
  destruct (cls_of_reply k) as [N1 N2].
  destruct (cls_of k) eqn:E; try contradiction; simpl;
    exists a, id, n, b, k; (split; [exact T | split; [exact NR | symmetry; exact E]]).
Qed.

Lemma acc_idle_inv a a' tr e :
  AInv a tr -> mtail a = [] -> acc_idle a e = Some a' -> AInv a' (tr ++ [e]).
Proof.
  intros H MT S. destruct e as [| | |id k|now|t id n|id sp|id t|t|t c|id]; cbn [acc_idle] in S.
  - inv S. apply (AInv_keep a); cbn [a_open a_nt a_tick a_mode]; auto; try lia; try discriminate.
  - inv S. apply (AInv_keep a); cbn [a_open a_nt a_tick a_mode]; auto; try lia; try discriminate.
  - inv S. apply (AInv_keep a); cbn [a_open a_nt a_tick a_mode]; auto; try lia; try discriminate.
  - inv S. apply (AInv_keep a); cbn [a_open a_nt a_tick a_mode]; auto; try lia; try discriminate.
    + destruct (aget id (a_open a)) eqn:G;
        [split; [reflexivity | rewrite G; discriminate] | split; [eexists; reflexivity | exact G]].
    + intros id' k' E. injection E as <- <-. destruct (aget id (a_open a)) eqn:G; [left; reflexivity | right; reflexivity].
  - inv S. apply (AInv_keep a); cbn [a_open a_nt a_tick a_mode]; auto; try lia; try discriminate.
    intros now' E. inv E. rewrite last_marker_snoc. reflexivity.
  - destruct ((t =? a_nt a) && isnone (aget id (a_open a)) && negb (id =? 0)) eqn:C; [|discriminate].
    inv S. apply andb_true_iff in C. destruct C as [C C3]. apply andb_true_iff in C. destruct C as [C1 C2].
    apply AInv_issue; [exact H | exact MT | lia | destruct (aget id (a_open a)); [discriminate | reflexivity] | lia].
  - discriminate.
  - assert (K : forall now, a_tick a = Some now -> last_marker (tr ++ [ESent id t]) = Some (ETick now)).
    { intros now E. rewrite last_marker_snoc. cbn [is_marker]. apply (ai_tick _ _ H). exact E. }
    destruct (Z.eqb_spec id 0) as [->|N0].
    + destruct (t =? -1); [|discriminate]. inv S.
      apply (AInv_keep a); cbn [a_open a_nt a_tick a_mode]; auto; try lia; try discriminate.
      intros id' t' E Ne. inv E. contradiction.
    + destruct (aget id (a_open a)) as [[t' n]|] eqn:G; [|discriminate].
      destruct (Z.eqb_spec t' t) as [->|]; [|discriminate]. inv S.
      apply (AInv_keep a); cbn [a_open a_nt a_tick a_mode]; auto; try lia; try discriminate.
      intros id' t' E _. injection E as <- <-.
      destruct (ai_open _ _ H id t n G) as (_ & _ & _ & x & y & T & _).
      exists n. rewrite T. apply in_or_app. right. left. reflexivity.
  - destruct (Z.eqb_spec t (a_nt a)) as [->|]; [|discriminate]. inv S.
    apply (AInv_keep a); cbn [a_open a_nt a_tick a_mode]; auto; try lia; try discriminate.
    + intros now E. rewrite last_marker_snoc. cbn [is_marker]. apply (ai_tick _ _ H). exact E.
    + split; [reflexivity | lia].
  - destruct c; try discriminate.
    destruct (a_tick a) as [now|] eqn:Tk; [|discriminate].
    destruct (find_tag t (a_open a)) as [[id n]|] eqn:F; [|discriminate].
    destruct (n + Timeout <? now) eqn:Lt; [|discriminate]. inv S.
    apply find_tag_spec in F. destruct F as (t' & I & ->).
    apply (in_aget _ _ _ (ai_sorted _ _ H)) in I.
    rewrite <- Tk.
    apply (AInv_close a tr t RTimeout id n H I); [discriminate| |rewrite MT; intros id' k []].
    destruct (ai_open _ _ H id t n I) as (_ & _ & _ & x & y & T & NR).
    rewrite MT, app_nil_r in T. exists x, id, n, y, now.
    split; [exact T|]. split; [exact NR|]. split; [apply (ai_tick _ _ H); exact Tk | lia].
  - discriminate.
Qed.


Lemma open_in_snoc_resp p id id' k : open_in (p ++ [EResp id' k]) id <-> open_in p id.
Proof.
  unfold open_in. split; intros (t & n & I & C); exists t, n.
  - apply in_snoc in I. destruct I as [I|E]; [|discriminate].
    rewrite count_cb_snoc in C. cbn [cb_inc] in C. split; [exact I | lia].
  - split; [apply in_snoc; left; exact I|]. rewrite count_cb_snoc. cbn [cb_inc]. lia.
Qed.

Lemma acc_step_inv a a' tr e :
  AInv a tr -> acc_step a e = Some a' -> AInv a' (tr ++ [e]).
Proof.
  intros H S. unfold acc_step in S. destruct (a_mode a) as [|id k|id|t] eqn:Em.
  - apply (acc_idle_inv a); [exact H | unfold mtail; rewrite Em; reflexivity | exact S].
  - destruct e; try discriminate.
    destruct (aget id (a_open a)) as [[t' n]|] eqn:G; [|discriminate].
    destruct ((tag =? t') && cls_eqb c (cls_of k)) eqn:C; [|discriminate]. inv S.
    apply andb_true_iff in C. destruct C as [C1 C2]. apply cls_eqb_eq in C2. subst c.
    assert (tag = t') by lia. subst tag.
    destruct (cls_of_reply k) as [N1 N2].
    apply (AInv_close a tr t' (cls_of k) id n H G N1).
    + apply justified_reply.
      destruct (ai_open _ _ H id t' n G) as (_ & _ & _ & x & y & T & NR).
      unfold mtail in T. rewrite Em in T. exists x, id, n, y. split; [exact T | exact NR].
    + unfold mtail. rewrite Em. intros id' k' [E|[]]. inv E. reflexivity.
  - assert (MT : mtail a = []) by (unfold mtail; rewrite Em; reflexivity).
    destruct e; try (apply (acc_idle_inv a); [exact H | exact MT | exact S]).
    destruct (Z.eqb_spec id id0) as [<-|]; [|discriminate]. inv S.
    pose proof (ai_mode _ _ H) as Hm. rewrite Em in Hm. destruct Hm as ((p & k & Tp) & G).
    apply (AInv_keep a); cbn [a_open a_nt a_tick a_mode]; auto; try lia; try discriminate.
    + intros now E. rewrite last_marker_snoc. cbn [is_marker]. apply (ai_tick _ _ H). exact E.
    + intros id' E. injection E as <-. exists p, k. split; [exact Tp|].
      intro O. apply (open_in_snoc_resp p id id k) in O. rewrite <- Tp in O.
      apply (AInv_open_in a tr id H) in O. contradiction.
  - destruct e; try discriminate. destruct c; try discriminate.
    destruct (Z.eqb_spec t tag) as [<-|]; [|discriminate]. inv S.
    apply AInv_ns; assumption.
Qed.

Lemma acc_from_inv tr2 : forall a tr a',
  AInv a tr -> acc_from a tr2 = Some a' -> AInv a' (tr ++ tr2).
Proof.
  induction tr2 as [|e r IH]; intros a tr a' H S; cbn [acc_from] in S.
  - inv S. rewrite app_nil_r. exact H.
  - destruct (acc_step a e) as [a1|] eqn:E; [|discriminate].
    change (e :: r) with ([e] ++ r). rewrite app_assoc.
    eapply IH; [eapply acc_step_inv; eassumption | exact S].
Qed.

Lemma acc_from_app a tr1 tr2 :
  acc_from a (tr1 ++ tr2) =
  match acc_from a tr1 with Some a1 => acc_from a1 tr2 | None => None end.
Proof.
  revert a. induction tr1 as [|e r IH]; intro a; cbn [acc_from app]; [reflexivity|].
  destruct (acc_step a e); [apply IH | reflexivity].
Qed.

(* ---- a response for an open id is completed by the very next event *)

Definition resp_weak (tr : list ev) : Prop :=
  forall pre id k rest, tr = pre ++ EResp id k :: rest -> open_in pre id ->
    rest = [] \/
    exists (t n : Z) (post : list ev), rest = ECb t (cls_of k) :: post /\
                     In (EIssue t id n) pre /\ count_cb t pre = 0%nat.

Definition RInv (a : ast) (tr : list ev) : Prop :=
  resp_weak tr /\
  (forall p id k, tr = p ++ [EResp id k] -> a_mode a = MMustCb id k \/ a_mode a = MMayDrop id).

Lemma acc_step_resp_mode a id k a' :
  acc_step a (EResp id k) = Some a' -> a_mode a' = MMustCb id k \/ a_mode a' = MMayDrop id.
Proof.
  unfold acc_step. destruct (a_mode a); cbn [acc_idle]; intro H; try discriminate;
    inv H; cbn [a_mode]; destruct (aget id (a_open a)); auto.
Qed.

Lemma acc_step_mustcb a id k e a' :
  a_mode a = MMustCb id k -> acc_step a e = Some a' ->
  exists t n, e = ECb t (cls_of k) /\ aget id (a_open a) = Some (t, n).
Proof.
  intros Em H. unfold acc_step in H. rewrite Em in H. destruct e; try discriminate.
  destruct (aget id (a_open a)) as [[t' n]|]; [|discriminate].
  destruct ((tag =? t') && cls_eqb c (cls_of k)) eqn:C; [|discriminate].
  apply andb_true_iff in C. destruct C as [C1 C2]. apply cls_eqb_eq in C2. subst c.
  exists t', n. split; [f_equal; lia | reflexivity].
Qed.

Lemma RInv_init : RInv a0 [].
Proof.
  split.
  - intros pre id k rest E. destruct pre; discriminate.
  - intros p id k E. destruct p; discriminate.
Qed.

Lemma RInv_step a a' tr e :
  AInv a tr -> RInv a tr -> acc_step a e = Some a' -> RInv a' (tr ++ [e]).
Proof.
  intros AI [RW RL] S. split.
  - intros pre id k rest E O. apply snoc_split in E.
    destruct E as [(-> & -> & E)|(rest' & -> & ->)]; [left; reflexivity|].
    destruct (RW pre id k rest' eq_refl O) as [->|(t & n & post & -> & I & C)].
    + right. cbn [app].
      destruct (RL pre id k eq_refl) as [Em|Em].
      * destruct (acc_step_mustcb a id k e a' Em S) as (t & n & -> & G).
        destruct (ai_open _ _ AI id t n G) as (_ & C & _ & x & y & T & _).
        exists t, n, []. split; [reflexivity|].
        assert (I : In (EIssue t id n) (pre ++ [EResp id k])).
        { rewrite T. apply in_or_app. right. left. reflexivity. }
        apply in_snoc in I. destruct I as [I|I]; [|discriminate].
        split; [exact I|]. rewrite count_cb_snoc in C. cbn [cb_inc] in C. lia.
      * exfalso. pose proof (ai_mode _ _ AI) as Hm. rewrite Em in Hm. destruct Hm as [_ G].
        apply (open_in_snoc_resp pre id id k) in O.
        apply (AInv_open_in a _ id AI) in O. contradiction.
    + right. exists t, n, (post ++ [e]). split; [reflexivity | split; assumption].
  - intros p id k E. apply app_inj_tail in E. destruct E as [_ ->].
    eapply acc_step_resp_mode. exact S.
Qed.

Lemma RInv_from tr2 : forall a tr a',
  AInv a tr -> RInv a tr -> acc_from a tr2 = Some a' -> RInv a' (tr ++ tr2).
Proof.
  induction tr2 as [|e r IH]; intros a tr a' AI R S; cbn [acc_from] in S.
  - inv S. rewrite app_nil_r. exact R.
  - destruct (acc_step a e) as [a1|] eqn:E; [|discriminate].
    change (e :: r) with ([e] ++ r). rewrite app_assoc.
    eapply IH; [eapply acc_step_inv; eassumption | eapply RInv_step; eassumption | exact S].
Qed.

Lemma accepts_resp_completes tr : accepts tr = true -> resp_completes tr.
Proof.
  unfold accepts. destruct (acc_from a0 tr) as [a|] eqn:E; [|discriminate]. intro St.
  pose proof (acc_from_inv tr a0 [] a AInv_init E) as AI. cbn [app] in AI.
  destruct (RInv_from tr a0 [] a AInv_init RInv_init E) as [RW RL]. cbn [app] in RW, RL.
  intros pre id k rest T O. destruct (RW pre id k rest T O) as [->|H]; [|exact H]. exfalso.
  destruct (RL pre id k T) as [Em|Em]; unfold settled in St; rewrite Em in St; [discriminate|].
  pose proof (ai_mode _ _ AI) as Hm. rewrite Em in Hm. destruct Hm as [_ G].
  rewrite T in AI. apply (open_in_snoc_resp pre id id k) in O.
  apply (AInv_open_in a _ id AI) in O. contradiction.
Qed.

(* the acceptor is sound for the trace clauses of the property *)
Theorem acceptor_sound tr a :
  acc_from a0 tr = Some a ->
  at_most_once tr /\ issue_unique tr /\ matching tr /\ drops_ok tr /\ sent_after_issue tr /\
  (forall id, open_in tr id <-> aget id (a_open a) <> None) /\
  Z.of_nat (length (a_open a)) = n_issue tr - n_done tr.
Proof.
  intro S. pose proof (acc_from_inv tr a0 [] a AInv_init S) as H. cbn [app] in H.
  split; [apply (ai_once _ _ H)|]. split; [apply (ai_iuniq _ _ H)|].
  split; [apply (ai_match _ _ H)|]. split; [apply (ai_drops _ _ H)|].
  split; [apply (ai_sent _ _ H)|]. split; [|apply (ai_count _ _ H)].
  intro id. apply AInv_open_in. exact H.
Qed.

(* ================================================================== Part 3: simulation *)

Definition ent (e : entry) : Z * Z := (e_tag e, e_dl e - Timeout).

Definition inflight (f : option Z) (id : Z) : bool :=
  match f with Some i => i =? id | None => false end.

Definition tick_of (m : option ev) : option Z :=
  match m with Some (ETick n) => Some n | _ => None end.

Record Rel (c : cfg) (a : ast) : Prop := {
  r_acc : acc_from a0 (ct c) = Some a;
  r_idle : a_mode a = MIdle;
  r_nt : a_nt a = ntags (cs c);
  r_tick : a_tick a = tick_of (last_marker (ct c));
  r_open : forall id, aget id (a_open a) =
                      if inflight (cf c) id then None
                      else option_map ent (aget id (pending (cs c)));
  r_flight : forall id, cf c = Some id -> aget id (pending (cs c)) <> None
}.

Section Sim.
  Variable M : Z.
  Hypothesis M_pos : 1 <= M.

  Definition base (c : cfg) : Prop :=
    sorted (pending (cs c)) /\
    (forall j, 0 <= next_of (cs c) j <= M) /\
    (forall j, has_block M j (pending (cs c)) -> armed_of (cs c) j = true /\ 0 <= j <= cur (cs c)) /\
    0 <= foc (cs c) <= cur (cs c).

  Definition Sim (c : cfg) : Prop := base c /\ (noclash (ct c) -> exists a, Rel c a).

  Lemma alloc_range n : 0 <= n <= M -> 1 <= alloc_id M n <= M.
  Proof. unfold alloc_id. intro H. destruct (Z.leb_spec M n); lia. Qed.

  Lemma next_of_foc s : next_of s (foc s) = next s.
  Proof. unfold next_of. rewrite view_foc. reflexivity. Qed.

  Lemma armed_of_foc s : armed_of s (foc s) = armed s.
  Proof. unfold armed_of. rewrite view_foc. reflexivity. Qed.

  (* the views of a state that differs from s only in the focused incarnation's own values *)
  Lemma views_upd s s' :
    foc s' = foc s -> rest s' = rest s ->
    forall j, view s' j = if j =? foc s then (next s', armed s', nalloc s') else view s j.
  Proof.
    intros F R j. destruct (Z.eqb_spec j (foc s)) as [->|N].
    - rewrite <- F. apply view_foc.
    - apply view_other; assumption.
  Qed.

  Lemma base_upd s s' :
    sorted (pending s') -> foc s' = foc s -> rest s' = rest s -> cur s' = cur s ->
    0 <= next s' <= M ->
    (forall j, has_block M j (pending s') -> j <> foc s -> has_block M j (pending s)) ->
    (has_block M (foc s) (pending s') -> armed s' = true) ->
    forall f tr f' tr', base (f, s, tr) -> base (f', s', tr').
  Proof.
    intros S' F R C N HB HA f tr f' tr' (S & Rg & A & Fo). unfold base, cs in *; cbn [fst snd] in *.
    split; [exact S'|]. split; [|split; [|rewrite F, C; exact Fo]].
    - intro j. unfold next_of. rewrite (views_upd s s' F R j).
      destruct (Z.eqb_spec j (foc s)); [exact N | apply Rg].
    - intros j H. unfold armed_of. rewrite (views_upd s s' F R j), C.
      destruct (Z.eqb_spec j (foc s)) as [->|Ne]; [split; [apply HA; exact H | exact Fo] | apply A; apply HB; assumption].
  Qed.

  Lemma base_prim c c' : prim M c c' -> base c -> base c'.
  Proof.
    intros P B.
    destruct P as [c c' P|s tr m Hm|s tr id k G|s tr id k e G|s tr Ar Pe|s tr Ar Pn|s tr id e G D LM
                   |s tr id|s tr dt Hd|s tr v Hv Pe|s tr j Hj|s tr];
      try exact B.
    - destruct P as [f s tr u p|f s tr|f s tr].
      + pose proof B as (S & Rg & A & Fo). unfold cs in *; cbn [fst snd] in *.
        pose proof (Rg (foc s)) as R0. rewrite next_of_foc in R0. pose proof (alloc_range _ R0) as Hid.
        eapply base_upd; [| | | | | | |exact B]; unfold register; cbn [fst snd pending foc rest cur next armed];
          try reflexivity.
        * apply sorted_aset; exact S.
        * lia.
        * intros j (k & e & G & I) Ne.
          destruct (Z.eq_dec k (key M (foc s) (alloc_id M (next s)))) as [->|Nk].
          { rewrite inc_of_key in I by lia. congruence. }
          { rewrite aget_aset_other in G by exact Nk. exists k, e. auto. }
      + exact B.
      + eapply base_upd; [| | | | | | |exact B]; cbn [fst snd set_ntags pending foc rest cur next armed]; try reflexivity.
        * apply B.
        * destruct B as (_ & Rg & _). specialize (Rg (foc s)). rewrite next_of_foc in Rg. exact Rg.
        * auto.
        * destruct B as (_ & _ & A & _). intro H. destruct (A _ H) as [A1 _]. rewrite armed_of_foc in A1. exact A1.
    - (* tick off *)
      pose proof B as (S & Rg & A & Fo). unfold cs in *; cbn [fst snd] in *.
      eapply base_upd; [| | | | | | |exact B]; cbn [set_armed pending foc rest cur next armed]; try reflexivity.
      + exact S.
      + specialize (Rg (foc s)). rewrite next_of_foc in Rg. exact Rg.
      + auto.
      + intro H. exfalso. apply (proj1 (block_nil_iff M (foc s) (pending s) S) Pe). exact H.
    - (* end of a callback *)
      pose proof B as (S & Rg & A & Fo). unfold cs in *; cbn [fst snd] in *.
      eapply base_upd; [| | | | | | |exact B]; cbn [set_pending pending foc rest cur next armed]; try reflexivity.
      + apply sorted_adel; exact S.
      + specialize (Rg (foc s)). rewrite next_of_foc in Rg. exact Rg.
      + intros j (k & e & G & I) _. destruct (Z.eq_dec k id) as [->|Nk]; [rewrite aget_adel_same in G; discriminate|].
        rewrite aget_adel_other in G by exact Nk. exists k, e. auto.
      + intros (k & e & G & I). destruct (Z.eq_dec k id) as [->|Nk]; [rewrite aget_adel_same in G; discriminate|].
        rewrite aget_adel_other in G by exact Nk. rewrite <- armed_of_foc. apply (A (foc s)). exists k, e. auto.
    - (* set next *)
      pose proof B as (S & Rg & A & Fo). unfold cs in *; cbn [fst snd] in *.
      eapply base_upd; [| | | | | | |exact B]; cbn [set_next pending foc rest cur next armed]; try reflexivity.
      + exact S.
      + lia.
      + auto.
      + rewrite Pe. intros (k & e & G & _). discriminate.
    - (* focus *)
      destruct B as (S & Rg & A & Fo). unfold base, cs in *; cbn [fst snd] in *.
      destruct (focus_frame s j) as (P & _ & _ & C & F). rewrite P, C, F.
      split; [exact S|]. split; [|split; [|exact Hj]].
      + intro j'. unfold next_of. rewrite view_focus. apply Rg.
      + intros j' H. unfold armed_of. rewrite view_focus. apply A. exact H.
    - (* restart *)
      destruct B as (S & Rg & A & Fo). unfold base, cs in *; cbn [fst snd set_cur pending foc cur] in *.
      split; [exact S|]. split; [exact Rg|]. split; [|lia].
      intros j H. destruct (A j H) as [A1 A2]. split; [exact A1 | lia].
  Qed.

  Lemma acc_snoc a tr e a' :
    acc_from a0 tr = Some a -> acc_step a e = Some a' -> acc_from a0 (tr ++ [e]) = Some a'.
  Proof. intros H S. rewrite acc_from_app, H. cbn [acc_from]. rewrite S. reflexivity. Qed.

  Lemma tick_of_nomark tr o : nomark o -> tick_of (last_marker (tr ++ o)) = tick_of (last_marker tr).
  Proof. intro H. rewrite last_marker_nomark by exact H. reflexivity. Qed.

  Lemma rel_prim c c' a :
    prim M c c' -> base c -> noclash (ct c') -> Rel c a -> exists a', Rel c' a'.
  Proof.
    intros P B NC R. destruct B as (S & Rg & _ & Fo).
    pose proof (acc_from_inv (ct c) a0 [] a AInv_init (r_acc _ _ R)) as AI. cbn [app] in AI.
    destruct R as [Racc Ridle Rnt Rtick Ropen Rfl].
    destruct P as [c c' P|s tr m Hm|s tr id k G|s tr id k e G|s tr Ar Pe|s tr Ar Pn|s tr id e G D LM
                   |s tr id|s tr dt Hd|s tr v Hv Pe|s tr j Hj|s tr]; unfold cs, ct, cf in *; cbn [fst snd] in *.
    - destruct P as [f s tr u p|f s tr|f s tr]; cbn [fst snd] in *.
      + (* register *)
        unfold register in *; cbn [fst snd] in *.
        set (id := key M (foc s) (alloc_id M (next s))) in *. set (t := ntags s) in *.
        assert (Hid : 1 <= id).
        { pose proof (Rg (foc s)) as R0. rewrite next_of_foc in R0. pose proof (alloc_range _ R0).
          apply key_pos; lia. }
        apply noclash_app in NC. destruct NC as [_ NC]. apply noclash_app in NC. destruct NC as [NC _].
        assert (G : aget id (pending s) = None).
        { destruct (aget id (pending s)) eqn:E; [|reflexivity]. exfalso. eapply NC. left. reflexivity. }
        assert (Fl : inflight f id = false).
        { destruct f as [i|]; [|reflexivity]. simpl. destruct (Z.eqb_spec i id) as [->|]; [|reflexivity].
          exfalso. apply (Rfl id eq_refl). exact G. }
        assert (Go : aget id (a_open a) = None) by (rewrite Ropen, Fl, G; reflexivity).
        set (a1 := mkA (aset id (t, clock s) (a_open a)) (a_nt a + 1) (a_tick a) MIdle).
        assert (S1 : acc_step a (EIssue t id (clock s)) = Some a1).
        { unfold acc_step. rewrite Ridle. cbn [acc_idle]. rewrite Go.
          replace (t =? a_nt a) with true by (symmetry; apply Z.eqb_eq; symmetry; exact Rnt).
          cbn [isnone andb]. destruct (Z.eqb_spec id 0); [lia|]. reflexivity. }
        assert (S2 : acc_step a1 (ESent id t) = Some a1).
        { unfold acc_step. cbn [a1 a_mode acc_idle a_open a_nt a_tick].
          destruct (Z.eqb_spec id 0); [lia|]. rewrite aget_aset_same, Z.eqb_refl. reflexivity. }
        exists a1. rewrite G. cbn [app]. constructor; unfold cs, ct, cf; cbn [fst snd a1 a_open a_nt a_tick a_mode pending ntags].
        * destruct u.
          { apply acc_snoc with (a := a); assumption. }
          { change (tr ++ [EIssue t id (clock s); ESent id t]) with (tr ++ [EIssue t id (clock s)] ++ [ESent id t]).
            rewrite app_assoc. apply acc_snoc with (a := a1); [apply acc_snoc with (a := a); assumption | exact S2]. }
        * reflexivity.
        * rewrite Rnt. reflexivity.
        * rewrite Rtick. symmetry. apply tick_of_nomark.
          intros x I. destruct I as [<-|I]; [reflexivity|]. destruct u; [inversion I|].
          destruct I as [<-|[]]. reflexivity.
        * intro id'. destruct (Z.eq_dec id' id) as [->|Ne].
          { rewrite !aget_aset_same, Fl. cbn [option_map]. unfold ent. cbn [e_tag e_dl]. rewrite Z.add_simpl_r. reflexivity. }
          { rewrite !aget_aset_other by exact Ne. apply Ropen. }
        * intros id' E. destruct (Z.eq_dec id' id) as [->|Ne].
          { rewrite aget_aset_same. discriminate. }
          { rewrite aget_aset_other by exact Ne. apply Rfl. exact E. }
      + (* notify *)
        exists (mkA (a_open a) (a_nt a) (a_tick a) MIdle).
        constructor; unfold cs, ct, cf; cbn [fst snd a_open a_nt a_tick a_mode]; auto.
        * apply acc_snoc with (a := a); [exact Racc|]. unfold acc_step. rewrite Ridle. reflexivity.
        * rewrite Rtick. symmetry. apply tick_of_nomark. intros x [<-|[]]. reflexivity.
      + (* no route *)
        exists (mkA (a_open a) (a_nt a + 1) (a_tick a) MIdle).
        constructor; unfold cs, ct, cf; cbn [fst snd a_open a_nt a_tick a_mode set_ntags pending ntags]; auto.
        * change (tr ++ [ENoRoute (ntags s); ECb (ntags s) RNoService])
            with (tr ++ [ENoRoute (ntags s)] ++ [ECb (ntags s) RNoService]).
          rewrite app_assoc.
          apply acc_snoc with (a := mkA (a_open a) (a_nt a + 1) (a_tick a) (MMustNS (ntags s))).
          { apply acc_snoc with (a := a); [exact Racc|]. unfold acc_step. rewrite Ridle. cbn [acc_idle].
            rewrite Rnt, Z.eqb_refl. reflexivity. }
          { unfold acc_step. cbn [a_mode]. rewrite Z.eqb_refl. reflexivity. }
        * rewrite Rnt. reflexivity.
        * rewrite Rtick. symmetry. apply tick_of_nomark. intros x [<-|[<-|[]]]; reflexivity.
    - (* marker *)
      exists (mkA (a_open a) (a_nt a) None MIdle).
      constructor; unfold cs, ct, cf; cbn [fst snd a_open a_nt a_tick a_mode]; auto.
      + apply acc_snoc with (a := a); [exact Racc|]. unfold acc_step. rewrite Ridle.
        destruct Hm as [->| ->]; reflexivity.
      + rewrite last_marker_snoc. destruct Hm as [->| ->]; reflexivity.
    - (* drop *)
      exists (mkA (a_open a) (a_nt a) None MIdle).
      assert (Go : aget id (a_open a) = None) by (rewrite Ropen; cbn [inflight]; rewrite G; reflexivity).
      constructor; unfold cs, ct, cf; cbn [fst snd a_open a_nt a_tick a_mode]; auto.
      + change (tr ++ [EResp id k; EDrop id]) with (tr ++ [EResp id k] ++ [EDrop id]). rewrite app_assoc.
        apply acc_snoc with (a := mkA (a_open a) (a_nt a) None (MMayDrop id)).
        { apply acc_snoc with (a := a); [exact Racc|]. unfold acc_step. rewrite Ridle. cbn [acc_idle].
          rewrite Go. reflexivity. }
        { unfold acc_step. cbn [a_mode]. rewrite Z.eqb_refl. reflexivity. }
      + change (tr ++ [EResp id k; EDrop id]) with (tr ++ [EResp id k] ++ [EDrop id]).
        rewrite app_assoc, last_marker_snoc. cbn [is_marker]. rewrite last_marker_snoc. reflexivity.
    - (* response for a pending id: its callback *)
      assert (Go : aget id (a_open a) = Some (ent e)) by (rewrite Ropen; cbn [inflight]; rewrite G; reflexivity).
      exists (mkA (adel id (a_open a)) (a_nt a) None MIdle).
      constructor; unfold cs, ct, cf; cbn [fst snd a_open a_nt a_tick a_mode]; auto.
      + change (tr ++ [EResp id k; ECb (e_tag e) (cls_of k)])
          with (tr ++ [EResp id k] ++ [ECb (e_tag e) (cls_of k)]). rewrite app_assoc.
        apply acc_snoc with (a := mkA (a_open a) (a_nt a) None (MMustCb id k)).
        { apply acc_snoc with (a := a); [exact Racc|]. unfold acc_step. rewrite Ridle. cbn [acc_idle].
          rewrite Go. reflexivity. }
        { unfold acc_step. cbn [a_mode a_open a_nt a_tick]. rewrite Go. unfold ent.
          rewrite Z.eqb_refl, cls_eqb_refl. reflexivity. }
      + change (tr ++ [EResp id k; ECb (e_tag e) (cls_of k)])
          with (tr ++ [EResp id k] ++ [ECb (e_tag e) (cls_of k)]).
        rewrite app_assoc, last_marker_snoc. cbn [is_marker]. rewrite last_marker_snoc. reflexivity.
      + intro id'. cbn [inflight]. destruct (Z.eqb_spec id id') as [<-|Ne].
        * apply aget_adel_same.
        * rewrite aget_adel_other by (intro; subst; contradiction). rewrite Ropen. reflexivity.
      + intros id' E. inv E. rewrite G. discriminate.
    - (* scan on an empty table *)
      exists (mkA (a_open a) (a_nt a) (Some (clock s)) MIdle).
      constructor; unfold cs, ct, cf; cbn [fst snd a_open a_nt a_tick a_mode set_armed pending ntags]; auto.
      + apply acc_snoc with (a := a); [exact Racc|]. unfold acc_step. rewrite Ridle. reflexivity.
      + rewrite last_marker_snoc. reflexivity.
    - (* scan *)
      exists (mkA (a_open a) (a_nt a) (Some (clock s)) MIdle).
      constructor; unfold cs, ct, cf; cbn [fst snd a_open a_nt a_tick a_mode]; auto.
      + apply acc_snoc with (a := a); [exact Racc|]. unfold acc_step. rewrite Ridle. reflexivity.
      + rewrite last_marker_snoc. reflexivity.
    - (* timeout callback *)
      assert (Go : aget id (a_open a) = Some (ent e)) by (rewrite Ropen; cbn [inflight]; rewrite G; reflexivity).
      apply noclash_app in NC. destruct NC as [NC _]. specialize (D NC).
      assert (Tk : a_tick a = Some (clock s)) by (rewrite Rtick, LM; reflexivity).
      assert (F : find_tag (e_tag e) (a_open a) = Some (id, e_dl e - Timeout)).
      { apply find_tag_complete.
        - apply aget_in. exact Go.
        - intros id' n' I. apply (in_aget _ _ _ (ai_sorted _ _ AI)) in I.
          assert (id' = id) by (eapply (ai_tags _ _ AI); [exact I | exact Go]). subst id'.
          rewrite Go in I. inv I. auto. }
      exists (mkA (adel id (a_open a)) (a_nt a) (a_tick a) MIdle).
      constructor; unfold cs, ct, cf; cbn [fst snd a_open a_nt a_tick a_mode]; auto.
      + apply acc_snoc with (a := a); [exact Racc|]. unfold acc_step. rewrite Ridle. cbn [acc_idle].
        rewrite Tk, F. destruct (Z.ltb_spec (e_dl e - Timeout + Timeout) (clock s)); [reflexivity | lia].
      + rewrite Rtick. symmetry. apply tick_of_nomark. intros x [<-|[]]. reflexivity.
      + intro id'. cbn [inflight]. destruct (Z.eqb_spec id id') as [<-|Ne].
        * apply aget_adel_same.
        * rewrite aget_adel_other by (intro; subst; contradiction). rewrite Ropen. reflexivity.
      + intros id' E. inv E. rewrite G. discriminate.
    - (* end of a callback: delete *)
      exists a. constructor; unfold cs, ct, cf; cbn [fst snd set_pending pending ntags]; auto.
      + intro id'. cbn [inflight]. rewrite Ropen. cbn [inflight]. destruct (Z.eqb_spec id id') as [<-|Ne].
        * rewrite aget_adel_same. reflexivity.
        * rewrite aget_adel_other by (intro; subst; contradiction). reflexivity.
      + intros id' E. discriminate.
    - exists a. constructor; unfold cs, ct, cf; cbn [fst snd set_clock pending ntags]; auto.
    - exists a. constructor; unfold cs, ct, cf; cbn [fst snd set_next pending ntags]; auto.
    - (* focus *)
      destruct (focus_frame s j) as (P & _ & T & _).
      exists a. constructor; unfold cs, ct, cf; cbn [fst snd]; rewrite ?P, ?T; auto.
    - (* restart *)
      exists (mkA (a_open a) (a_nt a) None MIdle).
      constructor; unfold cs, ct, cf; cbn [fst snd a_open a_nt a_tick a_mode set_cur pending ntags]; auto.
      + apply acc_snoc with (a := a); [exact Racc|]. unfold acc_step. rewrite Ridle. reflexivity.
      + rewrite last_marker_snoc. reflexivity.
  Qed.
End Sim.

(* ================================================================== results *)

Lemma prim_trace M c c' : prim M c c' -> exists o, ct c' = ct c ++ o.
Proof.
  destruct 1 as [c c' P| | | | | | | | | | | ]; unfold ct; cbn [snd];
    try (eexists; reflexivity); try (exists []; rewrite app_nil_r; reflexivity).
  destruct P; cbn [snd]; eexists; reflexivity.
Qed.

Lemma run_from_app M a b : forall s,
  run_from M s (a ++ b) =
  (fst (run_from M (fst (run_from M s a)) b),
   snd (run_from M s a) ++ snd (run_from M (fst (run_from M s a)) b)).
Proof.
  induction a as [|o r IH]; intro s; cbn [run_from app fst snd].
  - destruct (run_from M s b); reflexivity.
  - rewrite IH. reflexivity.
Qed.

Lemma final_snoc M h o : final_g M (h ++ [o]) = fst (step M (final_g M h) o).
Proof. unfold final_g. rewrite run_from_app. reflexivity. Qed.

Lemma trace_snoc M h o : trace_g M (h ++ [o]) = trace_g M h ++ snd (step M (final_g M h) o).
Proof.
  unfold trace_g, final_g. rewrite run_from_app. cbn [fst snd run_from].
  rewrite concat_app. cbn [concat]. rewrite app_nil_r. reflexivity.
Qed.

Lemma trace_app M h r :
  trace_g M (h ++ r) = trace_g M h ++ concat (snd (run_from M (final_g M h) r)).
Proof. unfold trace_g, final_g. rewrite run_from_app. cbn [snd]. apply concat_app. Qed.

(* sorted association lists that agree on which keys are present have the same keys *)
Lemma akeys_ext {V W} (f : W -> V) (m1 : alist V) : forall (m2 : alist W),
  sorted m1 -> sorted m2 -> (forall k, aget k m1 = option_map f (aget k m2)) -> akeys m1 = akeys m2.
Proof.
  induction m1 as [|[k1 v1] r1 IH]; intros [|[k2 v2] r2] S1 S2 H; cbn [akeys map fst].
  - reflexivity.
  - specialize (H k2). simpl in H. rewrite Z.eqb_refl in H. discriminate.
  - specialize (H k1). simpl in H. rewrite Z.eqb_refl in H. discriminate.
  - destruct S1 as [L1 S1]. destruct S2 as [L2 S2].
    assert (k1 = k2).
    { destruct (Z.lt_trichotomy k1 k2) as [Lt|[E|Gt]]; [|exact E|].
      - pose proof (H k1) as K. simpl in K. rewrite Z.eqb_refl in K.
        destruct (Z.eqb_spec k1 k2); [lia|]. rewrite (lb_not_in k1 r2) in K; [discriminate|].
        apply lb_trans with k2; assumption.
      - pose proof (H k2) as K. simpl in K. rewrite Z.eqb_refl in K.
        destruct (Z.eqb_spec k2 k1); [lia|]. rewrite (lb_not_in k2 r1) in K; [discriminate|].
        apply lb_trans with k1; assumption. }
    subst k2. f_equal. apply (IH r2 S1 S2). intro k. specialize (H k). simpl in H.
    destruct (Z.eqb_spec k k1) as [E|N]; [|exact H].
    rewrite E, (lb_not_in _ _ L1), (lb_not_in _ _ L2). reflexivity.
Qed.

Section Final.
  Variable M : Z.
  Hypothesis M_pos : 1 <= M.

  Lemma sim_prim c c' : prim M c c' -> Sim M c -> Sim M c'.
  Proof.
    intros P [B R]. split; [eapply base_prim; eassumption|].
    intro NC. destruct (prim_trace M c c' P) as [o E].
    assert (NC0 : noclash (ct c)) by (rewrite E in NC; apply noclash_app in NC; tauto).
    destruct (R NC0) as [a Ra]. eapply rel_prim; eassumption.
  Qed.

  Lemma sim_init : Sim M (None, init, []).
  Proof.
    split.
    - unfold base, cs; cbn [fst snd init pending foc cur].
      split; [exact I|]. split; [intro j; unfold next_of, view; cbn; destruct (j =? 0); cbn; lia|].
      split; [intros j (k & e & G & _); discriminate | lia].
    - intros _. exists a0. constructor; unfold cs, ct, cf; cbn; auto. intros id E. discriminate.
  Qed.

  Lemma sim_run ops : Sim M (None, final_g M ops, trace_g M ops).
  Proof. apply (run_inv M (Sim M)); [intros c c' P; apply sim_prim; exact P | apply sim_init]. Qed.

  (* clash-free model traces are accepted; the acceptor's open table is the pending table *)
  Theorem model_accepted ops :
    noclash (trace_g M ops) ->
    exists a, acc_from a0 (trace_g M ops) = Some a /\ a_mode a = MIdle /\
              a_tick a = tick_of (last_marker (trace_g M ops)) /\
              (forall id, aget id (a_open a) = option_map ent (aget id (pending (final_g M ops)))) /\
              akeys (a_open a) = akeys (pending (final_g M ops)).
  Proof.
    intro NC. destruct (sim_run ops) as [(S & _) R]. destruct (R NC) as [a Ra].
    destruct Ra as [Racc Ridle Rnt Rtick Ropen Rfl]. unfold cs, ct, cf in *; cbn [fst snd inflight] in *.
    exists a. split; [exact Racc|]. split; [exact Ridle|]. split; [exact Rtick|]. split; [exact Ropen|].
    pose proof (acc_from_inv _ a0 [] a AInv_init Racc) as AI. cbn [app] in AI.
    apply (akeys_ext ent); [apply (ai_sorted _ _ AI) | exact S | exact Ropen].
  Qed.

  Theorem model_trace_props ops :
    noclash (trace_g M ops) ->
    at_most_once (trace_g M ops) /\ issue_unique (trace_g M ops) /\ matching (trace_g M ops) /\
    drops_ok (trace_g M ops) /\ sent_after_issue (trace_g M ops).
  Proof.
    intro NC. destruct (model_accepted ops NC) as (a & Acc & _).
    pose proof (acceptor_sound _ _ Acc). tauto.
  Qed.

  Theorem pending_iff_open ops id :
    noclash (trace_g M ops) ->
    (aget id (pending (final_g M ops)) <> None <-> open_in (trace_g M ops) id).
  Proof.
    intro NC. destruct (model_accepted ops NC) as (a & Acc & _ & _ & Op & _).
    destruct (acceptor_sound _ _ Acc) as (_ & _ & _ & _ & _ & O & _).
    rewrite O, Op. destruct (aget id (pending (final_g M ops))); simpl; split; congruence.
  Qed.

  Theorem drain_count ops :
    noclash (trace_g M ops) ->
    Z.of_nat (length (pending (final_g M ops))) = n_issue (trace_g M ops) - n_done (trace_g M ops).
  Proof.
    intro NC. destruct (model_accepted ops NC) as (a & Acc & _ & _ & _ & K).
    destruct (acceptor_sound _ _ Acc) as (_ & _ & _ & _ & _ & _ & C).
    rewrite <- C. f_equal. unfold akeys in K.
    rewrite <- (map_length fst (pending (final_g M ops))), <- K, map_length. reflexivity.
  Qed.

  (* timer: the timer of an incarnation is armed whenever one of its requests is pending, in
     every reachable state, clash or not - also long after the incarnation was replaced *)
  Theorem timer_armed ops j k e :
    aget k (pending (final_g M ops)) = Some e -> inc_of M k = j ->
    armed_of (final_g M ops) j = true.
  Proof. intros G I. destruct (sim_run ops) as [(_ & _ & A & _) _]. apply (A j). exists k, e. auto. Qed.

  Theorem next_range ops j : 0 <= next_of (final_g M ops) j <= M.
  Proof. destruct (sim_run ops) as [(_ & R & _) _]. apply R. Qed.

  Theorem base_run ops : base M (None, final_g M ops, trace_g M ops).
  Proof. destruct (sim_run ops) as [B _]. exact B. Qed.
End Final.

(* discard and frame: state level, any state *)
Lemma discard_step M s id k :
  aget (rkey M (cur s) id) (pending s) = None ->
  step M s (Resp id k) = (s, [EResp (rkey M (cur s) id) k; EDrop (rkey M (cur s) id)]).
Proof. intro H. cbn [step tick_real]. unfold handle_resp. rewrite H. reflexivity. Qed.

Lemma notify_step M s : step M s (Do ANotify) = (s, [EDo; ESent 0 (-1)]).
Proof. reflexivity. Qed.

Lemma noroute_step M s :
  step M s (Do (ANoRoute [])) =
  (set_ntags s (ntags s + 1), [EDo; ENoRoute (ntags s); ECb (ntags s) RNoService]).
Proof. reflexivity. Qed.

Lemma suppressed_step M s : step M s RespNotify = (s, [EIdle]) /\
                            forall id, step M s (RespNoSender id) = (s, [EIdle]).
Proof. split; reflexivity. Qed.

(* ------------------------------------------------------------------ an expiry scan leaves nothing expired *)

Lemma dedup_complete l : forall seen x, In x l -> ~ In x seen -> In x (dedup seen l).
Proof.
  induction l as [|y r IH]; intros seen x I N; [inversion I|]. simpl.
  destruct (zmem y seen) eqn:E.
  - destruct I as [->|I]; [apply zmem_In in E; contradiction | apply IH; assumption].
  - destruct (Z.eq_dec x y) as [->|Ne]; [left; reflexivity|]. right.
    destruct I as [->|I]; [contradiction|]. apply IH; [exact I|]. intros [->|K]; contradiction.
Qed.

Lemma timeout_pos : 0 <= Timeout.
Proof. unfold Timeout. lia. Qed.

Section Scan.
  Variable M : Z.
  Hypothesis M_pos : 1 <= M.

  Lemma fire_facts s id c :
    clock (fst (fire M s id c)) = clock s /\ nomark (snd (fire M s id c)) /\
    (forall id' e', aget id' (pending (fst (fire M s id c))) = Some e' ->
        id' <> id /\ aget id' (pending s) = Some e' \/ e_dl e' = clock s + Timeout \/
        aget id (pending s) = None /\ aget id' (pending s) = Some e').
  Proof.
    unfold fire. destruct (aget id (pending s)) as [e|] eqn:G; cbn [fst snd].
    - destruct (istar_facts M _ _ (exec_prog_istar M (e_prog e) None s [])) as (_ & C & N & o & T & Mk & _).
      unfold cs, ct in *; cbn [fst snd app] in *. subst o.
      cbn [set_pending clock pending]. split; [exact C|]. split.
      + intros x [<-|I]; [reflexivity | apply Mk; exact I].
      + intros id' e' H. destruct (Z.eq_dec id' id) as [->|Ne]; [rewrite aget_adel_same in H; discriminate|].
        rewrite aget_adel_other in H by exact Ne. destruct (N id' e' H) as [K|K]; [left; auto | right; left; exact K].
    - split; [reflexivity|]. split; [intros x []|]. intros id' e' H. right. right. auto.
  Qed.

  (* Q picks the ids of interest (those of the scanning incarnation) *)
  Lemma fire_all_facts (Q : Z -> Prop) ids : forall s,
    clock (fst (fire_all M s ids)) = clock s /\ nomark (snd (fire_all M s ids)) /\
    ((forall id e, aget id (pending s) = Some e -> Q id -> e_dl e < clock s -> In id ids) ->
     forall id e, aget id (pending (fst (fire_all M s ids))) = Some e -> Q id -> clock s <= e_dl e).
  Proof.
    induction ids as [|id0 r IH]; intro s; cbn [fire_all fst snd].
    - split; [reflexivity|]. split; [intros x []|]. intros P id e H Hq.
      destruct (Z.lt_ge_cases (e_dl e) (clock s)) as [L|L]; [destruct (P id e H Hq L) | exact L].
    - destruct (fire_facts s id0 RTimeout) as (C1 & M1 & N1).
      destruct (IH (fst (fire M s id0 RTimeout))) as (C2 & M2 & P2).
      split; [congruence|]. split; [apply nomark_app; assumption|].
      intros P id e H Hq. rewrite <- C1. refine (P2 _ id e H Hq).
      intros id' e' H' Hq' L'. rewrite C1 in L'.
      destruct (N1 id' e' H') as [[Ne K]|[K|[K0 K]]].
      + destruct (P id' e' K Hq' L') as [E|I]; [congruence | exact I].
      + pose proof timeout_pos. lia.
      + destruct (P id' e' K Hq' L') as [E|I]; [subst; congruence | exact I].
  Qed.

  Lemma block_nil_none s id e :
    block M (foc s) (pending s) = [] -> aget id (pending s) = Some e -> inc_of M id <> foc s.
  Proof.
    intros B G I. apply aget_in in G.
    assert (H : In (id, e) (block M (foc s) (pending s))).
    { unfold block. apply filter_In. split; [exact G|]. cbn [fst]. lia. }
    rewrite B in H. inversion H.
  Qed.

  (* after the scan of the incarnation in focus none of ITS requests is expired *)
  Lemma tick_post s h :
    armed s = true ->
    forall id e, aget id (pending (fst (tick M s h))) = Some e -> inc_of M id = foc s ->
                 clock s <= e_dl e.
  Proof.
    intros A id e. unfold tick. rewrite A. cbn [fst]. unfold check_expired.
    destruct (block M (foc s) (pending s)) as [|x m] eqn:P; cbn [isnil fst].
    - cbn [set_armed pending]. intros G I. exfalso. eapply block_nil_none; eassumption.
    - destruct (fire_all_facts (fun id => inc_of M id = foc s) (order M h s) s) as (_ & _ & K). apply K.
      intros id' e' H I L. rewrite order_unfold. apply dedup_complete; [|intros []].
      apply in_or_app. right. unfold expired_ids. apply filter_In. split.
      + apply aget_in in H. apply (in_map fst) in H. exact H.
      + unfold expired_b. rewrite H. apply andb_true_iff. split; lia.
  Qed.

  Lemma tick_clock s h : clock (fst (tick M s h)) = clock s.
  Proof.
    unfold tick. destruct (armed s); [|reflexivity]. cbn [fst]. unfold check_expired.
    destruct (isnil (block M (foc s) (pending s))); [reflexivity|]. apply (fire_all_facts (fun _ => True)).
  Qed.

  Lemma tick_shape s h :
    (armed s = true /\ exists o, snd (tick M s h) = ETick (clock s) :: o /\ nomark o) \/
    (armed s = false /\ tick M s h = (s, [EIdle])).
  Proof.
    unfold tick. destruct (armed s); [left | right; auto]. split; [reflexivity|]. cbn [snd].
    eexists. split; [reflexivity|]. unfold check_expired.
    destruct (isnil (block M (foc s) (pending s))); [intros x []|]. apply (fire_all_facts (fun _ => True)).
  Qed.

  (* chains of user actions never switch a timer off and act on one incarnation only *)
  Lemma istar_keeps c c' :
    istar M c c' ->
    (armed (cs c) = true -> armed (cs c') = true) /\
    foc (cs c') = foc (cs c) /\ rest (cs c') = rest (cs c) /\ cur (cs c') = cur (cs c).
  Proof.
    induction 1 as [c|c1 c2 c3 H1 _ IH2]; [auto|].
    destruct IH2 as (A2 & F2 & R2 & C2).
    assert (K : (armed (cs c1) = true -> armed (cs c2) = true) /\
                foc (cs c2) = foc (cs c1) /\ rest (cs c2) = rest (cs c1) /\ cur (cs c2) = cur (cs c1)).
    { destruct H1; unfold cs; cbn [fst snd register armed foc rest cur set_ntags]; auto. }
    destruct K as (A1 & F1 & R1 & C1).
    split; [auto|]. split; [congruence|]. split; congruence.
  Qed.

  Lemma fire_keeps s id c :
    (armed s = true -> armed (fst (fire M s id c)) = true) /\
    foc (fst (fire M s id c)) = foc s /\ rest (fst (fire M s id c)) = rest s /\
    cur (fst (fire M s id c)) = cur s.
  Proof.
    unfold fire. destruct (aget id (pending s)) as [e|]; cbn [fst]; [|auto].
    cbn [set_pending armed foc rest cur].
    apply (istar_keeps _ _ (exec_prog_istar M (e_prog e) None s [])).
  Qed.

  Lemma fire_all_keeps ids : forall s,
    (armed s = true -> armed (fst (fire_all M s ids)) = true) /\
    foc (fst (fire_all M s ids)) = foc s /\ rest (fst (fire_all M s ids)) = rest s /\
    cur (fst (fire_all M s ids)) = cur s.
  Proof.
    induction ids as [|i r IH]; intro s; cbn [fire_all fst]; [auto|].
    destruct (fire_keeps s i RTimeout) as (A1 & F1 & R1 & C1).
    destruct (IH (fst (fire M s i RTimeout))) as (A2 & F2 & R2 & C2).
    split; [auto|]. split; [congruence|]. split; congruence.
  Qed.

  Lemma tick_keeps s h :
    foc (fst (tick M s h)) = foc s /\ rest (fst (tick M s h)) = rest s /\ cur (fst (tick M s h)) = cur s.
  Proof.
    unfold tick. destruct (armed s); [|auto]. cbn [fst]. unfold check_expired.
    destruct (isnil (block M (foc s) (pending s))); cbn [fst set_armed foc rest cur]; [auto|].
    apply fire_all_keeps.
  Qed.

  (* the timer is switched off only by a scan that finds the incarnation's own table empty *)
  Lemma tick_disarm s h :
    armed s = true -> armed (fst (tick M s h)) = false ->
    block M (foc s) (pending s) = [] /\ tick M s h = (set_armed s false, [ETick (clock s)]).
  Proof.
    intros A D. destruct (block M (foc s) (pending s)) as [|x m] eqn:P.
    - split; [reflexivity|]. unfold tick, check_expired. rewrite A, P. reflexivity.
    - exfalso. unfold tick, check_expired in D. rewrite A, P in D. cbn [isnil fst] in D.
      rewrite (proj1 (fire_all_keeps (order M h s) s)) in D; [discriminate | exact A].
  Qed.

  (* ---- one incarnation's scan does not touch the tables of the others *)

  Definition frame (s s' : st) : Prop :=
    forall id, inc_of M id <> foc s -> aget id (pending s') = aget id (pending s).

  Lemma istar_frame c c' :
    istar M c c' -> 0 <= next (cs c) <= M ->
    0 <= next (cs c') <= M /\ frame (cs c) (cs c').
  Proof.
    induction 1 as [c|c1 c2 c3 H1 _ IH2]; intro R; [split; [exact R | intros id _; reflexivity]|].
    assert (K : 0 <= next (cs c2) <= M /\ frame (cs c1) (cs c2) /\ foc (cs c2) = foc (cs c1)).
    { destruct H1 as [f s tr u p|f s tr|f s tr]; unfold cs, frame in *; cbn [fst snd] in *.
      - unfold register; cbn [fst next pending foc]. unfold alloc_id.
        split; [destruct (Z.leb_spec M (next s)); lia|]. split; [|reflexivity].
        intros id N. apply aget_aset_other. intro E. apply N. rewrite E.
        apply inc_of_key. destruct (Z.leb_spec M (next s)); lia.
      - auto.
      - cbn [set_ntags next pending foc]. auto. }
    destruct K as (R2 & F2 & Fo). destruct (IH2 R2) as (R3 & F3).
    split; [exact R3|]. intros id N. rewrite F3 by (rewrite Fo; exact N). apply F2. exact N.
  Qed.

  Lemma fire_frame s id c :
    0 <= next s <= M -> inc_of M id = foc s ->
    0 <= next (fst (fire M s id c)) <= M /\ frame s (fst (fire M s id c)).
  Proof.
    intros R I. unfold fire. destruct (aget id (pending s)) as [e|]; cbn [fst];
      [|split; [exact R | intros x _; reflexivity]].
    destruct (istar_frame _ _ (exec_prog_istar M (e_prog e) None s []) R) as (R2 & F2).
    unfold cs in *; cbn [fst snd] in *. cbn [set_pending next pending].
    split; [exact R2|]. intros x N. cbn [set_pending pending].
    rewrite aget_adel_other by (intro E; apply N; rewrite E; exact I). apply F2. exact N.
  Qed.

  Lemma fire_all_frame ids : forall s,
    0 <= next s <= M -> (forall id, In id ids -> inc_of M id = foc s) ->
    0 <= next (fst (fire_all M s ids)) <= M /\ frame s (fst (fire_all M s ids)).
  Proof.
    induction ids as [|i r IH]; intros s R Hin; cbn [fire_all fst]; [split; [exact R | intros x _; reflexivity]|].
    destruct (fire_frame s i RTimeout R (Hin i (or_introl eq_refl))) as (R1 & F1).
    destruct (fire_keeps s i RTimeout) as (_ & Fo & _).
    destruct (IH (fst (fire M s i RTimeout)) R1) as (R2 & F2).
    { intros id I. rewrite Fo. apply Hin. right. exact I. }
    split; [exact R2|]. intros x N. rewrite F2 by (rewrite Fo; exact N). apply F1. exact N.
  Qed.

  Lemma order_in_block h s id : In id (order M h s) -> inc_of M id = foc s.
  Proof.
    intro I. destruct (order_spec M h s) as [_ S]. apply S in I.
    unfold expired_ids in I. apply filter_In in I. destruct I as [_ E].
    unfold expired_b in E. apply andb_true_iff in E. lia.
  Qed.

  Lemma tick_frame s h : 0 <= next s <= M -> frame s (fst (tick M s h)).
  Proof.
    intro R. unfold tick. destruct (armed s); [|intros x _; reflexivity]. cbn [fst]. unfold check_expired.
    destruct (isnil (block M (foc s) (pending s))); cbn [fst]; [intros x _; reflexivity|].
    apply fire_all_frame; [exact R | intros id I; eapply order_in_block; exact I].
  Qed.
End Scan.

(* ------------------------------------------------------------------ drain *)

Lemma aget_all_none {V} (m : alist V) : (forall id, aget id m = None) -> m = [].
Proof.
  destruct m as [|[k v] r]; [reflexivity|]. intro H. specialize (H k). simpl in H.
  rewrite Z.eqb_refl in H. discriminate.
Qed.

Section Drain.
  Variable M : Z.
  Hypothesis M_pos : 1 <= M.

  (* no request of incarnation j is expired *)
  Definition unexp (j : Z) (s : st) : Prop :=
    forall id e, aget id (pending s) = Some e -> inc_of M id = j -> clock s <= e_dl e.

  (* the scan of one incarnation, in any state that satisfies the invariant *)
  Lemma tick_one s j h :
    base M (None, s, []) -> 0 <= j <= cur s ->
    let s' := fst (tick M (focus s j) h) in
    base M (None, s', []) /\ clock s' = clock s /\ cur s' = cur s /\ unexp j s' /\
    (forall j', unexp j' s -> unexp j' s').
  Proof.
    intros B Hj s'.
    destruct (focus_frame s j) as (Pf & Cf & _ & Cuf & Ff).
    assert (B1 : base M (None, focus s j, [])) by (eapply base_prim; [exact M_pos | apply (PFocus M s [] j Hj) | exact B]).
    assert (B2 : base M (None, s', [] ++ snd (tick M (focus s j) h))).
    { refine (star_inv M (base M) _ _ _ (tick_star M (focus s j) [] h) B1).
      intros c c' P. apply base_prim; assumption. }
    assert (Cl : clock s' = clock s) by (unfold s'; rewrite tick_clock; exact Cf).
    assert (U : unexp j s').
    { intros id e G I. rewrite Cl, <- Cf.
      destruct (armed (focus s j)) eqn:A.
      - apply (tick_post M (focus s j) h A id e G). rewrite Ff. exact I.
      - exfalso. unfold s', tick in G. rewrite A in G. cbn [fst] in G.
        destruct B1 as (_ & _ & A1 & _). unfold cs in A1; cbn [fst snd] in A1.
        destruct (A1 j) as [A2 _]; [exists id, e; auto|].
        pose proof (armed_of_foc (focus s j)) as E. rewrite Ff in E. congruence. }
    split; [exact B2|]. split; [exact Cl|]. split; [unfold s'; rewrite tick_cur; exact Cuf|]. split; [exact U|].
    intros j' U'. destruct (Z.eq_dec j' j) as [->|Ne]; [exact U|].
    intros id e G I. rewrite Cl.
    assert (R : 0 <= next (focus s j) <= M).
    { destruct B1 as (_ & Rg & _). unfold cs in Rg; cbn [fst snd] in Rg. specialize (Rg j).
      pose proof (next_of_foc (focus s j)) as E. rewrite Ff in E. rewrite <- E. exact Rg. }
    pose proof (tick_frame M M_pos (focus s j) h R id) as Fr. fold s' in Fr.
    rewrite Fr in G by (rewrite Ff; lia). rewrite Pf in G. apply (U' id e G I).
  Qed.

  Lemma tick_all_post js : forall s h,
    base M (None, s, []) -> (forall j, In j js -> 0 <= j <= cur s) ->
    let s' := fst (tick_all M s js h) in
    base M (None, s', []) /\ clock s' = clock s /\ cur s' = cur s /\
    (forall j, In j js -> unexp j s') /\ (forall j, unexp j s -> unexp j s').
  Proof.
    induction js as [|j r IH]; intros s h B Hin; cbn [tick_all fst].
    - split; [exact B|]. split; [reflexivity|]. split; [reflexivity|]. split; [intros j []|auto].
    - destruct (tick_one s j (hd [] h) B (Hin j (or_introl eq_refl))) as (B1 & C1 & Cu1 & U1 & K1).
      destruct (IH (fst (tick M (focus s j) (hd [] h))) (tl h) B1) as (B2 & C2 & Cu2 & U2 & K2).
      { intros j' I. rewrite Cu1. apply Hin. right. exact I. }
      split; [exact B2|]. split; [congruence|]. split; [congruence|]. split.
      + intros j' [<-|I]; [apply K2; exact U1 | apply U2; exact I].
      + intros j' U. apply K2, K1. exact U.
  Qed.

  (* entries that survive a Tick operation are not expired - whichever incarnation they belong
     to, alive or replaced long ago *)
  Lemma tick_op_post s hint :
    base M (None, s, []) ->
    let s' := fst (tick_op M s hint) in
    base M (None, s', []) /\ clock s' = clock s /\
    forall id e, aget id (pending s') = Some e -> clock s <= e_dl e.
  Proof.
    intros B s'. unfold s', tick_op. cbn [fst].
    pose proof B as (_ & _ & _ & Fo). unfold cs in Fo; cbn [fst snd] in Fo.
    destruct (tick_all_post (incs s) s hint B) as (B' & C' & Cu' & U' & _).
    { intros j I. apply incs_range; [lia | exact I]. }
    destruct (focus_frame (fst (tick_all M s (incs s) hint)) (cur s)) as (Pf & Cf & _).
    split; [|split].
    - eapply base_prim; [exact M_pos | apply (PFocus M _ [] (cur s)) | exact B']. rewrite Cu'. lia.
    - rewrite Cf. exact C'.
    - intros id e H. rewrite Pf in H. rewrite <- C'.
      destruct B' as (_ & _ & A' & _). unfold cs in A'; cbn [fst snd] in A'.
      destruct (A' (inc_of M id)) as [_ Rg]; [exists id, e; auto|]. rewrite Cu' in Rg.
      refine (U' (inc_of M id) _ id e H eq_refl). apply incs_all. exact Rg.
  Qed.

  Lemma after_tick h hint id e :
    aget id (pending (final_g M (h ++ [Tick hint]))) = Some e -> clock (final_g M h) <= e_dl e.
  Proof.
    rewrite final_snoc. cbn [step tick_real]. intro H.
    destruct (tick_op_post (final_g M h) hint (base_run M M_pos h)) as (_ & _ & K). apply (K id e H).
  Qed.

  Theorem drain_complete h hint t id n :
    noclash (trace_g M (h ++ [Tick hint])) ->
    In (EIssue t id n) (trace_g M (h ++ [Tick hint])) ->
    n + Timeout < clock (final_g M h) ->
    count_cb t (trace_g M (h ++ [Tick hint])) = 1%nat.
  Proof.
    intros NC I L. destruct (model_accepted M M_pos _ NC) as (a & Acc & _ & _ & Op & _).
    pose proof (acc_from_inv _ a0 [] a AInv_init Acc) as AI. cbn [app] in AI.
    destruct (ai_done _ _ AI t id n I) as [D|D]; [exact D|]. exfalso.
    rewrite Op in D. destruct (aget id (pending (final_g M (h ++ [Tick hint])))) as [e|] eqn:G; [|discriminate].
    cbn [option_map] in D. unfold ent in D. inv D.
    pose proof (after_tick h hint id e G). lia.
  Qed.

  Theorem drain_quiescent h hint :
    noclash (trace_g M (h ++ [Tick hint])) ->
    (forall t id n, In (EIssue t id n) (trace_g M (h ++ [Tick hint])) ->
                    n + Timeout < clock (final_g M h)) ->
    pending (final_g M (h ++ [Tick hint])) = [] /\
    forall t id n, In (EIssue t id n) (trace_g M (h ++ [Tick hint])) ->
                   count_cb t (trace_g M (h ++ [Tick hint])) = 1%nat.
  Proof.
    intros NC All. split.
    - apply aget_all_none. intro id.
      destruct (aget id (pending (final_g M (h ++ [Tick hint])))) as [e|] eqn:G; [|reflexivity]. exfalso.
      destruct (model_accepted M M_pos _ NC) as (a & Acc & _ & _ & Op & _).
      pose proof (acc_from_inv _ a0 [] a AInv_init Acc) as AI. cbn [app] in AI.
      assert (Go : aget id (a_open a) = Some (ent e)) by (rewrite Op, G; reflexivity).
      destruct (ai_open _ _ AI id _ _ Go) as (_ & _ & _ & x & y & T & _).
      assert (I : In (EIssue (e_tag e) id (e_dl e - Timeout)) (trace_g M (h ++ [Tick hint]))).
      { rewrite T. apply in_or_app. right. left. reflexivity. }
      pose proof (All _ _ _ I). pose proof (after_tick h hint id e G). lia.
    - intros t id n I. eapply drain_complete; eauto.
  Qed.
End Drain.

(* ------------------------------------------------------------------ id wrap-around *)

Section Wrap.
  Variable M : Z.
  Hypothesis M_pos : 1 <= M.

  (* where the id of an entry allocated d allocations (of its own incarnation) ago lies, while d < M *)
  Definition wpos (n d : Z) : Z := if 1 <=? n - d then n - d else n - d + M.

  Definition pos_ok (v : Z * bool * Z) (j id : Z) (e : entry) : Prop :=
    e_ser e < snd v /\
    (snd v - 1 - e_ser e < M -> id = key M j (wpos (fst (fst v)) (snd v - 1 - e_ser e))).

  Definition W (c : cfg) : Prop :=
    (forall id e, aget id (pending (cs c)) = Some e ->
                  pos_ok (view (cs c) (inc_of M id)) (inc_of M id) id e) /\
    (forall id sp, In (EClash id sp) (ct c) -> M <= sp).

  Lemma pos_ok_ext v v' j id e :
    fst (fst v') = fst (fst v) -> snd v' = snd v -> pos_ok v j id e -> pos_ok v' j id e.
  Proof. unfold pos_ok. intros -> ->. auto. Qed.

  (* a state that differs from s in the focused incarnation's timer flag and in the table only *)
  Lemma W_same s s' tr tr' f f' :
    foc s' = foc s -> rest s' = rest s -> next s' = next s -> nalloc s' = nalloc s ->
    (forall id e, aget id (pending s') = Some e -> aget id (pending s) = Some e) ->
    (forall id sp, In (EClash id sp) tr' -> In (EClash id sp) tr) ->
    W (f, s, tr) -> W (f', s', tr').
  Proof.
    intros F R N Na Sub Cl (Pos & C). unfold W, cs, ct in *; cbn [fst snd] in *. split.
    - intros id e G. specialize (Pos id e (Sub id e G)).
      eapply pos_ok_ext; [| |exact Pos].
      + rewrite (views_upd s s' F R). destruct (Z.eqb_spec (inc_of M id) (foc s)) as [E|_]; [|reflexivity].
        rewrite E, view_foc. cbn [fst]. exact N.
      + rewrite (views_upd s s' F R). destruct (Z.eqb_spec (inc_of M id) (foc s)) as [E|_]; [|reflexivity].
        rewrite E, view_foc. cbn [snd]. exact Na.
    - intros id sp I. apply (C id sp). apply Cl. exact I.
  Qed.

  Lemma W_prim c c' : prim M c c' -> base M c -> W c -> W c'.
  Proof.
    intros P B Wc.
    destruct P as [c c' P|s tr m Hm|s tr id k G|s tr id k e G|s tr Ar Pe|s tr Ar Pn|s tr id e G D LM
                   |s tr id|s tr dt Hd|s tr v Hv Pe|s tr j Hj|s tr].
    - destruct P as [f s tr u p|f s tr|f s tr].
      + (* register *)
        destruct Wc as (Pos & Cl). destruct B as (_ & Rg & _). unfold W, cs, ct in *; cbn [fst snd] in *.
        pose proof (Rg (foc s)) as R0. rewrite next_of_foc in R0.
        pose proof (alloc_range M M_pos _ R0) as Hid.
        set (a := alloc_id M (next s)) in *. set (k := key M (foc s) a).
        assert (Ik : inc_of M k = foc s) by (apply inc_of_key; lia).
        unfold register; cbn [fst snd pending]. fold a. fold k.
        set (s' := mkS (aset k (mkE (clock s + Timeout) (ntags s) (nalloc s) p) (pending s)) a true
                       (clock s) (ntags s + 1) (nalloc s + 1) (foc s) (cur s) (rest s)).
        assert (V : forall j, view s' j = if j =? foc s then (a, true, nalloc s + 1) else view s j)
          by (intro j; apply (views_upd s s'); reflexivity).
        split.
        * intros id e H. destruct (Z.eq_dec id k) as [->|Ne].
          { rewrite aget_aset_same in H. inv H. rewrite Ik, V, Z.eqb_refl.
            unfold pos_ok; cbn [fst snd e_ser]. split; [lia|]. intros _.
            replace (nalloc s + 1 - 1 - nalloc s) with 0 by lia. unfold wpos.
            rewrite Z.sub_0_r. destruct (Z.leb_spec 1 a); [reflexivity | lia]. }
          { rewrite aget_aset_other in H by exact Ne. specialize (Pos id e H). rewrite V.
            destruct (Z.eqb_spec (inc_of M id) (foc s)) as [E|_]; [|exact Pos].
            rewrite E, view_foc in Pos. rewrite E. destruct Pos as [L F].
            unfold pos_ok in *; cbn [fst snd] in *. split; [lia|]. intro J.
            assert (J0 : nalloc s - 1 - e_ser e < M) by lia. specialize (F J0). rewrite F. f_equal.
            unfold wpos, a, alloc_id. destruct (Z.leb_spec M (next s)).
            - assert (next s = M) by lia.
              destruct (Z.leb_spec 1 (next s - (nalloc s - 1 - e_ser e)));
              destruct (Z.leb_spec 1 (1 - (nalloc s + 1 - 1 - e_ser e))); lia.
            - destruct (Z.leb_spec 1 (next s - (nalloc s - 1 - e_ser e)));
              destruct (Z.leb_spec 1 (next s + 1 - (nalloc s + 1 - 1 - e_ser e))); lia. }
        * intros id sp I. apply in_app_or in I. destruct I as [I|I]; [apply (Cl id sp I)|].
          apply in_app_or in I. destruct I as [I|I].
          { destruct (aget k (pending s)) as [v|] eqn:G; [|inversion I].
            destruct I as [E|[]]. inv E. specialize (Pos _ _ G). rewrite Ik, view_foc in Pos.
            destruct Pos as [L F]. cbn [fst snd] in L, F.
            destruct (Z.lt_ge_cases (nalloc s - e_ser v) M) as [Lt|Ge]; [|exact Ge]. exfalso.
            assert (J0 : nalloc s - 1 - e_ser v < M) by lia. specialize (F J0).
            unfold k, key in F. assert (F' : a = wpos (next s) (nalloc s - 1 - e_ser v)) by lia.
            unfold wpos, a, alloc_id in F'. destruct (Z.leb_spec M (next s));
              destruct (Z.leb_spec 1 (next s - (nalloc s - 1 - e_ser v))); lia. }
          { destruct I as [E|I]; [discriminate|]. destruct u; [inversion I|]. destruct I as [E|[]]. discriminate. }
      + eapply W_same; [| | | | | |exact Wc]; try reflexivity; [auto|].
        intros id sp I. apply in_snoc in I. destruct I as [I|E]; [exact I | discriminate].
      + eapply W_same; [| | | | | |exact Wc]; try reflexivity; [auto|].
        intros id sp I. apply in_app_or in I. destruct I as [I|[E|[E|[]]]]; [exact I | discriminate | discriminate].
    - eapply W_same; [| | | | | |exact Wc]; try reflexivity; [auto|].
      intros id' sp I. apply in_snoc in I. destruct I as [I|E]; [exact I | destruct Hm; subst; discriminate].
    - eapply W_same; [| | | | | |exact Wc]; try reflexivity; [auto|].
      intros id' sp I. apply in_app_or in I. destruct I as [I|[E|[E|[]]]]; [exact I | discriminate | discriminate].
    - eapply W_same; [| | | | | |exact Wc]; try reflexivity; [auto|].
      intros id' sp I. apply in_app_or in I. destruct I as [I|[E|[E|[]]]]; [exact I | discriminate | discriminate].
    - eapply W_same; [| | | | | |exact Wc]; try reflexivity; [auto|].
      intros id' sp I. apply in_snoc in I. destruct I as [I|E]; [exact I | discriminate].
    - eapply W_same; [| | | | | |exact Wc]; try reflexivity; [auto|].
      intros id' sp I. apply in_snoc in I. destruct I as [I|E]; [exact I | discriminate].
    - eapply W_same; [| | | | | |exact Wc]; try reflexivity; [auto|].
      intros id' sp I. apply in_snoc in I. destruct I as [I|E]; [exact I | discriminate].
    - eapply W_same; [| | | | | |exact Wc]; try reflexivity; [|auto].
      cbn [set_pending pending]. intros id' e' H.
      destruct (Z.eq_dec id' id) as [->|Ne]; [rewrite aget_adel_same in H; discriminate|].
      rewrite aget_adel_other in H by exact Ne. exact H.
    - eapply W_same; [| | | | | |exact Wc]; try reflexivity; auto.
    - (* set next: the table is empty *)
      destruct Wc as (_ & Cl). unfold W, cs, ct; cbn [fst snd set_next pending]. split; [|exact Cl].
      rewrite Pe. intros id' e' H. discriminate.
    - (* focus *)
      destruct Wc as (Pos & Cl). unfold W, cs, ct in *; cbn [fst snd] in *.
      destruct (focus_frame s j) as (P & _). rewrite P. split; [|exact Cl].
      intros id e H. rewrite view_focus. apply Pos. exact H.
    - (* restart *)
      destruct Wc as (Pos & Cl). unfold W, cs, ct in *; cbn [fst snd set_cur pending] in *. split.
      + intros id e H. apply (Pos id e H).
      + intros id sp I. apply in_snoc in I. destruct I as [I|E]; [eapply Cl; eassumption | discriminate].
  Qed.

  (* a registration overwrites a live entry only if at least M ids were allocated BY THAT
     INCARNATION since (and including) that entry's own *)
  Theorem clash_needs_wrap ops id sp : In (EClash id sp) (trace_g M ops) -> M <= sp.
  Proof.
    assert (H : base M (None, final_g M ops, trace_g M ops) /\ W (None, final_g M ops, trace_g M ops)).
    { apply (run_inv M (fun c => base M c /\ W c)).
      - intros c c' P [B Wc]. split; [eapply base_prim; eassumption | eapply W_prim; eassumption].
      - split; [apply (sim_init M M_pos)|].
        unfold W, cs, ct; cbn. split; [intros; discriminate | intros ? ? []]. }
    destruct H as (_ & _ & Cl). apply Cl.
  Qed.
End Wrap.

(* ------------------------------------------------------------------ the monitor accepts every clash-free model run *)

From Cell2V Require Import C01.Corr.

Lemma last_marker_block tr m x :
  is_marker m = true -> nomark x -> last_marker (tr ++ m :: x) = Some m.
Proof.
  intros Hm Hx. rewrite last_marker_app. unfold lm_from. cbn [fold_left]. rewrite Hm.
  apply (lm_from_nomark x Hx).
Qed.

Lemma peer_eqb_refl l : peer_eqb l l = true.
Proof.
  unfold peer_eqb. apply list_eqb_spec; [|reflexivity].
  intros p q. apply pair_eqb_spec; intros; apply Z.eqb_eq.
Qed.

Lemma maxreqid_pos : 1 <= MaxReqId.
Proof. unfold MaxReqId. lia. Qed.

Lemma lm_from_in l : forall acc e, lm_from acc l = Some e -> acc = Some e \/ In e l.
Proof.
  induction l as [|x r IH]; intros acc e H; [left; exact H|].
  unfold lm_from in H. cbn [fold_left] in H. fold (lm_from (if is_marker x then Some x else acc) r) in H.
  destruct (IH _ _ H) as [E|I]; [|right; right; exact I].
  destruct (is_marker x); [inv E; right; left; reflexivity | left; exact E].
Qed.

(* the last marker of a block that begins with a marker is one of the block's own events *)
Lemma last_marker_in tr m x e :
  is_marker m = true -> last_marker (tr ++ m :: x) = Some e -> In e (m :: x).
Proof.
  intros Hm H. rewrite last_marker_app in H. unfold lm_from in H. cbn [fold_left] in H.
  rewrite Hm in H. fold (lm_from (Some m) x) in H.
  destruct (lm_from_in _ _ _ H) as [E|I]; [inv E; left; reflexivity | right; exact I].
Qed.

(* ------------------------------------------------------------------ that very request *)

Lemma own_b_tail e r : own_b (e :: r) = true -> own_b r = true.
Proof.
  destruct e; cbn [own_b]; auto. intro H. apply andb_true_iff in H. tauto.
Qed.

Lemma own_b_sound tr : own_b tr = true -> answers_own tr.
Proof.
  induction tr as [|e r IH]; intros H p id k t c post E.
  - destruct p; discriminate.
  - destruct p as [|x p]; cbn [app] in E.
    + inv E. cbn [own_b] in H. apply andb_true_iff in H. destruct H as [H _].
      intros RC G. rewrite RC in H. cbn [negb orb] in H.
      destruct (Z.ltb_spec (ghost_of k) 0); [lia|]. cbn [orb] in H. lia.
    + inv E. apply (IH (own_b_tail _ _ H) p id k t c post eq_refl).
Qed.

Lemma own_b_complete tr : answers_own tr -> own_b tr = true.
Proof.
  induction tr as [|e r IH]; intro A; [reflexivity|].
  assert (Ar : answers_own r).
  { intros p id k t c post E. apply (A (e :: p) id k t c post). rewrite E. reflexivity. }
  specialize (IH Ar).
  destruct e; cbn [own_b]; try exact IH. rewrite IH, andb_true_r.
  destruct r as [|e2 r2]; [reflexivity|]. destruct e2; try reflexivity.
  destruct (reply_class c) eqn:RC; [|reflexivity]. cbn [negb orb].
  destruct (Z.ltb_spec (ghost_of k) 0); [reflexivity|]. cbn [orb].
  apply Z.eqb_eq. apply (A [] id k tag c r2 eq_refl RC). lia.
Qed.

Lemma answers_own_mid a evs b : answers_own (a ++ evs ++ b) -> answers_own evs.
Proof.
  intros A p id k t c post E. apply (A (a ++ p) id k t c (post ++ b)).
  rewrite E, <- !app_assoc. reflexivity.
Qed.

Section Shape.
  Variable M : Z.

  (* shape of the events of a round of scans: blocks that begin with ETick (clock) or EIdle *)
  Lemma tick_all_shape js : forall s h,
    (js <> [] -> exists m x, snd (tick_all M s js h) = m :: x /\ (m = ETick (clock s) \/ m = EIdle)) /\
    (forall n, In (ETick n) (snd (tick_all M s js h)) -> n = clock s) /\
    (forall id k, ~ In (EResp id k) (snd (tick_all M s js h))) /\
    ~ In ECrash (snd (tick_all M s js h)).
  Proof.
    induction js as [|j r IH]; intros s h; cbn [tick_all snd].
    - split; [intro N; contradiction|]. split; [intros n []|]. split; [intros id k []|intros []].
    - destruct (focus_frame s j) as (_ & Cf & _).
      destruct (IH (fst (tick M (focus s j) (hd [] h))) (tl h)) as (_ & T2 & R2 & C2).
      rewrite tick_clock, Cf in T2.
      destruct (tick_shape M (focus s j) (hd [] h)) as [(_ & o & E & Mk)|(_ & E)]; rewrite E in *; cbn [snd fst] in *.
      + rewrite Cf. split; [intros _; eexists; eexists; split; [reflexivity | left; reflexivity]|].
        split; [|split].
        * intros n [K|K]; [inv K; reflexivity|]. apply in_app_or in K. destruct K as [K|K]; [|apply T2; exact K].
          apply Mk in K. discriminate.
        * intros id k [K|K]; [discriminate|]. apply in_app_or in K. destruct K as [K|K]; [|eapply R2; exact K].
          apply Mk in K. discriminate.
        * intros [K|K]; [discriminate|]. apply in_app_or in K. destruct K as [K|K]; [|apply C2; exact K].
          apply Mk in K. discriminate.
      + split; [intros _; eexists; eexists; split; [reflexivity | right; reflexivity]|].
        split; [|split].
        * intros n [K|K]; [discriminate | apply T2; exact K].
        * intros id k [K|K]; [discriminate | eapply R2; exact K].
        * intros [K|K]; [discriminate | apply C2; exact K].
  Qed.

  Lemma incs_nonnil s : incs s <> [].
  Proof. unfold incs. cbn [seq map]. discriminate. Qed.

  Lemma exec_nomark a s : nomark (snd (exec M a s)).
  Proof.
    destruct (istar_facts M _ _ (exec_is_chain M a None s [])) as (_ & _ & _ & o & T & Mk & _).
    unfold ct in T; cbn [snd app] in T. subst o. exact Mk.
  Qed.

  Lemma step_cur s o : 0 <= cur s -> cur (fst (step M s o)) = cur s + crashes_of o.
  Proof.
    intro HC. destruct o as [a|id k| |id|h|h|dt|v|v|u|]; cbn [step tick_real fst crashes_of]; rewrite ?Z.add_0_r; try reflexivity.
    - apply (istar_keeps M _ _ (exec_is_chain M a None s [])).
    - unfold handle_resp. destruct (aget (rkey M (cur s) id) (pending s)); [|reflexivity]. cbn [fst].
      apply (fire_keeps M s _ _).
    - apply tick_op_cur.
    - rewrite !tick_op_cur. reflexivity.
    - destruct (0 <=? dt); reflexivity.
    - destruct ((0 <=? v) && (v <=? M) && isnil (pending s)); reflexivity.
    - unfold crash. cbn [fst]. destruct (focus_frame (set_cur s (cur s + 1)) (cur s + 1)) as (_ & _ & _ & C & _).
      rewrite C. reflexivity.
  Qed.

  Lemma n_crash_app a b : n_crash (a ++ b) = n_crash a + n_crash b.
  Proof. induction a as [|e r IH]; [reflexivity|]. destruct e; cbn [app n_crash]; lia. Qed.

  Lemma n_crash_zero l : ~ In ECrash l -> n_crash l = 0.
  Proof.
    induction l as [|e r IH]; intro N; [reflexivity|].
    assert (Nr : ~ In ECrash r) by (intro I; apply N; right; exact I).
    destruct e; cbn [n_crash]; try (apply IH; exact Nr). exfalso. apply N. left. reflexivity.
  Qed.

  Lemma nomark_no_crash x : nomark x -> ~ In ECrash x.
  Proof. intros Mk I. apply Mk in I. discriminate. Qed.

  (* a block = a marker followed by non-markers: a marker found in it is its head *)
  Lemma marked_block m x pre e post :
    m :: x = pre ++ e :: post -> is_marker e = true -> nomark x -> pre = [] /\ e = m.
  Proof.
    intros E Hm Mk. destruct pre as [|p pre]; cbn [app] in E.
    - inv E. auto.
    - inv E. exfalso. assert (I : In e (pre ++ e :: post)) by (apply in_or_app; right; left; reflexivity).
      apply Mk in I. congruence.
  Qed.

  (* what one operation contributes: restarts, and responses (only a Resp, at the head, addressed
     to the live incarnation) *)
  Lemma step_events s o :
    n_crash (snd (step M s o)) = crashes_of o /\
    forall pre id k post, snd (step M s o) = pre ++ EResp id k :: post ->
      pre = [] /\ exists w, o = Resp w k /\ id = rkey M (cur s) w.
  Proof.
    assert (NoR : forall l, (forall id k, ~ In (EResp id k) l) ->
                 forall pre id k post, l = pre ++ EResp id k :: post -> False).
    { intros l N pre id k post E. apply (N id k). rewrite E. apply in_or_app. right. left. reflexivity. }
    assert (Blk : forall m x, nomark x -> (forall id k, m <> EResp id k) ->
                  forall pre id k post, m :: x = pre ++ EResp id k :: post -> False).
    { intros m x Mk Nm pre id k post E. destruct (marked_block m x pre _ post E eq_refl Mk) as [_ K].
      apply (Nm id k). symmetry. exact K. }
    destruct o as [a|id0 k0| |id0|h|h|dt|v|v|u|]; cbn [step tick_real snd crashes_of].
    - split; [cbn [n_crash]; apply n_crash_zero, nomark_no_crash, exec_nomark|].
      intros pre id k post E. exfalso. eapply (Blk EDo); [apply exec_nomark | intros; discriminate | exact E].
    - assert (Sh : exists x, snd (handle_resp M s (rkey M (cur s) id0) k0) = EResp (rkey M (cur s) id0) k0 :: x /\ nomark x).
      { unfold handle_resp. destruct (aget (rkey M (cur s) id0) (pending s)); cbn [snd]; eexists; (split; [reflexivity|]).
        - apply fire_facts.
        - intros y [<-|[]]. reflexivity. }
      destruct Sh as (x & -> & Mk). split; [cbn [n_crash]; apply n_crash_zero, nomark_no_crash; exact Mk|].
      intros pre id k post E. destruct (marked_block _ x pre _ post E eq_refl Mk) as [-> K]. inv K.
      split; [reflexivity|]. exists id0. auto.
    - split; [reflexivity|]. intros pre id k post E. exfalso. eapply (Blk EIdle []); [intros y [] | intros; discriminate | exact E].
    - split; [reflexivity|]. intros pre id k post E. exfalso. eapply (Blk EIdle []); [intros y [] | intros; discriminate | exact E].
    - unfold tick_op. cbn [snd]. destruct (tick_all_shape (incs s) s h) as (_ & _ & R & C).
      split; [apply n_crash_zero; exact C|]. intros pre id k post E. exfalso. eapply NoR; eassumption.
    - unfold tick_op. cbn [snd fst]. destruct (tick_all_shape (incs s) s h) as (_ & _ & R & C).
      set (s1 := focus (fst (tick_all M s (incs s) h)) (cur s)).
      destruct (tick_all_shape (incs s1) s1 []) as (_ & _ & R1 & C1).
      split; [rewrite n_crash_app, !n_crash_zero by assumption; reflexivity|].
      intros pre id k post E. exfalso. eapply (NoR _ _ pre id k post E). Unshelve.
      intros id' k' I. apply in_app_or in I. destruct I as [I|I]; [eapply R | eapply R1]; exact I.
    - split; [reflexivity|]. intros pre id k post E. exfalso. eapply (Blk EIdle []); [intros y [] | intros; discriminate | exact E].
    - split; [reflexivity|]. intros pre id k post E. exfalso. eapply (Blk EIdle []); [intros y [] | intros; discriminate | exact E].
    - split; [reflexivity|]. intros pre id k post E. exfalso. eapply (Blk EIdle []); [intros y [] | intros; discriminate | exact E].
    - split; [reflexivity|]. intros pre id k post E. exfalso. eapply (Blk EIdle []); [intros y [] | intros; discriminate | exact E].
    - split; [reflexivity|]. intros pre id k post E. exfalso. eapply (Blk ECrash []); [intros y [] | intros; discriminate | exact E].
  Qed.
End Shape.

(* ------------------------------------------------------------------ request ids are fresh without restarts / wrap / set-up *)

Fixpoint ids_of (tr : list ev) : list Z :=
  match tr with
  | [] => []
  | EIssue _ id _ :: r => id :: ids_of r
  | _ :: r => ids_of r
  end.

Lemma ids_of_app a b : ids_of (a ++ b) = ids_of a ++ ids_of b.
Proof. induction a as [|e r IH]; [reflexivity|]. destruct e; cbn [app ids_of]; rewrite ?IH; reflexivity. Qed.

Lemma ids_of_in t id n tr : In (EIssue t id n) tr -> In id (ids_of tr).
Proof.
  induction tr as [|e r IH]; intro I; [inversion I|]. destruct I as [->|I]; [left; reflexivity|].
  destruct e; cbn [ids_of]; auto. right. auto.
Qed.

Lemma ids_nodup_same tr : NoDup (ids_of tr) -> forall t1 n1 t2 n2 id,
  In (EIssue t1 id n1) tr -> In (EIssue t2 id n2) tr -> t1 = t2.
Proof.
  induction tr as [|e r IH]; intros ND t1 n1 t2 n2 id I1 I2; [inversion I1|].
  destruct e; cbn [ids_of] in ND;
    try (destruct I1 as [E1|I1]; [discriminate|]; destruct I2 as [E2|I2]; [discriminate|]; eapply IH; eassumption).
  inv ND. destruct I1 as [E1|I1]; destruct I2 as [E2|I2].
  - inv E1. inv E2. reflexivity.
  - inv E1. exfalso. apply H1. eapply ids_of_in. exact I2.
  - inv E2. exfalso. apply H1. eapply ids_of_in. exact I1.
  - eapply IH; eassumption.
Qed.

Definition upto (n : Z) : list Z := map Z.of_nat (seq 1 (Z.to_nat n)).

Lemma upto_succ n : 0 <= n -> upto (n + 1) = upto n ++ [n + 1].
Proof.
  intro H. unfold upto. replace (Z.to_nat (n + 1)) with (S (Z.to_nat n)) by lia.
  rewrite seq_S, map_app. cbn [map]. f_equal. f_equal. lia.
Qed.

Lemma upto_facts n : NoDup (upto n) /\ forall x, In x (upto n) -> 1 <= x <= n.
Proof.
  unfold upto. split.
  - generalize (seq_NoDup (Z.to_nat n) 1). generalize (seq 1 (Z.to_nat n)). intros l ND.
    induction ND as [|a l Ni _ IH]; cbn [map]; constructor; [|exact IH].
    intro I. apply in_map_iff in I. destruct I as (b & E & Ib). apply Nat2Z.inj in E. subst b. contradiction.
  - intros x I. apply in_map_iff in I. destruct I as (k & <- & I). apply in_seq in I. lia.
Qed.

Section Fresh.
  Variable M : Z.
  Hypothesis M_pos : 1 <= M.

  (* one incarnation, allocator never moved by hand: the ids issued so far are 1, 2, ..., next *)
  Definition G (s : st) (tr : list ev) : Prop :=
    foc s = 0 /\ cur s = 0 /\
    (n_issue tr <= M -> next s = n_issue tr /\ ids_of tr = upto (n_issue tr)).

  Lemma n_issue_nonneg tr : 0 <= n_issue tr.
  Proof. induction tr as [|e r IH]; [cbn; lia|]. destruct e; cbn [n_issue]; lia. Qed.

  Lemma G_same s s' tr o :
    foc s' = foc s -> cur s' = cur s -> next s' = next s -> n_issue o = 0 -> ids_of o = [] ->
    G s tr -> G s' (tr ++ o).
  Proof.
    intros F C N Ni Io (Gf & Gc & Gi). unfold G. rewrite F, C, N, n_issue_app, ids_of_app, Ni, Io, Z.add_0_r, app_nil_r.
    auto.
  Qed.

  Lemma G_istar c c' : istar M c c' -> G (cs c) (ct c) -> G (cs c') (ct c').
  Proof.
    induction 1 as [c|c1 c2 c3 H1 _ IH2]; [auto|]. intro G1. apply IH2. clear IH2.
    destruct H1 as [f s tr u p|f s tr|f s tr]; unfold cs, ct in *; cbn [fst snd] in *.
    - destruct G1 as (Gf & Gc & Gi). unfold register; cbn [fst snd]. rewrite Gf.
      set (k := key M 0 (alloc_id M (next s))).
      assert (Ni : n_issue (match aget k (pending s) with Some v => [EClash k (nalloc s - e_ser v)] | None => [] end ++
                            EIssue (ntags s) k (clock s) :: (if u then [] else [ESent k (ntags s)])) = 1)
        by (destruct (aget k (pending s)); destruct u; reflexivity).
      assert (Io : ids_of (match aget k (pending s) with Some v => [EClash k (nalloc s - e_ser v)] | None => [] end ++
                           EIssue (ntags s) k (clock s) :: (if u then [] else [ESent k (ntags s)])) = [k])
        by (destruct (aget k (pending s)); destruct u; reflexivity).
      unfold G; cbn [foc cur next]. split; [reflexivity|]. split; [exact Gc|].
      rewrite n_issue_app, ids_of_app, Ni, Io. intro L. pose proof (n_issue_nonneg tr).
      destruct Gi as [Gn Gs]; [lia|].
      assert (Ek : k = n_issue tr + 1).
      { unfold k, key, alloc_id. rewrite Gn. destruct (Z.leb_spec M (n_issue tr)); lia. }
      split.
      + unfold alloc_id. rewrite Gn. destruct (Z.leb_spec M (n_issue tr)); lia.
      + rewrite Gs, Ek. symmetry. apply upto_succ. lia.
    - apply (G_same s); auto.
    - apply (G_same s); auto.
  Qed.

  Lemma G_fire s tr id c : G s tr -> G (fst (fire M s id c)) (tr ++ snd (fire M s id c)).
  Proof.
    intro Gs. unfold fire. destruct (aget id (pending s)) as [e|]; cbn [fst snd]; [|rewrite app_nil_r; exact Gs].
    assert (G1 : G s (tr ++ [ECb (e_tag e) c])) by (apply (G_same s); auto).
    pose proof (G_istar _ _ (exec_prog_istar M (e_prog e) None s (tr ++ [ECb (e_tag e) c])) G1) as G2.
    unfold cs, ct in G2; cbn [fst snd] in G2. rewrite <- app_assoc in G2. cbn [app] in G2.
    destruct G2 as (A & B & C). unfold G. cbn [set_pending foc cur next]. auto.
  Qed.

  Lemma G_fire_all ids : forall s tr, G s tr -> G (fst (fire_all M s ids)) (tr ++ snd (fire_all M s ids)).
  Proof.
    induction ids as [|i r IH]; intros s tr Gs; cbn [fire_all fst snd]; [rewrite app_nil_r; exact Gs|].
    rewrite app_assoc. apply IH. apply G_fire. exact Gs.
  Qed.

  Lemma G_tick s tr h : G s tr -> G (fst (tick M s h)) (tr ++ snd (tick M s h)).
  Proof.
    intro Gs. unfold tick. destruct (armed s); cbn [fst snd]; [|apply (G_same s); auto].
    unfold check_expired. destruct (isnil (block M (foc s) (pending s))); cbn [fst snd].
    - apply (G_same s); auto.
    - assert (G1 : G s (tr ++ [ETick (clock s)])) by (apply (G_same s); auto).
      pose proof (G_fire_all (order M h s) s _ G1) as G2. rewrite <- app_assoc in G2. exact G2.
  Qed.

  Lemma focus_self s : next (focus s (foc s)) = next s /\ foc (focus s (foc s)) = foc s /\ cur (focus s (foc s)) = cur s.
  Proof.
    destruct (focus_frame s (foc s)) as (_ & _ & _ & C & F). split; [|auto].
    pose proof (view_focus s (foc s) (foc s)) as V. rewrite view_foc in V.
    pose proof (view_foc (focus s (foc s))) as V2. rewrite F in V2. rewrite V2 in V. inv V. reflexivity.
  Qed.

  Lemma tick_op_single s h :
    cur s = 0 ->
    tick_op M s h = (focus (fst (tick M (focus s 0) (hd [] h))) 0, snd (tick M (focus s 0) (hd [] h))).
  Proof.
    intro C. unfold tick_op, incs. rewrite C. cbn [Z.to_nat seq map tick_all fst snd]. rewrite app_nil_r. reflexivity.
  Qed.

  Lemma G_focus0 s tr : G s tr -> G (focus s 0) tr.
  Proof.
    intros (A & B & C). destruct (focus_self s) as (N1 & F1 & C1). rewrite A in N1, F1, C1.
    unfold G. rewrite N1, F1, C1. auto.
  Qed.

  Lemma G_tick_op s tr h : G s tr -> G (fst (tick_op M s h)) (tr ++ snd (tick_op M s h)).
  Proof.
    intro Gs. rewrite (tick_op_single s h (proj1 (proj2 Gs))). cbn [fst snd].
    apply G_focus0. apply G_tick. apply G_focus0. exact Gs.
  Qed.

  Definition plain (o : op) : Prop := o <> Crash /\ forall v, o <> SetNext v.

  Lemma G_step s tr o : plain o -> G s tr -> G (fst (step M s o)) (tr ++ snd (step M s o)).
  Proof.
    intros [NCr NSn] Gs. destruct o as [a|id k| |id|h|h|dt|v|v|u|]; cbn [step tick_real fst snd].
    - assert (G1 : G s (tr ++ [EDo])) by (apply (G_same s); auto).
      pose proof (G_istar _ _ (exec_is_chain M a None s (tr ++ [EDo])) G1) as G2.
      unfold cs, ct in G2; cbn [fst snd] in G2. rewrite <- app_assoc in G2. exact G2.
    - unfold handle_resp. destruct (aget (rkey M (cur s) id) (pending s)) eqn:E; cbn [fst snd].
      + assert (G1 : G s (tr ++ [EResp (rkey M (cur s) id) k])) by (apply (G_same s); auto).
        pose proof (G_fire s _ (rkey M (cur s) id) (cls_of k) G1) as G2. rewrite <- app_assoc in G2. exact G2.
      + apply (G_same s); auto.
    - apply (G_same s); auto.
    - apply (G_same s); auto.
    - apply G_tick_op. exact Gs.
    - rewrite app_assoc. apply G_tick_op. apply G_tick_op. exact Gs.
    - destruct (0 <=? dt); apply (G_same s); auto.
    - destruct (NSn v eq_refl).
    - apply (G_same s); auto.
    - apply (G_same s); auto.
    - destruct (NCr eq_refl).
  Qed.

  (* no restart, no allocator set-up, at most M requests: no request id is used twice *)
  Theorem fresh_plain ops :
    Forall plain ops -> n_issue (trace_g M ops) <= M -> fresh_ids M (trace_g M ops).
  Proof.
    intros Pl L.
    assert (Gr : G (final_g M ops) (trace_g M ops)).
    { clear L. induction ops as [|o h IH] using rev_ind.
      - unfold G, final_g, trace_g. cbn. split; [reflexivity|]. split; [reflexivity|]. intros _. split; reflexivity.
      - apply Forall_app in Pl. destruct Pl as [Ph Po]. inv Po.
        rewrite final_snoc, trace_snoc. apply G_step; [assumption | apply IH; exact Ph]. }
    destruct Gr as (_ & _ & Gi). destruct (Gi L) as [_ Ids].
    destruct (upto_facts (n_issue (trace_g M ops))) as [ND Rg]. rewrite <- Ids in ND, Rg.
    intros t1 k1 n1 t2 k2 n2 I1 I2 W.
    pose proof (Rg k1 (ids_of_in _ _ _ _ I1)) as R1. pose proof (Rg k2 (ids_of_in _ _ _ _ I2)) as R2.
    unfold wid, Span in W. rewrite !Z.mod_small in W by lia. subst k2.
    eapply ids_nodup_same; eassumption.
  Qed.
End Fresh.

(* ------------------------------------------------------------------ responses go to the live incarnation *)

Lemma app_split {A} (a b pre post : list A) x :
  a ++ b = pre ++ x :: post ->
  (exists post', a = pre ++ x :: post' /\ post = post' ++ b) \/
  (exists pre', pre = a ++ pre' /\ b = pre' ++ x :: post).
Proof.
  revert pre. induction a as [|y a IH]; intros pre E; cbn [app] in E.
  - right. exists pre. auto.
  - destruct pre as [|p pre]; cbn [app] in E.
    + inv E. left. exists a. auto.
    + inv E. destruct (IH pre H1) as [(post' & -> & ->)|(pre' & -> & ->)].
      * left. exists post'. auto.
      * right. exists pre'. auto.
Qed.

Lemma model_resp_live M ops :
  1 <= M -> resp_live M (trace_g M ops) /\ n_crash (trace_g M ops) = cur (final_g M ops).
Proof.
  intro P. induction ops as [|o h IH] using rev_ind.
  - split; [|reflexivity]. intros pre id k post E. destruct pre; discriminate.
  - destruct IH as [L C]. rewrite trace_snoc, final_snoc.
    destruct (step_events M (final_g M h) o) as [Nc Rs].
    pose proof (base_run M P h) as (_ & _ & _ & Fo). unfold cs in Fo; cbn [fst snd] in Fo.
    split.
    + intros pre id k post E. apply app_split in E. destruct E as [(post' & E1 & _)|(pre' & -> & E2)].
      * apply (L pre id k post' E1).
      * destruct (Rs pre' id k post E2) as (-> & w & _ & ->). exists w. rewrite app_nil_r, C. reflexivity.
    + rewrite n_crash_app, C, Nc. symmetry. apply step_cur. lia.
Qed.

Section Monitor.
  Let M := MaxReqId.
  Let M_pos : 1 <= M := maxreqid_pos.

  Lemma head_ok_step s o : head_ok (cur s) o (snd (step M s o)) = true.
  Proof.
    destruct o as [a|id k| |id|h|h|dt|v|v|u|]; cbn [step tick_real snd head_ok]; try reflexivity.
    - unfold handle_resp. destruct (aget (rkey M (cur s) id) (pending s)); cbn [snd];
        fold M; rewrite Z.eqb_refl, kind_eqb_refl; reflexivity.
    - unfold tick_op. cbn [snd].
      destruct (proj1 (tick_all_shape M (incs s) s h) (incs_nonnil s)) as (m & x & -> & [-> | ->]); reflexivity.
    - unfold tick_op. cbn [snd].
      destruct (proj1 (tick_all_shape M (incs s) s h) (incs_nonnil s)) as (m & x & -> & [-> | ->]); reflexivity.
  Qed.

  (* events of one operation: which markers they contain *)
  Lemma step_markers s o :
    (forall n, In (ETick n) (snd (step M s o)) -> n = clock s /\ exists h, o = Tick h \/ o = TickReal h) /\
    exists m x, snd (step M s o) = m :: x /\ is_marker m = true.
  Proof.
    destruct o as [a|id k| |id|h|h|dt|v|v|u|]; cbn [step tick_real snd].
    - split; [|eexists; eexists; split; reflexivity].
      intros n [K|K]; [discriminate|]. apply (exec_nomark M) in K. discriminate.
    - unfold handle_resp. destruct (aget (rkey M (cur s) id) (pending s)) eqn:G; cbn [snd];
        (split; [|eexists; eexists; split; reflexivity]).
      + intros n [K|K]; [discriminate|]. apply fire_facts in K. discriminate.
      + intros n [K|[K|[]]]; discriminate.
    - split; [intros n [K|[]]; discriminate | eexists; eexists; split; reflexivity].
    - split; [intros n [K|[]]; discriminate | eexists; eexists; split; reflexivity].
    - unfold tick_op. cbn [snd]. destruct (tick_all_shape M (incs s) s h) as (Hd & T & _).
      split; [intros n K; split; [apply T; exact K | exists h; left; reflexivity]|].
      destruct (Hd (incs_nonnil s)) as (m & x & E & Hm). exists m, x. split; [exact E|]. destruct Hm as [-> | ->]; reflexivity.
    - unfold tick_op. cbn [snd fst].
      set (s1 := focus (fst (tick_all M s (incs s) h)) (cur s)).
      destruct (tick_all_shape M (incs s) s h) as (Hd & T & _).
      destruct (tick_all_shape M (incs s1) s1 []) as (_ & T1 & _).
      assert (C1 : clock s1 = clock s).
      { unfold s1. destruct (focus_frame (fst (tick_all M s (incs s) h)) (cur s)) as (_ & Cf & _). rewrite Cf.
        clear. generalize (incs s). intro js. revert s h. induction js as [|j r IH]; intros s h; cbn [tick_all fst]; [reflexivity|].
        rewrite IH, tick_clock. apply (focus_frame s j). }
      split.
      + intros n K. split; [|exists h; right; reflexivity]. apply in_app_or in K.
        destruct K as [K|K]; [apply T; exact K | rewrite <- C1; apply T1; exact K].
      + destruct (Hd (incs_nonnil s)) as (m & x & E & Hm). rewrite E. cbn [app].
        eexists; eexists; split; [reflexivity|]. destruct Hm as [-> | ->]; reflexivity.
    - split; [intros n [K|[]]; discriminate | eexists; eexists; split; reflexivity].
    - split; [intros n [K|[]]; discriminate | eexists; eexists; split; reflexivity].
    - split; [intros n [K|[]]; discriminate | eexists; eexists; split; reflexivity].
    - split; [intros n [K|[]]; discriminate | eexists; eexists; split; reflexivity].
    - split; [intros n [K|[]]; discriminate | eexists; eexists; split; reflexivity].
  Qed.

  (* if the last scan of an operation was a real one (at clock now), nothing expired is left in
     ANY incarnation's table *)
  Lemma step_scan h o now :
    tick_of (last_marker (trace_g M h ++ snd (step M (final_g M h) o))) = Some now ->
    forall id e, aget id (pending (fst (step M (final_g M h) o))) = Some e -> now <= e_dl e.
  Proof.
    intro Tk. set (s := final_g M h) in *.
    destruct (step_markers s o) as (T & m & x & E & Hm).
    destruct (last_marker (trace_g M h ++ snd (step M s o))) as [e0|] eqn:L; [|discriminate].
    destruct e0; try discriminate. cbn [tick_of] in Tk. inv Tk.
    rewrite E in L. apply (last_marker_in _ _ _ _ Hm) in L. rewrite <- E in L.
    destruct (T _ L) as (-> & hint & [-> | ->]); cbn [step tick_real fst].
    - intros id e G. destruct (tick_op_post M M_pos s hint (base_run M M_pos h)) as (_ & _ & K). apply (K id e G).
    - intros id e G. destruct (tick_op_post M M_pos s hint (base_run M M_pos h)) as (B1 & C1 & _).
      destruct (tick_op_post M M_pos _ [] B1) as (_ & _ & K). rewrite <- C1. apply (K id e G).
  Qed.

  Lemma nth_arms s j : 0 <= j <= cur s -> nth (Z.to_nat j) (arms_of s) false = armed_of s j.
  Proof.
    intro H. unfold arms_of, incs. rewrite map_map.
    rewrite (nth_indep _ false (armed_of s (Z.of_nat 0))) by (rewrite map_length, seq_length; lia).
    rewrite (map_nth (fun x => armed_of s (Z.of_nat x)) (seq 0 (S (Z.to_nat (cur s)))) 0%nat).
    rewrite seq_nth by lia. cbn [plus]. f_equal. lia.
  Qed.

  Lemma monitor_run r : forall h a,
    noclash (trace_g M (h ++ r)) -> answers_own (trace_g M (h ++ r)) ->
    acc_from a0 (trace_g M h) = Some a ->
    mon_from (cur (final_g M h)) a r (run_obs M (final_g M h) r) = true.
  Proof.
    induction r as [|o r IH]; intros h a NC Own Acc; [reflexivity|].
    cbn [run_obs mon_from observe].
    assert (E : h ++ o :: r = (h ++ [o]) ++ r) by (rewrite <- app_assoc; reflexivity).
    rewrite E in NC, Own. assert (NC1 : noclash (trace_g M (h ++ [o]))).
    { rewrite trace_app in NC. apply noclash_app in NC. tauto. }
    assert (B5 : own_b (snd (step M (final_g M h) o)) = true).
    { apply own_b_complete. rewrite trace_app, trace_snoc, <- app_assoc in Own.
      eapply answers_own_mid. exact Own. }
    destruct (model_accepted M M_pos _ NC1) as (a' & Acc' & Idle & Tk & Op & Keys).
    pose proof (acc_from_inv _ a0 [] a' AInv_init Acc') as AI. cbn [app] in AI.
    rewrite head_ok_step. cbn [andb].
    assert (S : acc_from a (snd (step M (final_g M h) o)) = Some a').
    { rewrite trace_snoc, acc_from_app, Acc in Acc'. exact Acc'. }
    rewrite S.
    pose proof (base_run M M_pos h) as (_ & _ & _ & Fo). unfold cs in Fo; cbn [fst snd] in Fo.
    assert (Cu : cur (final_g M (h ++ [o])) = cur (final_g M h) + crashes_of o)
      by (rewrite final_snoc; apply (step_cur M); lia).
    rewrite <- final_snoc.
    pose proof (base_run M M_pos (h ++ [o])) as (_ & _ & A1 & Fo1). unfold cs in A1, Fo1; cbn [fst snd] in A1, Fo1.
    assert (B1 : settled a' = true) by (unfold settled; rewrite Idle; reflexivity).
    assert (B2 : zlist_eqb (akeys (a_open a')) (akeys (pending (final_g M (h ++ [o])))) = true)
      by (apply zlist_eqb_spec; exact Keys).
    assert (B3 : forallb (armed_key (arms_of (final_g M (h ++ [o])))) (akeys (pending (final_g M (h ++ [o])))) = true).
    { apply forallb_forall. intros k I. unfold akeys in I. apply in_map_iff in I. destruct I as ([k' e] & <- & I).
      cbn [fst]. apply (in_aget _ _ _ (proj1 (base_run M M_pos (h ++ [o])))) in I.
      destruct (A1 (inc_of M k')) as [Ar Rg]; [exists k', e; auto|].
      unfold armed_key. fold M. rewrite nth_arms by exact Rg. rewrite Ar.
      destruct (Z.leb_spec 0 (inc_of M k')); [reflexivity | lia]. }
    assert (B3' : (Z.of_nat (length (arms_of (final_g M (h ++ [o])))) =? cur (final_g M h) + crashes_of o + 1) = true).
    { unfold arms_of, incs. rewrite !map_length, seq_length, <- Cu. apply Z.eqb_eq. lia. }
    assert (B4 : scan_post a' = true).
    { unfold scan_post. destruct (a_tick a') as [now|] eqn:T; [|reflexivity].
      apply forallb_forall. intros [id [t n]] I. cbn [snd].
      apply (in_aget _ _ _ (ai_sorted _ _ AI)) in I. rewrite Op in I.
      destruct (aget id (pending (final_g M (h ++ [o])))) as [e|] eqn:G; [|discriminate].
      cbn [option_map] in I. unfold ent in I. inv I.
      rewrite trace_snoc in Tk. symmetry in Tk. rewrite final_snoc in G.
      pose proof (step_scan _ _ _ Tk id e G). lia. }
    rewrite B1, B2, B3, B3', B4, B5, Z.eqb_refl. fold M. rewrite peer_eqb_refl. cbn [andb].
    rewrite <- Cu. apply IH; [exact NC | exact Own | exact Acc'].
  Qed.

  Theorem monitor_sound ops :
    noclash (trace_g M ops) -> answers_own (trace_g M ops) ->
    mon_from 0 a0 ops (run_obs M init ops) = true.
  Proof. intros NC Own. apply (monitor_run ops [] a0); [exact NC | exact Own | reflexivity]. Qed.
End Monitor.

(* ------------------------------------------------------------------ statements as used by Props.v *)

Lemma noclash_b_spec tr : noclash_b tr = true -> noclash tr.
Proof.
  unfold noclash_b. intros H id sp I. rewrite forallb_forall in H. specialize (H _ I). discriminate.
Qed.

Lemma model_at_most_once M ops : 1 <= M -> noclash (trace_g M ops) -> at_most_once (trace_g M ops).
Proof. intros P NC. apply (model_trace_props M P ops NC). Qed.

Lemma model_issue_unique M ops : 1 <= M -> noclash (trace_g M ops) -> issue_unique (trace_g M ops).
Proof. intros P NC. apply (model_trace_props M P ops NC). Qed.

Lemma model_matching M ops : 1 <= M -> noclash (trace_g M ops) -> matching (trace_g M ops).
Proof. intros P NC. apply (model_trace_props M P ops NC). Qed.

Lemma model_drops M ops : 1 <= M -> noclash (trace_g M ops) -> drops_ok (trace_g M ops).
Proof. intros P NC. apply (model_trace_props M P ops NC). Qed.

Lemma model_sent M ops : 1 <= M -> noclash (trace_g M ops) -> sent_after_issue (trace_g M ops).
Proof. intros P NC. apply (model_trace_props M P ops NC). Qed.

Lemma model_resp_completes M ops :
  1 <= M -> noclash (trace_g M ops) -> resp_completes (trace_g M ops).
Proof.
  intros P NC. apply accepts_resp_completes.
  destruct (model_accepted M P ops NC) as (a & Acc & Idle & _).
  unfold accepts, settled. rewrite Acc, Idle. reflexivity.
Qed.

Lemma model_accepts M ops : 1 <= M -> noclash (trace_g M ops) -> accepts (trace_g M ops) = true.
Proof.
  intros P NC. destruct (model_accepted M P ops NC) as (a & Acc & Idle & _).
  unfold accepts, settled. rewrite Acc, Idle. reflexivity.
Qed.

Lemma accepts_sound tr :
  accepts tr = true ->
  at_most_once tr /\ issue_unique tr /\ matching tr /\ drops_ok tr /\ sent_after_issue tr.
Proof.
  unfold accepts. destruct (acc_from a0 tr) as [a|] eqn:E; [|discriminate]. intros _.
  pose proof (acceptor_sound tr a E). tauto.
Qed.

(* ---- the value received by the callback *)

Lemma matching_value_exact tr : matching tr -> value_exact tr.
Proof.
  intros Hm pre t c post E RC. specialize (Hm pre t c post E).
  destruct c; simpl in RC; try discriminate; simpl in Hm; exact Hm.
Qed.

Lemma matching_wellformed tr : matching tr -> values_wellformed tr.
Proof.
  intros Hm t I. apply in_split in I. destruct I as (pre & post & E).
  specialize (Hm pre t ROther post E). simpl in Hm.
  destruct Hm as (a & id & n & b & k & _ & _ & C).
  exact (cls_of_not_other k (eq_sym C)).
Qed.

(* with truthful ghosts and request ids that are never used twice, a reply completes the request
   the peer was answering: it follows from [matching] *)
Lemma own_from_matching M tr :
  matching tr -> ghosts_truthful M tr -> fresh_ids M tr -> answers_own tr.
Proof.
  intros Hm Gt Fr p id k t c post E RC G.
  assert (E1 : tr = (p ++ [EResp id k]) ++ ECb t c :: post) by (rewrite E, <- app_assoc; reflexivity).
  pose proof (matching_value_exact tr Hm _ t c post E1 RC) as (a & id' & n & b & k' & Ep & _ & _).
  assert (Eq : p ++ [EResp id k] = (a ++ EIssue t id' n :: b) ++ [EResp id' k'])
    by (rewrite Ep, <- app_assoc; reflexivity).
  destruct (Gt p id k (ECb t c :: post) E G) as (key & n' & I & W).
  apply app_inj_tail in Eq. destruct Eq as [Ep2 Er]. injection Er as Ei Ek.
  apply (Fr (ghost_of k) key n' t id' n).
  - rewrite E. apply in_or_app. left. exact I.
  - rewrite E, Ep2. apply in_or_app. left. apply in_or_app. right. left. reflexivity.
  - rewrite <- Ei. exact W.
Qed.

Lemma accepts_value tr : accepts tr = true -> value_exact tr /\ values_wellformed tr.
Proof.
  intro A. destruct (accepts_sound tr A) as (_ & _ & Hm & _).
  split; [apply matching_value_exact | apply matching_wellformed]; exact Hm.
Qed.

Lemma model_value M ops :
  1 <= M -> noclash (trace_g M ops) ->
  value_exact (trace_g M ops) /\ values_wellformed (trace_g M ops).
Proof.
  intros P NC. pose proof (model_matching M ops P NC) as Hm.
  split; [apply matching_value_exact | apply matching_wellformed]; exact Hm.
Qed.

(* an all-default reply, a typed nil pointer and a typed response with an empty body are
   delivered as the non-nil zero message; nil only for the untyped nil; an error code wins over
   whatever body travels with it *)
Lemma value_boundaries :
  cls_of_ans (KAns 0 0 (MHello 0 0)) = RReply (VHello 0 0) /\
  cls_of_ans (KAns 0 0 MTypedNil) = RReply (VHello 0 0) /\
  cls_of_ans (KAns 0 0 MEmpty) = RReply VEmpty /\
  cls_of_ans (KAns 0 0 MNil) = RNil /\
  (forall e, cls_of_ans (KRaw (Wire 0 e TyHello (BFields 0 0))) = RReply (VHello 0 0)) /\
  (forall e b, cls_of_ans (KRaw (Wire 0 e TyUnknown b)) = RBad false) /\
  (forall e b, cls_of_ans (KRaw (Wire 0 e TyNone b)) = RNil) /\
  (forall c e t b, c <> 0 -> cls_of_ans (KRaw (Wire c e t b)) = RErr e) /\
  (forall c e m, c <> 0 -> cls_of_ans (KAns c e m) = RErr e).
Proof.
  repeat split; try reflexivity.
  - intros c e t b N. unfold cls_of_ans, wire_of_ans, decode. destruct (Z.eqb_spec c 0); [contradiction | reflexivity].
  - intros c e m N. rewrite roundtrip. destruct (Z.eqb_spec c 0); [contradiction | reflexivity].
Qed.

Lemma monitor_model ops :
  noclash (trace ops) -> answers_own (trace ops) -> monitor (ops, run ops) = true.
Proof. intros NC Own. apply (monitor_sound ops NC Own). Qed.

(* the scan of an incarnation (the one in focus), any state: none of its requests is left expired *)
Lemma scan_incarnation M s h id e :
  1 <= M -> armed s = true -> aget id (pending (fst (tick M s h))) = Some e -> inc_of M id = foc s ->
  clock s <= e_dl e.
Proof. intros P A H I. eapply tick_post; eassumption. Qed.

(* a Tick operation, every history: nothing expired is left in the table of ANY incarnation *)
Lemma scan_complete M (P : 1 <= M) h hint id e :
  aget id (pending (final_g M (h ++ [Tick hint]))) = Some e -> clock (final_g M h) <= e_dl e.
Proof. apply after_tick. exact P. Qed.

Lemma timer_disarm M s h :
  armed s = true -> armed (fst (tick M s h)) = false ->
  block M (foc s) (pending s) = [] /\ tick M s h = (set_armed s false, [ETick (clock s)]).
Proof. apply tick_disarm. Qed.

Lemma istar_armed_of M c c' j :
  istar M c c' -> armed_of (cs c) j = true -> armed_of (cs c') j = true.
Proof.
  intros H A. destruct (istar_keeps M _ _ H) as (Am & F & R & _).
  unfold armed_of in *. rewrite (views_upd (cs c) (cs c') F R).
  destruct (Z.eqb_spec j (foc (cs c))) as [->|N]; [|exact A].
  rewrite view_foc in A. cbn [fst snd] in *. apply Am. exact A.
Qed.

(* only a scan can switch a timer off - the live incarnation's or a replaced one's *)
Lemma step_keeps_armed M s o j :
  armed_of s j = true -> (forall h, o <> Tick h) -> (forall h, o <> TickReal h) ->
  armed_of (fst (step M s o)) j = true.
Proof.
  intros A N1 N2. destruct o as [a|id k| |id|h|h|dt|v|v|u|]; cbn [step tick_real fst].
  - apply (istar_armed_of M _ _ j (exec_is_chain M a None s [])). exact A.
  - unfold handle_resp. destruct (aget (rkey M (cur s) id) (pending s)) as [e|] eqn:G; cbn [fst]; [|exact A].
    unfold fire. rewrite G. cbn [fst].
    pose proof (istar_armed_of M _ _ j (exec_prog_istar M (e_prog e) None s []) A) as K.
    unfold cs in K; cbn [fst snd] in K. exact K.
  - exact A.
  - exact A.
  - destruct (N1 h eq_refl).
  - destruct (N2 h eq_refl).
  - destruct (0 <=? dt); exact A.
  - destruct ((0 <=? v) && (v <=? M) && isnil (pending s)); [|exact A].
    unfold armed_of in *. rewrite (views_upd s (set_next s v) eq_refl eq_refl).
    destruct (Z.eqb_spec j (foc s)) as [->|N]; [|exact A]. rewrite view_foc in A. exact A.
  - exact A.
  - exact A.
  - unfold crash. cbn [fst]. unfold armed_of in *. rewrite view_focus. exact A.
Qed.

(* a restart, state level: nothing of what exists is touched - table, timers and allocators of
   all incarnations stay as they are; the new live incarnation is a fresh Service *)
Lemma crash_step M s :
  foc s = cur s ->
  let s' := fst (step M s Crash) in
  snd (step M s Crash) = [ECrash] /\ pending s' = pending s /\ clock s' = clock s /\
  cur s' = cur s + 1 /\ foc s' = cur s + 1 /\
  (forall j, j <> cur s + 1 -> view s' j = view s j) /\
  (aget (cur s + 1) (rest s) = None -> next s' = 0 /\ armed s' = false).
Proof.
  intros F s'. unfold s'. cbn [step tick_real crash fst snd].
  destruct (focus_frame (set_cur s (cur s + 1)) (cur s + 1)) as (P & C & _ & Cu & Fo).
  split; [reflexivity|]. split; [exact P|]. split; [exact C|]. split; [exact Cu|]. split; [exact Fo|]. split.
  - intros j _. exact (view_focus (set_cur s (cur s + 1)) (cur s + 1) j).
  - intro G. unfold focus, park. cbn [set_cur foc rest next armed nalloc].
    rewrite aget_aset_other by lia. rewrite G. cbn. auto.
Qed.

(* ------------------------------------------------------------------ a response for a pending id, state level *)

Lemma resp_step M s id k e :
  let key := rkey M (cur s) id in
  aget key (pending s) = Some e ->
  let r := exec_prog M (e_prog e) s in
  step M s (Resp id k) =
    (set_pending (fst r) (adel key (pending (fst r))),
     EResp key k :: ECb (e_tag e) (cls_of k) :: snd r) /\
  aget key (pending (fst (step M s (Resp id k)))) = None /\
  (noclash (snd r) -> forall id' e', id' <> key -> aget id' (pending s) = Some e' ->
                      aget id' (pending (fst (step M s (Resp id k)))) = Some e') /\
  (e_prog e = [] ->
   step M s (Resp id k) =
     (set_pending s (adel key (pending s)), [EResp key k; ECb (e_tag e) (cls_of k)])).
Proof.
  intros key G r.
  assert (E : step M s (Resp id k) =
              (set_pending (fst r) (adel key (pending (fst r))),
               EResp key k :: ECb (e_tag e) (cls_of k) :: snd r)).
  { cbn [step tick_real]. unfold handle_resp. fold key. rewrite G. unfold fire. rewrite G. reflexivity. }
  split; [exact E|]. rewrite E. cbn [fst set_pending pending]. split; [apply aget_adel_same|]. split.
  - intros NC id' e' Ne H. rewrite aget_adel_other by exact Ne.
    destruct (istar_facts M _ _ (exec_prog_istar M (e_prog e) None s [])) as (_ & _ & _ & o & T & _ & K).
    unfold cs, ct in *; cbn [fst snd app] in *. subst o. apply K; assumption.
  - intro P. unfold r. rewrite P. reflexivity.
Qed.

(* ------------------------------------------------------------------ the model agrees with itself
   (the hints Corr.v derives from a run's own timeout order reproduce that run) *)

Lemma timeout_tags_app a b : timeout_tags (a ++ b) = timeout_tags a ++ timeout_tags b.
Proof.
  induction a as [|e r IH]; [reflexivity|]. destruct e; cbn [timeout_tags app]; try exact IH.
  destruct c; cbn [app]; rewrite ?IH; reflexivity.
Qed.

Lemma istar_no_timeouts M c c' :
  istar M c c' -> exists o, ct c' = ct c ++ o /\ timeout_tags o = [].
Proof.
  induction 1 as [c|c1 c2 c3 H1 _ (o2 & T2 & N2)].
  - exists []. rewrite app_nil_r. auto.
  - assert (exists o1, ct c2 = ct c1 ++ o1 /\ timeout_tags o1 = []) as (o1 & T1 & N1).
    { destruct H1 as [f s tr u p|f s tr|f s tr]; unfold ct; cbn [snd]; eexists; (split; [reflexivity|]).
      - unfold register; cbn [snd].
        destruct (aget (key M (foc s) (alloc_id M (next s))) (pending s)); destruct u; reflexivity.
      - reflexivity.
      - reflexivity. }
    exists (o1 ++ o2). split; [rewrite T2, T1, app_assoc; reflexivity|].
    rewrite timeout_tags_app, N1, N2. reflexivity.
Qed.

Definition tag_at (s : st) (id : Z) : Z :=
  match aget id (pending s) with Some e => e_tag e | None => 0 end.

Lemma dedup_all_seen r : forall seen, (forall x, In x r -> In x seen) -> dedup seen r = [].
Proof.
  induction r as [|x r IH]; intros seen H; [reflexivity|]. simpl.
  assert (E : zmem x seen = true) by (apply zmem_In; apply H; left; reflexivity).
  rewrite E. apply IH. intros y I. apply H. right. exact I.
Qed.

Lemma dedup_app_self l : forall seen r,
  NoDup l -> (forall x, In x l -> ~ In x seen) -> (forall x, In x r -> In x l \/ In x seen) ->
  dedup seen (l ++ r) = l.
Proof.
  induction l as [|x l IH]; intros seen r ND D S; cbn [app].
  - apply dedup_all_seen. intros y I. destruct (S y I) as [[]|K]; exact K.
  - inv ND. simpl. destruct (zmem x seen) eqn:E.
    + apply zmem_In in E. exfalso. apply (D x); [left; reflexivity | exact E].
    + f_equal. apply IH; [assumption| |].
      * intros y I [->|K]; [contradiction | apply (D y); [right; exact I | exact K]].
      * intros y I. destruct (S y I) as [[->|K]|K]; [right; left; reflexivity | left; exact K | right; right; exact K].
Qed.

Lemma filter_singleton (f : Z -> bool) (E : list Z) id :
  NoDup E -> In id E -> (forall x, In x E -> (f x = true <-> x = id)) -> filter f E = [id].
Proof.
  induction E as [|y E IH]; intros ND I H; [inversion I|]. inv ND. simpl.
  destruct (Z.eq_dec y id) as [->|Ne].
  - assert (F : f id = true) by (apply H; [left; reflexivity | reflexivity]). rewrite F. f_equal.
    assert (K : forall x, In x E -> f x = false).
    { intros x Ix. destruct (f x) eqn:Fx; [|reflexivity]. apply H in Fx; [subst; contradiction | right; exact Ix]. }
    clear - K. induction E as [|z E IH]; [reflexivity|]. simpl. rewrite (K z (or_introl eq_refl)).
    apply IH. intros x Ix. apply K. right. exact Ix.
  - destruct (f y) eqn:Fy; [apply H in Fy; [contradiction | left; reflexivity]|].
    destruct I as [->|I]; [contradiction|]. apply IH; [assumption | exact I|].
    intros x Ix. apply H. right. exact Ix.
Qed.

Lemma flat_map_singleton {A} (g : A -> list A) l : (forall x, In x l -> g x = [x]) -> flat_map g l = l.
Proof.
  induction l as [|x l IH]; intro H; [reflexivity|]. simpl. rewrite (H x (or_introl eq_refl)).
  simpl. f_equal. apply IH. intros y I. apply H. right. exact I.
Qed.

Lemma list_eqb_refl {A} (eqb : A -> A -> bool) : (forall x, eqb x x = true) -> forall l, list_eqb eqb l l = true.
Proof. intros H l. induction l as [|x l IH]; [reflexivity|]. simpl. rewrite H, IH. reflexivity. Qed.

Lemma ev_eqb_refl e : ev_eqb e e = true.
Proof.
  destruct e; simpl; rewrite ?Z.eqb_refl, ?kind_eqb_refl, ?cls_eqb_refl; reflexivity.
Qed.

Lemma obs_eqb_refl o : obs_eqb o o = true.
Proof.
  destruct o as [e p a g s l]. simpl.
  rewrite (list_eqb_refl ev_eqb ev_eqb_refl), Z.eqb_refl, peer_eqb_refl.
  assert (Zl : zlist_eqb p p = true) by (apply zlist_eqb_spec; reflexivity).
  rewrite Zl. rewrite (list_eqb_refl Bool.eqb Bool.eqb_reflx). reflexivity.
Qed.

(* the timeout tags of one scan's events, found again in a longer event list *)
Definition starts_marked (l : list ev) : Prop :=
  l = [] \/ exists m r, l = m :: r /\ is_marker m = true.

Lemma head_tags_block x rest :
  nomark x -> starts_marked rest -> head_tags (x ++ rest) = timeout_tags x.
Proof.
  intros Mk St. induction x as [|e x IH]; cbn [app].
  - destruct St as [->|(m & r & -> & Hm)]; [reflexivity|]. cbn [head_tags]. rewrite Hm. reflexivity.
  - cbn [head_tags]. rewrite (Mk e (or_introl eq_refl)).
    assert (Mx : nomark x) by (intros y I; apply Mk; right; exact I).
    destruct e; cbn [timeout_tags]; try (apply IH; exact Mx).
    destruct c; try (apply IH; exact Mx). f_equal. apply IH. exact Mx.
Qed.

Lemma block_tags_nomark x rest : nomark x -> block_tags (x ++ rest) = block_tags rest.
Proof.
  intro Mk. induction x as [|e x IH]; [reflexivity|]. cbn [app block_tags].
  rewrite (Mk e (or_introl eq_refl)). apply IH. intros y I. apply Mk. right. exact I.
Qed.

Section Rehint.
  Variable M : Z.
  Hypothesis M_pos : 1 <= M.

  Definition tags_distinct (s : st) : Prop :=
    forall id1 id2 e1 e2, aget id1 (pending s) = Some e1 -> aget id2 (pending s) = Some e2 ->
                          e_tag e1 = e_tag e2 -> id1 = id2.

  Lemma fire_all_tags l : forall s,
    NoDup l -> (forall id, In id l -> aget id (pending s) <> None) ->
    noclash (snd (fire_all M s l)) ->
    timeout_tags (snd (fire_all M s l)) = map (tag_at s) l.
  Proof.
    induction l as [|id r IH]; intros s ND P NC; [reflexivity|]. inv ND.
    cbn [fire_all snd map] in *. unfold fire in *.
    destruct (aget id (pending s)) as [e|] eqn:G; [|exfalso; apply (P id); [left; reflexivity | exact G]].
    cbn [fst snd] in *.
    pose proof (exec_prog_istar M (e_prog e) None s []) as IS.
    destruct (istar_no_timeouts M _ _ IS) as (o & T & N0).
    destruct (istar_facts M _ _ IS) as (_ & _ & _ & o' & T' & _ & K).
    unfold cs, ct in *; cbn [fst snd app] in *. subst o o'.
    assert (NC' : noclash (snd (exec_prog M (e_prog e) s) ++
                           snd (fire_all M (set_pending (fst (exec_prog M (e_prog e) s))
                                  (adel id (pending (fst (exec_prog M (e_prog e) s))))) r)))
      by (intros i sp I; apply (NC i sp); right; exact I).
    apply noclash_app in NC'. destruct NC' as [NC1 NC2].
    cbn [timeout_tags]. rewrite timeout_tags_app, N0. cbn [app]. unfold tag_at at 1. rewrite G. f_equal.
    set (s1 := set_pending (fst (exec_prog M (e_prog e) s))
                 (adel id (pending (fst (exec_prog M (e_prog e) s))))) in *.
    assert (Keep : forall id', In id' r -> aget id' (pending s1) = aget id' (pending s)).
    { intros id' I. unfold s1; cbn [set_pending pending].
      rewrite aget_adel_other by (intro; subst; contradiction).
      destruct (aget id' (pending s)) as [e'|] eqn:G'; [apply K; assumption|].
      exfalso. apply (P id'); [right; exact I | exact G']. }
    rewrite IH; [| assumption | | exact NC2].
    - apply map_ext_in. intros id' I. unfold tag_at. rewrite (Keep id' I). reflexivity.
    - intros id' I. rewrite (Keep id' I). apply P. right. exact I.
  Qed.

  Lemma order_rehint s h :
    sorted (pending s) -> tags_distinct s ->
    order M (map (tag_at s) (order M h s)) s = order M h s.
  Proof.
    intros S D. destruct (order_spec M h s) as [ND Sub].
    assert (NE : NoDup (expired_ids M s)).
    { unfold expired_ids. apply NoDup_filter. apply sorted_nodup_keys. exact S. }
    rewrite (order_unfold M (map (tag_at s) (order M h s)) s). rewrite flat_map_concat_map, map_map, <- flat_map_concat_map.
    rewrite (flat_map_singleton (fun id => filter (fun id' => tag_is s id' (tag_at s id)) (expired_ids M s))).
    - apply dedup_app_self; [exact ND | intros x _ [] |].
      intros x I. left. rewrite order_unfold. apply dedup_complete; [|intros []]. apply in_or_app. right. exact I.
    - intros id I. apply filter_singleton; [exact NE | apply Sub; exact I|].
      intros x Ix. destruct (expired_in M s x Ix) as (ex & Gx & _).
      destruct (expired_in M s id (Sub id I)) as (ei & Gi & _).
      unfold tag_is, tag_at. rewrite Gx, Gi. split.
      + intro E. apply (D x id ex ei Gx Gi). lia.
      + intros ->. rewrite Gx in Gi. inv Gi. apply Z.eqb_refl.
  Qed.

  Lemma tick_rehint s h :
    sorted (pending s) -> tags_distinct s -> noclash (snd (tick M s h)) ->
    tick M s (timeout_tags (snd (tick M s h))) = tick M s h.
  Proof.
    intros S D NC. unfold tick in *. destruct (armed s); [|reflexivity]. cbn [snd fst] in *.
    unfold check_expired in *. destruct (isnil (block M (foc s) (pending s))); [reflexivity|].
    cbn [timeout_tags].
    change (ETick (clock s) :: snd (fire_all M s (order M h s)))
      with ([ETick (clock s)] ++ snd (fire_all M s (order M h s))) in NC.
    apply noclash_app in NC. destruct NC as [_ NC].
    destruct (order_spec M h s) as [ND Sub].
    rewrite fire_all_tags; [|exact ND| |exact NC].
    - rewrite order_rehint by assumption. reflexivity.
    - intros id I. destruct (expired_in M s id (Sub id I)) as (e & G & _). congruence.
  Qed.

  (* states reached inside a clash-free run: sorted table, pairwise distinct tags *)
  Definition Good (s : st) : Prop := exists tr, Sim M (None, s, tr) /\ noclash tr.

  Lemma good_facts s : Good s -> sorted (pending s) /\ tags_distinct s.
  Proof.
    intros (tr & [(S & _) R] & NC). unfold cs in S; cbn [fst snd] in S. split; [exact S|].
    destruct (R NC) as [a Ra]. destruct Ra as [Racc _ _ _ Ropen _]. unfold cs, ct, cf in *; cbn [fst snd inflight] in *.
    pose proof (acc_from_inv _ a0 [] a AInv_init Racc) as AI. cbn [app] in AI.
    intros id1 id2 e1 e2 G1 G2 E.
    assert (O1 : aget id1 (a_open a) = Some (ent e1)) by (rewrite Ropen, G1; reflexivity).
    assert (O2 : aget id2 (a_open a) = Some (ent e2)) by (rewrite Ropen, G2; reflexivity).
    unfold ent in *. rewrite E in O1. eapply (ai_tags _ _ AI); eassumption.
  Qed.

  Lemma good_star s s' o :
    Good s -> (forall tr, star M (None, s, tr) (None, s', tr ++ o)) -> noclash o -> Good s'.
  Proof.
    intros (tr & Sm & NC) St NCo. exists (tr ++ o). split; [|apply noclash_app; auto].
    refine (star_inv M (Sim M) _ _ _ (St tr) Sm). intros c c' P. apply sim_prim; assumption.
  Qed.

  Lemma good_cur s : Good s -> 0 <= cur s.
  Proof. intros (tr & [(_ & _ & _ & Fo) _] & _). unfold cs in Fo; cbn [fst snd] in Fo. lia. Qed.

  (* a round of scans, re-run with the hints read off its own events (possibly followed by more
     events [rest] that begin with a marker) *)
  Lemma tick_all_rehint js : forall s hs rest,
    Good s -> (forall j, In j js -> 0 <= j <= cur s) ->
    noclash (snd (tick_all M s js hs)) -> starts_marked rest ->
    tick_all M s js (block_tags (snd (tick_all M s js hs) ++ rest)) = tick_all M s js hs.
  Proof.
    induction js as [|j r IH]; intros s hs rest G Hin NC St; [reflexivity|].
    cbn [tick_all snd fst] in *. apply noclash_app in NC. destruct NC as [NC1 NC2].
    set (sj := focus s j) in *. set (h := hd [] hs) in *.
    assert (Gj : Good sj).
    { apply (good_star s sj []); [exact G| |apply noclash_nil].
      intro tr. rewrite app_nil_r. apply star_one. apply PFocus. apply Hin. left. reflexivity. }
    destruct (good_facts sj Gj) as [Sj Dj].
    assert (G1 : Good (fst (tick M sj h))).
    { apply (good_star sj _ (snd (tick M sj h))); [exact Gj | intro tr; apply tick_star | exact NC1]. }
    set (R := snd (tick_all M (fst (tick M sj h)) r (tl hs)) ++ rest).
    assert (StR : starts_marked R).
    { unfold R. destruct r as [|j' r'].
      - cbn [tick_all snd app]. exact St.
      - destruct (proj1 (tick_all_shape M (j' :: r') (fst (tick M sj h)) (tl hs))) as (m & x & E & Hm); [discriminate|].
        right. exists m, (x ++ rest). rewrite E. split; [reflexivity|]. destruct Hm as [-> | ->]; reflexivity. }
    assert (Hd : block_tags ((snd (tick M sj h) ++ snd (tick_all M (fst (tick M sj h)) r (tl hs))) ++ rest) =
                 timeout_tags (snd (tick M sj h)) :: block_tags R).
    { rewrite <- app_assoc. fold R.
      destruct (tick_shape M sj h) as [(_ & o & E & Mk)|(_ & E)]; rewrite E; cbn [snd app block_tags is_marker timeout_tags].
      - rewrite (head_tags_block o R Mk StR), (block_tags_nomark o R Mk). reflexivity.
      - f_equal. destruct StR as [->|(m & r0 & -> & Hm)]; [reflexivity|]. cbn [head_tags]. rewrite Hm. reflexivity. }
    rewrite Hd. cbn [hd tl]. rewrite (tick_rehint sj h Sj Dj NC1).
    unfold R. rewrite IH; [reflexivity | exact G1 | | exact NC2 | exact St].
    intros j' I. rewrite tick_cur. destruct (focus_frame s j) as (_ & _ & _ & C & _). fold sj in C. rewrite C.
    apply Hin. right. exact I.
  Qed.

  Definition rehint (o : op) (evs : list ev) : op :=
    match o with
    | Tick _ => Tick (block_tags evs)
    | TickReal _ => TickReal (block_tags evs)
    | _ => o
    end.

  Lemma tick_op_rehint s hs rest :
    Good s -> noclash (snd (tick_op M s hs)) -> starts_marked rest ->
    tick_op M s (block_tags (snd (tick_op M s hs) ++ rest)) = tick_op M s hs.
  Proof.
    intros G NC St. pose proof (good_cur s G) as HC.
    assert (E : snd (tick_op M s hs) = snd (tick_all M s (incs s) hs)) by reflexivity.
    rewrite E in *. unfold tick_op.
    rewrite (tick_all_rehint (incs s) s hs rest G (fun j I => incs_range s j HC I) NC St). reflexivity.
  Qed.

  Lemma tick_op_starts s hs : starts_marked (snd (tick_op M s hs)).
  Proof.
    unfold tick_op. cbn [snd].
    destruct (proj1 (tick_all_shape M (incs s) s hs) (incs_nonnil s)) as (m & x & E & Hm).
    right. exists m, x. split; [exact E|]. destruct Hm as [-> | ->]; reflexivity.
  Qed.

  Lemma step_rehint s o :
    Good s -> noclash (snd (step M s o)) ->
    step M s (rehint o (snd (step M s o))) = step M s o /\
    got_of (rehint o (snd (step M s o))) = got_of o.
  Proof.
    intros G NC.
    destruct o as [a|id k| |id|h|h|dt|v|v|u|]; cbn [rehint]; try (split; reflexivity).
    - split; [|reflexivity]. change (step M s (Tick h)) with (tick_op M s h) in *.
      change (step M s (Tick (block_tags (snd (tick_op M s h)))))
        with (tick_op M s (block_tags (snd (tick_op M s h)))).
      pose proof (tick_op_rehint s h [] G NC (or_introl eq_refl)) as E.
      rewrite app_nil_r in E. exact E.
    - split; [|reflexivity].
      set (r1 := tick_op M s h) in *.
      change (step M s (TickReal h)) with (fst (tick_op M (fst r1) []), snd r1 ++ snd (tick_op M (fst r1) [])) in *.
      cbn [snd] in NC. apply noclash_app in NC. destruct NC as [NC1 _].
      cbn [snd].
      change (step M s (TickReal (block_tags (snd r1 ++ snd (tick_op M (fst r1) [])))))
        with (let q := tick_op M s (block_tags (snd r1 ++ snd (tick_op M (fst r1) []))) in
              (fst (tick_op M (fst q) []), snd q ++ snd (tick_op M (fst q) []))).
      unfold r1 at 1. rewrite (tick_op_rehint s h _ G NC1 (tick_op_starts (fst r1) [])). reflexivity.
  Qed.

  Lemma reach_good h : noclash (trace_g M h) -> Good (final_g M h).
  Proof. intro NC. exists (trace_g M h). split; [apply sim_run; exact M_pos | exact NC]. Qed.

  Lemma with_hints_cons o r b br :
    with_hints (o :: r) (b :: br) =
    rehint o (match b with Obs evs _ _ _ _ _ => evs end) :: with_hints r br.
  Proof. destruct b. destruct o; reflexivity. Qed.

  Lemma rehint_run r : forall h,
    noclash (trace_g M (h ++ r)) ->
    run_obs M (final_g M h) (with_hints r (run_obs M (final_g M h) r)) = run_obs M (final_g M h) r.
  Proof.
    induction r as [|o r IH]; intros h NC; [reflexivity|].
    cbn [run_obs]. rewrite with_hints_cons. cbn [observe run_obs].
    assert (E : h ++ o :: r = (h ++ [o]) ++ r) by (rewrite <- app_assoc; reflexivity).
    rewrite E in NC. assert (NC1 : noclash (trace_g M (h ++ [o]))).
    { rewrite trace_app in NC. apply noclash_app in NC. tauto. }
    rewrite trace_snoc in NC1. apply noclash_app in NC1. destruct NC1 as [NC0 NCo].
    destruct (step_rehint (final_g M h) o (reach_good h NC0) NCo) as [Es Eg].
    rewrite Es. unfold observe. rewrite Eg. f_equal.
    rewrite <- final_snoc. apply IH. exact NC.
  Qed.
End Rehint.

Lemma agree_model ops : noclash (trace ops) -> agree (ops, run ops) = true.
Proof.
  intro NC. unfold agree, run. cbn [fst snd].
  pose proof (rehint_run MaxReqId maxreqid_pos ops [] NC) as H. unfold final_g in H. cbn [run_from fst app] in H.
  rewrite H. apply list_eqb_refl. exact obs_eqb_refl.
Qed.

(* ------------------------------------------------------------------ the reply answers the callback's own request *)

Lemma model_own M ops :
  1 <= M -> noclash (trace_g M ops) -> ghosts_truthful M (trace_g M ops) -> fresh_ids M (trace_g M ops) ->
  answers_own (trace_g M ops).
Proof. intros P NC Gt Fr. apply (own_from_matching M); [apply model_matching; assumption | exact Gt | exact Fr]. Qed.

Lemma model_own_plain M ops :
  1 <= M -> Forall plain ops -> n_issue (trace_g M ops) <= M ->
  noclash (trace_g M ops) -> ghosts_truthful M (trace_g M ops) ->
  answers_own (trace_g M ops).
Proof. intros P Pl L NC Gt. apply model_own; try assumption. apply fresh_plain; assumption. Qed.

Lemma accepts_own M tr :
  accepts tr = true -> ghosts_truthful M tr -> fresh_ids M tr -> answers_own tr.
Proof. intros A Gt Fr. destruct (accepts_sound tr A) as (_ & _ & Hm & _). eapply own_from_matching; eassumption. Qed.

Lemma restart_refutes_own :
  ~ answers_own (trace [Do (AReq []); Crash; Do (AReq []); Resp 1 (K 0 (KAns 0 0 (MHello 7 0)))]).
Proof.
  intro A. apply own_b_complete in A. vm_compute in A. discriminate.
Qed.
