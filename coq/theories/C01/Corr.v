(* C01 - correspondence entry point.
   [agree]   : the model, told the order in which the implementation's map iteration yielded
               the expired requests (the only nondeterminism of the code), produces exactly the
               implementation's observations (events minus the ghost EClash / unobservable EDrop).
   [monitor] : the acceptor of Spec.v run on the implementation's own event trace, plus the
               per-operation boundary clauses of the property (pending keys of all incarnations
               = open requests, the timer of every incarnation that has a pending request is
               armed, one timer flag per incarnation (restarts + 1), a response addresses its id
               in the live incarnation, nothing expired survives a scan, callbacks on the service
               loop goroutine - a measurement -, suppressed responses, a reply completes the
               request the peer was answering - Spec.answers_own, by the response's ghost). *)
From Cell2V Require Import Common.Tac Common.ListX Common.AList C01.Model C01.Spec.

Definition ev_eqb (a b : ev) : bool :=
  match a, b with
  | EDo, EDo => true
  | EIdle, EIdle => true
  | ECrash, ECrash => true
  | EResp i k, EResp j l => (i =? j) && kind_eqb k l
  | ETick x, ETick y => x =? y
  | EIssue t i n, EIssue u j m => (t =? u) && (i =? j) && (n =? m)
  | EClash i s, EClash j r => (i =? j) && (s =? r)
  | ESent i t, ESent j u => (i =? j) && (t =? u)
  | ENoRoute t, ENoRoute u => t =? u
  | ECb t c, ECb u d => (t =? u) && cls_eqb c d
  | EDrop i, EDrop j => i =? j
  | _, _ => false
  end.

Definition observable (e : ev) : bool :=
  match e with EClash _ _ | EDrop _ => false | _ => true end.

Definition peer_eqb (a b : list (Z * Z)) : bool := list_eqb (pair_eqb Z.eqb Z.eqb) a b.

Definition obs_eqb (m i : obs) : bool :=
  match m, i with
  | Obs e1 p1 a1 g1 s1 _, Obs e2 p2 a2 g2 s2 _ =>
      list_eqb ev_eqb (filter observable e1) (filter observable e2)
      && zlist_eqb p1 p2 && list_eqb Bool.eqb a1 a2 && (g1 =? g2) && peer_eqb s1 s2
  end.

(* tags of the timeout callbacks the implementation ran, in its order *)
Fixpoint timeout_tags (l : list ev) : list Z :=
  match l with
  | [] => []
  | ECb t RTimeout :: r => t :: timeout_tags r
  | _ :: r => timeout_tags r
  end.

(* ... up to the next marker: the timeouts of one scan *)
Fixpoint head_tags (l : list ev) : list Z :=
  match l with
  | [] => []
  | e :: r => if is_marker e then []
              else match e with ECb t RTimeout => t :: head_tags r | _ => head_tags r end
  end.

(* ... scan by scan (a Tick's events are one block per incarnation, each begun by a marker) *)
Fixpoint block_tags (l : list ev) : list (list Z) :=
  match l with
  | [] => []
  | e :: r => if is_marker e then head_tags r :: block_tags r else block_tags r
  end.

Fixpoint with_hints (ops : list op) (bs : list obs) : list op :=
  match ops, bs with
  | Tick _ :: r, Obs evs _ _ _ _ _ :: br => Tick (block_tags evs) :: with_hints r br
  | TickReal _ :: r, Obs evs _ _ _ _ _ :: br => TickReal (block_tags evs) :: with_hints r br
  | o :: r, _ :: br => o :: with_hints r br
  | _, _ => ops
  end.

Definition case := (list op * list obs)%type.

Definition agree (c : case) : bool :=
  list_eqb obs_eqb (run (with_hints (fst c) (snd c))) (snd c).

(* the first event of an operation's block is its marker; a response is processed by the live
   incarnation c (the number of restarts so far): it addresses its id in that incarnation *)
Definition head_ok (c : Z) (o : op) (evs : list ev) : bool :=
  match o, evs with
  | Do _, EDo :: _ => true
  | Resp id k, EResp id' k' :: _ => (rkey MaxReqId c id =? id') && kind_eqb k k'
  | (RespNotify | RespNoSender _ | Advance _ | SetNext _ | Via _ | DirectNotify _), [EIdle] => true
  | (Tick _ | TickReal _), (ETick _ | EIdle) :: _ => true
  | Crash, [ECrash] => true
  | _, _ => false
  end.

Definition crashes_of (o : op) : Z := match o with Crash => 1 | _ => 0 end.

(* the timer of the incarnation a pending key belongs to is armed *)
Definition armed_key (arms : list bool) (k : Z) : bool :=
  (0 <=? inc_of MaxReqId k) && nth (Z.to_nat (inc_of MaxReqId k)) arms false.

(* after a scan at clock now nothing whose deadline lies before now is left *)
Definition scan_post (a : ast) : bool :=
  match a_tick a with
  | Some now => forallb (fun kv => now <=? snd (snd kv) + Timeout) (a_open a)
  | None => true
  end.

Fixpoint mon_from (c : Z) (a : ast) (ops : list op) (bs : list obs) : bool :=
  match ops, bs with
  | [], [] => true
  | o :: r, Obs evs pend arms got peer onloop :: br =>
      head_ok c o evs &&
      match acc_from a evs with
      | Some a' =>
          settled a'
          && zlist_eqb (akeys (a_open a')) pend
          && forallb (armed_key arms) pend
          && (Z.of_nat (length arms) =? c + crashes_of o + 1)
          && scan_post a'
          && own_b evs
          && (got =? got_of o)
          && peer_eqb peer (sent_of MaxReqId evs)
          && onloop
          && mon_from (c + crashes_of o) a' r br
      | None => false
      end
  | _, _ => false
  end.

Definition monitor (c : case) : bool := mon_from 0 a0 (fst c) (snd c).

Definition disagreeing (cs : list case) : list Z := failing agree cs.
Definition monitor_failing (cs : list case) : list Z := failing monitor cs.
