(* C01 - the property, stated over event traces only (no model state), and an executable
   acceptor [accepts] for such traces.  Proofs.v shows
     accepts tr = true  ->  every clause below holds of tr          (the acceptor is sound)
     every clash-free model trace is accepted                       (simulation)
   so the acceptor, run on the implementation's own trace, is the theorem's statement. *)
From Cell2V Require Import Common.Tac Common.ListX Common.AList C01.Model.

Definition is_marker (e : ev) : bool :=
  match e with EDo | EIdle | ECrash | EResp _ _ | ETick _ => true | _ => false end.

(* the operation an event belongs to: the last marker before it *)
Definition last_marker (tr : list ev) : option ev :=
  fold_left (fun acc e => if is_marker e then Some e else acc) tr None.

Fixpoint count_cb (t : Z) (tr : list ev) : nat :=
  match tr with
  | [] => 0%nat
  | ECb t' _ :: r => if t =? t' then S (count_cb t r) else count_cb t r
  | _ :: r => count_cb t r
  end.

Fixpoint count_issue (t : Z) (tr : list ev) : nat :=
  match tr with
  | [] => 0%nat
  | EIssue t' _ _ :: r => if t =? t' then S (count_issue t r) else count_issue t r
  | _ :: r => count_issue t r
  end.

(* number of registrations / of completions of registered requests *)
Fixpoint n_issue (tr : list ev) : Z :=
  match tr with [] => 0 | EIssue _ _ _ :: r => 1 + n_issue r | _ :: r => n_issue r end.
Fixpoint n_done (tr : list ev) : Z :=
  match tr with
  | [] => 0
  | ECb _ RNoService :: r => n_done r
  | ECb _ _ :: r => 1 + n_done r
  | _ :: r => n_done r
  end.

Definition no_resp (id : Z) (l : list ev) : Prop := forall k, ~ In (EResp id k) l.
Definition noclash (tr : list ev) : Prop := forall id sp, ~ In (EClash id sp) tr.
Definition noclash_b (tr : list ev) : bool :=
  forallb (fun e => match e with EClash _ _ => false | _ => true end) tr.

(* Why the callback of request t may run with result c, given everything [pre] that happened
   before: a reply-class result is the kind of the response being processed right now, that
   response carries the id t was issued under, and it is the FIRST response with that id
   since the issue; a timeout happens inside an expiry scan whose clock is strictly beyond
   issue time + Timeout, again with no response for the id since the issue; NoService
   directly follows the failed routing of t. *)
Definition justified (pre : list ev) (t : Z) (c : cls) : Prop :=
  match c with
  | RNoService => exists p, pre = p ++ [ENoRoute t]
  | RTimeout =>
      exists a id n b now,
        pre = a ++ EIssue t id n :: b /\ no_resp id b /\
        last_marker pre = Some (ETick now) /\ n + Timeout < now
  | _ =>
      exists a id n b k,
        pre = a ++ EIssue t id n :: b ++ [EResp id k] /\ no_resp id b /\ c = cls_of k
  end.

Definition at_most_once (tr : list ev) : Prop := forall t, (count_cb t tr <= 1)%nat.
Definition issue_unique (tr : list ev) : Prop := forall t, (count_issue t tr <= 1)%nat.
Definition matching (tr : list ev) : Prop :=
  forall pre t c post, tr = pre ++ ECb t c :: post -> justified pre t c.

(* request id is "open" after tr: issued under id and not completed *)
Definition open_in (tr : list ev) (id : Z) : Prop :=
  exists t n, In (EIssue t id n) tr /\ count_cb t tr = 0%nat.

(* a response is dropped only when its id is not open, and then nothing else happens *)
Definition drops_ok (tr : list ev) : Prop :=
  forall pre id post, tr = pre ++ EDrop id :: post ->
    exists p k, pre = p ++ [EResp id k] /\ ~ open_in p id.

(* a response for an open id completes it at once: the very next event is the callback of the
   request that is open under that id, with the class of the response's kind *)
Definition resp_completes (tr : list ev) : Prop :=
  forall pre id k rest, tr = pre ++ EResp id k :: rest -> open_in pre id ->
    exists (t n : Z) (post : list ev), rest = ECb t (cls_of k) :: post /\
      In (EIssue t id n) pre /\ count_cb t pre = 0%nat.

(* the wait is registered before the request is handed to the transport *)
Definition sent_after_issue (tr : list ev) : Prop :=
  forall pre id t post, tr = pre ++ ESent id t :: post -> id <> 0 ->
    exists n, In (EIssue t id n) pre.

(* THE VALUE.  A callback that is not the timeout / NoService one receives exactly the decoding
   (handleResponse: [decode]) of the fields (ResponseEx / the raw message: [wire_of]) of the
   response that completed it - the first response carrying the request's id since the issue.
   In particular (C01_decode_exact) it is nil only when that response names no type, an
   all-default message decodes to a non-nil value, a remote error comes without a message. *)
Definition reply_class (c : cls) : bool :=
  match c with RTimeout | RNoService => false | _ => true end.

Definition value_exact (tr : list ev) : Prop :=
  forall pre t c post, tr = pre ++ ECb t c :: post -> reply_class c = true ->
    exists a id n b k,
      pre = a ++ EIssue t id n :: b ++ [EResp id k] /\ no_resp id b /\ c = decode (wire_of k).

(* no callback ever receives an (err, msg) pair outside the six shapes of [cls] *)
Definition values_wellformed (tr : list ev) : Prop := forall t, ~ In (ECb t ROther) tr.

(* RESTARTS.  Request ids in a trace are KEYS (incarnation * (M+1) + id, Model.v).  A response
   is processed by the LIVE incarnation - as many restarts as there were so far -: the key it
   addresses is its bare id in that incarnation (a negative code when no request can carry
   the id).  Together with [matching] and [drops_ok]: after a restart a response can complete
   only a request the NEW incarnation issued; for the requests of earlier incarnations it is a
   response for an unknown request (the clauses above then leave them the timeout only). *)
Fixpoint n_crash (tr : list ev) : Z :=
  match tr with [] => 0 | ECrash :: r => 1 + n_crash r | _ :: r => n_crash r end.

Definition resp_live (M : Z) (tr : list ev) : Prop :=
  forall pre id k post, tr = pre ++ EResp id k :: post -> exists w, id = rkey M (n_crash pre) w.

(* THAT VERY REQUEST.  The peer answers a request it holds; the response carries that request's
   id, and the ghost of the response names the request (its tag).  A callback completed with a
   reply (or remote error) was completed by a response whose ghost - when it names a request at
   all - is the callback's OWN request. *)
Definition answers_own (tr : list ev) : Prop :=
  forall p id k t c post, tr = p ++ EResp id k :: ECb t c :: post ->
    reply_class c = true -> 0 <= ghost_of k -> ghost_of k = t.

Fixpoint own_b (tr : list ev) : bool :=
  match tr with
  | [] => true
  | EResp _ k :: r =>
      match r with
      | ECb t c :: _ => negb (reply_class c) || (ghost_of k <? 0) || (ghost_of k =? t)
      | _ => true
      end && own_b r
  | _ :: r => own_b r
  end.

(* the ghosts of a trace are truthful: the request a response's ghost names was issued, and under
   the request id the response carries (the peer copies ReqId from the request it holds) *)
Definition ghosts_truthful (M : Z) (tr : list ev) : Prop :=
  forall pre id k post, tr = pre ++ EResp id k :: post -> 0 <= ghost_of k ->
    exists key n, In (EIssue (ghost_of k) key n) pre /\ wid M key = wid M id.

(* no request id was used for two requests (no restart that renumbers, no wrap of the allocator,
   no test set-up that moves it back) *)
Definition fresh_ids (M : Z) (tr : list ev) : Prop :=
  forall t1 k1 n1 t2 k2 n2, In (EIssue t1 k1 n1) tr -> In (EIssue t2 k2 n2) tr ->
    wid M k1 = wid M k2 -> t1 = t2.

(* ---------------------------------------------------------------- executable acceptor *)

Definition ty_eqb (a b : ty) : bool :=
  match a, b with
  | TyNone, TyNone | TyHello, TyHello | TyEmpty, TyEmpty | TyUnknown, TyUnknown => true
  | _, _ => false
  end.

Definition body_eqb (a b : body) : bool :=
  match a, b with
  | BFields i s, BFields j u => (i =? j) && (s =? u)
  | BJunk, BJunk => true
  | _, _ => false
  end.

Definition wire_eqb (a b : wire) : bool :=
  match a, b with
  | Wire c e t x, Wire d f u y => (c =? d) && (e =? f) && ty_eqb t u && body_eqb x y
  end.

Definition pmsg_eqb (a b : pmsg) : bool :=
  match a, b with
  | MNil, MNil | MTypedNil, MTypedNil | MEmpty, MEmpty => true
  | MHello i s, MHello j u => (i =? j) && (s =? u)
  | _, _ => false
  end.

Definition ans_eqb (a b : ans) : bool :=
  match a, b with
  | KAns c e m, KAns d f n => (c =? d) && (e =? f) && pmsg_eqb m n
  | KRaw v, KRaw w => wire_eqb v w
  | _, _ => false
  end.

(* the ghost is no observable of the service: responses are compared by what is on the wire *)
Definition kind_eqb (a b : kind) : bool := ans_eqb (ans_of a) (ans_of b).

Definition val_eqb (a b : val) : bool :=
  match a, b with
  | VHello i s, VHello j u => (i =? j) && (s =? u)
  | VEmpty, VEmpty => true
  | _, _ => false
  end.

Definition cls_eqb (a b : cls) : bool :=
  match a, b with
  | RReply x, RReply y => val_eqb x y
  | RNil, RNil => true
  | RErr x, RErr y => x =? y
  | RBad x, RBad y => Bool.eqb x y
  | RTimeout, RTimeout => true
  | RNoService, RNoService => true
  | ROther, ROther => true
  | _, _ => false
  end.

Inductive mode :=
| MIdle
| MMustCb (id : Z) (k : kind)   (* a response for an open id was just seen: its callback is next *)
| MMayDrop (id : Z)             (* a response for a non-open id was just seen *)
| MMustNS (t : Z).              (* routing of t just failed: its NoService callback is next *)

Record ast := mkA {
  a_open : alist (Z * Z);   (* id -> (tag, issue time) of the registered, uncompleted requests *)
  a_nt : Z;                 (* next tag *)
  a_tick : option Z;        (* clock of the expiry scan the current operation is, if it is one *)
  a_mode : mode
}.

Definition a0 : ast := mkA [] 0 None MIdle.

Definition find_tag (t : Z) (m : alist (Z * Z)) : option (Z * Z) :=
  match filter (fun kv => fst (snd kv) =? t) m with
  | (id, (_, n)) :: _ => Some (id, n)
  | [] => None
  end.

Definition isnone {A} (o : option A) : bool := match o with None => true | _ => false end.

Definition acc_idle (a : ast) (e : ev) : option ast :=
  match e with
  | EDo | EIdle | ECrash => Some (mkA (a_open a) (a_nt a) None MIdle)
  | ETick now => Some (mkA (a_open a) (a_nt a) (Some now) MIdle)
  | EResp id k =>
      Some (mkA (a_open a) (a_nt a) None
                (match aget id (a_open a) with Some _ => MMustCb id k | None => MMayDrop id end))
  | EIssue t id n =>
      if (t =? a_nt a) && isnone (aget id (a_open a)) && negb (id =? 0)
      then Some (mkA (aset id (t, n) (a_open a)) (a_nt a + 1) (a_tick a) MIdle)
      else None
  | ESent id t =>
      if id =? 0 then (if t =? -1 then Some (mkA (a_open a) (a_nt a) (a_tick a) MIdle) else None)
      else match aget id (a_open a) with
           | Some (t', _) => if t' =? t then Some (mkA (a_open a) (a_nt a) (a_tick a) MIdle) else None
           | None => None
           end
  | ENoRoute t =>
      if t =? a_nt a then Some (mkA (a_open a) (a_nt a + 1) (a_tick a) (MMustNS t)) else None
  | ECb t RTimeout =>
      match a_tick a, find_tag t (a_open a) with
      | Some now, Some (id, n) =>
          if n + Timeout <? now
          then Some (mkA (adel id (a_open a)) (a_nt a) (a_tick a) MIdle)
          else None
      | _, _ => None
      end
  | ECb _ _ => None
  | EDrop _ => None
  | EClash _ _ => None
  end.

Definition acc_step (a : ast) (e : ev) : option ast :=
  match a_mode a with
  | MIdle => acc_idle a e
  | MMustCb id k =>
      match e with
      | ECb t c =>
          match aget id (a_open a) with
          | Some (t', _) =>
              if (t =? t') && cls_eqb c (cls_of k)
              then Some (mkA (adel id (a_open a)) (a_nt a) (a_tick a) MIdle)
              else None
          | None => None
          end
      | _ => None
      end
  | MMayDrop id =>
      match e with
      | EDrop id' => if id =? id' then Some (mkA (a_open a) (a_nt a) (a_tick a) MIdle) else None
      | _ => acc_idle a e
      end
  | MMustNS t =>
      match e with
      | ECb t' RNoService =>
          if t =? t' then Some (mkA (a_open a) (a_nt a) (a_tick a) MIdle) else None
      | _ => None
      end
  end.

Fixpoint acc_from (a : ast) (tr : list ev) : option ast :=
  match tr with
  | [] => Some a
  | e :: r => match acc_step a e with Some a' => acc_from a' r | None => None end
  end.

(* no callback is owed *)
Definition settled (a : ast) : bool :=
  match a_mode a with MIdle | MMayDrop _ => true | _ => false end.

Definition accepts (tr : list ev) : bool :=
  match acc_from a0 tr with Some a => settled a | None => false end.
