(* C01 - model of the requesting side of actorex/service.Service: the pending-request table
   (Handlers), the request id allocator (AllocReqId), the expiry scan (checkExpired) and its
   timer flag (timerCheckExpired > 0), plus node/app.Request's "no route target" branch.
   No proofs in this file.

   The model is of the REPAIRED code (hooks/C01-fix-arm-timer-on-register.patch,
   hooks/C01-fix-response-unknown-type.patch):
     doRequestEx   : AllocReqId; Handlers[id] = wait; tryStartCheckTimer; Serialize (on error
                     return: nothing is sent); Send.
     handleResponse: wait := Handlers[id]; nil -> log and drop; else decode, CALL BACK, then
                     delete(Handlers, id)  (the entry is still in the table while the callback
                     runs, exactly as in the code).
     checkExpired  : empty table -> freeTimer; else collect ids with Timeout < now (strict),
                     then for each: wait := Handlers[id]; CALL BACK(ErrTimeout); delete.
   Everything runs in the service's own context, one operation at a time; "all schedules" is
   the arbitrary order of the operation list, and the iteration order of the Go map in
   checkExpired is the [hint] argument of [Tick] (every order is reachable by some hint).

   Ghost components (not in the Go state): [ntags] numbers the requests that carry a callback
   in issue order (the "tag" of a request), [nalloc]/[e_ser] count id allocations (used only by
   the wrap-around lemma), and the event [EClash] marks the overwrite of a live table entry. *)
From Cell2V Require Import Common.Tac Common.ListX Common.AList.

Definition MaxReqId : Z := 2147483632.   (* 0x7FFFFFF0 *)
Definition Timeout : Z := 30000.         (* RequestTimeout, ms *)
Definition Clock0 : Z := 1000000.        (* virtual clock at the start of a case *)

(* what a response carries / what a callback is told *)
Inductive kind :=
| KOk (p : Z)        (* ErrCode 0, body decodes to payload p *)
| KNil               (* ErrCode 0, no body (Type = "") *)
| KErr (e : Z)       (* ErrCode <> 0, ErrInfo names e *)
| KBad (v : Z).      (* ErrCode 0, body cannot be decoded (v = 0 unknown type name, else corrupt bytes) *)

Inductive cls :=
| RReply (p : Z) | RNil | RErr (e : Z) | RBad    (* from a response *)
| RTimeout                                        (* ErrTimeout from checkExpired *)
| RNoService.                                     (* app.ErrorNoService, node level *)

Definition cls_of (k : kind) : cls :=
  match k with KOk p => RReply p | KNil => RNil | KErr e => RErr e | KBad _ => RBad end.

(* What user code does: issue a request (its callback, when it runs, executes [prog]),
   issue a request whose message cannot be serialised, notify, node-level request with no
   route target (callback runs at once and executes [prog]). *)
Inductive act :=
| AReq (prog : list act)
| AUnser (prog : list act)
| ANotify
| ANoRoute (prog : list act)
| ANotifyNR.                     (* node-level notification with no route target: nothing happens *)

Inductive op :=
| Do (a : act)
| Resp (id : Z) (k : kind)       (* a ServiceResponse{ReqId: id} is processed *)
| RespNotify                     (* the peer answers a notification through Service.Response: suppressed *)
| RespNoSender (id : Z)          (* the peer answers a sender-less request: suppressed *)
| Tick (hint : list Z)           (* the 1s timer fires (if armed): checkExpired at the current clock *)
| TickReal (hint : list Z)       (* the real timer is left running until it disarms: two scans *)
| Advance (dt : Z)
| SetNext (v : Z)                (* test set-up: allocator position, only while nothing is pending *)
| Via (v : Z)                    (* test set-up: HOW later requests reach the peer (direct PID / node-level
                                    app.Request routed by the default route / by a registered route function);
                                    invisible to the requesting side, so a no-op here *)
| DirectNotify (u : Z).          (* a sender-less notification is sent to the peer from outside any service
                                    (service.DirectSendNotify): does not touch the requesting service *)

Inductive ev :=
(* markers: every operation starts with exactly one *)
| EDo | EIdle
| EResp (id : Z) (k : kind)
| ETick (now : Z)                (* the scan ran, at clock now *)
(* what the service did *)
| EIssue (tag id now : Z)        (* wait registered under id at clock now (deadline now + Timeout) *)
| EClash (id span : Z)           (* ghost: that registration overwrote a live entry allocated span allocations ago *)
| ESent (id tag : Z)             (* ServiceRequest{ReqId: id} handed to the transport (tag -1: notification) *)
| ENoRoute (tag : Z)             (* node-level request found no target *)
| ECb (tag : Z) (c : cls)        (* the callback of request tag ran *)
| EDrop (id : Z).                (* "miss response": nothing else happened *)

Record entry := mkE { e_dl : Z; e_tag : Z; e_ser : Z; e_prog : list act }.

Record st := mkS {
  pending : alist entry;   (* Handlers *)
  next : Z;                (* nextId *)
  armed : bool;            (* timerCheckExpired > 0 *)
  clock : Z;               (* common.NowMs() *)
  ntags : Z;               (* ghost *)
  nalloc : Z               (* ghost *)
}.

Definition set_pending (s : st) (m : alist entry) : st :=
  mkS m (next s) (armed s) (clock s) (ntags s) (nalloc s).
Definition set_next (s : st) (v : Z) : st :=
  mkS (pending s) v (armed s) (clock s) (ntags s) (nalloc s).
Definition set_armed (s : st) (b : bool) : st :=
  mkS (pending s) (next s) b (clock s) (ntags s) (nalloc s).
Definition set_clock (s : st) (c : Z) : st :=
  mkS (pending s) (next s) (armed s) c (ntags s) (nalloc s).
Definition set_ntags (s : st) (n : Z) : st :=
  mkS (pending s) (next s) (armed s) (clock s) n (nalloc s).

Definition init : st := mkS [] 0 false Clock0 0 0.

Definition isnil {A} (l : list A) : bool := match l with [] => true | _ => false end.

(* first occurrences only *)
Fixpoint dedup (seen l : list Z) : list Z :=
  match l with
  | [] => []
  | x :: r => if zmem x seen then dedup seen r else x :: dedup (x :: seen) r
  end.

Section WithMax.
  Variable M : Z.   (* MaxReqId; a parameter so that the wrap can be exhibited with a small one *)

  (* AllocReqId: if nextId >= MaxReqId { nextId = 0 }; nextId += 1 *)
  Definition alloc_id (n : Z) : Z := if M <=? n then 1 else n + 1.

  (* doRequestEx with isRequest = true *)
  Definition register (s : st) (unser : bool) (p : list act) : st * list ev :=
    let id := alloc_id (next s) in
    let t := ntags s in
    (mkS (aset id (mkE (clock s + Timeout) t (nalloc s) p) (pending s))
         id true (clock s) (t + 1) (nalloc s + 1),
     match aget id (pending s) with
     | Some v => [EClash id (nalloc s - e_ser v)]
     | None => []
     end ++ EIssue t id (clock s) :: (if unser then [] else [ESent id t])).

  Fixpoint exec (a : act) (s : st) {struct a} : st * list ev :=
    match a with
    | AReq p => register s false p
    | AUnser p => register s true p
    | ANotify => (s, [ESent 0 (-1)])
    | ANoRoute p =>
        let r := (fix go (l : list act) (s0 : st) {struct l} : st * list ev :=
                    match l with
                    | [] => (s0, [])
                    | x :: l' =>
                        let r1 := exec x s0 in
                        let r2 := go l' (fst r1) in
                        (fst r2, snd r1 ++ snd r2)
                    end) p (set_ntags s (ntags s + 1)) in
        (fst r, ENoRoute (ntags s) :: ECb (ntags s) RNoService :: snd r)
    | ANotifyNR => (s, [])
    end.

  Fixpoint exec_prog (l : list act) (s0 : st) {struct l} : st * list ev :=
    match l with
    | [] => (s0, [])
    | x :: l' =>
        let r1 := exec x s0 in
        let r2 := exec_prog l' (fst r1) in
        (fst r2, snd r1 ++ snd r2)
    end.

  (* wait := Handlers[id]; wait.CB(c); delete(Handlers, id) *)
  Definition fire (s : st) (id : Z) (c : cls) : st * list ev :=
    match aget id (pending s) with
    | None => (s, [])
    | Some e =>
        let r := exec_prog (e_prog e) s in
        (set_pending (fst r) (adel id (pending (fst r))), ECb (e_tag e) c :: snd r)
    end.

  Definition handle_resp (s : st) (id : Z) (k : kind) : st * list ev :=
    match aget id (pending s) with
    | None => (s, [EResp id k; EDrop id])
    | Some _ => let r := fire s id (cls_of k) in (fst r, EResp id k :: snd r)
    end.

  (* one.Timeout < now, strict *)
  Definition expired_b (s : st) (id : Z) : bool :=
    match aget id (pending s) with Some e => e_dl e <? clock s | None => false end.

  Definition tag_is (s : st) (id t : Z) : bool :=
    match aget id (pending s) with Some e => e_tag e =? t | None => false end.

  Definition expired_ids (s : st) : list Z := filter (expired_b s) (akeys (pending s)).

  (* the order in which the Go map iteration yields the expired ids: those whose tag is
     hinted first, in hint order, then the others by ascending id *)
  Definition order (hint : list Z) (s : st) : list Z :=
    dedup [] (flat_map (fun t => filter (fun id => tag_is s id t) (expired_ids s)) hint
              ++ expired_ids s).

  Fixpoint fire_all (s : st) (ids : list Z) : st * list ev :=
    match ids with
    | [] => (s, [])
    | id :: r =>
        let r1 := fire s id RTimeout in
        let r2 := fire_all (fst r1) r in
        (fst r2, snd r1 ++ snd r2)
    end.

  Definition check_expired (s : st) (hint : list Z) : st * list ev :=
    if isnil (pending s) then (set_armed s false, []) else fire_all s (order hint s).

  Definition tick (s : st) (hint : list Z) : st * list ev :=
    if armed s
    then let r := check_expired s hint in (fst r, ETick (clock s) :: snd r)
    else (s, [EIdle]).

  Definition step (s : st) (o : op) : st * list ev :=
    match o with
    | Do a => let r := exec a s in (fst r, EDo :: snd r)
    | Resp id k => handle_resp s id k
    | RespNotify => (s, [EIdle])
    | RespNoSender _ => (s, [EIdle])
    | Tick h => tick s h
    | TickReal h =>
        let r1 := tick s h in
        let r2 := tick (fst r1) [] in
        (fst r2, snd r1 ++ snd r2)
    | Advance dt => (if 0 <=? dt then set_clock s (clock s + dt) else s, [EIdle])
    | SetNext v =>
        (if (0 <=? v) && (v <=? M) && isnil (pending s) then set_next s v else s, [EIdle])
    | Via _ => (s, [EIdle])
    | DirectNotify _ => (s, [EIdle])
    end.

  (* per-operation observation: events, pending ids (ascending), timer flag, number of
     ServiceResponse messages that reached the service, (id, tag) pairs the peer received,
     "every callback ran on the service loop goroutine" (measured; the model says true) *)
  Inductive obs := Obs (evs : list ev) (pend : list Z) (arm : bool) (got : Z)
                       (peer : list (Z * Z)) (onloop : bool).

  Fixpoint sent_of (l : list ev) : list (Z * Z) :=
    match l with
    | [] => []
    | ESent id t :: r => (id, t) :: sent_of r
    | _ :: r => sent_of r
    end.

  Definition got_of (o : op) : Z := match o with Resp _ _ => 1 | _ => 0 end.

  Definition observe (o : op) (r : st * list ev) : obs :=
    Obs (snd r) (akeys (pending (fst r))) (armed (fst r)) (got_of o) (sent_of (snd r)) true.

  Fixpoint run_from (s : st) (ops : list op) : st * list (list ev) :=
    match ops with
    | [] => (s, [])
    | o :: r =>
        let r1 := step s o in
        let r2 := run_from (fst r1) r in
        (fst r2, snd r1 :: snd r2)
    end.

  Fixpoint run_obs (s : st) (ops : list op) : list obs :=
    match ops with
    | [] => []
    | o :: r => let r1 := step s o in observe o r1 :: run_obs (fst r1) r
    end.

  Definition final_g (ops : list op) : st := fst (run_from init ops).
  Definition trace_g (ops : list op) : list ev := concat (snd (run_from init ops)).
End WithMax.

Definition run (ops : list op) : list obs := run_obs MaxReqId init ops.
Definition final (ops : list op) : st := final_g MaxReqId ops.
Definition trace (ops : list op) : list ev := trace_g MaxReqId ops.
