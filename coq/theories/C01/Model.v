(* C01 - model of the requesting side of actorex/service.Service: the pending-request table
   (Handlers), the request id allocator (AllocReqId), the expiry scan (checkExpired) and its
   timer flag (timerCheckExpired > 0), plus node/app.Request's "no route target" branch.
   No proofs in this file.

   The model is of the REPAIRED code (hooks/C01-fix-arm-timer-on-register.patch,
   hooks/C01-fix-response-unknown-type.patch):
     doRequestEx   : AllocReqId; Handlers[id] = wait; tryStartCheckTimer; Serialize (on error
                     return: nothing is sent); Send.
     handleResponse: wait := Handlers[id]; nil -> log and drop; else decode, CALL BACK, then
                     delete(Handlers, id)  (the entry is still in the table while the callback
                     runs, exactly as in the code).  "decode" is modelled field by field
                     ([decode]: ErrCode, ErrInfo, Type, Body -> the (err, msg) pair handed to
                     the callback), as is the peer's ResponseEx ([encode]: code, text, return
                     value -> fields), so that the VALUE a callback receives is an observable.
     checkExpired  : empty table -> freeTimer; else collect ids with Timeout < now (strict),
                     then for each: wait := Handlers[id]; CALL BACK(ErrTimeout); delete.
   RESTARTS.  A handler of the service panics -> the supervisor restarts the actor -> the
   producer builds a FRESH Service (empty Handlers, nextId 0, no timer) which receives all
   later messages.  The replaced Service object is not destroyed: its armed timer lives in the
   run service the incarnations share and keeps a reference, so its scan goes on completing
   the requests it left behind (timeout, once each, same goroutine) until its table is empty.
   Callbacks act through the Service that issued the request.  The model keeps one table for
   all incarnations, keyed by incarnation * (M+1) + id, and per incarnation the allocator and
   the timer flag ([focus]).
   Everything runs in the service's own context, one operation at a time; "all schedules" is
   the arbitrary order of the operation list, and the iteration order of the Go map in
   checkExpired is the [hint] argument of [Tick] (every order is reachable by some hint).

   Ghost components (not in the Go state): [ntags] numbers the requests that carry a callback
   in issue order (the "tag" of a request), [nalloc]/[e_ser] count id allocations (used only by
   the wrap-around lemma), and the event [EClash] marks the overwrite of a live table entry. *)
From Cell2V Require Import Common.Tac Common.ListX Common.AList.

Definition MaxReqId : Z := 2147483632.   (* 0x7FFFFFF0 *)
Definition Timeout : Z := 30000.         (* RequestTimeout, ms *)
Definition Clock0 : Z := 1000000.        (* virtual clock at the start of a case *)

(* ---------------------------------------------------------------- the value of a reply
   What a response carries, field by field, and what the callback is told.  The payload
   messages are the two test messages of servicemsgs: TestHello{I int32; S string} and
   EmptyArg{}.  Strings and error texts are numbered (0 is the EMPTY string / text; the
   harness maps numbers to texts injectively); [i] ranges over int32. *)

(* ServiceResponse.Type *)
Inductive ty :=
| TyNone        (* "" : no return value *)
| TyHello       (* "servicemsgs.TestHello" *)
| TyEmpty       (* "servicemsgs.EmptyArg" *)
| TyUnknown.    (* a name no message type of this process is registered under *)

(* ServiceResponse.Body *)
Inductive body :=
| BFields (i s : Z)   (* the proto3 encoding of field 1 (int32) = i, field 2 (string) = text s.  proto3
                         OMITS fields at their default value: [BFields 0 0] IS THE EMPTY BYTE STRING *)
| BJunk.              (* ff ff ff: bytes that are not a wire-format message at all *)

(* a ServiceResponse minus its ReqId: ErrCode, ErrInfo (text number), Type, Body *)
Inductive wire := Wire (code info : Z) (t : ty) (b : body).

(* what a peer hands to Service.Response as the return value *)
Inductive pmsg :=
| MNil                (* nil interface: "no return value" *)
| MTypedNil           (* a nil pointer of type TestHello inside a non-nil interface *)
| MHello (i s : Z)    (* &TestHello{I: i, S: text s}; MHello 0 0 has every field at its default *)
| MEmpty.             (* &EmptyArg{} *)

(* how a response comes about *)
Inductive ans :=
| KAns (code info : Z) (m : pmsg)   (* the peer calls Service.Response(req, code, text info, m) (or completes
                                       the API method with (error text info | nil, m)) *)
| KRaw (w : wire).                  (* a ServiceResponse with exactly these fields reaches the service *)

(* ... and, as a GHOST, which request the peer is answering: the tag of the request object it
   holds and hands to Service.Response (the response takes its ReqId and Sender from it), or a
   negative number when it answers no request it holds (raw responses, ids it never saw).
   Nothing of the ghost is on the wire; it exists for the clause "the response that answers
   that very request" (Spec.answers_own). *)
Inductive kind := K (ghost : Z) (a : ans).

Definition ghost_of (k : kind) : Z := match k with K g _ => g end.
Definition ans_of (k : kind) : ans := match k with K _ a => a end.

(* a decoded, non-nil message *)
Inductive val := VHello (i s : Z) | VEmpty.

(* the two arguments (err, msg) of the callback *)
Inductive cls :=
| RReply (v : val)        (* (nil, non-nil message v) *)
| RNil                    (* (nil, nil) *)
| RErr (e : Z)            (* (error whose text is text e, nil) - the remote error *)
| RBad (partial : bool)   (* (local decode error, nil) / (local decode error, the partially filled message
                             proto.Unmarshal leaves behind) - the body could not be decoded *)
| RTimeout                (* (ErrTimeout, nil) from checkExpired *)
| RNoService              (* (app.ErrorNoService, nil), node level *)
| ROther.                 (* anything else (an error together with a message, a message of another type, an
                             unexpected error): the model never produces it *)

(* ResponseEx: an error code suppresses the return value; without one ErrInfo stays empty and a
   non-nil return value - also a typed nil pointer, which marshals to zero bytes - is serialised
   under its type name *)
Definition encode_msg (m : pmsg) : ty * body :=
  match m with
  | MNil => (TyNone, BFields 0 0)
  | MTypedNil => (TyHello, BFields 0 0)
  | MHello i s => (TyHello, BFields i s)
  | MEmpty => (TyEmpty, BFields 0 0)
  end.

Definition encode (code info : Z) (m : pmsg) : wire :=
  if code =? 0 then Wire 0 0 (fst (encode_msg m)) (snd (encode_msg m))
  else Wire code info TyNone (BFields 0 0).

Definition wire_of_ans (a : ans) : wire :=
  match a with KAns code info m => encode code info m | KRaw w => w end.

Definition wire_of (k : kind) : wire := wire_of_ans (ans_of k).

(* remote.Deserialize(Body, Type) behind deserializeResponse: decoded whenever Type is set, WHATEVER
   the length of the body (zero bytes decode to the message with all fields at their defaults);
   an unknown type name is a recovered panic (nil, err); junk bytes are (partial message, err);
   EmptyArg accepts any well-formed body (unknown fields are kept aside) *)
Definition decode_body (t : ty) (b : body) : cls :=
  match t, b with
  | TyNone, _ => RNil
  | TyUnknown, _ => RBad false
  | TyHello, BFields i s => RReply (VHello i s)
  | TyEmpty, BFields _ _ => RReply VEmpty
  | _, BJunk => RBad true
  end.

(* handleResponse: ErrCode <> 0 -> errors.New(ErrInfo), nothing is decoded; else Type <> "" -> decode *)
Definition decode (w : wire) : cls :=
  match w with Wire code info t b => if code =? 0 then decode_body t b else RErr info end.

Definition cls_of_ans (a : ans) : cls := decode (wire_of_ans a).
Definition cls_of (k : kind) : cls := decode (wire_of k).

(* What user code does: issue a request (its callback, when it runs, executes [prog]),
   issue a request whose message cannot be serialised, notify, node-level request with no
   route target (callback runs at once and executes [prog]). *)
Inductive act :=
| AReq (prog : list act)
| AUnser (prog : list act)
| ANotify
| ANoRoute (prog : list act)
| ANotifyNR                      (* node-level notification with no route target: nothing happens *)
| ARep (n : Z) (a : act).        (* BULK: the action a, n times in a row (n requests with the same callback
                                    programme, ...): exactly what n single actions do - C01_bulk_is_n_singles *)

Inductive op :=
| Do (a : act)
| Resp (id : Z) (k : kind)       (* a ServiceResponse{ReqId: id} is processed (by the live incarnation) *)
| RespNotify                     (* the peer answers a notification through Service.Response: suppressed *)
| RespNoSender (id : Z)          (* the peer answers a sender-less request: suppressed *)
| Tick (hints : list (list Z))   (* the 1s timers fire: checkExpired of every incarnation whose timer is armed
                                    (one map-iteration hint per incarnation, oldest first) *)
| TickReal (hints : list (list Z)) (* the real timers are left running until they disarm: two rounds of scans *)
| Advance (dt : Z)
| SetNext (v : Z)                (* test set-up: allocator position, only while nothing is pending *)
| Via (v : Z)                    (* test set-up: HOW later requests reach the peer (direct PID / node-level
                                    app.Request routed by the default route / by a registered route function);
                                    invisible to the requesting side, so a no-op here *)
| DirectNotify (u : Z)           (* a sender-less notification is sent to the peer from outside any service
                                    (service.DirectSendNotify): does not touch the requesting service *)
| Crash.                         (* a handler of the requesting service panics: the supervisor restarts the
                                    actor, the producer builds a FRESH Service (next incarnation) *)

(* Request ids in events and in the pending table are KEYS: incarnation * (M + 1) + id, so that
   the requests of different incarnations - which do reuse the same ids - stay apart.  A
   response carries a bare id; the key it addresses is that id in the LIVE incarnation. *)
Inductive ev :=
(* markers: every operation (every scan of a Tick) starts with exactly one *)
| EDo | EIdle
| ECrash                         (* the actor was restarted: from here on a new incarnation is live *)
| EResp (id : Z) (k : kind)
| ETick (now : Z)                (* a scan ran, at clock now *)
(* what the service did *)
| EIssue (tag id now : Z)        (* wait registered under id at clock now (deadline now + Timeout) *)
| EClash (id span : Z)           (* ghost: that registration overwrote a live entry allocated span allocations ago *)
| ESent (id tag : Z)             (* ServiceRequest{ReqId: id} handed to the transport (tag -1: notification) *)
| ENoRoute (tag : Z)             (* node-level request found no target *)
| ECb (tag : Z) (c : cls)        (* the callback of request tag ran *)
| EDrop (id : Z).                (* "miss response": nothing else happened *)

Record entry := mkE { e_dl : Z; e_tag : Z; e_ser : Z; e_prog : list act }.

(* The actor's state across restarts.  Every incarnation is one service.Service object with
   its own Handlers, nextId and timer; a restart does not destroy the old object (its armed
   timer, which lives in the run service shared by all incarnations, keeps a reference) - it
   only stops messages from reaching it.  [pending] is the union of all Handlers tables by
   key; [next], [armed] (and the ghost [nalloc]) are those of the incarnation IN FOCUS - the
   one whose code is running - and [rest] keeps them for the others. *)
Record st := mkS {
  pending : alist entry;          (* Handlers of all incarnations, by key *)
  next : Z;                       (* nextId (incarnation in focus) *)
  armed : bool;                   (* timerCheckExpired > 0 (incarnation in focus) *)
  clock : Z;                      (* common.NowMs() *)
  ntags : Z;                      (* ghost *)
  nalloc : Z;                     (* ghost: allocations of the incarnation in focus *)
  foc : Z;                        (* the incarnation in focus *)
  cur : Z;                        (* the live incarnation = number of restarts so far *)
  rest : alist (Z * bool * Z)     (* (nextId, timer flag, allocations) of incarnations when last out of focus *)
}.

Definition set_pending (s : st) (m : alist entry) : st :=
  mkS m (next s) (armed s) (clock s) (ntags s) (nalloc s) (foc s) (cur s) (rest s).
Definition set_next (s : st) (v : Z) : st :=
  mkS (pending s) v (armed s) (clock s) (ntags s) (nalloc s) (foc s) (cur s) (rest s).
Definition set_armed (s : st) (b : bool) : st :=
  mkS (pending s) (next s) b (clock s) (ntags s) (nalloc s) (foc s) (cur s) (rest s).
Definition set_clock (s : st) (c : Z) : st :=
  mkS (pending s) (next s) (armed s) c (ntags s) (nalloc s) (foc s) (cur s) (rest s).
Definition set_ntags (s : st) (n : Z) : st :=
  mkS (pending s) (next s) (armed s) (clock s) n (nalloc s) (foc s) (cur s) (rest s).
Definition set_cur (s : st) (c : Z) : st :=
  mkS (pending s) (next s) (armed s) (clock s) (ntags s) (nalloc s) (foc s) c (rest s).

Definition init : st := mkS [] 0 false Clock0 0 0 0 0 [].

(* (nextId, timer flag, allocations) of incarnation j; an incarnation never seen is a fresh Service *)
Definition view (s : st) (j : Z) : Z * bool * Z :=
  if j =? foc s then (next s, armed s, nalloc s)
  else match aget j (rest s) with Some p => p | None => (0, false, 0) end.

Definition armed_of (s : st) (j : Z) : bool := snd (fst (view s j)).
Definition next_of (s : st) (j : Z) : Z := fst (fst (view s j)).

(* put incarnation j in focus: park the one in focus, take j's values out *)
Definition park (s : st) : alist (Z * bool * Z) := aset (foc s) (next s, armed s, nalloc s) (rest s).

Definition focus (s : st) (j : Z) : st :=
  match aget j (park s) with
  | Some (n, a, c) => mkS (pending s) n a (clock s) (ntags s) c j (cur s) (park s)
  | None => mkS (pending s) 0 false (clock s) (ntags s) 0 j (cur s) (park s)
  end.

Definition isnil {A} (l : list A) : bool := match l with [] => true | _ => false end.

(* first occurrences only *)
Fixpoint dedup (seen l : list Z) : list Z :=
  match l with
  | [] => []
  | x :: r => if zmem x seen then dedup seen r else x :: dedup (x :: seen) r
  end.

(* the incarnations so far, oldest first *)
Definition incs (s : st) : list Z := map Z.of_nat (seq 0 (S (Z.to_nat (cur s)))).

Section WithMax.
  Variable M : Z.   (* MaxReqId; a parameter so that the wrap can be exhibited with a small one *)

  Definition Span : Z := M + 1.
  Definition key (j id : Z) : Z := j * Span + id.
  Definition inc_of (k : Z) : Z := k / Span.
  Definition wid (k : Z) : Z := k mod Span.

  (* the key a response with request id [id] addresses when incarnation c processes it; ids no
     request can carry (outside 1..M: never in any table) get an injective negative code *)
  Definition rkey (c id : Z) : Z :=
    if (1 <=? id) && (id <=? M) then key c id
    else if id <=? 0 then 2 * id - 1 else - 2 * id.

  (* the Handlers of incarnation j *)
  Definition block (j : Z) (m : alist entry) : alist entry :=
    filter (fun kv => inc_of (fst kv) =? j) m.

  (* AllocReqId: if nextId >= MaxReqId { nextId = 0 }; nextId += 1 *)
  Definition alloc_id (n : Z) : Z := if M <=? n then 1 else n + 1.

  (* doRequestEx with isRequest = true, on the incarnation in focus *)
  Definition register (s : st) (unser : bool) (p : list act) : st * list ev :=
    let id := key (foc s) (alloc_id (next s)) in
    let t := ntags s in
    (mkS (aset id (mkE (clock s + Timeout) t (nalloc s) p) (pending s))
         (alloc_id (next s)) true (clock s) (t + 1) (nalloc s + 1) (foc s) (cur s) (rest s),
     match aget id (pending s) with
     | Some v => [EClash id (nalloc s - e_ser v)]
     | None => []
     end ++ EIssue t id (clock s) :: (if unser then [] else [ESent id t])).

  Fixpoint exec (a : act) (s : st) {struct a} : st * list ev :=
    match a with
    | AReq p => register s false p
    | AUnser p => register s true p
    | ANotify => (s, [ESent 0 (-1)])
    | ANoRoute p =>
        let r := (fix go (l : list act) (s0 : st) {struct l} : st * list ev :=
                    match l with
                    | [] => (s0, [])
                    | x :: l' =>
                        let r1 := exec x s0 in
                        let r2 := go l' (fst r1) in
                        (fst r2, snd r1 ++ snd r2)
                    end) p (set_ntags s (ntags s + 1)) in
        (fst r, ENoRoute (ntags s) :: ECb (ntags s) RNoService :: snd r)
    | ANotifyNR => (s, [])
    | ARep n b =>
        (fix rep (k : nat) (s0 : st) {struct k} : st * list ev :=
           match k with
           | O => (s0, [])
           | S k' =>
               let r1 := exec b s0 in
               let r2 := rep k' (fst r1) in
               (fst r2, snd r1 ++ snd r2)
           end) (Z.to_nat n) s
    end.

  Fixpoint exec_prog (l : list act) (s0 : st) {struct l} : st * list ev :=
    match l with
    | [] => (s0, [])
    | x :: l' =>
        let r1 := exec x s0 in
        let r2 := exec_prog l' (fst r1) in
        (fst r2, snd r1 ++ snd r2)
    end.

  (* wait := Handlers[id]; wait.CB(c); delete(Handlers, id) - the callback's own programme acts
     on the incarnation in focus, which is the one that issued the request (the closure
     captured its Service) *)
  Definition fire (s : st) (id : Z) (c : cls) : st * list ev :=
    match aget id (pending s) with
    | None => (s, [])
    | Some e =>
        let r := exec_prog (e_prog e) s in
        (set_pending (fst r) (adel id (pending (fst r))), ECb (e_tag e) c :: snd r)
    end.

  (* handleResponse of the live incarnation; [id] is a key *)
  Definition handle_resp (s : st) (id : Z) (k : kind) : st * list ev :=
    match aget id (pending s) with
    | None => (s, [EResp id k; EDrop id])
    | Some _ => let r := fire s id (cls_of k) in (fst r, EResp id k :: snd r)
    end.

  (* one.Timeout < now, strict; only the Handlers of the incarnation in focus are looked at *)
  Definition expired_b (s : st) (id : Z) : bool :=
    (inc_of id =? foc s) &&
    match aget id (pending s) with Some e => e_dl e <? clock s | None => false end.

  Definition tag_is (s : st) (id t : Z) : bool :=
    match aget id (pending s) with Some e => e_tag e =? t | None => false end.

  Definition expired_ids (s : st) : list Z := filter (expired_b s) (akeys (pending s)).

  (* the order in which the Go map iteration yields the expired ids: those whose tag is
     hinted first, in hint order, then the others by ascending id *)
  Definition otag (s : st) (id : Z) : option Z := option_map e_tag (aget id (pending s)).
  Definition tag_match (t : Z) (p : option Z * Z) : bool :=
    match fst p with Some x => x =? t | None => false end.

  (* (written so that a scan of thousands of requests evaluates in quadratic, not cubic, time:
     the tags of the expired ids are looked up once; Proofs.order_unfold gives the plain reading
     "for each hinted tag the expired ids that carry it, then all expired ids, first occurrences") *)
  Definition order (hint : list Z) (s : st) : list Z :=
    let E := expired_ids s in
    let P := map (fun id => (otag s id, id)) E in
    dedup [] (flat_map (fun t => map snd (filter (tag_match t) P)) hint ++ E).

  Fixpoint fire_all (s : st) (ids : list Z) : st * list ev :=
    match ids with
    | [] => (s, [])
    | id :: r =>
        let r1 := fire s id RTimeout in
        let r2 := fire_all (fst r1) r in
        (fst r2, snd r1 ++ snd r2)
    end.

  (* checkExpired of the incarnation in focus *)
  Definition check_expired (s : st) (hint : list Z) : st * list ev :=
    if isnil (block (foc s) (pending s)) then (set_armed s false, []) else fire_all s (order hint s).

  (* the timer of the incarnation in focus fires, if it is armed *)
  Definition tick (s : st) (hint : list Z) : st * list ev :=
    if armed s
    then let r := check_expired s hint in (fst r, ETick (clock s) :: snd r)
    else (s, [EIdle]).

  (* the timers of the given incarnations, one after the other, each with its own hint *)
  Fixpoint tick_all (s : st) (js : list Z) (hints : list (list Z)) : st * list ev :=
    match js with
    | [] => (s, [])
    | j :: r =>
        let r1 := tick (focus s j) (hd [] hints) in
        let r2 := tick_all (fst r1) r (tl hints) in
        (fst r2, snd r1 ++ snd r2)
    end.

  (* one second passes: the timer of every incarnation, oldest first (any order is possible in
     reality; the timers of different incarnations do not see each other's tables), then the
     live incarnation is back in focus *)
  Definition tick_op (s : st) (hints : list (list Z)) : st * list ev :=
    let r := tick_all s (incs s) hints in (focus (fst r) (cur s), snd r).

  (* the real timers run until they have disarmed themselves: two rounds of scans (written
     without [let] on purpose: cheaper conversion checks in Proofs.v) *)
  Definition tick_real (s : st) (hints : list (list Z)) : st * list ev :=
    (fst (tick_op (fst (tick_op s hints)) []),
     snd (tick_op s hints) ++ snd (tick_op (fst (tick_op s hints)) [])).

  (* the supervisor restarts the actor: a fresh Service becomes the live incarnation; nothing
     of the old one is touched *)
  Definition crash (s : st) : st * list ev :=
    (focus (set_cur s (cur s + 1)) (cur s + 1), [ECrash]).

  (* between operations the live incarnation is in focus *)
  Definition step (s : st) (o : op) : st * list ev :=
    match o with
    | Do a => let r := exec a s in (fst r, EDo :: snd r)
    | Resp id k => handle_resp s (rkey (cur s) id) k
    | RespNotify => (s, [EIdle])
    | RespNoSender _ => (s, [EIdle])
    | Tick h => tick_op s h
    | TickReal h => tick_real s h
    | Advance dt => (if 0 <=? dt then set_clock s (clock s + dt) else s, [EIdle])
    | SetNext v =>
        (if (0 <=? v) && (v <=? M) && isnil (pending s) then set_next s v else s, [EIdle])
    | Via _ => (s, [EIdle])
    | DirectNotify _ => (s, [EIdle])
    | Crash => crash s
    end.

  (* per-operation observation: events, pending keys of all incarnations (ascending), timer flag
     of every incarnation (oldest first), number of ServiceResponse messages that reached the
     service, (id, tag) pairs the peer received, "every callback ran on the service loop
     goroutine" (measured; the model says true) *)
  Inductive obs := Obs (evs : list ev) (pend : list Z) (arms : list bool) (got : Z)
                       (peer : list (Z * Z)) (onloop : bool).

  Fixpoint sent_of (l : list ev) : list (Z * Z) :=
    match l with
    | [] => []
    | ESent id t :: r => (wid id, t) :: sent_of r
    | _ :: r => sent_of r
    end.

  Definition got_of (o : op) : Z := match o with Resp _ _ => 1 | _ => 0 end.

  Definition arms_of (s : st) : list bool := map (armed_of s) (incs s).

  Definition observe (o : op) (r : st * list ev) : obs :=
    Obs (snd r) (akeys (pending (fst r))) (arms_of (fst r)) (got_of o) (sent_of (snd r)) true.

  Fixpoint run_from (s : st) (ops : list op) : st * list (list ev) :=
    match ops with
    | [] => (s, [])
    | o :: r =>
        let r1 := step s o in
        let r2 := run_from (fst r1) r in
        (fst r2, snd r1 :: snd r2)
    end.

  Fixpoint run_obs (s : st) (ops : list op) : list obs :=
    match ops with
    | [] => []
    | o :: r => let r1 := step s o in observe o r1 :: run_obs (fst r1) r
    end.

  Definition final_g (ops : list op) : st := fst (run_from init ops).
  Definition trace_g (ops : list op) : list ev := concat (snd (run_from init ops)).
End WithMax.

Definition run (ops : list op) : list obs := run_obs MaxReqId init ops.
Definition final (ops : list op) : st := final_g MaxReqId ops.
Definition trace (ops : list op) : list ev := trace_g MaxReqId ops.
