(* C01 - property theorems only.  Each is closed by [exact] of a lemma from Proofs.v and
   followed by Print Assumptions.  [trace_g M ops] / [final_g M ops] are the event trace and
   the final state of the model with id wrap at M; [trace], [final], [run] are the instances
   at MaxReqId = 0x7FFFFFF0.  [noclash tr] is the freshness guard "no request was registered
   under an id that was still pending" (C01_clash_needs_wrap says when it can fail). *)
From Cell2V Require Import Common.Tac Common.ListX Common.AList
  C01.Model C01.Spec C01.Corr C01.Proofs.

(* ---- the acceptor (run by the monitor on implementation traces) means the property *)

Theorem C01_acceptor_sound : forall tr,
  accepts tr = true ->
  at_most_once tr /\ issue_unique tr /\ matching tr /\ drops_ok tr /\ sent_after_issue tr.
Proof. exact accepts_sound. Qed.
Print Assumptions C01_acceptor_sound.

Theorem C01_model_accepted : forall M ops,
  1 <= M -> noclash (trace_g M ops) -> accepts (trace_g M ops) = true.
Proof. exact model_accepts. Qed.
Print Assumptions C01_model_accepted.

Theorem C01_acceptor_resp_completes : forall tr, accepts tr = true -> resp_completes tr.
Proof. exact accepts_resp_completes. Qed.
Print Assumptions C01_acceptor_resp_completes.

(* ---- for ALL operation lists *)

(* each request (tag) has at most one callback *)
Theorem C01_at_most_once : forall M ops,
  1 <= M -> noclash (trace_g M ops) -> at_most_once (trace_g M ops).
Proof. exact model_at_most_once. Qed.
Print Assumptions C01_at_most_once.

(* a reply-class callback carries the kind of the FIRST response with the request's id
   processed after its issue, and is caused by exactly that response; a timeout callback
   happens only inside a scan whose clock is > issue time + 30000, with no such response
   before; a NoService callback directly follows the failed routing *)
Theorem C01_matching : forall M ops,
  1 <= M -> noclash (trace_g M ops) -> matching (trace_g M ops).
Proof. exact model_matching. Qed.
Print Assumptions C01_matching.

(* THE VALUE the callback receives.  For every history under the guard: a callback other than
   the timeout / NoService one is handed exactly [decode (wire_of k)] - the decoding done by
   handleResponse of the fields of the response k that completed it, k being the first response
   with the request's id since its issue; and no callback is ever handed an (err, msg) pair
   outside the shapes of [cls] (an error together with a message, a foreign message type).
   The same two clauses follow from acceptance of an arbitrary (implementation) trace. *)
Theorem C01_value_exact : forall M ops,
  1 <= M -> noclash (trace_g M ops) ->
  value_exact (trace_g M ops) /\ values_wellformed (trace_g M ops).
Proof. exact model_value. Qed.
Print Assumptions C01_value_exact.

Theorem C01_acceptor_value : forall tr,
  accepts tr = true -> value_exact tr /\ values_wellformed tr.
Proof. exact accepts_value. Qed.
Print Assumptions C01_acceptor_value.

(* what that decoding is, exactly, for every combination of response fields: a remote error iff
   the error code is set (with the response's error text and NO message, whatever type / body
   travel with it); nil iff no error code and no type name - so NEVER for a typed response,
   however short its body; a reply value iff the type is known and the body well-formed, and
   then the value encoded by the body (the empty body [BFields 0 0] is the all-default message);
   a local decode error iff the type name is unknown (no message) or the body is junk (with the
   partially filled message proto.Unmarshal leaves behind); nothing else *)
Theorem C01_decode_exact : forall c e t b,
  (forall x, decode (Wire c e t b) = RErr x <-> c <> 0 /\ x = e) /\
  (decode (Wire c e t b) = RNil <-> c = 0 /\ t = TyNone) /\
  (forall v, decode (Wire c e t b) = RReply v <->
     c = 0 /\ ((t = TyHello /\ exists i s, b = BFields i s /\ v = VHello i s) \/
               (t = TyEmpty /\ b <> BJunk /\ v = VEmpty))) /\
  (forall p, decode (Wire c e t b) = RBad p <->
     c = 0 /\ ((p = false /\ t = TyUnknown) \/
               (p = true /\ b = BJunk /\ (t = TyHello \/ t = TyEmpty)))) /\
  decode (Wire c e t b) <> RTimeout /\ decode (Wire c e t b) <> RNoService /\
  decode (Wire c e t b) <> ROther.
Proof. exact decode_exact. Qed.
Print Assumptions C01_decode_exact.

(* end to end through ResponseEx and handleResponse: what the peer hands to Service.Response is
   what the callback receives - the message itself (a typed nil pointer arrives as the zero
   message), nil for nil, and with an error code the error text alone *)
Theorem C01_value_roundtrip : forall code info m,
  cls_of (KAns code info m) =
  if code =? 0
  then match m with
       | MNil => RNil
       | MTypedNil => RReply (VHello 0 0)
       | MHello i s => RReply (VHello i s)
       | MEmpty => RReply VEmpty
       end
  else RErr info.
Proof. exact roundtrip. Qed.
Print Assumptions C01_value_roundtrip.

(* the boundaries spelled out: all-default message, typed nil, empty message type, typed
   response with an empty body, unknown type with any body, body without a type, error code
   with any type / body / message *)
Theorem C01_value_boundaries :
  cls_of (KAns 0 0 (MHello 0 0)) = RReply (VHello 0 0) /\
  cls_of (KAns 0 0 MTypedNil) = RReply (VHello 0 0) /\
  cls_of (KAns 0 0 MEmpty) = RReply VEmpty /\
  cls_of (KAns 0 0 MNil) = RNil /\
  (forall e, cls_of (KRaw (Wire 0 e TyHello (BFields 0 0))) = RReply (VHello 0 0)) /\
  (forall e b, cls_of (KRaw (Wire 0 e TyUnknown b)) = RBad false) /\
  (forall e b, cls_of (KRaw (Wire 0 e TyNone b)) = RNil) /\
  (forall c e t b, c <> 0 -> cls_of (KRaw (Wire c e t b)) = RErr e) /\
  (forall c e m, c <> 0 -> cls_of (KAns c e m) = RErr e).
Proof. exact value_boundaries. Qed.
Print Assumptions C01_value_boundaries.

Theorem C01_issue_unique : forall M ops,
  1 <= M -> noclash (trace_g M ops) -> issue_unique (trace_g M ops).
Proof. exact model_issue_unique. Qed.
Print Assumptions C01_issue_unique.

(* the wait is registered before the request is handed to the transport *)
Theorem C01_sent_after_issue : forall M ops,
  1 <= M -> noclash (trace_g M ops) -> sent_after_issue (trace_g M ops).
Proof. exact model_sent. Qed.
Print Assumptions C01_sent_after_issue.

(* a response for a pending id completes it at once.  State level, ANY state: processing
   [Resp id k] while e is pending under id emits exactly the callback of e's request with the
   class of k, followed by whatever that callback's own programme does (r), and deletes the
   entry; under the guard every other entry is kept; with an empty programme nothing else
   changes at all. *)
Theorem C01_resp_completes : forall M s id k e,
  aget id (pending s) = Some e ->
  let r := exec_prog M (e_prog e) s in
  step M s (Resp id k) =
    (set_pending (fst r) (adel id (pending (fst r))),
     EResp id k :: ECb (e_tag e) (cls_of k) :: snd r) /\
  aget id (pending (fst (step M s (Resp id k)))) = None /\
  (noclash (snd r) -> forall id' e', id' <> id -> aget id' (pending s) = Some e' ->
                      aget id' (pending (fst (step M s (Resp id k)))) = Some e') /\
  (e_prog e = [] ->
   step M s (Resp id k) =
     (set_pending s (adel id (pending s)), [EResp id k; ECb (e_tag e) (cls_of k)])).
Proof. exact resp_step. Qed.
Print Assumptions C01_resp_completes.

(* ... and on traces, for every history under the guard: the event right after a response
   whose id is open is the callback of the request open under that id, with the response's kind *)
Theorem C01_resp_completes_trace : forall M ops,
  1 <= M -> noclash (trace_g M ops) -> resp_completes (trace_g M ops).
Proof. exact model_resp_completes. Qed.
Print Assumptions C01_resp_completes_trace.

(* discard: a response for an id that is not pending - late, duplicate, unknown - leaves the
   state unchanged and emits only Dropped (any state) ... *)
Theorem C01_discard : forall M s id k,
  aget id (pending s) = None -> step M s (Resp id k) = (s, [EResp id k; EDrop id]).
Proof. exact discard_step. Qed.
Print Assumptions C01_discard.

(* ... "not pending" is exactly "no request issued under that id is uncompleted" ... *)
Theorem C01_pending_iff_open : forall M, 1 <= M -> forall ops id,
  noclash (trace_g M ops) ->
  (aget id (pending (final_g M ops)) <> None <-> open_in (trace_g M ops) id).
Proof. exact pending_iff_open. Qed.
Print Assumptions C01_pending_iff_open.

(* ... and on traces: a drop happens only for a response whose id is not open *)
Theorem C01_discard_trace : forall M ops,
  1 <= M -> noclash (trace_g M ops) -> drops_ok (trace_g M ops).
Proof. exact model_drops. Qed.
Print Assumptions C01_discard_trace.

(* drain: |pending| = #registered - #completed *)
Theorem C01_drain_count : forall M, 1 <= M -> forall ops,
  noclash (trace_g M ops) ->
  Z.of_nat (length (pending (final_g M ops))) = n_issue (trace_g M ops) - n_done (trace_g M ops).
Proof. exact drain_count. Qed.
Print Assumptions C01_drain_count.

(* notifications, unroutable node-level requests and suppressed responses create no
   pending state (frame: the whole state, resp. everything but the ghost tag counter) *)
Theorem C01_notify_frame : forall M s, step M s (Do ANotify) = (s, [EDo; ESent 0 (-1)]).
Proof. exact notify_step. Qed.
Print Assumptions C01_notify_frame.

Theorem C01_noroute_frame : forall M s,
  step M s (Do (ANoRoute [])) =
  (set_ntags s (ntags s + 1), [EDo; ENoRoute (ntags s); ECb (ntags s) RNoService]).
Proof. exact noroute_step. Qed.
Print Assumptions C01_noroute_frame.

Theorem C01_suppressed_frame : forall M s,
  step M s RespNotify = (s, [EIdle]) /\ forall id, step M s (RespNoSender id) = (s, [EIdle]).
Proof. exact suppressed_step. Qed.
Print Assumptions C01_suppressed_frame.

(* every request whose deadline has passed at a final Tick has exactly one callback ... *)
Theorem C01_drain_complete : forall M, 1 <= M -> forall h hint t id n,
  noclash (trace_g M (h ++ [Tick hint])) ->
  In (EIssue t id n) (trace_g M (h ++ [Tick hint])) ->
  n + Timeout < clock (final_g M h) ->
  count_cb t (trace_g M (h ++ [Tick hint])) = 1%nat.
Proof. exact drain_complete. Qed.
Print Assumptions C01_drain_complete.

(* ... and in a complete history (it ends with a Tick after every deadline) nothing is left
   pending and every request has exactly one callback *)
Theorem C01_drain_quiescent : forall M, 1 <= M -> forall h hint,
  noclash (trace_g M (h ++ [Tick hint])) ->
  (forall t id n, In (EIssue t id n) (trace_g M (h ++ [Tick hint])) ->
                  n + Timeout < clock (final_g M h)) ->
  pending (final_g M (h ++ [Tick hint])) = [] /\
  forall t id n, In (EIssue t id n) (trace_g M (h ++ [Tick hint])) ->
                 count_cb t (trace_g M (h ++ [Tick hint])) = 1%nat.
Proof. exact drain_quiescent. Qed.
Print Assumptions C01_drain_quiescent.

(* timer: armed whenever anything is pending (every reachable state, clash or not); only a
   Tick that finds the table empty switches it off; an armed Tick leaves nothing expired *)
Theorem C01_timer_armed : forall M, 1 <= M -> forall ops,
  pending (final_g M ops) <> [] -> armed (final_g M ops) = true.
Proof. exact timer_armed. Qed.
Print Assumptions C01_timer_armed.

Theorem C01_timer_disarm : forall M s h,
  armed s = true -> armed (fst (step M s (Tick h))) = false ->
  pending s = [] /\ step M s (Tick h) = (set_armed s false, [ETick (clock s)]).
Proof. exact timer_disarm. Qed.
Print Assumptions C01_timer_disarm.

Theorem C01_timer_kept : forall M s o,
  armed s = true -> (forall h, o <> Tick h) -> (forall h, o <> TickReal h) ->
  armed (fst (step M s o)) = true.
Proof. exact step_keeps_armed. Qed.
Print Assumptions C01_timer_kept.

Theorem C01_scan_complete : forall M s h id e,
  armed s = true -> aget id (pending (fst (step M s (Tick h)))) = Some e -> clock s <= e_dl e.
Proof. exact scan_complete. Qed.
Print Assumptions C01_scan_complete.

(* id wrap: a registration overwrites a live entry (EClash id span) only if at least M ids
   were allocated since, and including, that entry's own - for every history, also after
   earlier clashes.  So the guard holds whenever fewer than MaxReqId requests are issued
   within the lifetime of any pending one. *)
Theorem C01_clash_needs_wrap : forall M, 1 <= M -> forall ops id span,
  In (EClash id span) (trace_g M ops) -> M <= span.
Proof. exact clash_needs_wrap. Qed.
Print Assumptions C01_clash_needs_wrap.

(* when it does not hold (documentation, M = 3): the 4th request overwrites the 1st, whose
   callback then never runs although the history is complete *)
Theorem C01_wrap_refuted :
  let ops := [Do (AReq []); Do (AReq []); Do (AReq []); Do (AReq []);
              Advance 30001; Tick []; Tick []] in
  In (EClash 1 3) (trace_g 3 ops) /\ pending (final_g 3 ops) = [] /\
  count_cb 0 (trace_g 3 ops) = 0%nat /\ count_issue 0 (trace_g 3 ops) = 1%nat.
Proof. vm_compute. repeat split. repeat (first [left; reflexivity | right]). Qed.
Print Assumptions C01_wrap_refuted.

(* the executable monitor of Corr.v accepts every clash-free model run, so a monitor failure
   on an implementation trace that the model matches cannot be a false alarm *)
Theorem C01_monitor_sound : forall ops, noclash (trace ops) -> monitor (ops, run ops) = true.
Proof. exact monitor_model. Qed.
Print Assumptions C01_monitor_sound.

(* the model agrees with itself: run on its own output, the comparison of Corr.v (which feeds
   the observed order of timeout callbacks back as hints) succeeds for every history under the
   guard - so a reported disagreement is a behaviour the model excludes *)
Theorem C01_agree_model : forall ops, noclash (trace ops) -> agree (ops, run ops) = true.
Proof. exact agree_model. Qed.
Print Assumptions C01_agree_model.

(* ---- non-vacuity *)

Definition ex_ops : list op :=
  [SetNext 2147483631; Via 2;
   Do (AReq [AReq []; ANotify; ANoRoute [AUnser []]; ANotifyNR]); Do (AReq []); Do ANotify; DirectNotify 0;
   Resp 2147483632 (KAns 0 0 (MHello 0 0)); Resp 2147483632 (KAns 0 0 MNil); Resp 9 (KAns 999 1 MNil);
   Resp 1 (KRaw (Wire 0 0 TyUnknown (BFields 0 0)));
   Advance 30000; Tick []; Advance 1; Tick [4]; Advance 30000; Tick []; Tick []].

(* the guard holds on it, it is accepted, it wraps, completes everything and drains *)
Example C01_example_guard : noclash_b (trace ex_ops) = true.
Proof. vm_compute. reflexivity. Qed.

Example C01_example_trace :
  trace ex_ops =
  [EIdle; EIdle;
   EDo; EIssue 0 2147483632 1000000; ESent 2147483632 0;
   EDo; EIssue 1 1 1000000; ESent 1 1;
   EDo; ESent 0 (-1);
   EIdle;
   EResp 2147483632 (KAns 0 0 (MHello 0 0)); ECb 0 (RReply (VHello 0 0)); EIssue 2 2 1000000; ESent 2 2; ESent 0 (-1);
     ENoRoute 3; ECb 3 RNoService; EIssue 4 3 1000000;
   EResp 2147483632 (KAns 0 0 MNil); EDrop 2147483632;
   EResp 9 (KAns 999 1 MNil); EDrop 9;
   EResp 1 (KRaw (Wire 0 0 TyUnknown (BFields 0 0))); ECb 1 (RBad false);
   EIdle; ETick 1030000;
   EIdle; ETick 1030001; ECb 4 RTimeout; ECb 2 RTimeout;
   EIdle; ETick 1060001; EIdle].
Proof. vm_compute. reflexivity. Qed.

Example C01_example_final :
  pending (final ex_ops) = [] /\ armed (final ex_ops) = false /\
  monitor (ex_ops, run ex_ops) = true /\ agree (ex_ops, run ex_ops) = true.
Proof. vm_compute. repeat split. Qed.
