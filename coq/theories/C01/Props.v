(* C01 - property theorems only.  Each is closed by [exact] of a lemma from Proofs.v and
   followed by Print Assumptions.  [trace_g M ops] / [final_g M ops] are the event trace and
   the final state of the model with id wrap at M; [trace], [final], [run] are the instances
   at MaxReqId = 0x7FFFFFF0.  [noclash tr] is the freshness guard "no request was registered
   under an id that was still pending" (C01_clash_needs_wrap says when it can fail).
   Histories contain RESTARTS of the requesting actor (op [Crash]: a handler panics, the
   supervisor restarts it, the producer builds a fresh Service): every theorem below that
   quantifies over [ops] covers them.  Request ids in events and in the pending table are keys
   [key M incarnation id] = incarnation * (M+1) + id; a response carries a bare id and is
   processed by the live incarnation (C01_resp_live). *)
From Cell2V Require Import Common.Tac Common.ListX Common.AList
  C01.Model C01.Spec C01.Corr C01.Proofs.

(* ---- the acceptor (run by the monitor on implementation traces) means the property *)

Theorem C01_acceptor_sound : forall tr,
  accepts tr = true ->
  at_most_once tr /\ issue_unique tr /\ matching tr /\ drops_ok tr /\ sent_after_issue tr.
Proof. exact accepts_sound. Qed.
Print Assumptions C01_acceptor_sound.

Theorem C01_model_accepted : forall M ops,
  1 <= M -> noclash (trace_g M ops) -> accepts (trace_g M ops) = true.
Proof. exact model_accepts. Qed.
Print Assumptions C01_model_accepted.

Theorem C01_acceptor_resp_completes : forall tr, accepts tr = true -> resp_completes tr.
Proof. exact accepts_resp_completes. Qed.
Print Assumptions C01_acceptor_resp_completes.

(* ---- for ALL operation lists *)

(* each request (tag) has at most one callback *)
Theorem C01_at_most_once : forall M ops,
  1 <= M -> noclash (trace_g M ops) -> at_most_once (trace_g M ops).
Proof. exact model_at_most_once. Qed.
Print Assumptions C01_at_most_once.

(* a reply-class callback carries the kind of the FIRST response with the request's id
   processed after its issue, and is caused by exactly that response; a timeout callback
   happens only inside a scan whose clock is > issue time + 30000, with no such response
   before; a NoService callback directly follows the failed routing *)
Theorem C01_matching : forall M ops,
  1 <= M -> noclash (trace_g M ops) -> matching (trace_g M ops).
Proof. exact model_matching. Qed.
Print Assumptions C01_matching.

(* THE VALUE the callback receives.  For every history under the guard: a callback other than
   the timeout / NoService one is handed exactly [decode (wire_of k)] - the decoding done by
   handleResponse of the fields of the response k that completed it, k being the first response
   with the request's id since its issue; and no callback is ever handed an (err, msg) pair
   outside the shapes of [cls] (an error together with a message, a foreign message type).
   The same two clauses follow from acceptance of an arbitrary (implementation) trace. *)
Theorem C01_value_exact : forall M ops,
  1 <= M -> noclash (trace_g M ops) ->
  value_exact (trace_g M ops) /\ values_wellformed (trace_g M ops).
Proof. exact model_value. Qed.
Print Assumptions C01_value_exact.

Theorem C01_acceptor_value : forall tr,
  accepts tr = true -> value_exact tr /\ values_wellformed tr.
Proof. exact accepts_value. Qed.
Print Assumptions C01_acceptor_value.

(* what that decoding is, exactly, for every combination of response fields: a remote error iff
   the error code is set (with the response's error text and NO message, whatever type / body
   travel with it); nil iff no error code and no type name - so NEVER for a typed response,
   however short its body; a reply value iff the type is known and the body well-formed, and
   then the value encoded by the body (the empty body [BFields 0 0] is the all-default message);
   a local decode error iff the type name is unknown (no message) or the body is junk (with the
   partially filled message proto.Unmarshal leaves behind); nothing else *)
Theorem C01_decode_exact : forall c e t b,
  (forall x, decode (Wire c e t b) = RErr x <-> c <> 0 /\ x = e) /\
  (decode (Wire c e t b) = RNil <-> c = 0 /\ t = TyNone) /\
  (forall v, decode (Wire c e t b) = RReply v <->
     c = 0 /\ ((t = TyHello /\ exists i s, b = BFields i s /\ v = VHello i s) \/
               (t = TyEmpty /\ b <> BJunk /\ v = VEmpty))) /\
  (forall p, decode (Wire c e t b) = RBad p <->
     c = 0 /\ ((p = false /\ t = TyUnknown) \/
               (p = true /\ b = BJunk /\ (t = TyHello \/ t = TyEmpty)))) /\
  decode (Wire c e t b) <> RTimeout /\ decode (Wire c e t b) <> RNoService /\
  decode (Wire c e t b) <> ROther.
Proof. exact decode_exact. Qed.
Print Assumptions C01_decode_exact.

(* end to end through ResponseEx and handleResponse: what the peer hands to Service.Response is
   what the callback receives - the message itself (a typed nil pointer arrives as the zero
   message), nil for nil, and with an error code the error text alone *)
Theorem C01_value_roundtrip : forall code info m,
  cls_of_ans (KAns code info m) =
  if code =? 0
  then match m with
       | MNil => RNil
       | MTypedNil => RReply (VHello 0 0)
       | MHello i s => RReply (VHello i s)
       | MEmpty => RReply VEmpty
       end
  else RErr info.
Proof. exact roundtrip. Qed.
Print Assumptions C01_value_roundtrip.

(* the boundaries spelled out: all-default message, typed nil, empty message type, typed
   response with an empty body, unknown type with any body, body without a type, error code
   with any type / body / message *)
Theorem C01_value_boundaries :
  cls_of_ans (KAns 0 0 (MHello 0 0)) = RReply (VHello 0 0) /\
  cls_of_ans (KAns 0 0 MTypedNil) = RReply (VHello 0 0) /\
  cls_of_ans (KAns 0 0 MEmpty) = RReply VEmpty /\
  cls_of_ans (KAns 0 0 MNil) = RNil /\
  (forall e, cls_of_ans (KRaw (Wire 0 e TyHello (BFields 0 0))) = RReply (VHello 0 0)) /\
  (forall e b, cls_of_ans (KRaw (Wire 0 e TyUnknown b)) = RBad false) /\
  (forall e b, cls_of_ans (KRaw (Wire 0 e TyNone b)) = RNil) /\
  (forall c e t b, c <> 0 -> cls_of_ans (KRaw (Wire c e t b)) = RErr e) /\
  (forall c e m, c <> 0 -> cls_of_ans (KAns c e m) = RErr e).
Proof. exact value_boundaries. Qed.
Print Assumptions C01_value_boundaries.

(* THAT VERY REQUEST.  A response's ghost is the tag of the request the peer is answering (it
   hands that request object to Service.Response, which copies the id from it).  If the ghosts
   of a history are truthful and no request id is used for two requests, a callback completed
   with a reply / remote error was completed by the response that answers ITS OWN request -
   for every model history under the guard, and for every accepted (implementation) trace ... *)
Theorem C01_reply_answers_own_fresh : forall M ops,
  1 <= M -> noclash (trace_g M ops) -> ghosts_truthful M (trace_g M ops) -> fresh_ids M (trace_g M ops) ->
  answers_own (trace_g M ops).
Proof. exact model_own. Qed.
Print Assumptions C01_reply_answers_own_fresh.

Theorem C01_acceptor_answers_own : forall M tr,
  accepts tr = true -> ghosts_truthful M tr -> fresh_ids M tr -> answers_own tr.
Proof. exact accepts_own. Qed.
Print Assumptions C01_acceptor_answers_own.

(* ... and ids ARE never used twice in a history without restart, without the allocator set-up
   op and with at most M requests (no wrap): there the clause holds outright.  With a restart
   it does not: C01_restart_reuses_ids (open finding F24). *)
Theorem C01_fresh_ids : forall M, 1 <= M -> forall ops,
  Forall plain ops -> n_issue (trace_g M ops) <= M -> fresh_ids M (trace_g M ops).
Proof. exact fresh_plain. Qed.
Print Assumptions C01_fresh_ids.

Theorem C01_reply_answers_own_request : forall M ops,
  1 <= M -> Forall plain ops -> n_issue (trace_g M ops) <= M ->
  noclash (trace_g M ops) -> ghosts_truthful M (trace_g M ops) ->
  answers_own (trace_g M ops).
Proof. exact model_own_plain. Qed.
Print Assumptions C01_reply_answers_own_request.

(* the executable form of the clause, as run by the monitor on each operation's events *)
Theorem C01_own_check_sound : forall tr, own_b tr = true -> answers_own tr.
Proof. exact own_b_sound. Qed.
Print Assumptions C01_own_check_sound.

(* BULK.  [ARep n a] - n requests with the same callback programme, say - is exactly the action
   a, n times in a row, in every state: so a history with a bulk operation IS the history with
   the n single actions, and every theorem here speaks about thousands of outstanding requests
   as it does about three.  [order]'s executable definition (tags looked up once per scan) reads
   as: for each hinted tag the expired ids carrying it, then all expired ids, first occurrences. *)
Theorem C01_bulk_is_n_singles : forall M n a s,
  exec M (ARep n a) s = exec_prog M (repeat a (Z.to_nat n)) s.
Proof. exact exec_rep. Qed.
Print Assumptions C01_bulk_is_n_singles.

Theorem C01_order_meaning : forall M h s,
  order M h s =
  dedup [] (flat_map (fun t => filter (fun id => tag_is s id t) (expired_ids M s)) h ++ expired_ids M s).
Proof. exact order_unfold. Qed.
Print Assumptions C01_order_meaning.

Theorem C01_issue_unique : forall M ops,
  1 <= M -> noclash (trace_g M ops) -> issue_unique (trace_g M ops).
Proof. exact model_issue_unique. Qed.
Print Assumptions C01_issue_unique.

(* the wait is registered before the request is handed to the transport *)
Theorem C01_sent_after_issue : forall M ops,
  1 <= M -> noclash (trace_g M ops) -> sent_after_issue (trace_g M ops).
Proof. exact model_sent. Qed.
Print Assumptions C01_sent_after_issue.

(* a response for a pending id completes it at once.  State level, ANY state: processing
   [Resp id k] while e is pending under id IN THE LIVE INCARNATION (key) emits exactly the callback of e's request with the
   class of k, followed by whatever that callback's own programme does (r), and deletes the
   entry; under the guard every other entry is kept; with an empty programme nothing else
   changes at all. *)
Theorem C01_resp_completes : forall M s id k e,
  let key := rkey M (cur s) id in
  aget key (pending s) = Some e ->
  let r := exec_prog M (e_prog e) s in
  step M s (Resp id k) =
    (set_pending (fst r) (adel key (pending (fst r))),
     EResp key k :: ECb (e_tag e) (cls_of k) :: snd r) /\
  aget key (pending (fst (step M s (Resp id k)))) = None /\
  (noclash (snd r) -> forall id' e', id' <> key -> aget id' (pending s) = Some e' ->
                      aget id' (pending (fst (step M s (Resp id k)))) = Some e') /\
  (e_prog e = [] ->
   step M s (Resp id k) =
     (set_pending s (adel key (pending s)), [EResp key k; ECb (e_tag e) (cls_of k)])).
Proof. exact resp_step. Qed.
Print Assumptions C01_resp_completes.

(* ... and on traces, for every history under the guard: the event right after a response
   whose id is open is the callback of the request open under that id, with the response's kind *)
Theorem C01_resp_completes_trace : forall M ops,
  1 <= M -> noclash (trace_g M ops) -> resp_completes (trace_g M ops).
Proof. exact model_resp_completes. Qed.
Print Assumptions C01_resp_completes_trace.

(* discard: a response for an id that is not pending in the live incarnation - late, duplicate,
   unknown, or meant for a request of an incarnation that was replaced - leaves the state
   unchanged and emits only Dropped (any state) ... *)
Theorem C01_discard : forall M s id k,
  aget (rkey M (cur s) id) (pending s) = None ->
  step M s (Resp id k) = (s, [EResp (rkey M (cur s) id) k; EDrop (rkey M (cur s) id)]).
Proof. exact discard_step. Qed.
Print Assumptions C01_discard.

(* ... "not pending" is exactly "no request issued under that id is uncompleted" ... *)
Theorem C01_pending_iff_open : forall M, 1 <= M -> forall ops id,
  noclash (trace_g M ops) ->
  (aget id (pending (final_g M ops)) <> None <-> open_in (trace_g M ops) id).
Proof. exact pending_iff_open. Qed.
Print Assumptions C01_pending_iff_open.

(* ... and on traces: a drop happens only for a response whose id is not open *)
Theorem C01_discard_trace : forall M ops,
  1 <= M -> noclash (trace_g M ops) -> drops_ok (trace_g M ops).
Proof. exact model_drops. Qed.
Print Assumptions C01_discard_trace.

(* drain: |pending| = #registered - #completed *)
Theorem C01_drain_count : forall M, 1 <= M -> forall ops,
  noclash (trace_g M ops) ->
  Z.of_nat (length (pending (final_g M ops))) = n_issue (trace_g M ops) - n_done (trace_g M ops).
Proof. exact drain_count. Qed.
Print Assumptions C01_drain_count.

(* notifications, unroutable node-level requests and suppressed responses create no
   pending state (frame: the whole state, resp. everything but the ghost tag counter) *)
Theorem C01_notify_frame : forall M s, step M s (Do ANotify) = (s, [EDo; ESent 0 (-1)]).
Proof. exact notify_step. Qed.
Print Assumptions C01_notify_frame.

Theorem C01_noroute_frame : forall M s,
  step M s (Do (ANoRoute [])) =
  (set_ntags s (ntags s + 1), [EDo; ENoRoute (ntags s); ECb (ntags s) RNoService]).
Proof. exact noroute_step. Qed.
Print Assumptions C01_noroute_frame.

Theorem C01_suppressed_frame : forall M s,
  step M s RespNotify = (s, [EIdle]) /\ forall id, step M s (RespNoSender id) = (s, [EIdle]).
Proof. exact suppressed_step. Qed.
Print Assumptions C01_suppressed_frame.

(* EXACTLY ONCE.  Every request whose deadline has passed at a final Tick has exactly one
   callback - whichever incarnation issued it, however many restarts lie between (a restarted
   actor's old timer keeps scanning the old table: C01_restart_frame, C01_timer_armed) ... *)
Theorem C01_drain_complete : forall M, 1 <= M -> forall h hint t id n,
  noclash (trace_g M (h ++ [Tick hint])) ->
  In (EIssue t id n) (trace_g M (h ++ [Tick hint])) ->
  n + Timeout < clock (final_g M h) ->
  count_cb t (trace_g M (h ++ [Tick hint])) = 1%nat.
Proof. exact drain_complete. Qed.
Print Assumptions C01_drain_complete.

(* ... and in a complete history (it ends with a Tick after every deadline) nothing is left
   pending and every request has exactly one callback *)
Theorem C01_drain_quiescent : forall M, 1 <= M -> forall h hint,
  noclash (trace_g M (h ++ [Tick hint])) ->
  (forall t id n, In (EIssue t id n) (trace_g M (h ++ [Tick hint])) ->
                  n + Timeout < clock (final_g M h)) ->
  pending (final_g M (h ++ [Tick hint])) = [] /\
  forall t id n, In (EIssue t id n) (trace_g M (h ++ [Tick hint])) ->
                 count_cb t (trace_g M (h ++ [Tick hint])) = 1%nat.
Proof. exact drain_quiescent. Qed.
Print Assumptions C01_drain_quiescent.

(* timers, one per incarnation.  The timer of incarnation j is armed whenever one of ITS
   requests is pending (every reachable state, clash or not, j alive or replaced long ago);
   only its own scan, finding its own table empty, switches it off ([tick]: the scan of the
   incarnation in focus); no other operation - a restart included - switches any timer off;
   a scan leaves none of the incarnation's requests expired, and a Tick leaves nothing expired
   in any table *)
Theorem C01_timer_armed : forall M, 1 <= M -> forall ops j k e,
  aget k (pending (final_g M ops)) = Some e -> inc_of M k = j ->
  armed_of (final_g M ops) j = true.
Proof. exact timer_armed. Qed.
Print Assumptions C01_timer_armed.

Theorem C01_timer_disarm : forall M s h,
  armed s = true -> armed (fst (tick M s h)) = false ->
  block M (foc s) (pending s) = [] /\ tick M s h = (set_armed s false, [ETick (clock s)]).
Proof. exact timer_disarm. Qed.
Print Assumptions C01_timer_disarm.

Theorem C01_timer_kept : forall M s o j,
  armed_of s j = true -> (forall h, o <> Tick h) -> (forall h, o <> TickReal h) ->
  armed_of (fst (step M s o)) j = true.
Proof. exact step_keeps_armed. Qed.
Print Assumptions C01_timer_kept.

Theorem C01_scan_incarnation : forall M s h id e,
  1 <= M -> armed s = true -> aget id (pending (fst (tick M s h))) = Some e -> inc_of M id = foc s ->
  clock s <= e_dl e.
Proof. exact scan_incarnation. Qed.
Print Assumptions C01_scan_incarnation.

Theorem C01_scan_complete : forall M, 1 <= M -> forall h hint id e,
  aget id (pending (final_g M (h ++ [Tick hint]))) = Some e -> clock (final_g M h) <= e_dl e.
Proof. exact scan_complete. Qed.
Print Assumptions C01_scan_complete.

(* ---- restarts *)

(* a restart touches nothing that exists: the pending table (of all incarnations), the clock,
   the allocator and the timer of every earlier incarnation stay exactly as they are - in
   particular the old incarnation's timer stays armed, so C01_drain_complete still reaches its
   requests; the new live incarnation is a fresh Service (allocator 0, timer off) *)
Theorem C01_restart_frame : forall M s,
  foc s = cur s ->
  let s' := fst (step M s Crash) in
  snd (step M s Crash) = [ECrash] /\ pending s' = pending s /\ clock s' = clock s /\
  cur s' = cur s + 1 /\ foc s' = cur s + 1 /\
  (forall j, j <> cur s + 1 -> view s' j = view s j) /\
  (aget (cur s + 1) (rest s) = None -> next s' = 0 /\ armed s' = false).
Proof. exact crash_step. Qed.
Print Assumptions C01_restart_frame.

(* responses are processed by the live incarnation: in every history, the key a response
   addresses is its bare id in the incarnation numbered by the restarts so far.  With
   C01_matching / C01_discard_trace: after a restart a response can complete only a request of
   the new incarnation; the requests of the replaced ones can only time out (C01_drain_complete) *)
Theorem C01_resp_live : forall M ops,
  1 <= M -> resp_live M (trace_g M ops) /\ n_crash (trace_g M ops) = cur (final_g M ops).
Proof. exact model_resp_live. Qed.
Print Assumptions C01_resp_live.

(* id wrap: a registration overwrites a live entry (EClash id span) only if at least M ids
   were allocated BY THAT INCARNATION since, and including, that entry's own - for every
   history, also after earlier clashes.  So the guard holds whenever fewer than MaxReqId requests are issued
   within the lifetime of any pending one. *)
Theorem C01_clash_needs_wrap : forall M, 1 <= M -> forall ops id span,
  In (EClash id span) (trace_g M ops) -> M <= span.
Proof. exact clash_needs_wrap. Qed.
Print Assumptions C01_clash_needs_wrap.

(* when it does not hold (documentation, M = 3): the 4th request overwrites the 1st, whose
   callback then never runs although the history is complete *)
Theorem C01_wrap_refuted :
  let ops := [Do (AReq []); Do (AReq []); Do (AReq []); Do (AReq []);
              Advance 30001; Tick []; Tick []] in
  In (EClash 1 3) (trace_g 3 ops) /\ pending (final_g 3 ops) = [] /\
  count_cb 0 (trace_g 3 ops) = 0%nat /\ count_issue 0 (trace_g 3 ops) = 1%nat.
Proof. vm_compute. repeat split. repeat (first [left; reflexivity | right]). Qed.
Print Assumptions C01_wrap_refuted.

(* ACROSS A RESTART THE FRESHNESS OF IDS IS LOST - open finding F24, a defect of the code as it
   is: the new incarnation's allocator starts at 0 again, so one allocation after the restart a
   second request travels under request id 1 while the first is still outstanding - the peer
   received (1, tag 0) and (1, tag 1).  The peer answers the FIRST one (ghost 0, truthful); the
   response, processed by the live incarnation, completes the SECOND (tag 1): [answers_own] is
   false, the monitor rejects the run; everything else about the trace is in order (it is
   accepted, the guard holds) and the first request can only time out.  Within one incarnation
   this needs M allocations (C01_clash_needs_wrap, C01_fresh_ids). *)
Theorem C01_restart_reuses_ids :
  let ops := [Do (AReq []); Crash; Do (AReq []); Resp 1 (K 0 (KAns 0 0 (MHello 7 0)));
              Advance 30001; Tick []; Tick []] in
  sent_of MaxReqId (trace ops) = [(1, 0); (1, 1)] /\
  akeys (pending (final [Do (AReq []); Crash; Do (AReq [])])) = [1; key MaxReqId 1 1] /\
  In (ECb 1 (RReply (VHello 7 0))) (trace ops) /\ In (ECb 0 RTimeout) (trace ops) /\
  noclash_b (trace ops) = true /\ accepts (trace ops) = true /\ pending (final ops) = [] /\
  own_b (trace ops) = false /\ monitor (ops, run ops) = false /\ agree (ops, run ops) = true.
Proof. vm_compute. repeat split; repeat (first [left; reflexivity | right]). Qed.
Print Assumptions C01_restart_reuses_ids.

Theorem C01_restart_refutes_own :
  ~ answers_own (trace [Do (AReq []); Crash; Do (AReq []); Resp 1 (K 0 (KAns 0 0 (MHello 7 0)))]).
Proof. exact restart_refutes_own. Qed.
Print Assumptions C01_restart_refutes_own.

(* the executable monitor of Corr.v accepts every clash-free model run whose replies answer
   their own requests, so a monitor failure on an implementation trace that the model matches
   cannot be a false alarm *)
Theorem C01_monitor_sound : forall ops,
  noclash (trace ops) -> answers_own (trace ops) -> monitor (ops, run ops) = true.
Proof. exact monitor_model. Qed.
Print Assumptions C01_monitor_sound.

(* the model agrees with itself: run on its own output, the comparison of Corr.v (which feeds
   the observed order of timeout callbacks back as hints) succeeds for every history under the
   guard - so a reported disagreement is a behaviour the model excludes *)
Theorem C01_agree_model : forall ops, noclash (trace ops) -> agree (ops, run ops) = true.
Proof. exact agree_model. Qed.
Print Assumptions C01_agree_model.

(* ---- non-vacuity *)

Definition ex_ops : list op :=
  [SetNext 2147483631; Via 2;
   Do (AReq [AReq []; ANotify; ANoRoute [AUnser []]; ANotifyNR]); Do (AReq []); Do ANotify; DirectNotify 0;
   Resp 2147483632 (K (-1) (KAns 0 0 (MHello 0 0))); Resp 2147483632 (K (-1) (KAns 0 0 MNil)); Resp 9 (K (-1) (KAns 999 1 MNil));
   Resp 1 (K (-1) (KRaw (Wire 0 0 TyUnknown (BFields 0 0))));
   Advance 30000; Tick []; Advance 1; Tick [[4]]; Advance 30000; Tick []; Tick []].

(* the guard holds on it, it is accepted, it wraps, completes everything and drains *)
Example C01_example_guard : noclash_b (trace ex_ops) = true.
Proof. vm_compute. reflexivity. Qed.

Example C01_example_trace :
  trace ex_ops =
  [EIdle; EIdle;
   EDo; EIssue 0 2147483632 1000000; ESent 2147483632 0;
   EDo; EIssue 1 1 1000000; ESent 1 1;
   EDo; ESent 0 (-1);
   EIdle;
   EResp 2147483632 (K (-1) (KAns 0 0 (MHello 0 0))); ECb 0 (RReply (VHello 0 0)); EIssue 2 2 1000000; ESent 2 2; ESent 0 (-1);
     ENoRoute 3; ECb 3 RNoService; EIssue 4 3 1000000;
   EResp 2147483632 (K (-1) (KAns 0 0 MNil)); EDrop 2147483632;
   EResp 9 (K (-1) (KAns 999 1 MNil)); EDrop 9;
   EResp 1 (K (-1) (KRaw (Wire 0 0 TyUnknown (BFields 0 0)))); ECb 1 (RBad false);
   EIdle; ETick 1030000;
   EIdle; ETick 1030001; ECb 4 RTimeout; ECb 2 RTimeout;
   EIdle; ETick 1060001; EIdle].
Proof. vm_compute. reflexivity. Qed.

Example C01_example_final :
  pending (final ex_ops) = [] /\ armed (final ex_ops) = false /\
  monitor (ex_ops, run ex_ops) = true /\ agree (ex_ops, run ex_ops) = true.
Proof. vm_compute. repeat split. Qed.

(* a history with two restarts: the requests outstanding at a restart are completed exactly
   once, by the replaced incarnation's own scan, with the timeout error; the response that
   arrives after the restart is processed by the new incarnation (dropped when it has no such
   request, else it completes ITS request); a retry issued from a timeout callback of a replaced
   incarnation is registered by that incarnation and timed out by it in turn *)
Definition ex_restart : list op :=
  [Do (AReq [AReq []]); Do (AReq []); Crash; Resp 2 (K (-1) (KAns 0 0 (MHello 5 0))); Do (AReq []);
   Resp 1 (K (-1) (KAns 0 0 (MHello 0 0))); Crash; Advance 30001; Tick []; Advance 30001; Tick []; Tick []].

Example C01_example_restart :
  noclash_b (trace ex_restart) = true /\
  trace ex_restart =
  [EDo; EIssue 0 1 1000000; ESent 1 0;
   EDo; EIssue 1 2 1000000; ESent 2 1;
   ECrash;
   EResp 2147483635 (K (-1) (KAns 0 0 (MHello 5 0))); EDrop 2147483635;
   EDo; EIssue 2 2147483634 1000000; ESent 2147483634 2;
   EResp 2147483634 (K (-1) (KAns 0 0 (MHello 0 0))); ECb 2 (RReply (VHello 0 0));
   ECrash;
   EIdle;
   ETick 1030001; ECb 0 RTimeout; EIssue 3 3 1030001; ESent 3 3; ECb 1 RTimeout; ETick 1030001; EIdle;
   EIdle;
   ETick 1060002; ECb 3 RTimeout; EIdle; EIdle;
   ETick 1060002; EIdle; EIdle] /\
  pending (final ex_restart) = [] /\ arms_of (final ex_restart) = [false; false; false] /\
  monitor (ex_restart, run ex_restart) = true /\ agree (ex_restart, run ex_restart) = true.
Proof. vm_compute. repeat split. Qed.
