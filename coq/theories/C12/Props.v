(* C12 - property theorems only.  Each is closed by [exact] of a lemma from Proofs.v and
   followed by Print Assumptions.  All of them quantify over every configuration [cfg]
   (hosted services with their dispositions) and every operation history [h].
   Vocabulary (Spec.v): [declared cfg h n] service n was asked and answers "ok";
   [hidden h n] the node application currently cannot resolve n (GetService answers nil:
   OHide / OShow may occur anywhere in the history); [declared cfg h n] additionally requires
   that n was resolvable when it was asked;
   [reported h n] a "retired" notification naming n was delivered; [last_pub tr] the node
   state last published to the cluster (Working at start); [obs_at cfg h o] what operation o
   shows when issued after history h. *)
From Coq Require Import Sorted.
From Cell2V Require Import Common.Tac Common.ListX Common.AList C12.Model C12.Spec C12.Proofs.

(* [obs_at] is what [run] emits at that position, for every history. *)
Theorem C12_run_snoc : forall cfg h o, run cfg (h ++ [o]) = run cfg h ++ [obs_at cfg h o].
Proof. exact run_snoc. Qed.
Print Assumptions C12_run_snoc.

(* retire (either spelling) is accepted only while working or retiring and only if every
   hosted service has declared retirement support *)
Theorem C12_retire_guard : forall cfg h o,
  is_retire_cmd o = true -> reply_of (obs_at cfg h o) = ROk ->
  (last_pub (run cfg h) = Working \/ last_pub (run cfg h) = Retiring) /\
  forall n, hosted cfg n = true -> declared cfg h n = true.
Proof. exact retire_guard. Qed.
Print Assumptions C12_retire_guard.

(* ... and exactly then (a node hosting no service at all never retires) *)
Theorem C12_retire_accept_iff : forall cfg h o,
  is_retire_cmd o = true ->
  (reply_of (obs_at cfg h o) = ROk <->
   (last_pub (run cfg h) = Working \/ last_pub (run cfg h) = Retiring) /\ cfg <> [] /\
   forall n, hosted cfg n = true -> declared cfg h n = true).
Proof. exact retire_accept_iff. Qed.
Print Assumptions C12_retire_accept_iff.

(* an accepted retire publishes Retiring (and nothing else) and tells every hosted service that
   can be resolved at that moment to retire - and nobody else.  (When nothing is hidden that is
   every hosted service; re-issuing retire once a service is resolvable again reaches it.) *)
Theorem C12_retire_tells_all : forall cfg h o,
  is_retire_cmd o = true -> reply_of (obs_at cfg h o) = ROk ->
  evs_of (obs_at cfg h o) = [EPub Retiring] /\
  sends_of (obs_at cfg h o) = retire_sends cfg (final cfg h) /\
  (forall n, hosted cfg n = true -> hidden h n = false -> In (n, KRetire) (sends_of (obs_at cfg h o))) /\
  (forall x, In x (sends_of (obs_at cfg h o)) ->
             snd x = KRetire /\ hosted cfg (fst x) = true /\ hidden h (fst x) = false).
Proof. exact retire_tells_all. Qed.
Print Assumptions C12_retire_tells_all.

(* a hosted service that has not itself reported retired is never counted as retired - also
   when it was unresolvable while retire was handled and was therefore skipped: its entry stays
   Working and the node stays below Retired (so exit stays refused, by C12_exit_guard) *)
Theorem C12_unreported_not_retired : forall cfg h n,
  hosted cfg n = true -> reported h n = false ->
  rank (last_pub (run cfg h)) < 3 /\
  aget n (svcs (final cfg h)) = Some (Working, declared cfg h n).
Proof. exact unreported_not_retired. Qed.
Print Assumptions C12_unreported_not_retired.

(* hiding / showing a service changes what GetService answers and nothing else *)
Theorem C12_hide_show_frame : forall cfg h o,
  (exists n, o = OHide n \/ o = OShow n) ->
  nst (final cfg (h ++ [o])) = nst (final cfg h) /\ svcs (final cfg (h ++ [o])) = svcs (final cfg h) /\
  sup (final cfg (h ++ [o])) = sup (final cfg h) /\ pend (final cfg (h ++ [o])) = pend (final cfg h) /\
  obs_at cfg h o = Ob RNone [] [].
Proof. exact hide_show_frame. Qed.
Print Assumptions C12_hide_show_frame.

(* the node is (published as) retired or beyond only after every hosted service has reported
   retired - and as soon as all of them have *)
Theorem C12_retired_only_after_all : forall cfg h,
  3 <= rank (last_pub (run cfg h)) <->
  cfg <> [] /\ forall n, hosted cfg n = true -> reported h n = true.
Proof. exact retired_iff. Qed.
Print Assumptions C12_retired_only_after_all.

(* exit (either spelling) is accepted exactly when retired; it publishes Exiting and stops the node *)
Theorem C12_exit_guard : forall cfg h o,
  is_exit_cmd o = true ->
  (reply_of (obs_at cfg h o) = ROk <-> last_pub (run cfg h) = Retired) /\
  (reply_of (obs_at cfg h o) = ROk ->
   evs_of (obs_at cfg h o) = [EPub Exiting; EStop] /\ sends_of (obs_at cfg h o) = []).
Proof. exact exit_guard. Qed.
Print Assumptions C12_exit_guard.

(* StopNode at most once per history, and exactly once per accepted exit *)
Theorem C12_stop_once : forall cfg h,
  (stops (run cfg h) <= 1)%nat /\ stops (run cfg h) = accepted_exits h (run cfg h).
Proof. exact stop_once. Qed.
Print Assumptions C12_stop_once.

(* the sequence of published node states never moves backwards
   (working <= retiring <= retired <= exiting <= exited) *)
Theorem C12_publish_monotone : forall cfg h,
  StronglySorted rank_le (Working :: pubs (run cfg h)).
Proof. exact publish_monotone. Qed.
Print Assumptions C12_publish_monotone.

(* the published state is the controller's state (what stat / refusals / web_nodes name) *)
Theorem C12_state_published : forall cfg h, nst (final cfg h) = last_pub (run cfg h).
Proof. exact state_published. Qed.
Print Assumptions C12_state_published.

(* the controller's per-service table is exactly what the services have said *)
Theorem C12_services_view : forall cfg h n,
  aget n (svcs (final cfg h)) =
  if hosted cfg n then Some (if reported h n then Retired else Working, declared cfg h n) else None.
Proof. exact services_view. Qed.
Print Assumptions C12_services_view.

(* refused commands (and the read-only ones) change nothing: same controller state, nothing
   published, nothing sent ... *)
Theorem C12_refused_noop : forall cfg h c,
  reply_of (obs_at cfg h (OCmd c)) <> ROk ->
  final cfg (h ++ [OCmd c]) = final cfg h /\ evs_of (obs_at cfg h (OCmd c)) = [] /\
  sends_of (obs_at cfg h (OCmd c)) = [].
Proof. exact refused_noop. Qed.
Print Assumptions C12_refused_noop.

(* ... hence whatever follows is observed exactly as if the command had not been issued *)
Theorem C12_refused_unobservable : forall cfg h c k,
  reply_of (obs_at cfg h (OCmd c)) <> ROk ->
  exists tail, run cfg (h ++ k) = run cfg h ++ tail /\
               run cfg (h ++ OCmd c :: k) = run cfg h ++ obs_at cfg h (OCmd c) :: tail.
Proof. exact refused_unobservable. Qed.
Print Assumptions C12_refused_unobservable.

(* notifications and queries naming a service the node does not host change nothing *)
Theorem C12_unknown_service_noop : forall cfg h o,
  about_unknown cfg o = true ->
  final cfg (h ++ [o]) = final cfg h /\ evs_of (obs_at cfg h o) = [] /\ sends_of (obs_at cfg h o) = [].
Proof. exact unknown_service_noop. Qed.
Print Assumptions C12_unknown_service_noop.

(* the executable monitor (Spec.check at every position) accepts every trace of the model:
   a monitor failure on an implementation trace is a behaviour the proven model excludes *)
Theorem C12_monitor_accepts_model : forall cfg h, holds cfg h (run cfg h) = true.
Proof. exact holds_model. Qed.
Print Assumptions C12_monitor_accepts_model.

(* ---- non-vacuity ---- *)
(* the full life cycle with two services, an early refused retire, a repeated notification
   while exiting (the history of defect F6) and a second exit *)
Example C12_example_cycle :
  run [(1, DOk); (2, DOk)]
      [OCmd CRetire; OQuery 1; OCmd CRetire; OQueryAll; OCmd CRetire; OSvcCmd 2 SRetired;
       OCmd CExit; ONotify 1; OCmd CExit; OSvcCmd 1 SRetired; OCmd CStat; OCmd CExit;
       OStopDone true; OSvcCmd 2 SRetired; OCmd CWebNodes]
  = [Ob RNoSupport [] []; Ob RNone [] [(1, KQuery)]; Ob RNoSupport [] [];
     Ob RNone [] [(1, KQuery); (2, KQuery)];
     Ob ROk [EPub Retiring] [(1, KRetire); (2, KRetire)]; Ob ROk [] [];
     Ob (RBadState Retiring) [] []; Ob RNone [EPub Retired] [];
     Ob ROk [EPub Exiting; EStop] []; Ob ROk [] []; Ob (RStat Exiting) [] [];
     Ob (RBadState Exiting) [] []; Ob RNone [EPub Exited] []; Ob ROk [] [];
     Ob (RNodes Exited [(1, (Retired, true)); (2, (Retired, true))]) [] []].
Proof. vm_compute. reflexivity. Qed.

(* the hypotheses of the guards are met: an accepted retire and an accepted exit exist *)
Example C12_example_accepts :
  let cfg := [(1, DOk); (2, DOk)] in
  let h := [OQueryAll] in
  let h2 := [OQueryAll; OCmd CRetire; OSvcCmd 1 SRetired; OSvcCmd 2 SRetired] in
  reply_of (obs_at cfg h (OCmd CRetire)) = ROk /\ reply_of (obs_at cfg h2 (OCmd CWebExit)) = ROk
  /\ stops (run cfg (h2 ++ [OCmd CExit; OCmd CExit])) = 1%nat
  /\ pubs (run cfg (h2 ++ [OCmd CExit; OStopDone true])) = [Retiring; Retired; Exiting; Exited].
Proof. vm_compute. repeat split; reflexivity. Qed.

(* a service without retirement support keeps the node working; a refused command is refused
   with the state named *)
Example C12_example_refusals :
  run [(1, DOk); (2, DNo); (3, DAbsent)] [OQueryAll; OCmd CWebRetire; OCmd CExit; OSvcCmd 9 SRetired; OCmd COther]
  = [Ob RNone [] [(1, KQuery); (2, KQuery)]; Ob RNoSupport [] []; Ob (RBadState Working) [] [];
     Ob ROk [] []; Ob RUnknown [] []].
Proof. vm_compute. reflexivity. Qed.

(* a service that cannot be resolved exactly while retire is handled is skipped, not told and
   not counted: the node stays Retiring after the other service reported, exit is refused;
   retire re-issued once it is resolvable again reaches it, and only its own notification makes
   the node Retired.  A service hidden while the start-up query runs never declares support. *)
Example C12_example_unresolvable :
  run [(1, DOk); (2, DOk)]
      [OQueryAll; OHide 2; OCmd CRetire; OShow 2; OSvcCmd 1 SRetired; OCmd CExit; OCmd CWebNodes;
       OCmd CRetire; OSvcCmd 2 SRetired; OCmd CExit]
  = [Ob RNone [] [(1, KQuery); (2, KQuery)]; Ob RNone [] [];
     Ob ROk [EPub Retiring] [(1, KRetire)]; Ob RNone [] []; Ob ROk [] [];
     Ob (RBadState Retiring) [] [];
     Ob (RNodes Retiring [(1, (Retired, true)); (2, (Working, true))]) [] [];
     Ob ROk [EPub Retiring] [(1, KRetire); (2, KRetire)]; Ob ROk [EPub Retired] [];
     Ob ROk [EPub Exiting; EStop] []]
  /\ run [(1, DOk)] [OHide 1; OQueryAll; OShow 1; OCmd CRetire; OQuery 1; OCmd CRetire]
  = [Ob RNone [] []; Ob RNone [] []; Ob RNone [] []; Ob RNoSupport [] [];
     Ob RNone [] [(1, KQuery)]; Ob ROk [EPub Retiring] [(1, KRetire)]].
Proof. vm_compute. split; reflexivity. Qed.
