(* C12 - property theorems only.  Each is closed by [exact] of a lemma from Proofs.v and
   followed by Print Assumptions.  All of them quantify over every configuration [cfg]
   (hosted services with their dispositions) and every operation history [h].
   Vocabulary (Spec.v): [declared cfg h n] service n was asked and answers "ok";
   [hidden h n] the node application currently cannot resolve n (GetService answers nil: the
   topology last published leaves n out; OHide / OShow may occur anywhere in the history);
   [declared cfg h n] additionally requires that n was resolvable when it was asked;
   [OTopo k] cluster membership changed, the topology was rebuilt and the node's own services
   re-published with the node's current state (may occur anywhere); [dir] the node's service
   directory: the own services it lists, each with the COPY of the node state taken at the last
   topology publication ([is_topo o]: OHide / OShow / OTopo);
   [reported h n] a "retired" notification naming n was delivered; [last_pub tr] the node
   state last published to the cluster (Working at start); [obs_at cfg h o] what operation o
   shows when issued after history h. *)
From Coq Require Import Sorted.
From Cell2V Require Import Common.Tac Common.ListX Common.AList C12.Model C12.Spec C12.Proofs.

(* [obs_at] is what [run] emits at that position, for every history. *)
Theorem C12_run_snoc : forall cfg h o, run cfg (h ++ [o]) = run cfg h ++ [obs_at cfg h o].
Proof. exact run_snoc. Qed.
Print Assumptions C12_run_snoc.

(* retire (either spelling) is accepted only while working or retiring and only if every
   hosted service has declared retirement support *)
Theorem C12_retire_guard : forall cfg h o,
  is_retire_cmd o = true -> reply_of (obs_at cfg h o) = ROk ->
  (last_pub (run cfg h) = Working \/ last_pub (run cfg h) = Retiring) /\
  forall n, hosted cfg n = true -> declared cfg h n = true.
Proof. exact retire_guard. Qed.
Print Assumptions C12_retire_guard.

(* ... and exactly then (a node hosting no service at all never retires) *)
Theorem C12_retire_accept_iff : forall cfg h o,
  is_retire_cmd o = true ->
  (reply_of (obs_at cfg h o) = ROk <->
   (last_pub (run cfg h) = Working \/ last_pub (run cfg h) = Retiring) /\ cfg <> [] /\
   forall n, hosted cfg n = true -> declared cfg h n = true).
Proof. exact retire_accept_iff. Qed.
Print Assumptions C12_retire_accept_iff.

(* an accepted retire publishes Retiring (and nothing else) and tells every hosted service that
   can be resolved at that moment to retire - and nobody else.  (When nothing is hidden that is
   every hosted service; re-issuing retire once a service is resolvable again reaches it.) *)
Theorem C12_retire_tells_all : forall cfg h o,
  is_retire_cmd o = true -> reply_of (obs_at cfg h o) = ROk ->
  evs_of (obs_at cfg h o) = [EPub Retiring] /\
  sends_of (obs_at cfg h o) = retire_sends cfg (final cfg h) /\
  (forall n, hosted cfg n = true -> hidden h n = false -> In (n, KRetire) (sends_of (obs_at cfg h o))) /\
  (forall x, In x (sends_of (obs_at cfg h o)) ->
             snd x = KRetire /\ hosted cfg (fst x) = true /\ hidden h (fst x) = false).
Proof. exact retire_tells_all. Qed.
Print Assumptions C12_retire_tells_all.

(* a hosted service that has not itself reported retired is never counted as retired - also
   when it was unresolvable while retire was handled and was therefore skipped: its entry stays
   Working and the node stays below Retired (so exit stays refused, by C12_exit_guard) *)
Theorem C12_unreported_not_retired : forall cfg h n,
  hosted cfg n = true -> reported h n = false ->
  rank (last_pub (run cfg h)) < 3 /\
  aget n (svcs (final cfg h)) = Some (Working, declared cfg h n).
Proof. exact unreported_not_retired. Qed.
Print Assumptions C12_unreported_not_retired.

(* a topology publication - a service left out / listed again, cluster membership changed -
   replaces the directory and changes nothing else of the controller; it shows the directory *)
Theorem C12_hide_show_frame : forall cfg h o,
  is_topo o = true ->
  nst (final cfg (h ++ [o])) = nst (final cfg h) /\ svcs (final cfg (h ++ [o])) = svcs (final cfg h) /\
  sup (final cfg (h ++ [o])) = sup (final cfg h) /\ pend (final cfg (h ++ [o])) = pend (final cfg h) /\
  obs_at cfg h o = Ob (RDir (dir (final cfg (h ++ [o])))) [] [].
Proof. exact topo_frame. Qed.
Print Assumptions C12_hide_show_frame.

(* the service directory, for every history: a topology publication lists exactly the hosted
   services it does not leave out and stamps each with the node state published last at that
   moment; every other operation - the node publishing a new state included - leaves the
   directory untouched, so the copies go stale (a node that is retiring keeps being listed as
   working until the next membership change, and as retiring from then on) *)
Theorem C12_directory_view : forall cfg h o,
  (is_topo o = true -> forall n,
     aget n (dir (final cfg (h ++ [o]))) =
     if hosted cfg n && negb (hidden (h ++ [o]) n) then Some (last_pub (run cfg h)) else None) /\
  (is_topo o = false -> dir (final cfg (h ++ [o])) = dir (final cfg h)).
Proof. exact directory_view. Qed.
Print Assumptions C12_directory_view.

(* name resolution for the controller (App.GetService) does not look at the state copy: a
   hosted service is found iff the topology lists it (and a process runs under its name) *)
Theorem C12_resolution_ignores_state : forall cfg h n,
  resolvable cfg (final cfg h) n = present cfg n && negb (hidden h n) /\
  is_some (aget n (dir (final cfg h))) = hosted cfg n && negb (hidden h n).
Proof. exact resolution_ignores_state. Qed.
Print Assumptions C12_resolution_ignores_state.

(* command delivery to hosted services is independent of the published state of the node:
   an accepted retire is sent to every hosted service the directory lists, whatever state copy
   the entry carries (working, retiring, ...) ... *)
Theorem C12_retire_delivery_any_state : forall cfg h o n st,
  is_retire_cmd o = true -> reply_of (obs_at cfg h o) = ROk ->
  hosted cfg n = true -> aget n (dir (final cfg h)) = Some st ->
  In (n, KRetire) (sends_of (obs_at cfg h o)).
Proof. exact retire_delivery_any_state. Qed.
Print Assumptions C12_retire_delivery_any_state.

(* ... and, for every history: take the membership changes (topology rebuilds) out, wherever
   they stand - between or during retire, the retired notifications, exit, the stop - and every
   other operation shows exactly what it showed with them: same replies, same published states,
   same services told *)
Theorem C12_rebuild_unobservable : forall cfg h,
  run cfg (erase_topo h) = erase_obs h (run cfg h).
Proof. exact rebuild_unobservable. Qed.
Print Assumptions C12_rebuild_unobservable.

(* the node is (published as) retired or beyond only after every hosted service has reported
   retired - and as soon as all of them have *)
Theorem C12_retired_only_after_all : forall cfg h,
  3 <= rank (last_pub (run cfg h)) <->
  cfg <> [] /\ forall n, hosted cfg n = true -> reported h n = true.
Proof. exact retired_iff. Qed.
Print Assumptions C12_retired_only_after_all.

(* a "retired" report is never lost: whatever follows it - a retire accepted (again), refused
   commands, queries, topology changes - the service stays booked as retired; together with
   C12_retired_only_after_all: once the last hosted service has reported, in whatever order
   reports and retire commands came, the node is published as retired (or beyond) *)
Theorem C12_reports_are_kept : forall cfg h k n,
  hosted cfg n = true -> reported h n = true ->
  aget n (svcs (final cfg (h ++ k))) = Some (Retired, declared cfg (h ++ k) n).
Proof. exact reports_are_kept. Qed.
Print Assumptions C12_reports_are_kept.

(* retirement support is declared by answering the support query with "ok" and by nothing else:
   an operation that asks nobody (a notification - also "retired" from a service that never
   declared support -, a command, a topology change) changes no declaration and not the node's
   readiness to retire *)
Theorem C12_support_only_by_query : forall cfg h o,
  (forall n, asks o n = false) ->
  (forall n, declared cfg (h ++ [o]) n = declared cfg h n) /\
  sup (final cfg (h ++ [o])) = sup (final cfg h).
Proof. exact support_only_by_query. Qed.
Print Assumptions C12_support_only_by_query.

(* exit (either spelling) is accepted exactly when retired; it publishes Exiting and stops the node *)
Theorem C12_exit_guard : forall cfg h o,
  is_exit_cmd o = true ->
  (reply_of (obs_at cfg h o) = ROk <-> last_pub (run cfg h) = Retired) /\
  (reply_of (obs_at cfg h o) = ROk ->
   evs_of (obs_at cfg h o) = [EPub Exiting; EStop] /\ sends_of (obs_at cfg h o) = []).
Proof. exact exit_guard. Qed.
Print Assumptions C12_exit_guard.

(* StopNode at most once per history, and exactly once per accepted exit *)
Theorem C12_stop_once : forall cfg h,
  (stops (run cfg h) <= 1)%nat /\ stops (run cfg h) = accepted_exits h (run cfg h).
Proof. exact stop_once. Qed.
Print Assumptions C12_stop_once.

(* the sequence of published node states never moves backwards
   (working <= retiring <= retired <= exiting <= exited) *)
Theorem C12_publish_monotone : forall cfg h,
  StronglySorted rank_le (Working :: pubs (run cfg h)).
Proof. exact publish_monotone. Qed.
Print Assumptions C12_publish_monotone.

(* the published state is the controller's state (what stat / refusals / web_nodes name) *)
Theorem C12_state_published : forall cfg h, nst (final cfg h) = last_pub (run cfg h).
Proof. exact state_published. Qed.
Print Assumptions C12_state_published.

(* the controller's per-service table is exactly what the services have said *)
Theorem C12_services_view : forall cfg h n,
  aget n (svcs (final cfg h)) =
  if hosted cfg n then Some (if reported h n then Retired else Working, declared cfg h n) else None.
Proof. exact services_view. Qed.
Print Assumptions C12_services_view.

(* refused commands (and the read-only ones) change nothing: same controller state, nothing
   published, nothing sent ... *)
Theorem C12_refused_noop : forall cfg h c,
  reply_of (obs_at cfg h (OCmd c)) <> ROk ->
  final cfg (h ++ [OCmd c]) = final cfg h /\ evs_of (obs_at cfg h (OCmd c)) = [] /\
  sends_of (obs_at cfg h (OCmd c)) = [].
Proof. exact refused_noop. Qed.
Print Assumptions C12_refused_noop.

(* ... hence whatever follows is observed exactly as if the command had not been issued *)
Theorem C12_refused_unobservable : forall cfg h c k,
  reply_of (obs_at cfg h (OCmd c)) <> ROk ->
  exists tail, run cfg (h ++ k) = run cfg h ++ tail /\
               run cfg (h ++ OCmd c :: k) = run cfg h ++ obs_at cfg h (OCmd c) :: tail.
Proof. exact refused_unobservable. Qed.
Print Assumptions C12_refused_unobservable.

(* notifications and queries naming a service the node does not host change nothing *)
Theorem C12_unknown_service_noop : forall cfg h o,
  about_unknown cfg o = true ->
  final cfg (h ++ [o]) = final cfg h /\ evs_of (obs_at cfg h o) = [] /\ sends_of (obs_at cfg h o) = [].
Proof. exact unknown_service_noop. Qed.
Print Assumptions C12_unknown_service_noop.

(* the node's service list may contain entries the services section does not define (a
   leftover, a typo): they are invisible.  The hosted services - every theorem above quantifies
   over them: enumerated by web_nodes, asked for support, told to retire, waited for - are the
   defined entries in list order, an undefined entry at any position (first, between two
   services, last, repeated) changes nothing, and every history runs exactly as on the list
   without them. *)
Theorem C12_undefined_entries_invisible : forall nl : nodelist,
  names (defined nl) = map fst (filter is_defined nl) /\
  (forall a n b, defined (a ++ (n, None) :: b) = defined (a ++ b)) /\
  forall h, run (defined nl) h = run (defined (filter is_defined nl)) h.
Proof. exact undefined_entries_invisible. Qed.
Print Assumptions C12_undefined_entries_invisible.

(* the executable monitor (Spec.check at every position) accepts every trace of the model:
   a monitor failure on an implementation trace is a behaviour the proven model excludes *)
Theorem C12_monitor_accepts_model : forall cfg h, holds cfg h (run cfg h) = true.
Proof. exact holds_model. Qed.
Print Assumptions C12_monitor_accepts_model.

(* ---- non-vacuity ---- *)
(* the full life cycle with two services, an early refused retire, a repeated notification
   while exiting (the history of defect F6) and a second exit *)
Example C12_example_cycle :
  run [(1, DOk); (2, DOk)]
      [OCmd CRetire; OQuery 1; OCmd CRetire; OQueryAll; OCmd CRetire; OSvcCmd 2 SRetired;
       OCmd CExit; ONotify 1; OCmd CExit; OSvcCmd 1 SRetired; OCmd CStat; OCmd CExit;
       OStopDone true; OSvcCmd 2 SRetired; OCmd CWebNodes]
  = [Ob RNoSupport [] []; Ob RNone [] [(1, KQuery)]; Ob RNoSupport [] [];
     Ob RNone [] [(1, KQuery); (2, KQuery)];
     Ob ROk [EPub Retiring] [(1, KRetire); (2, KRetire)]; Ob ROk [] [];
     Ob (RBadState Retiring) [] []; Ob RNone [EPub Retired] [];
     Ob ROk [EPub Exiting; EStop] []; Ob ROk [] []; Ob (RStat Exiting) [] [];
     Ob (RBadState Exiting) [] []; Ob RNone [EPub Exited] []; Ob ROk [] [];
     Ob (RNodes Exited [(1, (Retired, true)); (2, (Retired, true))]) [] []].
Proof. vm_compute. reflexivity. Qed.

(* the hypotheses of the guards are met: an accepted retire and an accepted exit exist *)
Example C12_example_accepts :
  let cfg := [(1, DOk); (2, DOk)] in
  let h := [OQueryAll] in
  let h2 := [OQueryAll; OCmd CRetire; OSvcCmd 1 SRetired; OSvcCmd 2 SRetired] in
  reply_of (obs_at cfg h (OCmd CRetire)) = ROk /\ reply_of (obs_at cfg h2 (OCmd CWebExit)) = ROk
  /\ stops (run cfg (h2 ++ [OCmd CExit; OCmd CExit])) = 1%nat
  /\ pubs (run cfg (h2 ++ [OCmd CExit; OStopDone true])) = [Retiring; Retired; Exiting; Exited].
Proof. vm_compute. repeat split; reflexivity. Qed.

(* a service without retirement support keeps the node working; a refused command is refused
   with the state named *)
Example C12_example_refusals :
  run [(1, DOk); (2, DNo); (3, DAbsent)] [OQueryAll; OCmd CWebRetire; OCmd CExit; OSvcCmd 9 SRetired; OCmd COther]
  = [Ob RNone [] [(1, KQuery); (2, KQuery)]; Ob RNoSupport [] []; Ob (RBadState Working) [] [];
     Ob ROk [] []; Ob RUnknown [] []].
Proof. vm_compute. reflexivity. Qed.

(* a service that cannot be resolved exactly while retire is handled is skipped, not told and
   not counted: the node stays Retiring after the other service reported, exit is refused;
   retire re-issued once it is resolvable again reaches it, and only its own notification makes
   the node Retired.  A service hidden while the start-up query runs never declares support. *)
Example C12_example_unresolvable :
  run [(1, DOk); (2, DOk)]
      [OQueryAll; OHide 2; OCmd CRetire; OShow 2; OSvcCmd 1 SRetired; OCmd CExit; OCmd CWebNodes;
       OCmd CRetire; OSvcCmd 2 SRetired; OCmd CExit]
  = [Ob RNone [] [(1, KQuery); (2, KQuery)]; Ob (RDir [(1, Working)]) [] [];
     Ob ROk [EPub Retiring] [(1, KRetire)]; Ob (RDir [(1, Retiring); (2, Retiring)]) [] []; Ob ROk [] [];
     Ob (RBadState Retiring) [] [];
     Ob (RNodes Retiring [(1, (Retired, true)); (2, (Working, true))]) [] [];
     Ob ROk [EPub Retiring] [(1, KRetire); (2, KRetire)]; Ob ROk [EPub Retired] [];
     Ob ROk [EPub Exiting; EStop] []]
  /\ run [(1, DOk)] [OHide 1; OQueryAll; OShow 1; OCmd CRetire; OQuery 1; OCmd CRetire]
  = [Ob (RDir []) [] []; Ob RNone [] []; Ob (RDir [(1, Working)]) [] []; Ob RNoSupport [] [];
     Ob RNone [] [(1, KQuery)]; Ob ROk [EPub Retiring] [(1, KRetire)]].
Proof. vm_compute. split; reflexivity. Qed.

(* cluster membership changes during the life cycle: after the first retire the directory
   still says working; another node joins, the own services are re-published as retiring; the
   operator repeats retire (accepted: already retiring) and BOTH services are told again; the
   same after the node is retired / exiting.  Erasing the membership changes leaves the rest of
   the trace as it is. *)
Example C12_example_rebuilds :
  let cfg := [(1, DOk); (2, DOk)] in
  let h := [OQueryAll; OCmd CRetire; OCmd CRetire; OTopo 1; OCmd CRetire; OSvcCmd 1 SRetired; OTopo 2;
            OCmd CWebRetire; ONotify 2; OTopo 1; OCmd CExit; OTopo 0; OStopDone true; OTopo 3] in
  run cfg h
  = [Ob RNone [] [(1, KQuery); (2, KQuery)];
     Ob ROk [EPub Retiring] [(1, KRetire); (2, KRetire)];
     Ob ROk [EPub Retiring] [(1, KRetire); (2, KRetire)];
     Ob (RDir [(1, Retiring); (2, Retiring)]) [] [];
     Ob ROk [EPub Retiring] [(1, KRetire); (2, KRetire)];
     Ob ROk [] [];
     Ob (RDir [(1, Retiring); (2, Retiring)]) [] [];
     Ob ROk [EPub Retiring] [(1, KRetire); (2, KRetire)];
     Ob RNone [EPub Retired] [];
     Ob (RDir [(1, Retired); (2, Retired)]) [] [];
     Ob ROk [EPub Exiting; EStop] [];
     Ob (RDir [(1, Exiting); (2, Exiting)]) [] [];
     Ob RNone [EPub Exited] [];
     Ob (RDir [(1, Exited); (2, Exited)]) [] []]
  /\ erase_topo h = [OQueryAll; OCmd CRetire; OCmd CRetire; OCmd CRetire; OSvcCmd 1 SRetired;
                     OCmd CWebRetire; ONotify 2; OCmd CExit; OStopDone true]
  /\ dir (final cfg [OQueryAll; OCmd CRetire]) = [(1, Working); (2, Working)]
  /\ holds cfg h (run cfg h) = true.
Proof. vm_compute. repeat split; reflexivity. Qed.

(* reports and retire commands in any order: a report before the (repeated) retire is kept, the
   node is retired as soon as the last service has reported; a "retired" notification from a
   service that answered the support query with "no" does not make retire acceptable *)
Example C12_example_orders :
  run [(1, DOk); (2, DOk)]
      [OQueryAll; OCmd CRetire; OSvcCmd 1 SRetired; OCmd CRetire; OSvcCmd 2 SRetired; OCmd CExit]
  = [Ob RNone [] [(1, KQuery); (2, KQuery)]; Ob ROk [EPub Retiring] [(1, KRetire); (2, KRetire)];
     Ob ROk [] []; Ob ROk [EPub Retiring] [(1, KRetire); (2, KRetire)]; Ob ROk [EPub Retired] [];
     Ob ROk [EPub Exiting; EStop] []]
  /\ run [(1, DOk); (2, DOk)] [OQueryAll; ONotify 1; OCmd CWebRetire; OSvcCmd 2 SRetired; OCmd CWebNodes]
  = [Ob RNone [] [(1, KQuery); (2, KQuery)]; Ob RNone [] [];
     Ob ROk [EPub Retiring] [(1, KRetire); (2, KRetire)]; Ob ROk [EPub Retired] [];
     Ob (RNodes Retired [(1, (Retired, true)); (2, (Retired, true))]) [] []]
  /\ run [(1, DOk); (2, DNo)] [OQueryAll; OCmd CRetire; OSvcCmd 2 SRetired; OCmd CRetire; OCmd CWebNodes]
  = [Ob RNone [] [(1, KQuery); (2, KQuery)]; Ob RNoSupport [] []; Ob ROk [] []; Ob RNoSupport [] [];
     Ob (RNodes Working [(1, (Working, true)); (2, (Retired, false))]) [] []].
Proof. vm_compute. repeat split; reflexivity. Qed.
