(* C12 - the property, phrased over the operation history and the observed trace only (no
   model state): history functions, trace functions, and the executable per-position check
   [check] / whole-trace monitor [holds] that is run on the implementation's own traces.
   No proofs in this file. *)
From Cell2V Require Import Common.Tac Common.ListX Common.AList C12.Model.

(* ---- history functions: what the services have said so far ---- *)

(* operation o asks service n "queryretire" - if n can be resolved at that moment *)
Definition asks (o : op) (n : Z) : bool :=
  match o with OQueryAll => true | OQuery m => Z.eqb m n | _ => false end.

(* one pass over the history for service n: (hidden right now?, has been asked while resolvable?) *)
Definition hq_step (n : Z) (acc : bool * bool) (o : op) : bool * bool :=
  (match o with
   | OHide m => if Z.eqb m n then true else fst acc
   | OShow m => if Z.eqb m n then false else fst acc
   | _ => fst acc
   end,
   snd acc || (asks o n && negb (fst acc))).
Definition hq (h : list op) (n : Z) : bool * bool := fold_left (hq_step n) h (false, false).

(* GetService(n) is currently made to answer nil *)
Definition hidden (h : list op) (n : Z) : bool := fst (hq h n).
(* service n has been asked "queryretire" at a moment it was not hidden (and its ack processed) *)
Definition queried (h : list op) (n : Z) : bool := snd (hq h n).

(* service n has declared retirement support: it was asked and its answer is "ok" *)
Definition declared (cfg : config) (h : list op) (n : Z) : bool := answers_ok cfg n && queried h n.

(* a "retired" notification carrying the name n has been delivered *)
Definition reports (o : op) (n : Z) : bool :=
  match o with OSvcCmd m SRetired | ONotify m => Z.eqb m n | _ => false end.
Definition reported (h : list op) (n : Z) : bool := existsb (fun o => reports o n) h.

Definition all_declared (cfg : config) (h : list op) : bool := forallb (declared cfg h) (names cfg).
Definition all_reported (cfg : config) (h : list op) : bool := forallb (reported h) (names cfg).

Definition is_nil {A} (l : list A) : bool := match l with [] => true | _ => false end.

Definition is_retire_cmd (o : op) : bool :=
  match o with OCmd CRetire | OCmd CWebRetire => true | _ => false end.
Definition is_exit_cmd (o : op) : bool :=
  match o with OCmd CExit | OCmd CWebExit => true | _ => false end.

(* the cluster provider publishes a topology: the node's service directory is replaced *)
Definition is_topo (o : op) : bool :=
  match o with OHide _ | OShow _ | OTopo _ => true | _ => false end.
(* ... because cluster membership changed, the own member's service list being what it was *)
Definition is_rebuild (o : op) : bool := match o with OTopo _ => true | _ => false end.

(* a history with the membership changes taken out, and the matching projection of a trace *)
Definition erase_topo (h : list op) : list op := filter (fun o => negb (is_rebuild o)) h.
Fixpoint erase_obs (h : list op) (tr : list obs) : list obs :=
  match h, tr with
  | o :: h', b :: tr' => if is_rebuild o then erase_obs h' tr' else b :: erase_obs h' tr'
  | _, _ => []
  end.

(* ---- trace functions ---- *)
Definition reply_of (b : obs) : reply := match b with Ob r _ _ => r end.
Definition evs_of (b : obs) : list aev := match b with Ob _ e _ => e end.
Definition sends_of (b : obs) : list (Z * kcmd) := match b with Ob _ _ s => s end.

Definition pubs_evs (evs : list aev) : list nstate :=
  flat_map (fun e => match e with EPub s => [s] | EStop => [] end) evs.
Definition pubs_ob (b : obs) : list nstate := pubs_evs (evs_of b).
(* every node state published so far, in order *)
Definition pubs (tr : list obs) : list nstate := flat_map pubs_ob tr.
(* the state the cluster currently sees (a node starts as Working) *)
Definition last_pub (tr : list obs) : nstate := last (pubs tr) Working.

Definition stops_evs (evs : list aev) : nat :=
  length (filter (fun e => match e with EStop => true | _ => false end) evs).
Definition stops_ob (b : obs) : nat := stops_evs (evs_of b).
Definition stops (tr : list obs) : nat := fold_right (fun b k => (stops_ob b + k)%nat) 0%nat tr.

Fixpoint mono_from (s : nstate) (l : list nstate) : bool :=
  match l with
  | [] => true
  | x :: r => (rank s <=? rank x) && mono_from x r
  end.

Definition is_ok (r : reply) : bool := match r with ROk => true | _ => false end.

(* exit commands that were accepted, position by position *)
Fixpoint accepted_exits (h : list op) (tr : list obs) : nat :=
  match h, tr with
  | o :: h', b :: tr' =>
      ((if is_exit_cmd o && is_ok (reply_of b) then 1 else 0) + accepted_exits h' tr')%nat
  | _, _ => 0%nat
  end.

(* ---- the executable check ---- *)
Definition aev_eqb (a b : aev) : bool :=
  match a, b with
  | EPub x, EPub y => nstate_eqb x y
  | EStop, EStop => true
  | _, _ => false
  end.

Definition is_kretire (k : kcmd) : bool := match k with KRetire => true | _ => false end.
Definition is_kquery (k : kcmd) : bool := match k with KQuery => true | _ => false end.

(* every hosted service that can be resolved right now is among the receivers of "retire" *)
Definition told (cfg : config) (h : list op) (sends : list (Z * kcmd)) : bool :=
  forallb (fun n => hidden h n || existsb (fun x => Z.eqb (fst x) n && is_kretire (snd x)) sends)
          (names cfg).

(* after a topology publication (history h' includes it) the directory lists exactly the hosted
   services the topology does not leave out, each stamped with the node state last published *)
Definition dir_lists (cfg : config) (h' : list op) (cur : nstate) (l : list (Z * nstate)) : bool :=
  forallb (fun n => match aget n l with
                    | Some st => negb (hidden h' n) && nstate_eqb st cur
                    | None => hidden h' n
                    end) (names cfg)
  && forallb (fun kv => hosted cfg (fst kv)) l.

(* a reply that names the node state names the state last published *)
Definition names_state (cur : nstate) (r : reply) : bool :=
  match r with
  | RStat s | RBadState s | RNodes s _ => nstate_eqb s cur
  | _ => true
  end.

(* what web_nodes tells the operator about the hosted services is what the services said:
   exactly the hosted services are listed; one is shown as retired iff a "retired" notification
   naming it was delivered (whenever that was: before, between or after retire commands), and as
   supporting retirement iff it declared so in answer to the support query - no notification,
   command or topology change books support.  (What a not yet retired service is shown as is
   left open.) *)
Definition nodes_view (cfg : config) (h : list op) (l : list (Z * (nstate * bool))) : bool :=
  forallb (fun n => match aget n l with
                    | Some (st, sp) => Bool.eqb (nstate_eqb st Retired) (reported h n)
                                       && Bool.eqb sp (declared cfg h n)
                    | None => false
                    end) (names cfg)
  && forallb (fun kv => hosted cfg (fst kv)) l.

Definition reply_view (cfg : config) (h : list op) (r : reply) : bool :=
  match r with RNodes _ l => nodes_view cfg h l | _ => true end.

(* what is specific to the kind of operation; cur = the state last published before it *)
Definition check_op (cfg : config) (h : list op) (cur : nstate) (o : op)
           (r : reply) (evs : list aev) (sends : list (Z * kcmd)) : bool :=
  match o with
  | OCmd _ =>
      if is_ok r then
        if is_retire_cmd o then
          (* accepted only while working/retiring and only if every hosted service has
             declared support; then every resolvable hosted service is told, and nobody else
             (an unresolvable one is skipped - and stays un-retired, see the Retired clause) *)
          (nstate_eqb cur Working || nstate_eqb cur Retiring)
          && all_declared cfg h && told cfg h sends
          && forallb (fun x => is_kretire (snd x) && hosted cfg (fst x) && negb (hidden h (fst x))) sends
          && list_eqb aev_eqb evs [EPub Retiring]
        else if is_exit_cmd o then
          (* accepted only when retired *)
          nstate_eqb cur Retired && list_eqb aev_eqb evs [EPub Exiting; EStop] && is_nil sends
        else false
      else
        (* refused (or read-only) commands change nothing *)
        is_nil evs && is_nil sends
  | OQueryAll | OQuery _ =>
      match r with RNone => true | _ => false end && is_nil evs
      && forallb (fun x => is_kquery (snd x) && hosted cfg (fst x) && asks o (fst x)
                           && negb (hidden h (fst x))) sends
      (* the support query reaches every hosted service it is meant for that runs and can be
         resolved: the services the controller enumerates are the services the node started *)
      && forallb (fun n => negb (asks o n) || hidden h n || negb (present cfg n)
                           || existsb (fun x => Z.eqb (fst x) n && is_kquery (snd x)) sends) (names cfg)
  | OSvcCmd _ _ | ONotify _ | OStopDone _ => is_nil sends
  | OHide _ | OShow _ | OTopo _ =>
      (* a topology publication changes the directory and nothing else: nothing is published
         by the node, nobody is sent anything *)
      match r with RDir l => dir_lists cfg (h ++ [o]) cur l | _ => false end && is_nil evs && is_nil sends
  end.

(* [check cfg h tr o b]: operation o, issued after history h whose trace was tr, may show b *)
Definition check (cfg : config) (h : list op) (tr : list obs) (o : op) (b : obs) : bool :=
  let cur := last_pub tr in
  (* published node states only move forward *)
  mono_from cur (pubs_ob b)
  (* StopNode is called by an accepted exit and by nothing else, at most once per history *)
  && Nat.eqb (stops_ob b) (if is_exit_cmd o && is_ok (reply_of b) then 1 else 0)
  && Nat.leb (stops tr + stops_ob b) 1
  (* the node reports itself retired only after every hosted service has reported retired *)
  && (if existsb (nstate_eqb Retired) (pubs_ob b) then all_reported cfg (h ++ [o]) else true)
  (* a reply that names the node state names the state last published *)
  && names_state cur (reply_of b)
  && check_op cfg h cur o (reply_of b) (evs_of b) (sends_of b)
  (* ... and it does report itself retired (or is beyond) as soon as every hosted service has:
     once the last of them has reported - in whatever order the reports and the retire commands,
     accepted or refused, repeated or not, came - the state published last is retired or later *)
  && (if negb (is_nil cfg) && all_reported cfg (h ++ [o])
      then 3 <=? rank (last (pubs_ob b) cur) else true)
  (* web_nodes shows the services as they reported / declared *)
  && reply_view cfg h (reply_of b).

Fixpoint holds_from (cfg : config) (hist : list op) (tr : list obs) (ops : list op) (bs : list obs) : bool :=
  match ops, bs with
  | [], [] => true
  | o :: r, b :: br => check cfg hist tr o b && holds_from cfg (hist ++ [o]) (tr ++ [b]) r br
  | _, _ => false
  end.

Definition holds (cfg : config) (ops : list op) (bs : list obs) : bool := holds_from cfg [] [] ops bs.
