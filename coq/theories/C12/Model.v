(* C12 - model of nodectrl.NodeCtrl (nodectrl/{nodectrl,cmds,service_entry}.go) together with
   the two ends of its protocol: node/builtin/ctrlcmd.go (a hosted service answering
   ctrl.cmd) and node/app/stateutils.go (a service reporting "retired").  The code modelled is
   the REPAIRED code (hooks/C12-fix-retired-only-advances.patch).  No proofs in this file.

   Go -> model:
     NodeCtrl.state          define.NodeState                nstate (Init is never reached)
     NodeCtrl.services       map[string]*ServiceState        alist (nstate * bool), sorted by name token
     NodeCtrl.retireSupport  bool                            sup
     INodeApp.StopNode(fin)  callbacks not yet called back   pend (their number)
     INodeApp.FilterSelfServices / GetService                config: (name token, disposition) in
                                                             configuration order; the first entry
                                                             of a name decides its disposition
   A hosted service's disposition is how it answers ctrl.cmd "queryretire":
     DAbsent      configured on the node but GetService returns nil (sendCmd logs and returns)
     DNoListener  no ICtrlCmdListener: CtrlEventEntry answers "no listener"
     DNo          listener answers something other than "ok"
     DOk          listener answers "ok"   (the service declares retirement support)
     DErr         the request fails (sendCmd's err != nil branch)
   The 3 s start-up timer is replaced by explicit operations OQueryAll (checkRetireSupport)
   and OQuery n (queryRetire for one service: one ack arriving on its own).
   INodeApp is node/app.App (app.go) over its service directory (cluster.go,
   clusterservices.go):
     App.FilterSelfServices                  names cfg (configuration order)
     ClusterServices.services                dir: alist nstate - the node's own services the
       map[string]*ServiceItem                 directory lists, each with ServiceItem.State, a
                                               COPY of the node state taken when the topology
                                               was last rebuilt (MakeMembers / addService)
     App.GetService(n) != nil                the directory lists n - WHATEVER state the entry
                                               carries ([resolvable]; GetWorkServicePID, for
                                               routing, is the one that looks at the state)
     App.UpdateNodeState -> provider         EPub: the provider records the node's own state
       .UpdateClusterState                     (etcd provider: self.State = state) and does NOT
                                               rebuild the topology
   The directory is replaced wholesale whenever the cluster provider publishes a topology:
     OTopo k     cluster membership changed (k other members now): the topology is rebuilt, the
                 own member included - its services are re-published with the node's CURRENT
                 state (publishClusterTopologyEvent -> Cluster.UpdateClusterTopology)
     OHide n /   the provider publishes a topology whose own member lacks / again has service
     OShow n     n: GetService(n) answers nil until it is shown again; the service itself keeps
                 running (it can still report "retired").  [hid] is the set of names currently
                 left out; sendCmd skips an unresolvable service and does nothing else.
   All three are topology publications and show the directory they leave behind (RDir). *)
From Cell2V Require Import Common.Tac Common.ListX Common.AList.

Inductive nstate := Working | Retiring | Retired | Exiting | Exited.

Definition rank (s : nstate) : Z :=
  match s with Working => 1 | Retiring => 2 | Retired => 3 | Exiting => 4 | Exited => 5 end.

Definition nstate_eqb (a b : nstate) : bool := Z.eqb (rank a) (rank b).

Inductive disp := DAbsent | DNoListener | DNo | DOk | DErr.
Definition config := list (Z * disp).

Definition names (cfg : config) : list Z := map fst cfg.

Fixpoint disp_of (cfg : config) (n : Z) : option disp :=
  match cfg with
  | [] => None
  | (k, d) :: r => if Z.eqb n k then Some d else disp_of r n
  end.

Definition hosted (cfg : config) (n : Z) : bool :=
  match disp_of cfg n with Some _ => true | None => false end.
(* GetService(name) != nil *)
Definition present (cfg : config) (n : Z) : bool :=
  match disp_of cfg n with Some DAbsent | None => false | Some _ => true end.
(* the service's ack to "queryretire" is "ok" *)
Definition answers_ok (cfg : config) (n : Z) : bool :=
  match disp_of cfg n with Some DOk => true | _ => false end.

(* The node's service list (nodes.yaml, nodes.<id>.Services) names services; the services
   section defines a name (gives it a type - here: a disposition) or does not (a leftover, a
   typo).  App.StartServices starts, Cluster.makeFullNameServices advertises and
   App.FilterSelfServices hands to the controller exactly the DEFINED entries, in list order:
   they are the configuration [config] everything else is stated over. *)
Definition nodelist := list (Z * option disp).
Definition defined (nl : nodelist) : config :=
  flat_map (fun e => match snd e with Some d => [(fst e, d)] | None => [] end) nl.
Definition is_defined (e : Z * option disp) : bool := match snd e with Some _ => true | None => false end.

Inductive cmd := CStat | CRetire | CExit | CWebNodes | CWebRetire | CWebExit | COther.
Inductive scmd := SRetired | SOther.

Inductive op :=
| OCmd (c : cmd)              (* master -> admin  ctrl.cmd *)
| OQueryAll                   (* checkRetireSupport, every ack processed *)
| OQuery (n : Z)              (* queryRetire for hosted service n, its ack processed *)
| OSvcCmd (n : Z) (k : scmd)  (* ctrl.servicecmd {Name n, Cmd retired|other}, reply observed *)
| ONotify (n : Z)             (* app.NotifyServiceRetired from the service named n *)
| OStopDone (succ : bool)     (* the oldest outstanding StopNode callback is called with succ *)
| OHide (n : Z)               (* topology published without own service n: GetService(n) answers nil *)
| OShow (n : Z)               (* topology published with n again: GetService(n) answers its PID *)
| OTopo (k : Z).              (* membership changed (k other members): topology rebuilt, own services
                                 re-published with the node's current state *)

Inductive reply :=
| RNone                                          (* the operation has no reply *)
| ROk                                            (* "ok" *)
| RStat (s : nstate)                             (* "state: <s>, running passed: .." *)
| RNodes (s : nstate) (l : list (Z * (nstate * bool)))  (* web_nodes: status + services map *)
| RDir (l : list (Z * nstate))                   (* the directory's entries for the own services *)
| RBadState (s : nstate)                         (* "beginRetire/beginExit failed, error state: <s>" *)
| RNoSupport                                     (* "some service not support retire" *)
| RUnknown.                                      (* "<cmd> not support" *)

Inductive kcmd := KQuery | KRetire.              (* ctrl.cmd received by a hosted service *)
Inductive aev := EPub (s : nstate) | EStop.      (* UpdateNodeState(s) | StopNode(..) on INodeApp *)

(* what one operation shows: reply class, INodeApp calls in order, ctrl.cmd sent to services *)
Inductive obs := Ob (r : reply) (evs : list aev) (sends : list (Z * kcmd)).

Record state := mk {
  nst : nstate;
  svcs : alist (nstate * bool);   (* per service: State, RetireSupport *)
  sup : bool;                     (* retireSupport *)
  pend : nat;                     (* StopNode callbacks outstanding *)
  hid : list Z;                   (* environment: own services the published topology leaves out *)
  dir : alist nstate              (* the service directory: own services listed, with state copies *)
}.

Definition is_some {A} (x : option A) : bool := match x with Some _ => true | None => false end.

(* GetService(n) != nil right now (and a process runs under that name): the directory has an
   entry for n.  The state copy the entry carries plays no part. *)
Definition resolvable (cfg : config) (s : state) (n : Z) : bool :=
  present cfg n && is_some (aget n (dir s)).

(* MakeMembers on a topology whose own member has state st and lists every configured service
   except those in hd: one entry per name, stamped st *)
Definition publish (cfg : config) (st : nstate) (hd : list Z) : alist nstate :=
  fold_left (fun m n => if zmem n hd then m else aset n st m) (names cfg) [].

(* makeServices *)
Definition init_svcs (cfg : config) : alist (nstate * bool) :=
  fold_left (fun m n => aset n (Working, false) m) (names cfg) [].

(* the provider's StartMember publishes the first topology before NodeCtrl starts *)
Definition init (cfg : config) : state := mk Working (init_svcs cfg) false 0 [] (publish cfg Working []).

(* checkAllRetireSupport / isAllServiceRetired *)
Definition all_support (m : alist (nstate * bool)) : bool := forallb (fun kv => snd (snd kv)) m.
Definition all_retired (m : alist (nstate * bool)) : bool :=
  forallb (fun kv => nstate_eqb (fst (snd kv)) Retired) m.

(* queryRetire(name, v) followed by the processing of its ack *)
Definition query_one (cfg : config) (s : state) (n : Z) : state * list (Z * kcmd) :=
  match aget n (svcs s) with
  | None => (s, [])
  | Some (st, sp) =>
      if resolvable cfg s n then
        if answers_ok cfg n then
          let m := aset n (st, true) (svcs s) in
          (mk (nst s) m (all_support m) (pend s) (hid s) (dir s), [(n, KQuery)])
        else (s, [(n, KQuery)])
      else (s, [])
  end.

Fixpoint query_list (cfg : config) (s : state) (l : list Z) : state * list (Z * kcmd) :=
  match l with
  | [] => (s, [])
  | n :: r =>
      let '(s1, o1) := query_one cfg s n in
      let '(s2, o2) := query_list cfg s1 r in
      (s2, o1 ++ o2)
  end.

(* SendCmdToAllSelfServices("retire"): configuration order, unresolvable services skipped *)
Definition retire_sends (cfg : config) (s : state) : list (Z * kcmd) :=
  flat_map (fun n => if resolvable cfg s n then [(n, KRetire)] else []) (names cfg).

(* onServiceRetired, repaired: the node state only ever advances *)
Definition service_retired (s : state) (n : Z) : state * list aev :=
  match aget n (svcs s) with
  | None => (s, [])
  | Some (_, sp) =>
      let m := aset n (Retired, sp) (svcs s) in
      if all_retired m && (rank (nst s) <? rank Retired)
      then (mk Retired m (sup s) (pend s) (hid s) (dir s), [EPub Retired])
      else (mk (nst s) m (sup s) (pend s) (hid s) (dir s), [])
  end.

Definition do_retire (cfg : config) (s : state) : state * obs :=
  match nst s with
  | Working | Retiring =>
      if sup s
      then (mk Retiring (svcs s) (sup s) (pend s) (hid s) (dir s), Ob ROk [EPub Retiring] (retire_sends cfg s))
      else (s, Ob RNoSupport [] [])
  | x => (s, Ob (RBadState x) [] [])
  end.

Definition do_exit (s : state) : state * obs :=
  match nst s with
  | Retired => (mk Exiting (svcs s) (sup s) (S (pend s)) (hid s) (dir s), Ob ROk [EPub Exiting; EStop] [])
  | x => (s, Ob (RBadState x) [] [])
  end.

(* the provider publishes a topology (own member: state nst s as last given to
   UpdateClusterState, services all but hd); nothing else of the node changes *)
Definition republish (cfg : config) (s : state) (hd : list Z) : state * obs :=
  let d := publish cfg (nst s) hd in
  (mk (nst s) (svcs s) (sup s) (pend s) hd d, Ob (RDir d) [] []).

Definition step (cfg : config) (s : state) (o : op) : state * obs :=
  match o with
  | OCmd CStat => (s, Ob (RStat (nst s)) [] [])
  | OCmd CWebNodes => (s, Ob (RNodes (nst s) (svcs s)) [] [])
  | OCmd COther => (s, Ob RUnknown [] [])
  | OCmd CRetire | OCmd CWebRetire => do_retire cfg s
  | OCmd CExit | OCmd CWebExit => do_exit s
  | OQueryAll =>
      let '(s1, snd) := query_list cfg s (akeys (svcs s)) in (s1, Ob RNone [] snd)
  | OQuery n =>
      let '(s1, snd) := query_one cfg s n in (s1, Ob RNone [] snd)
  | OSvcCmd n SOther => (s, Ob ROk [] [])
  | OSvcCmd n SRetired =>
      let '(s1, evs) := service_retired s n in (s1, Ob ROk evs [])
  | ONotify n =>
      let '(s1, evs) := service_retired s n in (s1, Ob RNone evs [])
  | OStopDone succ =>
      match pend s with
      | O => (s, Ob RNone [] [])
      | S p =>
          if succ then (mk Exited (svcs s) (sup s) p (hid s) (dir s), Ob RNone [EPub Exited] [])
          else (mk (nst s) (svcs s) (sup s) p (hid s) (dir s), Ob RNone [] [])
      end
  | OHide n => republish cfg s (if zmem n (hid s) then hid s else n :: hid s)
  | OShow n => republish cfg s (filter (fun k => negb (Z.eqb k n)) (hid s))
  | OTopo _ => republish cfg s (hid s)
  end.

Fixpoint run_from (cfg : config) (s : state) (ops : list op) : state * list obs :=
  match ops with
  | [] => (s, [])
  | o :: r =>
      let '(s1, b) := step cfg s o in
      let '(s2, bs) := run_from cfg s1 r in
      (s2, b :: bs)
  end.

Definition run (cfg : config) (ops : list op) : list obs := snd (run_from cfg (init cfg) ops).
Definition final (cfg : config) (ops : list op) : state := fst (run_from cfg (init cfg) ops).
Definition obs_at (cfg : config) (h : list op) (o : op) : obs := snd (step cfg (final cfg h) o).
