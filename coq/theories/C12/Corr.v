(* C12 - correspondence entry point.  A case is a flat list of items (so that it can be
   shrunk by dropping items): [Host n d] declares a configured service, [Ghost n] an entry of the
   node's service list that the services section does not define, [Do o] is an operation.  The
   node's service list is the Host and Ghost items in order, wherever they stand; the hosted
   services are its defined entries.
   The harness reports the ctrl.cmd messages received by the services sorted by service
   (stable), because the services run concurrently; the model's sends are sorted the same
   way before comparing. *)
From Cell2V Require Import Common.Tac Common.ListX Common.AList C12.Model C12.Spec.

Inductive item := Host (n : Z) (d : disp) | Ghost (n : Z) | Do (o : op).

(* the node's service list: Host = an entry the services section defines, Ghost = one it does not *)
Definition list_of (l : list item) : nodelist :=
  flat_map (fun i => match i with Host n d => [(n, Some d)] | Ghost n => [(n, None)] | Do _ => [] end) l.
Definition cfg_of (l : list item) : config := defined (list_of l).
Definition ops_of (l : list item) : list op :=
  flat_map (fun i => match i with Do o => [o] | _ => [] end) l.

Definition run_items (l : list item) : list obs := run (cfg_of l) (ops_of l).

(* stable insertion sort of sends by service token *)
Fixpoint ins_send (x : Z * kcmd) (l : list (Z * kcmd)) : list (Z * kcmd) :=
  match l with
  | [] => [x]
  | y :: r => if Z.ltb (fst x) (fst y) then x :: l else y :: ins_send x r
  end.
Definition sort_sends (l : list (Z * kcmd)) : list (Z * kcmd) := fold_left (fun acc x => ins_send x acc) l [].

Definition kcmd_eqb (a b : kcmd) : bool :=
  match a, b with KQuery, KQuery | KRetire, KRetire => true | _, _ => false end.


Definition svc_eqb (a b : Z * (nstate * bool)) : bool :=
  pair_eqb Z.eqb (pair_eqb nstate_eqb Bool.eqb) a b.

Definition reply_eqb (a b : reply) : bool :=
  match a, b with
  | RNone, RNone | ROk, ROk | RNoSupport, RNoSupport | RUnknown, RUnknown => true
  | RStat x, RStat y | RBadState x, RBadState y => nstate_eqb x y
  | RNodes x l, RNodes y m => nstate_eqb x y && list_eqb svc_eqb l m
  | RDir l, RDir m => list_eqb (pair_eqb Z.eqb nstate_eqb) l m
  | _, _ => false
  end.

Definition obs_eqb (a b : obs) : bool :=
  match a, b with
  | Ob r1 e1 s1, Ob r2 e2 s2 =>
      reply_eqb r1 r2 && list_eqb aev_eqb e1 e2
      && list_eqb (pair_eqb Z.eqb kcmd_eqb) (sort_sends s1) (sort_sends s2)
  end.

Definition case := (list item * list obs)%type.

Definition agree (c : case) : bool := list_eqb obs_eqb (run_items (fst c)) (snd c).

(* the property evaluated on the implementation's own trace *)
Definition monitor (c : case) : bool := holds (cfg_of (fst c)) (ops_of (fst c)) (snd c).

Definition disagreeing (cs : list case) : list Z := failing agree cs.
Definition monitor_failing (cs : list case) : list Z := failing monitor cs.
