From Coq Require Import Sorted.
From Cell2V Require Import Common.Tac Common.ListX Common.AList C12.Model C12.Spec.

(* ---------------------------------------------------------------- small facts *)
Lemma nstate_eqb_spec a b : nstate_eqb a b = true <-> a = b.
Proof. destruct a, b; unfold nstate_eqb; simpl; split; intro H; try reflexivity; discriminate. Qed.

Lemma nstate_eqb_refl a : nstate_eqb a a = true.
Proof. apply nstate_eqb_spec. reflexivity. Qed.

Lemma rank_range s : 1 <= rank s <= 5.
Proof. destruct s; simpl; lia. Qed.

Lemma rank_inj a b : rank a = rank b -> a = b.
Proof. destruct a, b; simpl; intro H; try reflexivity; lia. Qed.

Lemma hosted_names cfg n : hosted cfg n = true <-> In n (names cfg).
Proof.
  unfold hosted, names. induction cfg as [|[k d] r IH]; simpl.
  - split; [discriminate | tauto].
  - destruct (Z.eqb_spec n k) as [->|N].
    + split; auto.
    + rewrite IH. split; [auto | intros [E|I]; [congruence | exact I]].
Qed.

Lemma hosted_nil n : hosted [] n = false.
Proof. reflexivity. Qed.

Lemma answers_ok_hosted cfg n : answers_ok cfg n = true -> hosted cfg n = true.
Proof. unfold answers_ok, hosted. destruct (disp_of cfg n) as [[]|]; auto. Qed.

Lemma answers_ok_present cfg n : answers_ok cfg n = true -> present cfg n = true.
Proof. unfold answers_ok, present. destruct (disp_of cfg n) as [[]|]; auto; discriminate. Qed.

Lemma present_hosted cfg n : present cfg n = true -> hosted cfg n = true.
Proof. unfold present, hosted. destruct (disp_of cfg n) as [[]|]; auto. Qed.

Lemma hosted_not_nil cfg n : hosted cfg n = true -> is_nil cfg = false.
Proof. destruct cfg; [discriminate | reflexivity]. Qed.

Lemma forallb_ext_in {A} (f g : A -> bool) l :
  (forall x, In x l -> f x = g x) -> forallb f l = forallb g l.
Proof.
  induction l as [|x r IH]; simpl; intro H; [reflexivity|].
  rewrite (H x) by auto. rewrite IH by auto. reflexivity.
Qed.

(* ---------------------------------------------------------------- history functions *)
Lemma hq_snoc h o n : hq (h ++ [o]) n = hq_step n (hq h n) o.
Proof. unfold hq. rewrite fold_left_app. reflexivity. Qed.

Lemma queried_snoc h o n : queried (h ++ [o]) n = queried h n || (asks o n && negb (hidden h n)).
Proof. unfold queried, hidden. rewrite hq_snoc. reflexivity. Qed.

Definition hides (o : op) (n : Z) (b : bool) : bool :=
  match o with
  | OHide m => if Z.eqb m n then true else b
  | OShow m => if Z.eqb m n then false else b
  | _ => b
  end.

Lemma hidden_snoc h o n : hidden (h ++ [o]) n = hides o n (hidden h n).
Proof. unfold hidden. rewrite hq_snoc. destruct o; reflexivity. Qed.

Lemma reported_snoc h o n : reported (h ++ [o]) n = reported h n || reports o n.
Proof. unfold reported. rewrite existsb_app. simpl. rewrite orb_false_r. reflexivity. Qed.

Lemma reported_mono h o n : reported h n = true -> reported (h ++ [o]) n = true.
Proof. intro H. rewrite reported_snoc, H. reflexivity. Qed.

Lemma all_reported_mono cfg h o : all_reported cfg h = true -> all_reported cfg (h ++ [o]) = true.
Proof.
  unfold all_reported. rewrite !forallb_forall. intros H n I. apply reported_mono. auto.
Qed.

(* ---------------------------------------------------------------- trace functions *)
Lemma pubs_app t1 t2 : pubs (t1 ++ t2) = pubs t1 ++ pubs t2.
Proof. unfold pubs. apply flat_map_app. Qed.

Lemma pubs_snoc tr b : pubs (tr ++ [b]) = pubs tr ++ pubs_ob b.
Proof. rewrite pubs_app. unfold pubs at 2. simpl. rewrite app_nil_r. reflexivity. Qed.

Lemma last_cons {A} (l : list A) : forall x d, last (x :: l) d = last l x.
Proof.
  induction l as [|y r IH]; intros x d; [reflexivity|].
  change (last (x :: y :: r) d) with (last (y :: r) d). rewrite (IH y d), (IH y x). reflexivity.
Qed.

Lemma last_app {A} (l1 l2 : list A) : forall d, last (l1 ++ l2) d = last l2 (last l1 d).
Proof.
  induction l1 as [|x r IH]; intro d; [reflexivity|].
  rewrite <- app_comm_cons, !last_cons. apply IH.
Qed.

Lemma last_pub_snoc tr b : last_pub (tr ++ [b]) = last (pubs_ob b) (last_pub tr).
Proof. unfold last_pub. rewrite pubs_snoc. apply last_app. Qed.

Lemma stops_app t1 t2 : stops (t1 ++ t2) = (stops t1 + stops t2)%nat.
Proof. unfold stops. induction t1 as [|b r IH]; simpl; [reflexivity|]. rewrite IH. lia. Qed.

Lemma stops_snoc tr b : stops (tr ++ [b]) = (stops tr + stops_ob b)%nat.
Proof. rewrite stops_app. simpl. lia. Qed.

Lemma mono_from_app s l1 l2 : mono_from s (l1 ++ l2) = mono_from s l1 && mono_from (last l1 s) l2.
Proof.
  revert s. induction l1 as [|x r IH]; intro s; [reflexivity|].
  rewrite <- app_comm_cons. cbn [mono_from]. rewrite IH, last_cons, andb_assoc. reflexivity.
Qed.

(* ---------------------------------------------------------------- run is compositional *)
Lemma run_from_app cfg h1 : forall s h2,
  run_from cfg s (h1 ++ h2) =
  (fst (run_from cfg (fst (run_from cfg s h1)) h2),
   snd (run_from cfg s h1) ++ snd (run_from cfg (fst (run_from cfg s h1)) h2)).
Proof.
  induction h1 as [|o r IH]; intros s h2; simpl.
  - destruct (run_from cfg s h2); reflexivity.
  - destruct (step cfg s o) as [s1 b]. rewrite IH.
    destruct (run_from cfg s1 r) as [s2 bs]. simpl.
    destruct (run_from cfg s2 h2) as [s3 bs3]. reflexivity.
Qed.

Lemma run_snoc cfg h o : run cfg (h ++ [o]) = run cfg h ++ [obs_at cfg h o].
Proof.
  unfold run, obs_at, final. rewrite run_from_app. simpl.
  destruct (step cfg (fst (run_from cfg (init cfg) h)) o) as [s1 b]. reflexivity.
Qed.

Lemma final_snoc cfg h o : final cfg (h ++ [o]) = fst (step cfg (final cfg h) o).
Proof.
  unfold final. rewrite run_from_app. simpl.
  destruct (step cfg (fst (run_from cfg (init cfg) h)) o) as [s1 b]. reflexivity.
Qed.

Lemma run_app cfg h k : run cfg (h ++ k) = run cfg h ++ snd (run_from cfg (final cfg h) k).
Proof. unfold run, final. rewrite run_from_app. reflexivity. Qed.

(* ---------------------------------------------------------------- the services map as a view *)
(* [view cfg m v]: the map has exactly the hosted names as keys, with values v *)
Definition view (cfg : config) (m : alist (nstate * bool)) (v : Z -> nstate * bool) : Prop :=
  forall n, aget n m = if hosted cfg n then Some (v n) else None.

Lemma view_ext cfg m v v' :
  view cfg m v -> (forall n, hosted cfg n = true -> v n = v' n) -> view cfg m v'.
Proof.
  intros V E n. rewrite (V n). destruct (hosted cfg n) eqn:H; [rewrite E by exact H|]; reflexivity.
Qed.

Lemma view_aset cfg m v k x :
  view cfg m v -> hosted cfg k = true ->
  view cfg (aset k x m) (fun n => if Z.eqb n k then x else v n).
Proof.
  intros V H n. destruct (Z.eqb_spec n k) as [->|N].
  - rewrite aget_aset_same, H. reflexivity.
  - rewrite aget_aset_other by exact N. apply V.
Qed.

Lemma forallb_view cfg m v (p : nstate * bool -> bool) :
  sorted m -> view cfg m v ->
  forallb (fun kv => p (snd kv)) m = forallb (fun n => p (v n)) (names cfg).
Proof.
  intros S V. apply eq_true_iff_eq. rewrite !forallb_forall. split.
  - intros H n I. apply hosted_names in I. pose proof (V n) as G. rewrite I in G.
    apply aget_in in G. apply H in G. exact G.
  - intros H [k x] I. simpl. pose proof (in_aget _ _ _ S I) as G. rewrite (V k) in G.
    destruct (hosted cfg k) eqn:Hk; [|discriminate]. inv G. apply H. apply hosted_names. exact Hk.
Qed.

Lemma init_svcs_acc l : forall acc, sorted acc ->
  sorted (fold_left (fun m n => aset n (Working, false) m) l acc) /\
  forall n, aget n (fold_left (fun m n => aset n (Working, false) m) l acc) =
            if zmem n l then Some (Working, false) else aget n acc.
Proof.
  induction l as [|k r IH]; intros acc S; simpl; [split; [exact S | reflexivity]|].
  destruct (IH (aset k (Working, false) acc) (sorted_aset _ _ _ S)) as [S1 G]. split; [exact S1|].
  intro n. rewrite G. unfold zmem. destruct (Z.eqb_spec n k) as [->|N]; simpl.
  - destruct (existsb (Z.eqb k) r); [reflexivity | apply aget_aset_same].
  - destruct (existsb (Z.eqb n) r); [reflexivity | apply aget_aset_other; exact N].
Qed.

Lemma zmem_names cfg n : zmem n (names cfg) = hosted cfg n.
Proof.
  apply eq_true_iff_eq. rewrite zmem_In. symmetry. apply hosted_names.
Qed.

(* the part of the state that records what the services said, against predicates
   q ("has been asked") and rep ("has reported retired") *)
Definition hv (cfg : config) (q rep : Z -> bool) (n : Z) : nstate * bool :=
  (if rep n then Retired else Working, answers_ok cfg n && q n).

Definition support_of (cfg : config) (q : Z -> bool) : bool :=
  negb (is_nil cfg) && forallb (fun n => answers_ok cfg n && q n) (names cfg).

Record SV (cfg : config) (m : alist (nstate * bool)) (sp : bool) (q rep : Z -> bool) : Prop := {
  sv_sorted : sorted m;
  sv_view : view cfg m (hv cfg q rep);
  sv_sup : sp = support_of cfg q
}.

Lemma SV_ext cfg m sp q rep q' rep' :
  SV cfg m sp q rep ->
  (forall n, hosted cfg n = true -> answers_ok cfg n && q n = answers_ok cfg n && q' n) ->
  (forall n, hosted cfg n = true -> rep n = rep' n) ->
  SV cfg m sp q' rep'.
Proof.
  intros [S V U] Eq Er. split; [exact S | |].
  - eapply view_ext; [exact V|]. intros n H. unfold hv. rewrite (Eq n H), (Er n H). reflexivity.
  - rewrite U. unfold support_of. f_equal. apply forallb_ext_in. intros n I.
    apply hosted_names in I. apply (Eq n I).
Qed.

Lemma SV_init cfg : SV cfg (init_svcs cfg) false (fun _ => false) (fun _ => false).
Proof.
  destruct (init_svcs_acc (names cfg) [] I) as [S G]. split.
  - exact S.
  - intro n. unfold init_svcs. rewrite G, zmem_names. unfold hv. simpl.
    rewrite andb_false_r. reflexivity.
  - unfold support_of. destruct cfg as [|[k d] r]; [reflexivity|]. simpl. rewrite andb_false_r. reflexivity.
Qed.

Lemma all_support_view cfg m sp q rep :
  SV cfg m sp q rep -> all_support m = forallb (fun n => answers_ok cfg n && q n) (names cfg).
Proof.
  intros [S V _]. unfold all_support.
  rewrite (forallb_view cfg m (hv cfg q rep) (fun x => snd x) S V). reflexivity.
Qed.

Lemma all_retired_view cfg m sp q rep :
  SV cfg m sp q rep -> all_retired m = forallb rep (names cfg).
Proof.
  intros [S V _]. unfold all_retired.
  rewrite (forallb_view cfg m (hv cfg q rep) (fun x => nstate_eqb (fst x) Retired) S V).
  apply forallb_ext_in. intros n _. unfold hv. simpl. destruct (rep n); reflexivity.
Qed.

Lemma aget_some_keys {V} n (m : alist V) v : aget n m = Some v -> In n (akeys m).
Proof. intro G. apply aget_in in G. unfold akeys. apply in_map_iff. exists (n, v). auto. Qed.

(* ---------------------------------------------------------------- the service directory *)
Lemma zmem_cons n k r : zmem n (k :: r) = Z.eqb n k || zmem n r.
Proof. reflexivity. Qed.

Lemma publish_acc (st : nstate) hd l : forall acc : alist nstate, sorted acc ->
  sorted (fold_left (fun m n => if zmem n hd then m else aset n st m) l acc) /\
  forall n, aget n (fold_left (fun m n => if zmem n hd then m else aset n st m) l acc) =
            if zmem n l && negb (zmem n hd) then Some st else aget n acc.
Proof.
  induction l as [|k r IH]; intros acc S; [split; [exact S | reflexivity]|].
  cbn [fold_left].
  assert (S' : sorted (if zmem k hd then acc else aset k st acc)).
  { destruct (zmem k hd); [exact S | apply sorted_aset; exact S]. }
  destruct (IH _ S') as [S1 G]. split; [exact S1|].
  intro n. rewrite G, zmem_cons. destruct (Z.eqb_spec n k) as [->|N]; simpl.
  - destruct (zmem k hd) eqn:Hk; simpl.
    + rewrite andb_false_r. reflexivity.
    + rewrite andb_true_r. destruct (zmem k r); [reflexivity | apply aget_aset_same].
  - destruct (zmem n r && negb (zmem n hd)); [reflexivity|].
    destruct (zmem k hd); [reflexivity | apply aget_aset_other; exact N].
Qed.

Lemma publish_sorted cfg st hd : sorted (publish cfg st hd).
Proof. exact (proj1 (publish_acc st hd (names cfg) [] I)). Qed.

(* the directory a publication leaves: one entry per configured service not left out, stamped st *)
Lemma publish_get cfg st hd n :
  aget n (publish cfg st hd) = if hosted cfg n && negb (zmem n hd) then Some st else None.
Proof.
  unfold publish. rewrite (proj2 (publish_acc st hd (names cfg) [] I) n), zmem_names. reflexivity.
Qed.

(* the directory lists exactly the hosted services the topology does not leave out *)
Definition dir_ok (cfg : config) (s : state) : Prop :=
  forall n, is_some (aget n (dir s)) = hosted cfg n && negb (zmem n (hid s)).

Lemma dir_ok_same cfg s s1 : hid s1 = hid s -> dir s1 = dir s -> dir_ok cfg s -> dir_ok cfg s1.
Proof. intros H D O n. rewrite H, D. apply O. Qed.

Lemma dir_ok_publish cfg s st hd : hid s = hd -> dir s = publish cfg st hd -> dir_ok cfg s.
Proof.
  intros H D n. rewrite H, D, publish_get. destruct (hosted cfg n && negb (zmem n hd)); reflexivity.
Qed.

(* App.GetService looks at the entry, not at the state copy it carries *)
Lemma resolvable_hid cfg s n :
  dir_ok cfg s -> resolvable cfg s n = present cfg n && negb (zmem n (hid s)).
Proof.
  intro D. unfold resolvable. rewrite (D n). destruct (present cfg n) eqn:P; [|reflexivity].
  rewrite (present_hosted _ _ P). reflexivity.
Qed.

(* ---- queryRetire + ack ---- *)
Lemma query_one_spec cfg s q rep k :
  dir_ok cfg s ->
  SV cfg (svcs s) (sup s) q rep ->
  SV cfg (svcs (fst (query_one cfg s k))) (sup (fst (query_one cfg s k)))
     (fun n => q n || (Z.eqb k n && negb (zmem k (hid s)))) rep
  /\ nst (fst (query_one cfg s k)) = nst s /\ pend (fst (query_one cfg s k)) = pend s
  /\ hid (fst (query_one cfg s k)) = hid s /\ dir (fst (query_one cfg s k)) = dir s.
Proof.
  intros D I. pose proof (sv_view _ _ _ _ _ I k) as G. unfold query_one.
  rewrite (resolvable_hid _ _ _ D).
  assert (Same : answers_ok cfg k && negb (zmem k (hid s)) = false ->
          SV cfg (svcs s) (sup s) (fun n => q n || (Z.eqb k n && negb (zmem k (hid s)))) rep).
  { intro A. eapply SV_ext; [exact I | | reflexivity]. intros n _.
    destruct (Z.eqb_spec k n) as [<-|N]; [|rewrite orb_false_r; reflexivity].
    simpl. apply andb_false_iff in A. destruct A as [A|A]; rewrite A; simpl;
      [reflexivity | rewrite orb_false_r; reflexivity]. }
  destruct (hosted cfg k) eqn:H.
  - rewrite G. unfold hv. destruct (present cfg k) eqn:P; simpl.
    + destruct (zmem k (hid s)) eqn:Z; simpl.
      * split; [|auto]. apply Same. apply andb_false_r.
      * destruct (answers_ok cfg k) eqn:A; simpl; [|split; [apply Same; reflexivity | auto]].
        split; [|auto].
        assert (V' : view cfg (aset k (if rep k then Retired else Working, true) (svcs s))
                       (hv cfg (fun n => q n || (Z.eqb k n && true)) rep)).
        { eapply view_ext; [apply view_aset; [exact (sv_view _ _ _ _ _ I) | exact H]|].
          intros n _. cbn beta. unfold hv. destruct (Z.eqb_spec n k) as [->|N].
          - rewrite A, Z.eqb_refl, orb_true_r. reflexivity.
          - destruct (Z.eqb_spec k n) as [E|_]; [congruence|]. rewrite orb_false_r. reflexivity. }
        assert (S' : sorted (aset k (if rep k then Retired else Working, true) (svcs s))).
        { apply sorted_aset. exact (sv_sorted _ _ _ _ _ I). }
        split; [exact S' | exact V' |].
        unfold all_support.
        rewrite (forallb_view cfg _ _ (fun x => snd x) S' V'). unfold support_of.
        rewrite (hosted_not_nil _ _ H). reflexivity.
    + split; [|auto]. apply Same.
      destruct (answers_ok cfg k) eqn:A; [|reflexivity].
      apply answers_ok_present in A. congruence.
  - rewrite G. simpl. split; [|auto]. apply Same.
    destruct (answers_ok cfg k) eqn:A; [|reflexivity]. apply answers_ok_hosted in A. congruence.
Qed.

Lemma query_list_spec cfg l : forall s q rep,
  dir_ok cfg s ->
  SV cfg (svcs s) (sup s) q rep ->
  SV cfg (svcs (fst (query_list cfg s l))) (sup (fst (query_list cfg s l)))
     (fun n => q n || (zmem n l && negb (zmem n (hid s)))) rep
  /\ nst (fst (query_list cfg s l)) = nst s /\ pend (fst (query_list cfg s l)) = pend s
  /\ hid (fst (query_list cfg s l)) = hid s /\ dir (fst (query_list cfg s l)) = dir s.
Proof.
  induction l as [|k r IH]; intros s q rep D I; simpl.
  - split; [|auto]. eapply SV_ext; [exact I | | reflexivity]. intros n _. rewrite orb_false_r. reflexivity.
  - destruct (query_one_spec cfg s q rep k D I) as [I1 [N1 [P1 [H1 D1]]]].
    destruct (query_one cfg s k) as [s1 o1]. simpl in *.
    destruct (IH s1 _ rep (dir_ok_same _ _ _ H1 D1 D) I1) as [I2 [N2 [P2 [H2 D2]]]].
    destruct (query_list cfg s1 r) as [s2 o2]. simpl in *.
    split; [|repeat split; congruence].
    eapply SV_ext; [exact I2 | | reflexivity]. intros n _. f_equal. rewrite H1.
    change (zmem n (k :: r)) with (Z.eqb n k || zmem n r). rewrite (Z.eqb_sym n k).
    destruct (Z.eqb_spec k n) as [E|N]; [subst k|];
      destruct (q n), (zmem n r), (zmem n (hid s)); reflexivity.
Qed.

(* ---- onServiceRetired ---- *)
Lemma service_retired_spec cfg s q rep k :
  SV cfg (svcs s) (sup s) q rep ->
  SV cfg (svcs (fst (service_retired s k))) (sup (fst (service_retired s k))) q (fun n => rep n || Z.eqb k n)
  /\ pend (fst (service_retired s k)) = pend s
  /\ (if hosted cfg k && forallb (fun n => rep n || Z.eqb k n) (names cfg) && (rank (nst s) <? 3)
      then nst (fst (service_retired s k)) = Retired /\ snd (service_retired s k) = [EPub Retired]
      else nst (fst (service_retired s k)) = nst s /\ snd (service_retired s k) = []).
Proof.
  intro I. pose proof (sv_view _ _ _ _ _ I k) as G. unfold service_retired.
  destruct (hosted cfg k) eqn:H.
  - rewrite G. unfold hv.
    set (m' := aset k (Retired, answers_ok cfg k && q k) (svcs s)).
    assert (I' : SV cfg m' (sup s) q (fun n => rep n || Z.eqb k n)).
    { split.
      - apply sorted_aset. exact (sv_sorted _ _ _ _ _ I).
      - eapply view_ext; [apply view_aset; [exact (sv_view _ _ _ _ _ I) | exact H]|].
        intros n _. cbn beta. unfold hv. destruct (Z.eqb_spec n k) as [->|N].
        + rewrite Z.eqb_refl, orb_true_r. reflexivity.
        + destruct (Z.eqb_spec k n) as [E|_]; [congruence|]. rewrite orb_false_r. reflexivity.
      - exact (sv_sup _ _ _ _ _ I). }
    rewrite (all_retired_view _ _ _ _ _ I'). change (rank Retired) with 3. simpl (true && _).
    destruct (forallb (fun n => rep n || Z.eqb k n) (names cfg) && (rank (nst s) <? 3)); simpl; auto.
  - rewrite G. simpl. split; [|auto].
    eapply SV_ext; [exact I | reflexivity |]. intros n Hn.
    destruct (Z.eqb_spec k n) as [E|_]; [congruence|]. rewrite orb_false_r. reflexivity.
Qed.

(* ---------------------------------------------------------------- who touches the directory *)
Lemma query_one_frame cfg s k :
  hid (fst (query_one cfg s k)) = hid s /\ dir (fst (query_one cfg s k)) = dir s.
Proof.
  unfold query_one. destruct (aget k (svcs s)) as [[st sp]|]; [|auto].
  destruct (resolvable cfg s k); [|auto]. destruct (answers_ok cfg k); auto.
Qed.

Lemma query_list_frame cfg l : forall s,
  hid (fst (query_list cfg s l)) = hid s /\ dir (fst (query_list cfg s l)) = dir s.
Proof.
  induction l as [|k r IH]; intro s; simpl; [auto|].
  pose proof (query_one_frame cfg s k) as [H1 D1]. destruct (query_one cfg s k) as [s1 o1].
  specialize (IH s1). destruct (query_list cfg s1 r) as [s2 o2]. simpl in *.
  destruct IH as [H2 D2]. split; congruence.
Qed.

Lemma service_retired_frame s k :
  hid (fst (service_retired s k)) = hid s /\ dir (fst (service_retired s k)) = dir s.
Proof.
  unfold service_retired. destruct (aget k (svcs s)) as [[st sp]|]; [|auto].
  destruct (all_retired _ && _); auto.
Qed.

(* only a topology publication changes what the directory lists and the state copies in it:
   in particular publishing a node state (UpdateNodeState) leaves the copies as they are *)
Lemma step_frame cfg s o :
  is_topo o = false ->
  hid (fst (step cfg s o)) = hid s /\ dir (fst (step cfg s o)) = dir s.
Proof.
  destruct o as [c| |k|k sc|k|succ|k|k|k]; simpl; try discriminate; intros _.
  - destruct c; simpl; auto; unfold do_retire, do_exit; destruct (nst s); auto; destruct (sup s); auto.
  - pose proof (query_list_frame cfg (akeys (svcs s)) s) as F.
    destruct (query_list cfg s (akeys (svcs s))). exact F.
  - pose proof (query_one_frame cfg s k) as F. destruct (query_one cfg s k). exact F.
  - destruct sc; [|auto]. pose proof (service_retired_frame s k) as F.
    destruct (service_retired s k). exact F.
  - pose proof (service_retired_frame s k) as F. destruct (service_retired s k). exact F.
  - destruct (pend s); [auto|]. destruct succ; auto.
Qed.

(* a topology publication stamps every entry with the node's current state *)
Lemma step_topo cfg s o :
  is_topo o = true ->
  dir (fst (step cfg s o)) = publish cfg (nst s) (hid (fst (step cfg s o))) /\
  nst (fst (step cfg s o)) = nst s /\ svcs (fst (step cfg s o)) = svcs s /\
  sup (fst (step cfg s o)) = sup s /\ pend (fst (step cfg s o)) = pend s /\
  snd (step cfg s o) = Ob (RDir (dir (fst (step cfg s o)))) [] [].
Proof.
  destruct o as [c| |k|k sc|k|succ|k|k|k]; simpl; try discriminate; intros _; repeat split.
Qed.

Lemma step_dir_ok cfg s o : dir_ok cfg s -> dir_ok cfg (fst (step cfg s o)).
Proof.
  intro D. destruct (is_topo o) eqn:T.
  - destruct (step_topo cfg s o T) as [E _]. eapply dir_ok_publish; [reflexivity | exact E].
  - destruct (step_frame cfg s o T) as [H E]. exact (dir_ok_same _ _ _ H E D).
Qed.

Lemma dir_ok_init cfg : dir_ok cfg (init cfg).
Proof. eapply dir_ok_publish; reflexivity. Qed.

Lemma dir_ok_final cfg h : dir_ok cfg (final cfg h).
Proof.
  induction h as [|o r IH] using rev_ind; [apply dir_ok_init|].
  rewrite final_snoc. apply step_dir_ok. exact IH.
Qed.

(* ---------------------------------------------------------------- the invariant *)
Record Inv (cfg : config) (h : list op) (s : state) (tr : list obs) : Prop := {
  i_sv : SV cfg (svcs s) (sup s) (queried h) (reported h);
  i_nst : nst s = last_pub tr;
  i_ret : (3 <=? rank (nst s)) = negb (is_nil cfg) && all_reported cfg h;
  i_pend : (pend s <= 1)%nat;
  i_pend1 : pend s = 1%nat -> nst s = Exiting;
  i_stops : stops tr = if 4 <=? rank (nst s) then 1%nat else 0%nat;
  i_mono : mono_from Working (pubs tr) = true;
  i_hid : forall n, zmem n (hid s) = hidden h n
}.

Lemma inv_init cfg : Inv cfg [] (init cfg) [].
Proof.
  split.
  - apply SV_init.
  - reflexivity.
  - simpl. unfold all_reported. destruct cfg as [|[k d] r]; reflexivity.
  - simpl. lia.
  - simpl. discriminate.
  - reflexivity.
  - reflexivity.
  - reflexivity.
Qed.

Lemma SV_hist cfg m sp h o :
  SV cfg m sp (queried h) (reported h) ->
  (forall n, hosted cfg n = true -> answers_ok cfg n && (asks o n && negb (hidden h n)) = false) ->
  (forall n, hosted cfg n = true -> reports o n = false) ->
  SV cfg m sp (queried (h ++ [o])) (reported (h ++ [o])).
Proof.
  intros I A R. eapply SV_ext; [exact I | |].
  - intros n H. rewrite queried_snoc. specialize (A n H).
    destruct (answers_ok cfg n); [|reflexivity]. simpl in *. rewrite A, orb_false_r. reflexivity.
  - intros n H. rewrite reported_snoc, (R n H), orb_false_r. reflexivity.
Qed.

Lemma all_reported_same cfg h o :
  (forall n, hosted cfg n = true -> reports o n = false) ->
  all_reported cfg (h ++ [o]) = all_reported cfg h.
Proof.
  intro R. unfold all_reported. apply forallb_ext_in. intros n I. apply hosted_names in I.
  rewrite reported_snoc, (R n I), orb_false_r. reflexivity.
Qed.

(* packaging: what a transition has to establish *)
Lemma inv_intro cfg h s tr o s' b :
  Inv cfg h s tr ->
  SV cfg (svcs s') (sup s') (queried (h ++ [o])) (reported (h ++ [o])) ->
  nst s' = last (pubs_ob b) (nst s) ->
  mono_from (nst s) (pubs_ob b) = true ->
  (3 <=? rank (nst s')) = negb (is_nil cfg) && all_reported cfg (h ++ [o]) ->
  (pend s' <= 1)%nat ->
  (pend s' = 1%nat -> nst s' = Exiting) ->
  (stops tr + stops_ob b)%nat = (if 4 <=? rank (nst s') then 1%nat else 0%nat) ->
  (forall n, zmem n (hid s') = hides o n (zmem n (hid s))) ->
  Inv cfg (h ++ [o]) s' (tr ++ [b]).
Proof.
  intros I V N M R P P1 St Hd. split; try assumption.
  - rewrite last_pub_snoc, <- (i_nst _ _ _ _ I). exact N.
  - rewrite stops_snoc. exact St.
  - rewrite pubs_snoc, mono_from_app, (i_mono _ _ _ _ I). simpl.
    change (last (pubs tr) Working) with (last_pub tr). rewrite <- (i_nst _ _ _ _ I). exact M.
  - intro n. rewrite hidden_snoc, Hd, (i_hid _ _ _ _ I). reflexivity.
Qed.

(* nothing published, nothing a hosted service said; only the hidden set may change *)
Lemma inv_same cfg h s tr o b s' :
  Inv cfg h s tr -> evs_of b = [] ->
  nst s' = nst s -> svcs s' = svcs s -> sup s' = sup s -> pend s' = pend s ->
  (forall n, zmem n (hid s') = hides o n (zmem n (hid s))) ->
  (forall n, hosted cfg n = true -> answers_ok cfg n && (asks o n && negb (hidden h n)) = false) ->
  (forall n, hosted cfg n = true -> reports o n = false) ->
  Inv cfg (h ++ [o]) s' (tr ++ [b]).
Proof.
  intros I E En Es Eu Ep Hd A R. destruct b as [r evs sends]. simpl in E. subst evs.
  apply (inv_intro cfg h s tr o s' _ I); simpl; rewrite ?En, ?Es, ?Eu, ?Ep.
  - apply SV_hist; [exact (i_sv _ _ _ _ I) | exact A | exact R].
  - reflexivity.
  - reflexivity.
  - rewrite (all_reported_same _ _ _ R). exact (i_ret _ _ _ _ I).
  - exact (i_pend _ _ _ _ I).
  - exact (i_pend1 _ _ _ _ I).
  - unfold stops_ob. simpl. rewrite Nat.add_0_r. exact (i_stops _ _ _ _ I).
  - exact Hd.
Qed.

(* a transition that only moves nst/pend: same services, same sup, op says nothing about services *)
Lemma inv_move cfg h s tr o s' b :
  Inv cfg h s tr -> svcs s' = svcs s -> sup s' = sup s -> hid s' = hid s ->
  (forall n b0, hides o n b0 = b0) ->
  (forall n, asks o n = false) -> (forall n, reports o n = false) ->
  nst s' = last (pubs_ob b) (nst s) ->
  mono_from (nst s) (pubs_ob b) = true ->
  (3 <=? rank (nst s')) = (3 <=? rank (nst s)) ->
  (pend s' <= 1)%nat ->
  (pend s' = 1%nat -> nst s' = Exiting) ->
  (stops tr + stops_ob b)%nat = (if 4 <=? rank (nst s') then 1%nat else 0%nat) ->
  Inv cfg (h ++ [o]) s' (tr ++ [b]).
Proof.
  intros I Es Eu Eh Hd A R N M R3 P P1 St.
  apply (inv_intro cfg h s tr o s' b I); try assumption.
  - rewrite Es, Eu. apply SV_hist; [exact (i_sv _ _ _ _ I) | |].
    + intros n _. rewrite A. apply andb_false_r.
    + intros n _. apply R.
  - rewrite R3, all_reported_same by (intros n _; apply R). exact (i_ret _ _ _ _ I).
  - intro n. rewrite Eh, Hd. reflexivity.
Qed.

Lemma service_retired_hid s k : hid (fst (service_retired s k)) = hid s.
Proof.
  unfold service_retired. destruct (aget k (svcs s)) as [[st sp]|]; [|reflexivity].
  destruct (all_retired _ && _); reflexivity.
Qed.

Lemma inv_retired cfg h s tr k o r :
  (forall n, reports o n = Z.eqb k n) -> (forall n, asks o n = false) ->
  (forall n b0, hides o n b0 = b0) ->
  Inv cfg h s tr ->
  Inv cfg (h ++ [o]) (fst (service_retired s k)) (tr ++ [Ob r (snd (service_retired s k)) []]).
Proof.
  intros Rp As Hd I.
  assert (HD : forall n, zmem n (hid (fst (service_retired s k))) = hides o n (zmem n (hid s))).
  { intro n. rewrite service_retired_hid, Hd. reflexivity. }
  destruct (service_retired_spec cfg s _ _ k (i_sv _ _ _ _ I)) as [V [P C]].
  assert (AR : forallb (fun n => reported h n || Z.eqb k n) (names cfg) = all_reported cfg (h ++ [o])).
  { unfold all_reported. apply forallb_ext_in. intros n _. rewrite reported_snoc, Rp. reflexivity. }
  rewrite AR in C.
  assert (V' : SV cfg (svcs (fst (service_retired s k))) (sup (fst (service_retired s k)))
                  (queried (h ++ [o])) (reported (h ++ [o]))).
  { eapply SV_ext; [exact V | |].
    - intros n _. rewrite queried_snoc, As. simpl. rewrite orb_false_r. reflexivity.
    - intros n _. rewrite reported_snoc, Rp. reflexivity. }
  pose proof (i_ret _ _ _ _ I) as R3. pose proof (i_pend _ _ _ _ I) as Pe.
  pose proof (i_pend1 _ _ _ _ I) as Pe1. pose proof (i_stops _ _ _ _ I) as St.
  destruct (hosted cfg k && all_reported cfg (h ++ [o]) && (rank (nst s) <? 3)) eqn:Cond.
  - destruct C as [N E]. rewrite E.
    apply andb_true_iff in Cond. destruct Cond as [Cond Lt]. apply andb_true_iff in Cond.
    destruct Cond as [Hk All].
    apply (inv_intro cfg h s tr o _ _ I); try exact V'; try exact HD; unfold pubs_ob, stops_ob; simpl; rewrite ?N.
    + reflexivity.
    + rewrite andb_true_r. change (rank Retired) with 3. lia.
    + rewrite All, (hosted_not_nil _ _ Hk). reflexivity.
    + rewrite P. exact Pe.
    + rewrite P. intro Q. apply Pe1 in Q. rewrite Q in Lt. discriminate.
    + rewrite St. destruct (4 <=? rank (nst s)) eqn:G; [lia | reflexivity].
  - destruct C as [N E]. rewrite E.
    apply (inv_intro cfg h s tr o _ _ I); try exact V'; try exact HD; unfold pubs_ob, stops_ob; simpl; rewrite ?N, ?P;
      try assumption; try reflexivity.
    + destruct (hosted cfg k) eqn:Hk.
      * pose proof (hosted_not_nil _ _ Hk) as Nn. rewrite Nn in R3 |- *. simpl in R3 |- *.
        destruct (all_reported cfg (h ++ [o])) eqn:All.
        -- simpl in Cond. lia.
        -- rewrite R3. destruct (all_reported cfg h) eqn:All0; [|reflexivity].
           rewrite (all_reported_mono _ _ o All0) in All. discriminate.
      * rewrite R3. f_equal. symmetry. apply all_reported_same. intros n Hn. rewrite Rp.
        destruct (Z.eqb_spec k n) as [->|_]; [congruence | reflexivity].
    + rewrite Nat.add_0_r. exact St.
Qed.

Lemma inv_quiet cfg h s tr o b :
  Inv cfg h s tr -> evs_of b = [] ->
  (forall n b0, hides o n b0 = b0) -> (forall n, asks o n = false) -> (forall n, reports o n = false) ->
  Inv cfg (h ++ [o]) s (tr ++ [b]).
Proof.
  intros I E Hd A R. apply (inv_same cfg h s tr o b s I E); try reflexivity.
  - intro n. rewrite Hd. reflexivity.
  - intros n _. rewrite A. apply andb_false_r.
  - intros n _. apply R.
Qed.

Lemma zmem_hide k l n : zmem n (if zmem k l then l else k :: l) = if Z.eqb k n then true else zmem n l.
Proof.
  destruct (Z.eqb_spec k n) as [->|N].
  - destruct (zmem n l) eqn:Z; [exact Z|]. unfold zmem. simpl. rewrite Z.eqb_refl. reflexivity.
  - destruct (zmem k l); [reflexivity|]. unfold zmem. simpl.
    destruct (Z.eqb_spec n k) as [E|_]; [congruence | reflexivity].
Qed.

Lemma zmem_show k l n :
  zmem n (filter (fun x => negb (Z.eqb x k)) l) = if Z.eqb k n then false else zmem n l.
Proof.
  unfold zmem. induction l as [|x r IH]; simpl; [destruct (Z.eqb k n); reflexivity|].
  destruct (Z.eqb_spec x k) as [->|Nx]; simpl.
  - rewrite IH. destruct (Z.eqb_spec k n) as [->|N]; [reflexivity|].
    destruct (Z.eqb_spec n k) as [E|_]; [congruence | reflexivity].
  - rewrite IH. destruct (Z.eqb_spec k n) as [->|N]; [|reflexivity].
    destruct (Z.eqb_spec n x) as [E|_]; [congruence | reflexivity].
Qed.

Lemma inv_step cfg h s tr o :
  dir_ok cfg s ->
  Inv cfg h s tr -> Inv cfg (h ++ [o]) (fst (step cfg s o)) (tr ++ [snd (step cfg s o)]).
Proof.
  intros D I.
  pose proof (i_pend _ _ _ _ I) as Pe. pose proof (i_pend1 _ _ _ _ I) as Pe1.
  pose proof (i_stops _ _ _ _ I) as St.
  assert (Quiet : forall c b, evs_of b = [] -> Inv cfg (h ++ [OCmd c]) s (tr ++ [b])).
  { intros c b E. apply inv_quiet; [exact I | exact E | | |]; reflexivity. }
  assert (Retire : forall c, (c = CRetire \/ c = CWebRetire) ->
            Inv cfg (h ++ [OCmd c]) (fst (do_retire cfg s)) (tr ++ [snd (do_retire cfg s)])).
  { intros c _. unfold do_retire.
    destruct (nst s) eqn:N; try (apply Quiet; reflexivity);
      (destruct (sup s) eqn:U; [|apply Quiet; reflexivity]); simpl;
      (apply (inv_move cfg h s tr); simpl; rewrite ?N; try reflexivity; try assumption;
       try (symmetry; exact U);
       try (intro Q; specialize (Pe1 Q); discriminate);
       try (unfold stops_ob; simpl; rewrite St; reflexivity)). }
  assert (Exit : forall c, (c = CExit \/ c = CWebExit) ->
            Inv cfg (h ++ [OCmd c]) (fst (do_exit s)) (tr ++ [snd (do_exit s)])).
  { intros c _. unfold do_exit.
    destruct (nst s) eqn:N; try (apply Quiet; reflexivity). simpl.
    assert (P0 : pend s = 0%nat).
    { destruct (pend s) as [|[|p]]; [reflexivity | | lia]. specialize (Pe1 eq_refl). congruence. }
    apply (inv_move cfg h s tr); simpl; rewrite ?N, ?P0; try reflexivity; try lia; try exact I.
    unfold stops_ob. simpl. rewrite St. reflexivity. }
  destruct o as [c| |k|k sc|k|succ|k|k|k].
  - destruct c; simpl; try (apply Quiet; reflexivity); auto.
  - (* query all *)
    simpl. destruct (query_list_spec cfg (akeys (svcs s)) s _ _ D (i_sv _ _ _ _ I)) as [V [N [P [Hd _]]]].
    destruct (query_list cfg s (akeys (svcs s))) as [s1 snd1]. simpl in *.
    apply (inv_intro cfg h s tr OQueryAll s1 _ I); unfold pubs_ob, stops_ob; simpl; rewrite ?N, ?P, ?Hd;
      try assumption; try reflexivity.
    + eapply SV_ext; [exact V | |].
      * intros n Hn. rewrite queried_snoc. simpl. f_equal.
        pose proof (sv_view _ _ _ _ _ (i_sv _ _ _ _ I) n) as G. rewrite Hn in G.
        apply aget_some_keys in G. apply zmem_In in G. rewrite G, (i_hid _ _ _ _ I). reflexivity.
      * intros n _. rewrite reported_snoc. simpl. rewrite orb_false_r. reflexivity.
    + rewrite all_reported_same by reflexivity. exact (i_ret _ _ _ _ I).
    + rewrite Nat.add_0_r. exact St.
  - (* query one *)
    simpl. destruct (query_one_spec cfg s _ _ k D (i_sv _ _ _ _ I)) as [V [N [P [Hd _]]]].
    destruct (query_one cfg s k) as [s1 snd1]. simpl in *.
    apply (inv_intro cfg h s tr (OQuery k) s1 _ I); unfold pubs_ob, stops_ob; simpl; rewrite ?N, ?P, ?Hd;
      try assumption; try reflexivity.
    + eapply SV_ext; [exact V | |].
      * intros n _. rewrite queried_snoc. simpl. f_equal. f_equal.
        destruct (Z.eqb_spec k n) as [->|_]; [|reflexivity]. rewrite (i_hid _ _ _ _ I). reflexivity.
      * intros n _. rewrite reported_snoc. simpl. rewrite orb_false_r. reflexivity.
    + rewrite all_reported_same by reflexivity. exact (i_ret _ _ _ _ I).
    + rewrite Nat.add_0_r. exact St.
  - destruct sc; simpl.
    + pose proof (inv_retired cfg h s tr k (OSvcCmd k SRetired) ROk) as L.
      destruct (service_retired s k) as [s1 evs]. apply L; [reflexivity | reflexivity | reflexivity | exact I].
    + apply inv_quiet; [exact I | | | |]; reflexivity.
  - simpl. pose proof (inv_retired cfg h s tr k (ONotify k) RNone) as L.
    destruct (service_retired s k) as [s1 evs]. apply L; [reflexivity | reflexivity | reflexivity | exact I].
  - (* stop done *)
    simpl. destruct (pend s) as [|p] eqn:P.
    + apply inv_quiet; [exact I | | | |]; reflexivity.
    + assert (p = 0%nat) by lia. subst p. specialize (Pe1 eq_refl).
      destruct succ; simpl.
      * apply (inv_move cfg h s tr); simpl; rewrite ?Pe1; try reflexivity; try lia; try exact I.
        unfold stops_ob. simpl. rewrite St, Pe1. reflexivity.
      * apply (inv_move cfg h s tr); simpl; rewrite ?Pe1; try reflexivity; try lia; try exact I.
        unfold stops_ob. simpl. rewrite St, Pe1. reflexivity.
  - (* hide *)
    simpl. unfold republish. simpl. apply (inv_same cfg h s tr (OHide k) _ _ I); try reflexivity.
    + intro n. simpl. apply zmem_hide.
    + intros n _. apply andb_false_r.
  - (* show *)
    simpl. unfold republish. simpl. apply (inv_same cfg h s tr (OShow k) _ _ I); try reflexivity.
    + intro n. simpl. apply zmem_show.
    + intros n _. apply andb_false_r.
  - (* membership change *)
    simpl. unfold republish. simpl. apply (inv_same cfg h s tr (OTopo k) _ _ I); try reflexivity.
    intros n _. apply andb_false_r.
Qed.

Lemma inv_final cfg h : Inv cfg h (final cfg h) (run cfg h).
Proof.
  induction h as [|o r IH] using rev_ind; [apply inv_init|].
  rewrite final_snoc, run_snoc. unfold obs_at. apply inv_step; [apply dir_ok_final | exact IH].
Qed.

(* ---------------------------------------------------------------- what the state is, in terms of the history *)
Lemma state_published cfg h : nst (final cfg h) = last_pub (run cfg h).
Proof. exact (i_nst _ _ _ _ (inv_final cfg h)). Qed.

Lemma services_view cfg h n :
  aget n (svcs (final cfg h)) =
  if hosted cfg n then Some (if reported h n then Retired else Working, declared cfg h n) else None.
Proof. exact (sv_view _ _ _ _ _ (i_sv _ _ _ _ (inv_final cfg h)) n). Qed.

Lemma support_view cfg h : sup (final cfg h) = negb (is_nil cfg) && all_declared cfg h.
Proof. exact (sv_sup _ _ _ _ _ (i_sv _ _ _ _ (inv_final cfg h))). Qed.

Lemma all_declared_spec cfg h :
  all_declared cfg h = true <-> forall n, hosted cfg n = true -> declared cfg h n = true.
Proof.
  unfold all_declared. rewrite forallb_forall. split; intros H n I; apply H; apply hosted_names; exact I.
Qed.

Lemma all_reported_spec cfg h :
  all_reported cfg h = true <-> forall n, hosted cfg n = true -> reported h n = true.
Proof.
  unfold all_reported. rewrite forallb_forall. split; intros H n I; apply H; apply hosted_names; exact I.
Qed.

Lemma is_nil_spec {A} (l : list A) : is_nil l = true <-> l = [].
Proof. destruct l; simpl; split; intro H; try reflexivity; discriminate. Qed.

(* ---------------------------------------------------------------- retire *)
Lemma obs_at_retire cfg h o : is_retire_cmd o = true -> obs_at cfg h o = snd (do_retire cfg (final cfg h)).
Proof. destruct o as [[]| | | | | | | |]; simpl; try discriminate; reflexivity. Qed.

Lemma obs_at_exit cfg h o : is_exit_cmd o = true -> obs_at cfg h o = snd (do_exit (final cfg h)).
Proof. destruct o as [[]| | | | | | | |]; simpl; try discriminate; reflexivity. Qed.

Lemma retire_accept_iff cfg h o :
  is_retire_cmd o = true ->
  (reply_of (obs_at cfg h o) = ROk <->
   (last_pub (run cfg h) = Working \/ last_pub (run cfg h) = Retiring) /\ cfg <> [] /\
   forall n, hosted cfg n = true -> declared cfg h n = true).
Proof.
  intro R. rewrite (obs_at_retire _ _ _ R), <- state_published.
  pose proof (support_view cfg h) as U. unfold do_retire.
  rewrite <- all_declared_spec.
  assert (Nil : cfg <> [] <-> negb (is_nil cfg) = true).
  { destruct cfg; simpl; split; intro H; try congruence; try discriminate. }
  destruct (nst (final cfg h)) eqn:N;
    try (simpl; split; [discriminate | intros [[E|E] _]; discriminate]).
  - destruct (sup (final cfg h)); simpl; symmetry in U; apply andb_true_iff in U || apply andb_false_iff in U.
    + split; [intros _|reflexivity]. rewrite Nil. tauto.
    + split; [discriminate|]. rewrite Nil. intros [_ [A B]]. destruct U; congruence.
  - destruct (sup (final cfg h)); simpl; symmetry in U; apply andb_true_iff in U || apply andb_false_iff in U.
    + split; [intros _|reflexivity]. rewrite Nil. tauto.
    + split; [discriminate|]. rewrite Nil. intros [_ [A B]]. destruct U; congruence.
Qed.

Lemma retire_guard cfg h o :
  is_retire_cmd o = true -> reply_of (obs_at cfg h o) = ROk ->
  (last_pub (run cfg h) = Working \/ last_pub (run cfg h) = Retiring) /\
  forall n, hosted cfg n = true -> declared cfg h n = true.
Proof. intros R A. apply (retire_accept_iff cfg h o R) in A. tauto. Qed.

Lemma in_retire_sends cfg s n :
  In n (names cfg) -> resolvable cfg s n = true -> In (n, KRetire) (retire_sends cfg s).
Proof.
  intros I P. unfold retire_sends. apply in_flat_map. exists n. split; [exact I|]. rewrite P. left. reflexivity.
Qed.

Lemma retire_sends_only cfg s x :
  dir_ok cfg s ->
  In x (retire_sends cfg s) ->
  snd x = KRetire /\ hosted cfg (fst x) = true /\ zmem (fst x) (hid s) = false.
Proof.
  intro D. unfold retire_sends. rewrite in_flat_map. intros [n [I J]].
  destruct (resolvable cfg s n) eqn:R; [|contradiction]. destruct J as [<-|[]]. simpl.
  rewrite (resolvable_hid _ _ _ D) in R. apply andb_true_iff in R. destruct R as [_ R]. apply negb_true_iff in R.
  repeat split; [apply hosted_names; exact I | exact R].
Qed.

Lemma hid_final cfg h n : zmem n (hid (final cfg h)) = hidden h n.
Proof. exact (i_hid _ _ _ _ (inv_final cfg h) n). Qed.

(* an accepted retire publishes Retiring and tells exactly the hosted services that can be
   resolved at that moment *)
Lemma retire_tells_all cfg h o :
  is_retire_cmd o = true -> reply_of (obs_at cfg h o) = ROk ->
  evs_of (obs_at cfg h o) = [EPub Retiring] /\
  sends_of (obs_at cfg h o) = retire_sends cfg (final cfg h) /\
  (forall n, hosted cfg n = true -> hidden h n = false -> In (n, KRetire) (sends_of (obs_at cfg h o))) /\
  (forall x, In x (sends_of (obs_at cfg h o)) ->
             snd x = KRetire /\ hosted cfg (fst x) = true /\ hidden h (fst x) = false).
Proof.
  intros R A. destruct (retire_guard cfg h o R A) as [_ D].
  rewrite (obs_at_retire _ _ _ R) in *. unfold do_retire in *.
  assert (T : forall n, hosted cfg n = true -> hidden h n = false ->
                        In (n, KRetire) (retire_sends cfg (final cfg h))).
  { intros n H Hd. apply in_retire_sends; [apply hosted_names; exact H|].
    specialize (D n H). unfold declared in D. apply andb_true_iff in D.
    rewrite (resolvable_hid _ _ _ (dir_ok_final cfg h)), hid_final, Hd, (answers_ok_present cfg n);
      [reflexivity | tauto]. }
  assert (O : forall x, In x (retire_sends cfg (final cfg h)) ->
                        snd x = KRetire /\ hosted cfg (fst x) = true /\ hidden h (fst x) = false).
  { intros x I. rewrite <- (hid_final cfg h). apply retire_sends_only; [apply dir_ok_final | exact I]. }
  destruct (nst (final cfg h)); try discriminate; destruct (sup (final cfg h)); try discriminate; simpl; auto.
Qed.

(* ---------------------------------------------------------------- retired *)
Lemma retired_iff cfg h :
  3 <= rank (last_pub (run cfg h)) <->
  cfg <> [] /\ forall n, hosted cfg n = true -> reported h n = true.
Proof.
  rewrite <- state_published, <- all_reported_spec.
  pose proof (i_ret _ _ _ _ (inv_final cfg h)) as R.
  destruct cfg as [|x r]; simpl in R.
  - split; [lia | intros [N _]; congruence].
  - split.
    + intro G. split; [discriminate|]. rewrite <- R. lia.
    + intros [_ A]. rewrite A in R. lia.
Qed.

(* ---------------------------------------------------------------- exit *)
Lemma exit_guard cfg h o :
  is_exit_cmd o = true ->
  (reply_of (obs_at cfg h o) = ROk <-> last_pub (run cfg h) = Retired) /\
  (reply_of (obs_at cfg h o) = ROk ->
   evs_of (obs_at cfg h o) = [EPub Exiting; EStop] /\ sends_of (obs_at cfg h o) = []).
Proof.
  intro E. rewrite (obs_at_exit _ _ _ E), <- state_published. unfold do_exit.
  destruct (nst (final cfg h)); simpl; split; try split; try discriminate; auto.
Qed.

(* ---------------------------------------------------------------- StopNode *)
Lemma service_retired_evs s k :
  snd (service_retired s k) = [] \/ snd (service_retired s k) = [EPub Retired].
Proof.
  unfold service_retired. destruct (aget k (svcs s)) as [[st sp]|]; [|auto].
  destruct (all_retired _ && _); simpl; auto.
Qed.

Lemma step_stops cfg s o :
  stops_ob (snd (step cfg s o)) =
  if is_exit_cmd o && is_ok (reply_of (snd (step cfg s o))) then 1%nat else 0%nat.
Proof.
  destruct o as [c| |k|k sc|k|succ|k|k|k]; simpl.
  - destruct c; simpl; try reflexivity; unfold do_retire, do_exit;
      destruct (nst s); try reflexivity; destruct (sup s); reflexivity.
  - destruct (query_list cfg s (akeys (svcs s))). reflexivity.
  - destruct (query_one cfg s k). reflexivity.
  - destruct sc; [|reflexivity]. destruct (service_retired_evs s k) as [E|E];
      destruct (service_retired s k) as [s1 evs]; simpl in *; subst; reflexivity.
  - destruct (service_retired_evs s k) as [E|E];
      destruct (service_retired s k) as [s1 evs]; simpl in *; subst; reflexivity.
  - destruct (pend s); [reflexivity|]. destruct succ; reflexivity.
  - reflexivity.
  - reflexivity.
  - reflexivity.
Qed.

Lemma stops_accepted cfg h : forall s,
  stops (snd (run_from cfg s h)) = accepted_exits h (snd (run_from cfg s h)).
Proof.
  induction h as [|o r IH]; intro s; simpl; [reflexivity|].
  pose proof (step_stops cfg s o) as S1. destruct (step cfg s o) as [s1 b]. simpl in S1.
  specialize (IH s1). destruct (run_from cfg s1 r) as [s2 bs]. simpl in *.
  rewrite S1, IH. reflexivity.
Qed.

Lemma stop_once cfg h :
  (stops (run cfg h) <= 1)%nat /\ stops (run cfg h) = accepted_exits h (run cfg h).
Proof.
  split; [|apply stops_accepted].
  rewrite (i_stops _ _ _ _ (inv_final cfg h)). destruct (4 <=? rank (nst (final cfg h))); lia.
Qed.

(* ---------------------------------------------------------------- published states *)
Lemma publish_monotone_b cfg h : mono_from Working (pubs (run cfg h)) = true.
Proof. exact (i_mono _ _ _ _ (inv_final cfg h)). Qed.

Definition rank_le (a b : nstate) : Prop := rank a <= rank b.

Lemma mono_from_sorted l : forall s, mono_from s l = true -> StronglySorted rank_le (s :: l).
Proof.
  induction l as [|x r IH]; intros s M; simpl in M.
  - constructor; constructor.
  - apply andb_true_iff in M. destruct M as [L M]. specialize (IH x M).
    constructor; [exact IH|]. constructor; [unfold rank_le; lia|].
    apply StronglySorted_inv in IH. destruct IH as [_ F].
    eapply Forall_impl; [|exact F]. unfold rank_le. intros a Ha. lia.
Qed.

Lemma publish_monotone cfg h : StronglySorted rank_le (Working :: pubs (run cfg h)).
Proof. apply mono_from_sorted. apply publish_monotone_b. Qed.

Lemma mono_le_last l : forall s, mono_from s l = true -> rank s <= rank (last l s).
Proof.
  induction l as [|y r IH]; intros s M; [simpl; lia|].
  simpl in M. apply andb_true_iff in M. destruct M as [L M]. rewrite last_cons.
  specialize (IH y M). lia.
Qed.

Lemma mono_last_ge l : forall s x, mono_from s l = true -> In x l -> rank x <= rank (last l s).
Proof.
  induction l as [|y r IH]; intros s x M I; [contradiction|].
  simpl in M. apply andb_true_iff in M. destruct M as [L M]. rewrite last_cons.
  destruct I as [<-|I]; [apply mono_le_last; exact M | apply IH; assumption].
Qed.

(* ---------------------------------------------------------------- frame *)
Lemma step_refused cfg s c :
  reply_of (snd (step cfg s (OCmd c))) <> ROk ->
  fst (step cfg s (OCmd c)) = s /\ evs_of (snd (step cfg s (OCmd c))) = [] /\
  sends_of (snd (step cfg s (OCmd c))) = [].
Proof.
  destruct c; simpl; unfold do_retire, do_exit; destruct (nst s); try destruct (sup s); simpl;
    intro H; try (exfalso; apply H; reflexivity); auto.
Qed.

Lemma refused_noop cfg h c :
  reply_of (obs_at cfg h (OCmd c)) <> ROk ->
  final cfg (h ++ [OCmd c]) = final cfg h /\ evs_of (obs_at cfg h (OCmd c)) = [] /\
  sends_of (obs_at cfg h (OCmd c)) = [].
Proof. rewrite final_snoc. apply step_refused. Qed.

Lemma refused_unobservable cfg h c k :
  reply_of (obs_at cfg h (OCmd c)) <> ROk ->
  exists tail, run cfg (h ++ k) = run cfg h ++ tail /\
               run cfg (h ++ OCmd c :: k) = run cfg h ++ obs_at cfg h (OCmd c) :: tail.
Proof.
  intro R. exists (snd (run_from cfg (final cfg h) k)). split; [apply run_app|].
  change (h ++ OCmd c :: k) with (h ++ [OCmd c] ++ k). rewrite app_assoc, run_app, run_snoc.
  destruct (refused_noop cfg h c R) as [E _]. rewrite E, <- app_assoc. reflexivity.
Qed.

(* operations that name a service the node does not host *)
Definition about_unknown (cfg : config) (o : op) : bool :=
  match o with
  | OSvcCmd n _ | ONotify n | OQuery n => negb (hosted cfg n)
  | _ => false
  end.

Lemma unknown_service_noop cfg h o :
  about_unknown cfg o = true ->
  final cfg (h ++ [o]) = final cfg h /\ evs_of (obs_at cfg h o) = [] /\ sends_of (obs_at cfg h o) = [].
Proof.
  intro U. rewrite final_snoc. unfold obs_at.
  destruct o as [c| |k|k sc|k|succ|k|k|k]; simpl in U; try discriminate;
    apply negb_true_iff in U; pose proof (services_view cfg h k) as G; rewrite U in G; simpl.
  - unfold query_one. rewrite G. simpl. auto.
  - destruct sc; simpl; [|auto]. unfold service_retired. rewrite G. simpl. auto.
  - unfold service_retired. rewrite G. simpl. auto.
Qed.

(* ---------------------------------------------------------------- the monitor accepts the model *)
Lemma step_names_state cfg s o : names_state (nst s) (reply_of (snd (step cfg s o))) = true.
Proof.
  destruct o as [c| |k|k sc|k|succ|k|k|k]; simpl.
  - destruct c; simpl; unfold do_retire, do_exit; try apply nstate_eqb_refl; try reflexivity;
      destruct (nst s); try destruct (sup s); reflexivity.
  - destruct (query_list cfg s (akeys (svcs s))). reflexivity.
  - destruct (query_one cfg s k). reflexivity.
  - destruct sc; [|reflexivity]. destruct (service_retired s k). reflexivity.
  - destruct (service_retired s k). reflexivity.
  - destruct (pend s); [reflexivity|]. destruct succ; reflexivity.
  - reflexivity.
  - reflexivity.
  - reflexivity.
Qed.

Lemma query_one_sends cfg s k x :
  In x (snd (query_one cfg s k)) -> x = (k, KQuery) /\ resolvable cfg s k = true.
Proof.
  unfold query_one. destruct (aget k (svcs s)) as [[st sp]|]; [|contradiction].
  destruct (resolvable cfg s k); [|contradiction].
  destruct (answers_ok cfg k); simpl; intros [<-|[]]; auto.
Qed.

Lemma query_list_sends cfg l : forall s x,
  In x (snd (query_list cfg s l)) ->
  snd x = KQuery /\ resolvable cfg s (fst x) = true /\ In (fst x) l.
Proof.
  induction l as [|k r IH]; intros s x; simpl; [contradiction|].
  pose proof (query_one_sends cfg s k x) as Q.
  pose proof (proj2 (query_one_frame cfg s k)) as Hd.
  destruct (query_one cfg s k) as [s1 o1].
  specialize (IH s1 x). destruct (query_list cfg s1 r) as [s2 o2]. simpl in *.
  rewrite in_app_iff. intros [I|I].
  - destruct (Q I) as [-> P]. simpl. auto.
  - destruct (IH I) as [A [B C]]. unfold resolvable in *. rewrite Hd in B. auto.
Qed.

Lemma query_one_asks cfg s k :
  is_some (aget k (svcs s)) = true -> resolvable cfg s k = true ->
  In (k, KQuery) (snd (query_one cfg s k)).
Proof.
  intros G R. unfold query_one. destruct (aget k (svcs s)) as [[st sp]|]; [|discriminate].
  rewrite R. destruct (answers_ok cfg k); left; reflexivity.
Qed.

Lemma query_one_keeps cfg s k n :
  is_some (aget n (svcs (fst (query_one cfg s k)))) = is_some (aget n (svcs s)).
Proof.
  unfold query_one. destruct (aget k (svcs s)) as [[st sp]|] eqn:G; [|reflexivity].
  destruct (resolvable cfg s k); [|reflexivity]. destruct (answers_ok cfg k); [|reflexivity]. simpl.
  destruct (Z.eqb_spec n k) as [->|N]; [rewrite aget_aset_same, G; reflexivity | rewrite aget_aset_other by exact N; reflexivity].
Qed.

Lemma query_list_asks cfg l : forall s n,
  In n l -> is_some (aget n (svcs s)) = true -> resolvable cfg s n = true ->
  In (n, KQuery) (snd (query_list cfg s l)).
Proof.
  induction l as [|k r IH]; intros s n I G R; [contradiction|]. simpl.
  pose proof (query_one_asks cfg s k) as A. pose proof (query_one_keeps cfg s k n) as K.
  pose proof (proj2 (query_one_frame cfg s k)) as Dd.
  destruct (query_one cfg s k) as [s1 o1]. specialize (IH s1 n).
  destruct (query_list cfg s1 r) as [s2 o2]. simpl in *. apply in_or_app.
  destruct (Z.eq_dec k n) as [->|N].
  - left. apply A; assumption.
  - right. apply IH.
    + destruct I as [E|I]; [congruence | exact I].
    + rewrite K. exact G.
    + unfold resolvable in *. rewrite Dd. exact R.
Qed.

Lemma asked_reaches cfg h n sends :
  hidden h n = false -> present cfg n = true -> In (n, KQuery) sends ->
  (hidden h n || negb (present cfg n) || existsb (fun x => Z.eqb (fst x) n && is_kquery (snd x)) sends) = true.
Proof.
  intros Hd P I. rewrite Hd, P. simpl. apply existsb_exists. exists (n, KQuery).
  split; [exact I | simpl; rewrite Z.eqb_refl; reflexivity].
Qed.

Lemma resolvable_final cfg h n :
  resolvable cfg (final cfg h) n = true -> hosted cfg n = true /\ hidden h n = false.
Proof.
  rewrite (resolvable_hid _ _ _ (dir_ok_final cfg h)), hid_final. intro R.
  apply andb_true_iff in R. destruct R as [P H].
  apply negb_true_iff in H. split; [apply present_hosted; exact P | exact H].
Qed.

Lemma told_sends cfg h sends :
  (forall n, hosted cfg n = true -> hidden h n = false -> In (n, KRetire) sends) ->
  told cfg h sends = true.
Proof.
  intro T. unfold told. apply forallb_forall. intros n I.
  destruct (hidden h n) eqn:Hd; [reflexivity|]. simpl. apply existsb_exists.
  exists (n, KRetire). split; [|simpl; rewrite Z.eqb_refl; reflexivity].
  apply T; [apply hosted_names; exact I | exact Hd].
Qed.

Lemma dir_lists_publish cfg h' st hd :
  (forall n, zmem n hd = hidden h' n) -> dir_lists cfg h' st (publish cfg st hd) = true.
Proof.
  intro H. unfold dir_lists. apply andb_true_iff. split; apply forallb_forall.
  - intros n I. apply hosted_names in I. rewrite publish_get, I, H. simpl.
    destruct (hidden h' n); simpl; [reflexivity | apply nstate_eqb_refl].
  - intros [k v] I. simpl. apply (in_aget _ _ _ (publish_sorted cfg st hd)) in I.
    rewrite publish_get in I. destruct (hosted cfg k); [reflexivity | discriminate].
Qed.

(* what a topology publication shows is the directory it leaves, correctly stamped *)
Lemma topo_lists cfg h o :
  is_topo o = true ->
  exists l, obs_at cfg h o = Ob (RDir l) [] [] /\ l = dir (final cfg (h ++ [o])) /\
            dir_lists cfg (h ++ [o]) (nst (final cfg h)) l = true.
Proof.
  intro T. destruct (step_topo cfg (final cfg h) o T) as [E [_ [_ [_ [_ B]]]]].
  rewrite <- final_snoc in E, B. exists (dir (final cfg (h ++ [o]))). split; [exact B|]. split; [reflexivity|].
  rewrite E. apply dir_lists_publish. intro n. apply hid_final.
Qed.

Lemma check_op_model cfg h o :
  check_op cfg h (last_pub (run cfg h)) o (reply_of (obs_at cfg h o)) (evs_of (obs_at cfg h o))
           (sends_of (obs_at cfg h o)) = true.
Proof.
  rewrite <- state_published.
  assert (Topo : is_topo o = true ->
            check_op cfg h (nst (final cfg h)) o (reply_of (obs_at cfg h o)) (evs_of (obs_at cfg h o))
                     (sends_of (obs_at cfg h o)) = true).
  { intro T. destruct (topo_lists cfg h o T) as [l [-> [_ L]]].
    destruct o; try discriminate; simpl; rewrite L; reflexivity. }
  unfold obs_at in *.
  destruct o as [c| |k|k sc|k|succ|k|k|k].
  - destruct (is_ok (reply_of (snd (step cfg (final cfg h) (OCmd c))))) eqn:Ok.
    + assert (A : reply_of (obs_at cfg h (OCmd c)) = ROk).
      { unfold obs_at. destruct (reply_of _); try discriminate. reflexivity. }
      unfold check_op. rewrite Ok.
      destruct (is_retire_cmd (OCmd c)) eqn:R.
      * destruct (retire_guard cfg h _ R A) as [St D].
        destruct (retire_tells_all cfg h _ R A) as [E [_ [T O]]].
        unfold obs_at in E, T, O. rewrite E. rewrite <- state_published in St.
        rewrite !andb_true_iff. repeat split.
        -- destruct St as [->| ->]; reflexivity.
        -- apply all_declared_spec. exact D.
        -- apply told_sends. exact T.
        -- apply forallb_forall. intros x I. destruct (O x I) as [-> [-> ->]]. reflexivity.
      * destruct (is_exit_cmd (OCmd c)) eqn:E.
        -- destruct (exit_guard cfg h _ E) as [G1 G2]. destruct (G2 A) as [Ev Sn].
           apply G1 in A. rewrite <- state_published in A. unfold obs_at in Ev, Sn.
           rewrite A, Ev, Sn. reflexivity.
        -- exfalso. destruct c; simpl in *; discriminate.
    + unfold check_op. rewrite Ok.
      assert (A : reply_of (snd (step cfg (final cfg h) (OCmd c))) <> ROk).
      { intro A. rewrite A in Ok. discriminate. }
      destruct (step_refused cfg _ c A) as [_ [-> ->]]. reflexivity.
  - simpl. pose proof (query_list_sends cfg (akeys (svcs (final cfg h))) (final cfg h)) as Q.
    assert (AS : forall n, hosted cfg n = true -> hidden h n = false -> present cfg n = true ->
                 In (n, KQuery) (snd (query_list cfg (final cfg h) (akeys (svcs (final cfg h)))))).
    { intros n Hn Hd P. pose proof (services_view cfg h n) as G. rewrite Hn in G.
      apply query_list_asks; [eapply aget_some_keys; exact G | rewrite G; reflexivity |].
      rewrite (resolvable_hid _ _ _ (dir_ok_final cfg h)), hid_final, P, Hd. reflexivity. }
    destruct (query_list cfg (final cfg h) (akeys (svcs (final cfg h)))) as [s1 snds]. simpl in *.
    apply andb_true_iff. split.
    + apply forallb_forall. intros x I. destruct (Q x I) as [-> [P _]].
      destruct (resolvable_final _ _ _ P) as [-> ->]. reflexivity.
    + apply forallb_forall. intros n I. apply hosted_names in I. simpl.
      destruct (hidden h n) eqn:Hd; [reflexivity|]. destruct (present cfg n) eqn:P; [|reflexivity].
      rewrite <- Hd at 1. rewrite <- P at 1. apply asked_reaches; [exact Hd | exact P |].
      apply AS; [exact I | exact Hd | exact P].
  - simpl. pose proof (query_one_sends cfg (final cfg h) k) as Q.
    assert (AS1 : hosted cfg k = true -> hidden h k = false -> present cfg k = true ->
                  In (k, KQuery) (snd (query_one cfg (final cfg h) k))).
    { intros Hn Hd P. pose proof (services_view cfg h k) as G. rewrite Hn in G.
      apply query_one_asks; [rewrite G; reflexivity | rewrite (resolvable_hid _ _ _ (dir_ok_final cfg h)), hid_final, P, Hd; reflexivity]. }
    destruct (query_one cfg (final cfg h) k) as [s1 snds]. simpl in *.
    apply andb_true_iff. split.
    + apply forallb_forall. intros x I. destruct (Q x I) as [-> P]. simpl.
      destruct (resolvable_final _ _ _ P) as [-> ->]. rewrite Z.eqb_refl. reflexivity.
    + apply forallb_forall. intros n I. apply hosted_names in I. simpl.
      destruct (Z.eqb_spec k n) as [->|N]; [|reflexivity]. simpl.
      destruct (hidden h n) eqn:Hd; [reflexivity|]. destruct (present cfg n) eqn:P; [|reflexivity].
      rewrite <- Hd at 1. rewrite <- P at 1. apply asked_reaches; [exact Hd | exact P |].
      apply AS1; [exact I | reflexivity | reflexivity].
  - simpl. destruct sc; [|reflexivity]. destruct (service_retired (final cfg h) k). reflexivity.
  - simpl. destruct (service_retired (final cfg h) k). reflexivity.
  - simpl. destruct (pend (final cfg h)); [reflexivity|]. destruct succ; reflexivity.
  - apply Topo. reflexivity.
  - apply Topo. reflexivity.
  - apply Topo. reflexivity.
Qed.

(* a topology publication (a service left out / listed again, or a membership change) changes
   the directory and nothing else *)
Lemma topo_frame cfg h o :
  is_topo o = true ->
  nst (final cfg (h ++ [o])) = nst (final cfg h) /\ svcs (final cfg (h ++ [o])) = svcs (final cfg h) /\
  sup (final cfg (h ++ [o])) = sup (final cfg h) /\ pend (final cfg (h ++ [o])) = pend (final cfg h) /\
  obs_at cfg h o = Ob (RDir (dir (final cfg (h ++ [o])))) [] [].
Proof.
  intro T. rewrite final_snoc. unfold obs_at.
  destruct (step_topo cfg (final cfg h) o T) as [_ [A [B [C [E F]]]]]. auto.
Qed.

(* ---------------------------------------------------------------- the directory in terms of the history *)
(* after a topology publication: exactly the hosted services not left out, each carrying the
   node state that was published last at that moment *)
Lemma directory_rebuilt cfg h o n :
  is_topo o = true ->
  aget n (dir (final cfg (h ++ [o]))) =
  if hosted cfg n && negb (hidden (h ++ [o]) n) then Some (last_pub (run cfg h)) else None.
Proof.
  intro T. destruct (step_topo cfg (final cfg h) o T) as [E _]. rewrite <- final_snoc in E.
  rewrite E, publish_get, hid_final, state_published. reflexivity.
Qed.

(* anything else - in particular the node publishing a new state - leaves the directory as it
   is: the state copies go stale *)
Lemma directory_stale cfg h o :
  is_topo o = false -> dir (final cfg (h ++ [o])) = dir (final cfg h).
Proof. intro T. rewrite final_snoc. exact (proj2 (step_frame cfg (final cfg h) o T)). Qed.

(* App.GetService finds a hosted service iff the topology lists it - whatever state is copied *)
Lemma resolvable_view cfg h n :
  resolvable cfg (final cfg h) n = present cfg n && negb (hidden h n).
Proof. rewrite (resolvable_hid _ _ _ (dir_ok_final cfg h)), hid_final. reflexivity. Qed.

Lemma listed_view cfg h n :
  is_some (aget n (dir (final cfg h))) = hosted cfg n && negb (hidden h n).
Proof. rewrite (dir_ok_final cfg h n), hid_final. reflexivity. Qed.

Lemma directory_view cfg h o :
  (is_topo o = true -> forall n,
     aget n (dir (final cfg (h ++ [o]))) =
     if hosted cfg n && negb (hidden (h ++ [o]) n) then Some (last_pub (run cfg h)) else None) /\
  (is_topo o = false -> dir (final cfg (h ++ [o])) = dir (final cfg h)).
Proof. split; [intros T n; exact (directory_rebuilt cfg h o n T) | exact (directory_stale cfg h o)]. Qed.

Lemma resolution_ignores_state cfg h n :
  resolvable cfg (final cfg h) n = present cfg n && negb (hidden h n) /\
  is_some (aget n (dir (final cfg h))) = hosted cfg n && negb (hidden h n).
Proof. split; [exact (resolvable_view cfg h n) | exact (listed_view cfg h n)]. Qed.

(* command delivery does not depend on the state the directory carries for the service: an
   accepted retire reaches every hosted service the directory lists, with any state copy *)
Lemma retire_delivery_any_state cfg h o n st :
  is_retire_cmd o = true -> reply_of (obs_at cfg h o) = ROk ->
  hosted cfg n = true -> aget n (dir (final cfg h)) = Some st ->
  In (n, KRetire) (sends_of (obs_at cfg h o)).
Proof.
  intros R A H G. destruct (retire_tells_all cfg h o R A) as [_ [_ [T _]]]. apply T; [exact H|].
  pose proof (listed_view cfg h n) as L. rewrite G, H in L. simpl in L.
  destruct (hidden h n); [discriminate | reflexivity].
Qed.

(* ---------------------------------------------------------------- membership changes are unobservable *)
(* two controller states that differ at most in the directory's state copies *)
Definition eqx (s s' : state) : Prop :=
  nst s = nst s' /\ svcs s = svcs s' /\ sup s = sup s' /\ pend s = pend s' /\ hid s = hid s'.

Lemma eqx_resolvable cfg s s' n :
  dir_ok cfg s -> dir_ok cfg s' -> eqx s s' -> resolvable cfg s n = resolvable cfg s' n.
Proof.
  intros D D' [_ [_ [_ [_ H]]]]. rewrite (resolvable_hid _ _ _ D), (resolvable_hid _ _ _ D'), H. reflexivity.
Qed.

Lemma eqx_query_one cfg s s' k :
  dir_ok cfg s -> dir_ok cfg s' -> eqx s s' ->
  snd (query_one cfg s k) = snd (query_one cfg s' k) /\
  eqx (fst (query_one cfg s k)) (fst (query_one cfg s' k)).
Proof.
  intros D D' E. pose proof (eqx_resolvable cfg s s' k D D' E) as R.
  destruct E as [N [V [U [P H]]]]. unfold query_one. rewrite <- R, <- V.
  destruct (aget k (svcs s)) as [[st sp]|]; [|repeat split; assumption].
  destruct (resolvable cfg s k); [|repeat split; assumption].
  destruct (answers_ok cfg k); repeat split; simpl; congruence.
Qed.

Lemma eqx_query_list cfg l : forall s s',
  dir_ok cfg s -> dir_ok cfg s' -> eqx s s' ->
  snd (query_list cfg s l) = snd (query_list cfg s' l) /\
  eqx (fst (query_list cfg s l)) (fst (query_list cfg s' l)).
Proof.
  induction l as [|k r IH]; intros s s' D D' E; simpl; [split; [reflexivity | exact E]|].
  destruct (eqx_query_one cfg s s' k D D' E) as [O1 E1].
  pose proof (query_one_frame cfg s k) as [Fh Fd]. pose proof (query_one_frame cfg s' k) as [Fh' Fd'].
  destruct (query_one cfg s k) as [s1 o1]. destruct (query_one cfg s' k) as [s1' o1']. simpl in *.
  destruct (IH s1 s1' (dir_ok_same _ _ _ Fh Fd D) (dir_ok_same _ _ _ Fh' Fd' D') E1) as [O2 E2].
  destruct (query_list cfg s1 r) as [s2 o2]. destruct (query_list cfg s1' r) as [s2' o2']. simpl in *.
  split; [congruence | exact E2].
Qed.

Lemma eqx_service_retired s s' k :
  eqx s s' ->
  snd (service_retired s k) = snd (service_retired s' k) /\
  eqx (fst (service_retired s k)) (fst (service_retired s' k)).
Proof.
  intros [N [V [U [P H]]]]. unfold service_retired. rewrite <- V, <- N.
  destruct (aget k (svcs s)) as [[st sp]|]; [|repeat split; assumption].
  destruct (all_retired _ && _); repeat split; simpl; congruence.
Qed.

Lemma eqx_retire_sends cfg s s' :
  dir_ok cfg s -> dir_ok cfg s' -> eqx s s' -> retire_sends cfg s = retire_sends cfg s'.
Proof.
  intros D D' E. unfold retire_sends. apply flat_map_ext. intro n.
  rewrite (eqx_resolvable cfg s s' n D D' E). reflexivity.
Qed.

(* the same operation on two such states shows the same and leaves two such states *)
Lemma eqx_step cfg s s' o :
  dir_ok cfg s -> dir_ok cfg s' -> eqx s s' ->
  snd (step cfg s o) = snd (step cfg s' o) /\ eqx (fst (step cfg s o)) (fst (step cfg s' o)).
Proof.
  intros D D' E. pose proof E as [N [V [U [P H]]]].
  destruct o as [c| |k|k sc|k|succ|k|k|k]; simpl.
  - pose proof (eqx_retire_sends cfg s s' D D' E) as RS.
    destruct c; simpl; unfold do_retire, do_exit; rewrite <- ?N, <- ?U, <- ?V, <- ?RS;
      try (split; [reflexivity | exact E]);
      destruct (nst s); try (split; [reflexivity | exact E]);
      try (destruct (sup s); try (split; [reflexivity | exact E]));
      repeat split; simpl; congruence.
  - rewrite <- V. pose proof (eqx_query_list cfg (akeys (svcs s)) s s' D D' E) as [O1 E1].
    destruct (query_list cfg s (akeys (svcs s))). destruct (query_list cfg s' (akeys (svcs s))).
    simpl in *. split; [congruence | exact E1].
  - pose proof (eqx_query_one cfg s s' k D D' E) as [O1 E1].
    destruct (query_one cfg s k). destruct (query_one cfg s' k). simpl in *. split; [congruence | exact E1].
  - destruct sc; [|split; [reflexivity | exact E]].
    pose proof (eqx_service_retired s s' k E) as [O1 E1].
    destruct (service_retired s k). destruct (service_retired s' k). simpl in *. split; [congruence | exact E1].
  - pose proof (eqx_service_retired s s' k E) as [O1 E1].
    destruct (service_retired s k). destruct (service_retired s' k). simpl in *. split; [congruence | exact E1].
  - rewrite <- P. destruct (pend s); [split; [reflexivity | exact E]|].
    destruct succ; repeat split; simpl; congruence.
  - unfold republish. simpl. rewrite <- N, <- H. repeat split; assumption.
  - unfold republish. simpl. rewrite <- N, <- H. repeat split; assumption.
  - unfold republish. simpl. rewrite <- N, <- H. repeat split; assumption.
Qed.

Lemma eqx_rebuild cfg s o : is_rebuild o = true -> eqx (fst (step cfg s o)) s.
Proof. destruct o; try discriminate. intros _. simpl. repeat split. Qed.

Lemma eqx_trans s1 s2 s3 : eqx s1 s2 -> eqx s2 s3 -> eqx s1 s3.
Proof. unfold eqx. intros [A [B [C [D E]]]] [A' [B' [C' [D' E']]]]. repeat split; congruence. Qed.

Lemma erase_run_from cfg h : forall s s',
  dir_ok cfg s -> dir_ok cfg s' -> eqx s s' ->
  snd (run_from cfg s' (erase_topo h)) = erase_obs h (snd (run_from cfg s h)).
Proof.
  induction h as [|o r IH]; intros s s' D D' E; [reflexivity|].
  cbn [erase_topo filter run_from]. fold (erase_topo r).
  pose proof (step_dir_ok cfg s o D) as D1.
  destruct (is_rebuild o) eqn:T; cbn [negb].
  - pose proof (eqx_rebuild cfg s o T) as E1.
    destruct (step cfg s o) as [s1 b]. simpl in *.
    specialize (IH s1 s' D1 D' (eqx_trans _ _ _ E1 E)).
    destruct (run_from cfg s1 r) as [s2 bs]. simpl in *. rewrite T. exact IH.
  - cbn [run_from]. pose proof (step_dir_ok cfg s' o D') as D1'.
    destruct (eqx_step cfg s s' o D D' E) as [O1 E1].
    destruct (step cfg s o) as [s1 b]. destruct (step cfg s' o) as [s1' b']. simpl in *.
    specialize (IH s1 s1' D1 D1' E1).
    destruct (run_from cfg s1 r) as [s2 bs]. destruct (run_from cfg s1' (erase_topo r)) as [s2' bs'].
    simpl in *. rewrite T. congruence.
Qed.

(* whatever membership changes happen, wherever in the history: every other operation shows
   exactly what it shows in the history without them *)
Lemma rebuild_unobservable cfg h : run cfg (erase_topo h) = erase_obs h (run cfg h).
Proof.
  unfold run. apply erase_run_from; try apply dir_ok_init. repeat split.
Qed.

Lemma step_reply_view cfg h o : reply_view cfg h (reply_of (obs_at cfg h o)) = true.
Proof.
  unfold obs_at.
  destruct o as [c| |k|k sc|k|succ|k|k|k]; simpl.
  - destruct c; simpl; unfold do_retire, do_exit; try reflexivity;
      try (destruct (nst (final cfg h)); try destruct (sup (final cfg h)); reflexivity).
    unfold nodes_view. apply andb_true_iff. split; apply forallb_forall.
    + intros n I. apply hosted_names in I. rewrite services_view, I.
      destruct (reported h n); simpl; apply eqb_reflx.
    + intros [k x] I. simpl.
      apply (in_aget _ _ _ (sv_sorted _ _ _ _ _ (i_sv _ _ _ _ (inv_final cfg h)))) in I.
      rewrite services_view in I. destruct (hosted cfg k); [reflexivity | discriminate].
  - destruct (query_list cfg (final cfg h) (akeys (svcs (final cfg h)))). reflexivity.
  - destruct (query_one cfg (final cfg h) k). reflexivity.
  - destruct sc; [|reflexivity]. destruct (service_retired (final cfg h) k). reflexivity.
  - destruct (service_retired (final cfg h) k). reflexivity.
  - destruct (pend (final cfg h)); [reflexivity|]. destruct succ; reflexivity.
  - reflexivity.
  - reflexivity.
  - reflexivity.
Qed.

Lemma check_model cfg h o : check cfg h (run cfg h) o (obs_at cfg h o) = true.
Proof.
  pose proof (inv_final cfg h) as I. pose proof (inv_final cfg (h ++ [o])) as I'.
  rewrite run_snoc in I'. unfold check. rewrite !andb_true_iff. repeat split.
  - pose proof (i_mono _ _ _ _ I') as M. rewrite pubs_snoc, mono_from_app in M.
    apply andb_true_iff in M. exact (proj2 M).
  - apply Nat.eqb_eq. apply step_stops.
  - apply Nat.leb_le. pose proof (i_stops _ _ _ _ I') as S. rewrite stops_snoc in S. rewrite S.
    destruct (4 <=? rank (nst (final cfg (h ++ [o])))); lia.
  - destruct (existsb (nstate_eqb Retired) (pubs_ob (obs_at cfg h o))) eqn:E; [|reflexivity].
    apply existsb_exists in E. destruct E as [x [In E]]. apply nstate_eqb_spec in E. subst x.
    pose proof (i_mono _ _ _ _ I') as M. rewrite pubs_snoc, mono_from_app in M.
    apply andb_true_iff in M. destruct M as [_ M].
    pose proof (mono_last_ge _ _ _ M In) as G.
    pose proof (i_nst _ _ _ _ I') as N. rewrite last_pub_snoc in N.
    change (last (pubs (run cfg h)) Working) with (last_pub (run cfg h)) in G. rewrite <- N in G.
    pose proof (i_ret _ _ _ _ I') as R. simpl in G.
    destruct (all_reported cfg (h ++ [o])); [reflexivity|]. rewrite andb_false_r in R. lia.
  - rewrite <- state_published. apply step_names_state.
  - apply check_op_model.
  - pose proof (i_ret _ _ _ _ I') as R. pose proof (i_nst _ _ _ _ I') as N.
    rewrite last_pub_snoc in N. rewrite <- R, N.
    destruct (3 <=? rank (last (pubs_ob (obs_at cfg h o)) (last_pub (run cfg h)))); reflexivity.
  - apply step_reply_view.
Qed.

Lemma holds_from_model cfg h2 : forall h1,
  holds_from cfg h1 (run cfg h1) h2 (snd (run_from cfg (final cfg h1) h2)) = true.
Proof.
  induction h2 as [|o r IH]; intro h1; simpl; [reflexivity|].
  pose proof (check_model cfg h1 o) as C. pose proof (final_snoc cfg h1 o) as F.
  pose proof (run_snoc cfg h1 o) as R. unfold obs_at in *.
  destruct (step cfg (final cfg h1) o) as [s1 b]. simpl in *.
  specialize (IH (h1 ++ [o])). rewrite F, R in IH.
  destruct (run_from cfg s1 r) as [s2 bs]. simpl in *. rewrite C, IH. reflexivity.
Qed.

Lemma holds_model cfg h : holds cfg h (run cfg h) = true.
Proof. exact (holds_from_model cfg h []). Qed.

(* a hosted service that has not itself reported retired is never booked as retired - whether
   or not it could be resolved when retire was sent - and keeps the node below Retired *)
Lemma unreported_not_retired cfg h n :
  hosted cfg n = true -> reported h n = false ->
  rank (last_pub (run cfg h)) < 3 /\
  aget n (svcs (final cfg h)) = Some (Working, declared cfg h n).
Proof.
  intros H R. split.
  - destruct (Z.lt_ge_cases (rank (last_pub (run cfg h))) 3) as [L|G]; [exact L|].
    apply retired_iff in G. destruct G as [_ G]. rewrite (G n H) in R. discriminate.
  - rewrite services_view, H, R. reflexivity.
Qed.

(* ---------------------------------------------------------------- reports and declarations are kept *)
Lemma reported_app h k n : reported h n = true -> reported (h ++ k) n = true.
Proof. intro R. unfold reported in *. rewrite existsb_app, R. reflexivity. Qed.

(* a "retired" report is never lost: whatever follows - retire accepted again, refused commands,
   topology changes - the service stays booked as retired *)
Lemma reports_are_kept cfg h k n :
  hosted cfg n = true -> reported h n = true ->
  aget n (svcs (final cfg (h ++ k))) = Some (Retired, declared cfg (h ++ k) n).
Proof. intros H R. rewrite services_view, H, (reported_app h k n R). reflexivity. Qed.

(* retirement support is declared by answering the support query and by nothing else: an
   operation that asks nobody changes no service's declaration nor the node's readiness *)
Lemma support_only_by_query cfg h o :
  (forall n, asks o n = false) ->
  (forall n, declared cfg (h ++ [o]) n = declared cfg h n) /\
  sup (final cfg (h ++ [o])) = sup (final cfg h).
Proof.
  intro A.
  assert (D : forall n, declared cfg (h ++ [o]) n = declared cfg h n).
  { intro n. unfold declared. rewrite queried_snoc, A. simpl. rewrite orb_false_r. reflexivity. }
  split; [exact D|]. rewrite !support_view. f_equal. unfold all_declared.
  apply forallb_ext_in. intros n _. apply D.
Qed.

(* ---------------------------------------------------------------- the node's service list *)
Lemma defined_filter nl : defined (filter is_defined nl) = defined nl.
Proof.
  unfold defined. induction nl as [|[n [d|]] r IH]; simpl; [reflexivity | rewrite IH; reflexivity | exact IH].
Qed.

Lemma defined_app a b : defined (a ++ b) = defined a ++ defined b.
Proof. unfold defined. apply flat_map_app. Qed.

(* entries of the node's service list that the services section does not define are invisible:
   wherever they stand (first, between, last, repeated), the hosted services - the ones
   enumerated, asked, told and waited for - are the defined entries in list order, and every
   history runs exactly as on the list without them *)
Lemma undefined_entries_invisible (nl : nodelist) :
  names (defined nl) = map fst (filter is_defined nl) /\
  (forall a n b, defined (a ++ (n, None) :: b) = defined (a ++ b)) /\
  forall h, run (defined nl) h = run (defined (filter is_defined nl)) h.
Proof.
  split; [|split].
  - unfold names, defined. induction nl as [|[n [d|]] r IH]; simpl; [reflexivity | rewrite IH; reflexivity | exact IH].
  - intros a n b. rewrite !defined_app. reflexivity.
  - intro h. rewrite defined_filter. reflexivity.
Qed.
