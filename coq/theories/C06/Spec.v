(* C06 - vocabulary of the property statements (no proofs): which messages / packets /
   dictionaries are "valid", which fields a message type carries, what an incomplete
   trailing fragment of a packet stream is. *)
From Cell2V Require Import Common.Tac Common.ListX C06.Model.

Definition byte (b : Z) : Prop := 0 <= b < 256.
Definition bytes (l : list Z) : Prop := Forall byte l.

Definition dict_ok (d : dict) : Prop :=
  forall r c, route_code r (d_routes d) = Some c ->
              code_route c (d_codes d) = Some r /\ 0 <= c < 65536.

Definition valid_msg (d : dict) (m : msg) : Prop :=
  invalid_type (mtype m) = false /\
  (route_code (mroute m) (d_routes d) = None -> len (mroute m) <= 255).

Definition carried (m : msg) : msg :=
  mkMsg (mtype m) (if has_id (mtype m) then mid m mod two64 else 0)
        (if routable (mtype m) then mroute m else []) (mdata m) (merr m).

Definition dict_bij (d : dict) : Prop :=
  (forall r c, route_code r (d_routes d) = Some c -> code_route c (d_codes d) = Some r /\ 0 <= c < 65536) /\
  (forall r c, code_route c (d_codes d) = Some r -> route_code r (d_routes d) = Some c).

Definition entries_ok (es : list (list Z * Z)) : Prop := Forall (fun e => 0 <= snd e < 65536) es.

Definition hdr (t n : Z) : list Z := [t; (n / 65536) mod 256; (n / 256) mod 256; n mod 256].

Definition valid_pkt (p : pkt) : Prop := pkt_type_ok (fst p) = true /\ len (snd p) < MaxPacketSize.
Definition enc_bytes (p : pkt) : list Z := hdr (fst p) (len (snd p)) ++ snd p.
Definition stream (ps : list pkt) : list Z := concat (map enc_bytes ps).

(* a tail that is not a whole packet: shorter than a header, or a valid header whose body
   has not arrived completely *)
Definition incomplete (tail : list Z) : Prop :=
  len tail < HeadLength \/
  exists t n partial, pkt_type_ok t = true /\ 0 <= n < MaxPacketSize /\
                      tail = hdr t n ++ partial /\ len partial < n.


(* how GetNextMessage ends on a stream whose tail is not a whole packet *)
Definition tail_end (tail : list Z) : fend :=
  if len tail =? 0 then FClosed
  else if len tail <? HeadLength then FBad EPktHeader
  else FShortBody.
