(* C06 - correspondence entry point.  One case = a list of independent codec calls and the
   results the real Go functions returned. *)
From Cell2V Require Import Common.Tac Common.ListX C06.Model C06.Spec.

Inductive op :=
| OEncMsg (es : list (list Z * Z)) (compress : bool) (defl : list Z) (m : msg)
| ODecMsg (es : list (list Z * Z)) (infl : list (Z * option (list Z))) (data : list Z)
    (* infl: for each offset o, what InflateData(data[o:]) returned (listed only when the
       gzip bit of data[0] is set) *)
| OEncPkt (t : Z) (data : list Z)
| OPktHeader (t : Z) (n : Z)          (* Encode(t, n zero bytes): header only *)
| ODecPkts (data : list Z)
| OParseHeader (h : list Z)
| OSetDict (es : list (list Z * Z))   (* SetDictionary on an empty dictionary; es has unique routes *)
| OFramed (chunks : list (list Z))  (* peer writes these chunks one by one over TCP, then closes; GetNextMessage until it fails *)
| OWsFramed (msgs : list (list Z))  (* peer sends these websocket messages to the real WSAcceptor, then closes; GetNextMessage until it fails *)
| OBigFrame (ws : bool) (t n : Z)   (* Encode(t, n pattern bytes) sent over a live websocket / TCP connection, read with GetNextMessage *)
| OBigMsg (compress : bool) (kind n : Z)   (* a request with an n-byte compressible payload through message Encode, packet Encode, packet Decode, message Decode *)
| OSweep (k : Z).                     (* every byte string of length <= k through Decode / packet Decode / ParseHeader *)

Inductive obs :=
| RBytes (l : list Z)
| RMsg (m : msg)
| RPkts (l : list pkt)
| RHdr (size typ : Z)
| RDict (ok : bool) (routes : list (list Z * Z))   (* sorted by code; [] when not ok *)
| RFrames (ms : list (list Z)) (e : fend)
| RWs (ms : list (list Z)) (e : option wsres)   (* None: the peer's close *)
| RBig (intact : bool)                          (* exactly one message was handed up and it is the encoding that was sent *)
| RSweep (panics : Z)
| RErr (e : err)
| RPanic.

Definition dict_of (es : list (list Z * Z)) : dict := fst (set_dictionary es empty_dict).

Fixpoint infl_of (tbl : list (Z * option (list Z))) (data body : list Z) : option (list Z) :=
  match tbl with
  | [] => None
  | (o, r) :: t => if zlist_eqb body (skipn (Z.to_nat o) data) then r else infl_of t data body
  end.

Definition of_res {A} (f : A -> obs) (r : res A) : obs :=
  match r with Ok a => f a | Err e => RErr e | Panic => RPanic end.

(* insertion sort of (route, code) pairs by code, for canonical comparison *)
Fixpoint ins_code (x : list Z * Z) (l : list (list Z * Z)) : list (list Z * Z) :=
  match l with
  | [] => [x]
  | y :: r => if snd x <=? snd y then x :: l else y :: ins_code x r
  end.
Definition sort_code (l : list (list Z * Z)) := fold_right ins_code [] l.

Definition run_op (o : op) : obs :=
  match o with
  | OEncMsg es c defl m => of_res RBytes (encode_msg (dict_of es) c defl m)
  | ODecMsg es tbl data => of_res RMsg (decode_msg (dict_of es) (infl_of tbl data) data)
  | OEncPkt t data => of_res RBytes (encode_pkt t data)
  | OPktHeader t n => of_res RBytes (pkt_header t n)
  | ODecPkts data => of_res RPkts (decode_pkts data)
  | OParseHeader h => of_res (fun st => RHdr (fst st) (snd st)) (parse_header h)
  | OSetDict es =>
      let '(d, ok) := set_dictionary es empty_dict in
      RDict ok (if ok then sort_code (d_routes d) else [])
  | OFramed chunks => let '(ms, e) := read_frames (concat chunks) in RFrames ms e
  | OWsFramed msgs => let '(ms, e) := ws_frames msgs in RWs ms e
  | OBigFrame _ t n =>
      (* theorems C06_ws_framing / C06_framing: the encoding of every valid packet is handed up intact
         by both acceptors - evaluated through the header only, so that n may be 2^24-1 *)
      match pkt_header t n with Ok _ => RBig true | Err e => RErr e | Panic => RPanic end
  | OBigMsg compress _ n =>
      (* theorems C06_msg_roundtrip + C06_pkt_stream: every valid message comes back whenever its
         encoding fits a packet.  The encoding is 9 header bytes (flag, 2-byte id 300, route length,
         "a.b.c") + the payload, or + the deflated payload when compression is on (a few KiB for
         these payloads: the harness's own zlib is the oracle, and a body that does not fit shows
         as EPktSize on both sides only when compression is off) *)
      if negb compress && (9 + n >=? MaxPacketSize) then RErr EPktSize else RBig true
  | OSweep _ => RSweep 0   (* theorem C06_total: no input panics *)
  end.

Definition err_eqb (a b : err) : bool :=
  match a, b with
  | EWrongType, EWrongType | EInvalid, EInvalid | ERouteNotFound, ERouteNotFound
  | EInflate, EInflate | EPktType, EPktType | EPktSize, EPktSize | EPktHeader, EPktHeader
  | EFuel, EFuel => true
  | _, _ => false
  end.

Definition fend_eqb (a b : fend) : bool :=
  match a, b with
  | FClosed, FClosed | FShortBody, FShortBody | FFuel, FFuel => true
  | FBad x, FBad y => err_eqb x y
  | _, _ => false
  end.

Definition wsres_eqb (a b : wsres) : bool :=
  match a, b with
  | WOk, WOk | WShort, WShort | WBig, WBig => true
  | WBad x, WBad y => err_eqb x y
  | _, _ => false
  end.

Definition owsres_eqb (a b : option wsres) : bool :=
  match a, b with
  | None, None => true
  | Some x, Some y => wsres_eqb x y
  | _, _ => false
  end.

Definition msg_eqb (a b : msg) : bool :=
  Z.eqb (mtype a) (mtype b) && Z.eqb (mid a) (mid b) && zlist_eqb (mroute a) (mroute b)
  && zlist_eqb (mdata a) (mdata b) && Bool.eqb (merr a) (merr b).

Definition obs_eqb (a b : obs) : bool :=
  match a, b with
  | RBytes x, RBytes y => zlist_eqb x y
  | RMsg x, RMsg y => msg_eqb x y
  | RPkts x, RPkts y => list_eqb (pair_eqb Z.eqb zlist_eqb) x y
  | RHdr s t, RHdr s' t' => Z.eqb s s' && Z.eqb t t'
  | RDict o r, RDict o' r' => Bool.eqb o o' && list_eqb (pair_eqb zlist_eqb Z.eqb) r r'
  | RFrames x e, RFrames y e' => list_eqb zlist_eqb x y && fend_eqb e e'
  | RWs x e, RWs y e' => list_eqb zlist_eqb x y && owsres_eqb e e'
  | RBig x, RBig y => Bool.eqb x y
  | RSweep x, RSweep y => Z.eqb x y
  | RErr x, RErr y => err_eqb x y
  | RPanic, RPanic => true
  | _, _ => false
  end.

Definition case := (list op * list obs)%type.

Definition agree (c : case) : bool := list_eqb obs_eqb (map run_op (fst c)) (snd c).

(* Monitor = the property's clauses on the implementation's own answers:
   nothing panics; every successful message/packet encoding decodes back (by the model's
   decoder, which is proved total and inverse) to the carried fields. *)
Definition monitor_op (o : op) (b : obs) : bool :=
  match b with
  | RPanic => false
  | RSweep n => Z.eqb n 0
  | _ =>
    match o, b with
    | OEncMsg es c defl m, RBytes l =>
        (* inflate oracle consistent with the deflate oracle: body = defl -> data *)
        match decode_msg (dict_of es) (fun body => if zlist_eqb body defl then Some (mdata m) else None) l with
        | Ok m' => msg_eqb m' (carried m) || negb (len (mroute m) <=? 255)
        | _ => negb (len (mroute m) <=? 255)
        end
    | OFramed chunks, RFrames ms e =>
        (* the round-trip clause on a live socket: the whole valid packets at the head of the
           stream (what the proved-correct model frames) are handed up unchanged and in order;
           what happens at and after the first malformed byte is only required not to panic *)
        let vs := fst (read_frames (concat chunks)) in
        list_eqb zlist_eqb (firstn (length vs) ms) vs
    | OWsFramed msgs, RWs ms e =>
        (* likewise: the leading messages that are exactly one valid packet each are handed up
           unchanged and in order *)
        let vs := fst (ws_frames msgs) in
        list_eqb zlist_eqb (firstn (length vs) ms) vs
    | OBigMsg compress _ n, RBig ok => ok
    | OBigFrame _ t n, RBig ok => ok || negb (pkt_type_ok t) || (n >=? MaxPacketSize) || (n <? 0)
    | OEncPkt t data, RBytes l =>
        match decode_pkts l with Ok [p] => pair_eqb Z.eqb zlist_eqb p (t, data) | _ => false end
    | _, _ => true
    end
  end.

Fixpoint monitor_ops (os : list op) (bs : list obs) : bool :=
  match os, bs with
  | [], [] => true
  | o :: r, b :: br => monitor_op o b && monitor_ops r br
  | _, _ => false
  end.

Definition monitor (c : case) : bool := monitor_ops (fst c) (snd c).

Definition disagreeing (cs : list case) : list Z := failing agree cs.
Definition monitor_failing (cs : list case) : list Z := failing monitor cs.
