(* C06 - property theorems only. *)
From Cell2V Require Import Common.Tac Common.ListX C06.Model C06.Spec C06.Proofs.

(* Round trip: for every dictionary whose two maps are mutually inverse, every message of a
   valid type whose route is in the dictionary or at most 255 bytes long - any id, any
   payload, either error flag, compression on or off, any zlib satisfying
   inflate (deflate x) = Some x - whatever Encode returns decodes to the same message in
   every field the protocol carries for that type. *)
Theorem C06_msg_roundtrip :
  forall (deflate : list Z -> list Z) (inflate : list Z -> option (list Z)),
    (forall x, inflate (deflate x) = Some x) ->
    forall d compress m bs,
      dict_ok d -> valid_msg d m ->
      encode_msg d compress (deflate (mdata m)) m = Ok bs ->
      decode_msg d inflate bs = Ok (carried m).
Proof. exact msg_roundtrip. Qed.
Print Assumptions C06_msg_roundtrip.

(* the variable-length id alone, for every 64-bit value and every continuation *)
Theorem C06_id_roundtrip : forall n rest, 0 <= n < two64 ->
  dec_id (enc_id 10 n ++ rest) 1 0 0 = (n, Some (len (enc_id 10 n))).
Proof. exact id_roundtrip. Qed.
Print Assumptions C06_id_roundtrip.

(* SetDictionary keeps routes and codes mutually inverse, whatever order the entries are
   visited in and wherever it stops *)
Theorem C06_dict_bijective : forall es d, entries_ok es -> dict_bij d ->
  dict_bij (fst (set_dictionary es d)).
Proof. exact set_dictionary_bij. Qed.
Print Assumptions C06_dict_bijective.

(* Totality: for EVERY byte string, message decoding returns a value or an error; Go's
   bounds checks (idx / slice -> Panic) never fire, nothing is read beyond len. *)
Theorem C06_total_msg : forall d infl data, bytes data -> decode_msg d infl data <> Panic.
Proof. exact decode_msg_total. Qed.
Print Assumptions C06_total_msg.

(* ... and so do packet decoding (which also terminates: the fuel is never exhausted) and
   header parsing, for arbitrary input *)
Theorem C06_total_pkts : forall data,
  decode_pkts data <> Panic /\ decode_pkts data <> Err EFuel.
Proof. exact decode_pkts_total. Qed.
Print Assumptions C06_total_pkts.

Theorem C06_total_header : forall h, parse_header h <> Panic.
Proof. exact parse_header_total. Qed.
Print Assumptions C06_total_header.

(* framing: Encode produces header ++ body for every valid packet (body < 2^24 bytes) *)
Theorem C06_pkt_encode : forall p, valid_pkt p -> encode_pkt (fst p) (snd p) = Ok (enc_bytes p).
Proof. exact encode_pkt_enc_bytes. Qed.
Print Assumptions C06_pkt_encode.

(* a stream of any number of packets decodes to the same sequence; a trailing fragment that
   is not yet a whole packet is dropped and nothing else is *)
Theorem C06_pkt_stream : forall ps tail,
  Forall valid_pkt ps -> incomplete tail -> decode_pkts (stream ps ++ tail) = Ok ps.
Proof. exact pkt_stream_roundtrip. Qed.
Print Assumptions C06_pkt_stream.

(* non-vacuity *)
Example C06_example_dict :
  dict_bij (fst (set_dictionary [([97; 46; 98], 1); ([120], 258)] empty_dict)) /\
  route_code [120] (d_routes (fst (set_dictionary [([97; 46; 98], 1); ([120], 258)] empty_dict))) = Some 258.
Proof.
  split; [apply set_dictionary_bij; [repeat constructor; cbn; lia | apply dict_bij_empty] | reflexivity].
Qed.

Example C06_example_msg :
  let d := fst (set_dictionary [([97; 46; 98], 1); ([120], 258)] empty_dict) in
  encode_msg d false [] (mkMsg TRequest 300 [120] [1; 2; 3] true) = Ok [33; 172; 2; 1; 2; 1; 2; 3] /\
  decode_msg d (fun _ => None) [33; 172; 2; 1; 2; 1; 2; 3] = Ok (mkMsg TRequest 300 [120] [1; 2; 3] true) /\
  decode_msg d (fun _ => None) [0; 1] = Err EInvalid.
Proof. vm_compute. repeat split. Qed.

Example C06_example_stream :
  decode_pkts (stream [(4, [9; 9]); (3, [])] ++ [4; 0; 0; 5; 1]) = Ok [(4, [9; 9]); (3, [])] /\
  incomplete [4; 0; 0; 5; 1].
Proof.
  split; [vm_compute; reflexivity|]. right. exists 4, 5, [1].
  repeat split; try reflexivity; unfold MaxPacketSize; lia.
Qed.

(* TCP framing (tcpPlayerConn.GetNextMessage): whatever the segmentation, the messages read
   from a stream of valid packets followed by an incomplete tail are exactly the packets'
   encodings, in order; the stream then ends as the tail dictates *)
Theorem C06_framing : forall ps tail, Forall valid_pkt ps -> incomplete tail ->
  read_frames (stream ps ++ tail) = (map enc_bytes ps, tail_end tail).
Proof. exact read_frames_stream. Qed.
Print Assumptions C06_framing.

Theorem C06_framing_total : forall s, snd (read_frames s) <> FFuel.
Proof. intro s. apply frames_total. lia. Qed.
Print Assumptions C06_framing_total.

(* WebSocket framing (WSConn.GetNextMessage): a peer that sends each valid packet as one
   websocket message gets exactly those packets handed up, in order, until it closes *)
Theorem C06_ws_framing : forall ps, Forall valid_pkt ps ->
  ws_frames (map enc_bytes ps) = (map enc_bytes ps, None).
Proof. exact ws_frames_stream. Qed.
Print Assumptions C06_ws_framing.

(* ... and the first message that is not exactly one packet ends the input with its verdict:
   nothing after it is handed up, everything before it is *)
Theorem C06_ws_refusal : forall ps bad rest w, Forall valid_pkt ps -> ws_next bad = w -> w <> WOk ->
  ws_frames (map enc_bytes ps ++ bad :: rest) = (map enc_bytes ps, Some w).
Proof. exact ws_frames_refused. Qed.
Print Assumptions C06_ws_refusal.

(* whatever bytes a websocket message holds, what is handed up is one well-formed packet
   that the packet decoder reads back as exactly that packet; no message panics the framing *)
Theorem C06_ws_sound : forall m, bytes m -> ws_next m = WOk ->
  exists p, valid_pkt p /\ m = enc_bytes p /\ decode_pkts m = Ok [p].
Proof. exact ws_next_ok_inv. Qed.
Print Assumptions C06_ws_sound.

Theorem C06_ws_total : forall m, ws_next m <> WBad EFuel.
Proof. exact ws_next_total. Qed.
Print Assumptions C06_ws_total.

(* both transports, any size the encoder accepts (this is what the harness op OBigFrame samples at
   0 ... 2^24-1 bytes): the framed packet is handed up intact, whatever its n body bytes are *)
Theorem C06_big_frame : forall t n h body, pkt_header t n = Ok h -> len body = n ->
  ws_frames [h ++ body] = ([h ++ body], None) /\ read_frames (h ++ body) = ([h ++ body], FClosed).
Proof. exact big_frame. Qed.
Print Assumptions C06_big_frame.

Example C06_example_ws :
  ws_frames [[4; 0; 0; 2; 9; 9]; [3; 0; 0; 0]; [4; 0; 0; 2; 9]; [3; 0; 0; 0]] = ([[4; 0; 0; 2; 9; 9]; [3; 0; 0; 0]], Some WShort) /\
  ws_next [4; 0; 0; 1; 9; 9] = WBig /\ ws_next [4; 0] = WBad EPktHeader /\ ws_next [9; 0; 0; 0] = WBad EPktType.
Proof. vm_compute. repeat split. Qed.
