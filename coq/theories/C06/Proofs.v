From Cell2V Require Import Common.Tac Common.ListX C06.Model C06.Spec.

(* ---------------------------------------------------------------- list/len helpers *)
Lemma len_nonneg {A} (l : list A) : 0 <= len l.
Proof. unfold len. lia. Qed.

Lemma len_app {A} (a b : list A) : len (a ++ b) = len a + len b.
Proof. unfold len. rewrite app_length. lia. Qed.

Lemma len_cons {A} (x : A) l : len (x :: l) = 1 + len l.
Proof. unfold len. simpl length. lia. Qed.

Lemma len_nil {A} : len (@nil A) = 0.
Proof. reflexivity. Qed.

Lemma len_skipn {A} (l : list A) n : 0 <= n <= len l -> len (skipn (Z.to_nat n) l) = len l - n.
Proof. unfold len. intro H. rewrite skipn_length. lia. Qed.

Lemma len_firstn {A} (l : list A) n : 0 <= n <= len l -> len (firstn (Z.to_nat n) l) = n.
Proof. unfold len. intro H. rewrite firstn_length. lia. Qed.

Lemma idx_ok l i : 0 <= i < len l -> exists v, idx l i = Ok v /\ v = nth (Z.to_nat i) l 0.
Proof.
  intro H. unfold idx.
  destruct (Z.leb_spec 0 i); [|lia]. destruct (Z.ltb_spec i (len l)); [|lia].
  simpl. eauto.
Qed.

Lemma slice_ok l a b : 0 <= a -> a <= b -> b <= len l ->
  slice l a b = Ok (firstn (Z.to_nat (b - a)) (skipn (Z.to_nat a) l)).
Proof.
  intros H1 H2 H3. unfold slice.
  destruct (Z.leb_spec 0 a); [|lia]. destruct (Z.leb_spec a b); [|lia].
  destruct (Z.leb_spec b (len l)); [|lia]. reflexivity.
Qed.

Lemma nth_byte l i : bytes l -> byte (nth i l 0).
Proof.
  intro H. revert i. induction H as [|x r Hx Hr IH]; intros [|i]; simpl; try (unfold byte; lia); auto.
Qed.

Lemma bytes_app a b : bytes (a ++ b) <-> bytes a /\ bytes b.
Proof. apply Forall_app. Qed.

Lemma bytes_skipn l n : bytes l -> bytes (skipn n l).
Proof.
  intro H. rewrite <- (firstn_skipn n l) in H. apply bytes_app in H. tauto.
Qed.

Lemma bytes_firstn l n : bytes l -> bytes (firstn n l).
Proof.
  intro H. rewrite <- (firstn_skipn n l) in H. apply bytes_app in H. tauto.
Qed.

(* ---------------------------------------------------------------- variable-length id *)
Lemma dec_id_count l : forall m acc n v k,
  dec_id l m acc n = (v, Some k) -> n < k <= n + len l.
Proof.
  induction l as [|b r IH]; intros m acc n v k H; simpl in H; [discriminate|].
  rewrite len_cons. pose proof (len_nonneg r).
  destruct (b <? 128).
  - inv H. lia.
  - apply IH in H. lia.
Qed.

Lemma enc_id_bytes fuel : forall n, 0 <= n -> bytes (enc_id fuel n).
Proof.
  induction fuel as [|f IH]; intros n Hn; simpl; [constructor|].
  destruct (n / 128 =? 0) eqn:E.
  - constructor; [unfold byte; lia | constructor].
  - constructor; [unfold byte; lia|]. apply IH. lia.
Qed.

Lemma enc_id_len fuel : forall n, 1 <= len (enc_id (S fuel) n) <= Z.of_nat (S fuel).
Proof.
  induction fuel as [|f IH]; intro n.
  - simpl. destruct (n / 128 =? 0); rewrite len_cons, len_nil; lia.
  - change (enc_id (S (S f)) n) with
      (if n / 128 =? 0 then [n mod 128] else (n mod 128 + 128) :: enc_id (S f) (n / 128)).
    destruct (n / 128 =? 0).
    + rewrite len_cons, len_nil. lia.
    + rewrite len_cons. specialize (IH (n / 128)). lia.
Qed.

(* decoding what was encoded: the accumulator gains n*m, exactly len bytes are consumed *)
Lemma id_roundtrip_gen fuel : forall n m acc k rest,
  0 <= n < 128 ^ Z.of_nat (S fuel) -> 0 < m -> 0 <= acc -> acc + n * m < two64 ->
  dec_id (enc_id (S fuel) n ++ rest) m acc k = (acc + n * m, Some (k + len (enc_id (S fuel) n))).
Proof.
  induction fuel as [|f IH]; intros n m acc k rest Hn Hm Hacc Hlt.
  - change (128 ^ Z.of_nat 1) with 128 in Hn.
    cbn [enc_id]. replace (n / 128) with 0 by (symmetry; apply Z.div_small; lia).
    cbn [Z.eqb app dec_id]. rewrite (Z.mod_small n 128) by lia. rewrite (Z.mod_small n 128) by lia.
    destruct (Z.ltb_spec n 128); [|lia].
    assert (0 <= n * m) by (apply Z.mul_nonneg_nonneg; lia).
    rewrite Z.mod_small by lia. rewrite len_cons, len_nil. reflexivity.
  - replace (128 ^ Z.of_nat (S (S f))) with (128 * 128 ^ Z.of_nat (S f)) in Hn
      by (rewrite (Nat2Z.inj_succ (S f)), Z.pow_succ_r by lia; reflexivity).
    assert (Hdm : n = 128 * (n / 128) + n mod 128) by (apply Z.div_mod; lia).
    assert (Hr : 0 <= n mod 128 < 128) by (apply Z.mod_pos_bound; lia).
    assert (Hq : 0 <= n / 128) by (apply Z.div_pos; lia).
    assert (Hqm : 0 <= (n / 128) * m) by (apply Z.mul_nonneg_nonneg; lia).
    assert (Hrm : 0 <= (n mod 128) * m) by (apply Z.mul_nonneg_nonneg; lia).
    assert (Hnm : n * m = 128 * ((n / 128) * m) + (n mod 128) * m)
      by (rewrite Hdm at 1; ring).
    change (enc_id (S (S f)) n) with
      (if n / 128 =? 0 then [n mod 128] else (n mod 128 + 128) :: enc_id (S f) (n / 128)).
    destruct (n / 128 =? 0) eqn:E.
    + apply Z.eqb_eq in E. cbn [app dec_id].
      rewrite (Z.mod_small (n mod 128) 128) by lia.
      destruct (Z.ltb_spec (n mod 128) 128); [|lia].
      rewrite E in Hnm. rewrite Z.mod_small by lia.
      rewrite len_cons, len_nil. replace (n * m) with (n mod 128 * m) by lia. reflexivity.
    + apply Z.eqb_neq in E. cbn [app dec_id].
      replace ((n mod 128 + 128) mod 128) with (n mod 128)
        by lia.
      destruct (Z.ltb_spec (n mod 128 + 128) 128); [lia|].
      rewrite Z.mod_small by lia.
      rewrite IH.
      * rewrite len_cons. f_equal; [lia | f_equal; lia].
      * split; [lia|]. apply Z.div_lt_upper_bound; lia.
      * lia.
      * lia.
      * lia.
Qed.

Lemma two64_pow : two64 = 128 ^ 9 * 2.
Proof. reflexivity. Qed.

Lemma id_roundtrip n rest : 0 <= n < two64 ->
  dec_id (enc_id 10 n ++ rest) 1 0 0 = (n, Some (len (enc_id 10 n))).
Proof.
  intro H. change 10%nat with (S 9). rewrite id_roundtrip_gen; try lia.
  - rewrite Z.add_0_l, Z.mul_1_r, Z.add_0_l. reflexivity.
  - change (Z.of_nat 10) with 10. unfold two64 in H. change (128 ^ 10) with 1180591620717411303424. lia.
Qed.

(* ---------------------------------------------------------------- decode never panics *)
Lemma len_skipn1 (l : list Z) : 1 <= len l -> len (skipn 1 l) = len l - 1.
Proof. intro H. change 1%nat with (Z.to_nat 1). apply len_skipn. lia. Qed.

Definition id_part (t : Z) (data : list Z) : Z * Z :=
  if has_id t then
    match dec_id (skipn 1 data) 1 0 0 with
    | (v, Some n) => (v, 1 + n)
    | (v, None) => (v, 1)
    end
  else (0, 1).

Lemma id_part_range t data : 2 <= len data -> 1 <= snd (id_part t data) <= len data.
Proof.
  intro L. unfold id_part. destruct (has_id t); [|cbn [snd]; lia].
  destruct (dec_id (skipn 1 data) 1 0 0) as [v [n|]] eqn:E; cbn [snd]; [|lia].
  apply dec_id_count in E. rewrite len_skipn1 in E by lia. lia.
Qed.

Definition route_part (d : dict) (t flag : Z) (data : list Z) (offset : Z) : res (list Z * Z) :=
  if routable t then
    if flag mod 2 =? 1 then
      if offset + 2 >? len data then Err EInvalid else
      bind (slice data offset (offset + 2)) (fun cb =>
      let code := nth 0 cb 0 * 256 + nth 1 cb 0 in
      match code_route code (d_codes d) with
      | None => Err ERouteNotFound
      | Some r => Ok (r, offset + 2)
      end)
    else
      if offset >=? len data then Err EInvalid else
      bind (idx data offset) (fun rl =>
      let offset := offset + 1 in
      if offset + rl >? len data then Err EInvalid else
      bind (slice data offset (offset + rl)) (fun r => Ok (r, offset + rl)))
  else Ok ([], offset).

Lemma route_part_ok d t flag data offset :
  bytes data -> 0 <= offset <= len data ->
  route_part d t flag data offset <> Panic /\
  forall r o, route_part d t flag data offset = Ok (r, o) -> offset <= o <= len data.
Proof.
  intros B Ho. unfold route_part.
  destruct (routable t); [|split; [discriminate | intros r o E; inv E; lia]].
  destruct (flag mod 2 =? 1).
  - destruct (Z.gtb_spec (offset + 2) (len data)) as [G|G];
      [split; [discriminate | intros r o E; discriminate]|].
    rewrite slice_ok by lia. cbn [bind].
    destruct (code_route _ (d_codes d));
      split; try discriminate; intros r o E; inv E; lia.
  - destruct (Z.geb_spec offset (len data)) as [G|G];
      [split; [discriminate | intros r o E; discriminate]|].
    destruct (idx_ok data offset) as [rl [E1 E2]]; [lia|]. rewrite E1. cbn [bind].
    assert (Hrl : byte rl) by (subst rl; apply nth_byte; exact B).
    unfold byte in Hrl.
    destruct (Z.gtb_spec (offset + 1 + rl) (len data)) as [G2|G2];
      [split; [discriminate | intros r o E; discriminate]|].
    rewrite slice_ok by lia. cbn [bind].
    split; [discriminate | intros r o E; inv E; lia].
Qed.

Definition body_part (infl : list Z -> option (list Z)) (t id flag : Z) (data : list Z)
  (ro : list Z * Z) : res msg :=
  let '(route, offset) := ro in
  bind (slice data offset (len data)) (fun body =>
  if (flag / 16) mod 2 =? 1 then
    match infl body with
    | Some b => Ok (mkMsg t id route b ((flag / 32) mod 2 =? 1))
    | None => Err EInflate
    end
  else Ok (mkMsg t id route body ((flag / 32) mod 2 =? 1))).

(* decode_msg, restated as the composition of its three parts *)
Lemma decode_msg_parts d infl data :
  decode_msg d infl data =
  if len data <? 2 then Err EInvalid else
  bind (idx data 0) (fun flag =>
  let t := (flag / 2) mod 8 in
  if invalid_type t then Err EWrongType else
  bind (route_part d t flag data (snd (id_part t data)))
       (body_part infl t (fst (id_part t data)) flag data)).
Proof.
  unfold decode_msg, id_part, route_part, body_part.
  destruct (len data <? 2); [reflexivity|].
  destruct (idx data 0) as [flag| |]; cbn [bind]; try reflexivity.
  destruct (invalid_type ((flag / 2) mod 8)); [reflexivity|].
  destruct (has_id ((flag / 2) mod 8)).
  - destruct (dec_id (skipn 1 data) 1 0 0) as [v [n|]]; reflexivity.
  - reflexivity.
Qed.

Lemma decode_msg_total d infl data : bytes data -> decode_msg d infl data <> Panic.
Proof.
  intro B. rewrite decode_msg_parts.
  destruct (Z.ltb_spec (len data) 2) as [|L2]; [discriminate|].
  destruct (idx_ok data 0) as [flag [E0 _]]; [lia|]. rewrite E0. cbn [bind].
  cbv zeta. destruct (invalid_type ((flag / 2) mod 8)); [discriminate|].
  pose proof (id_part_range ((flag / 2) mod 8) data L2) as R.
  destruct (route_part_ok d ((flag / 2) mod 8) flag data (snd (id_part ((flag / 2) mod 8) data)) B)
    as [NP RO]; [lia|].
  destruct (route_part d ((flag / 2) mod 8) flag data _) as [[r o]| |] eqn:E; cbn [bind];
    [|discriminate|contradiction].
  specialize (RO r o eq_refl). unfold body_part.
  rewrite slice_ok by lia. cbn [bind].
  destruct ((flag / 16) mod 2 =? 1); [destruct (infl _)|]; discriminate.
Qed.

(* ---------------------------------------------------------------- message round trip *)
Lemma skipn_len_app {A} (a b : list A) : skipn (Z.to_nat (len a)) (a ++ b) = b.
Proof.
  unfold len. rewrite Nat2Z.id. rewrite skipn_app, skipn_all, Nat.sub_diag. reflexivity.
Qed.

Lemma firstn_len_app {A} (a b : list A) : firstn (Z.to_nat (len a)) (a ++ b) = a.
Proof.
  unfold len. rewrite Nat2Z.id. rewrite firstn_app, firstn_all, Nat.sub_diag, app_nil_r. reflexivity.
Qed.

Lemma slice_app pre mid post :
  slice (pre ++ mid ++ post) (len pre) (len pre + len mid) = Ok mid.
Proof.
  pose proof (len_nonneg pre). pose proof (len_nonneg mid). pose proof (len_nonneg post).
  rewrite slice_ok; try lia.
  - rewrite skipn_len_app. replace (len pre + len mid - len pre) with (len mid) by lia.
    rewrite firstn_len_app. reflexivity.
  - rewrite !len_app. lia.
Qed.

Lemma idx_app pre x post : idx (pre ++ x :: post) (len pre) = Ok x.
Proof.
  pose proof (len_nonneg pre). pose proof (len_nonneg post).
  destruct (idx_ok (pre ++ x :: post) (len pre)) as [v [E1 E2]].
  - rewrite len_app, len_cons. lia.
  - rewrite E1. f_equal. subst v. unfold len. rewrite Nat2Z.id.
    rewrite app_nth2 by lia. rewrite Nat.sub_diag. reflexivity.
Qed.

Lemma type_cases t : invalid_type t = false -> t = 0 \/ t = 1 \/ t = 2 \/ t = 3.
Proof. unfold invalid_type, TRequest, TPush. lia. Qed.

Section Roundtrip.
  Variable deflate : list Z -> list Z.
  Variable inflate : list Z -> option (list Z).
  Hypothesis inflate_deflate : forall x, inflate (deflate x) = Some x.

  Lemma msg_roundtrip d compress m bs :
    dict_ok d -> valid_msg d m ->
    encode_msg d compress (deflate (mdata m)) m = Ok bs ->
    decode_msg d inflate bs = Ok (carried m).
  Proof.
    intros Hd [Ht Hr] He. unfold encode_msg in He. rewrite Ht in He.
    remember (route_code (mroute m) (d_routes d)) as code eqn:Ec in *.
    set (use_defl := compress && (len (deflate (mdata m)) <? len (mdata m))) in He.
    set (body := if use_defl then deflate (mdata m) else mdata m) in He.
    set (idb := if has_id (mtype m) then enc_id 10 (mid m mod two64) else []) in He.
    set (rb := if routable (mtype m) then
                 match code with
                 | Some c => [(c / 256) mod 256; c mod 256]
                 | None => (len (mroute m) mod 256) :: mroute m
                 end else []) in He.
    set (flag := (if use_defl
                  then 2 * mtype m + (if match code with Some _ => true | None => false end then 1 else 0)
                       + (if merr m then 32 else 0) + 16
                  else 2 * mtype m + (if match code with Some _ => true | None => false end then 1 else 0)
                       + (if merr m then 32 else 0))) in He.
    injection He as Hbs. subst bs.
    pose proof (type_cases _ Ht) as Tc.
    assert (Hflag_t : (flag / 2) mod 8 = mtype m)
      by (subst flag; destruct use_defl, code, (merr m); lia).
    assert (Hflag_e : ((flag / 32) mod 2 =? 1) = merr m)
      by (subst flag; destruct use_defl, code, (merr m); lia).
    assert (Hflag_g : ((flag / 16) mod 2 =? 1) = use_defl)
      by (subst flag; destruct use_defl, code, (merr m); lia).
    assert (Hflag_c : (flag mod 2 =? 1) = match code with Some _ => true | None => false end)
      by (subst flag; destruct use_defl, code, (merr m); lia).
    assert (Hidb : has_id (mtype m) = true -> 1 <= len idb).
    { intro E. subst idb. rewrite E. change 10%nat with (S 9). apply enc_id_len. }
    assert (Hrb : routable (mtype m) = true -> 1 <= len rb).
    { intro E. subst rb. rewrite E. destruct code; rewrite len_cons; pose proof (len_nonneg (mroute m)).
      - rewrite len_cons, len_nil. lia.
      - lia. }
    assert (Hsome : has_id (mtype m) = true \/ routable (mtype m) = true).
    { unfold has_id, routable, TRequest, TNotify, TResponse, TPush. lia. }
    pose proof (len_nonneg idb) as Li. pose proof (len_nonneg rb) as Lr. pose proof (len_nonneg body) as Lb.
    rewrite decode_msg_parts.
    assert (Hlen : len (flag :: idb ++ rb ++ body) = 1 + len idb + len rb + len body)
      by (rewrite len_cons, !len_app; lia).
    destruct (Z.ltb_spec (len (flag :: idb ++ rb ++ body)) 2) as [L|L];
      [destruct Hsome as [E|E]; [apply Hidb in E | apply Hrb in E]; lia|].
    change (idx (flag :: idb ++ rb ++ body) 0) with (Ok flag). cbn [bind]. cbv zeta.
    rewrite Hflag_t, Ht.
    (* id part *)
    assert (Hid : id_part (mtype m) (flag :: idb ++ rb ++ body) =
                  ((if has_id (mtype m) then mid m mod two64 else 0), 1 + len idb)).
    { unfold id_part. cbn [skipn]. subst idb. destruct (has_id (mtype m)).
      - rewrite id_roundtrip by (apply Z.mod_pos_bound; reflexivity). reflexivity.
      - reflexivity. }
    rewrite Hid. cbn [fst snd].
    (* route part *)
    assert (Hroute : route_part d (mtype m) flag (flag :: idb ++ rb ++ body) (1 + len idb) =
                     Ok ((if routable (mtype m) then mroute m else []), 1 + len idb + len rb)).
    { unfold route_part. rewrite Hflag_c.
      replace (1 + len idb) with (len (flag :: idb)) by (rewrite len_cons; reflexivity).
      change (flag :: idb ++ rb ++ body) with ((flag :: idb) ++ rb ++ body).
      set (pre := flag :: idb). pose proof (len_nonneg pre) as Lp.
      subst rb. destruct (routable (mtype m)); [|rewrite len_nil; f_equal; f_equal; lia].
      destruct code as [c|].
      - symmetry in Ec. destruct (Hd _ _ Ec) as [Hc Hcr].
        set (cb := [(c / 256) mod 256; c mod 256]).
        assert (Lcb : len cb = 2) by reflexivity.
        rewrite !len_app, Lcb.
        destruct (Z.gtb_spec (len pre + 2) (len pre + (2 + len body))) as [G|G]; [lia|].
        replace (len pre + 2) with (len pre + len cb) by lia.
        rewrite slice_app. cbn [bind]. subst cb. cbn [nth].
        replace ((c / 256) mod 256 * 256 + c mod 256) with c by lia.
        rewrite Hc. reflexivity.
      - specialize (Hr eq_refl). pose proof (len_nonneg (mroute m)) as Lm.
        rewrite (Z.mod_small (len (mroute m)) 256) by lia.
        destruct (Z.geb_spec (len pre) (len (pre ++ (len (mroute m) :: mroute m) ++ body))) as [G|G];
          [rewrite ?len_app, ?len_cons in G; lia|].
        cbn [app]. rewrite idx_app. cbn [bind].
        destruct (Z.gtb_spec (len pre + 1 + len (mroute m))
                   (len (pre ++ len (mroute m) :: mroute m ++ body))) as [G2|G2];
          [rewrite ?len_app, ?len_cons, ?len_app in G2; lia|].
        replace (pre ++ len (mroute m) :: mroute m ++ body)
          with ((pre ++ [len (mroute m)]) ++ mroute m ++ body)
          by (rewrite <- app_assoc; reflexivity).
        replace (len pre + 1) with (len (pre ++ [len (mroute m)]))
          by (rewrite len_app, len_cons, len_nil; lia).
        rewrite slice_app. cbn [bind]. f_equal. f_equal.
        rewrite len_app, !len_cons, len_nil. lia. }
    rewrite Hroute. cbn [bind]. unfold body_part.
    replace (flag :: idb ++ rb ++ body) with ((flag :: idb ++ rb) ++ body ++ [])
      by (rewrite app_nil_r; cbn [app]; rewrite <- app_assoc; reflexivity).
    replace (1 + len idb + len rb) with (len (flag :: idb ++ rb))
      by (rewrite len_cons, len_app; lia).
    replace (len ((flag :: idb ++ rb) ++ body ++ [])) with (len (flag :: idb ++ rb) + len body)
      by (rewrite !len_app, len_nil; lia).
    rewrite slice_app. cbn [bind]. rewrite Hflag_g, Hflag_e.
    unfold carried. subst body. destruct use_defl.
    - rewrite inflate_deflate. reflexivity.
    - reflexivity.
  Qed.
End Roundtrip.

(* ---------------------------------------------------------------- dictionary *)
Lemma dict_bij_ok d : dict_bij d -> dict_ok d.
Proof. intros [H _]. exact H. Qed.

Lemma dict_bij_empty : dict_bij empty_dict.
Proof. split; intros r c H; discriminate. Qed.

Lemma set_dictionary_bij es : forall d, entries_ok es -> dict_bij d ->
  dict_bij (fst (set_dictionary es d)).
Proof.
  induction es as [|[r c] t IH]; intros d He Hd; cbn [set_dictionary]; [exact Hd|].
  inversion He as [|x y Hc Ht]; subst. cbn [snd] in Hc.
  destruct (route_code r (d_routes d)) eqn:Er; [exact Hd|].
  destruct (code_route c (d_codes d)) eqn:Ecd; [exact Hd|].
  apply IH; [exact Ht|]. destruct Hd as [H1 H2]. split; cbn [d_routes d_codes].
  - intros r' c' H. cbn [route_code] in H. cbn [code_route].
    destruct (zlist_eqb r' r) eqn:E.
    + inv H. apply zlist_eqb_spec in E. subst. rewrite Z.eqb_refl. auto.
    + destruct (H1 _ _ H) as [Hc' Hr']. split; [|exact Hr'].
      destruct (Z.eqb_spec c' c) as [->|N]; [congruence | exact Hc'].
  - intros r' c' H. cbn [code_route] in H. cbn [route_code].
    destruct (Z.eqb_spec c' c) as [Ecc|N].
    + subst c'. inv H. replace (zlist_eqb r' r') with true by (symmetry; apply zlist_eqb_spec; reflexivity).
      reflexivity.
    + apply H2 in H. destruct (zlist_eqb r' r) eqn:E; [|exact H].
      apply zlist_eqb_spec in E. subst. congruence.
Qed.

(* ---------------------------------------------------------------- packets *)
Lemma parse_header_total h : parse_header h <> Panic.
Proof.
  unfold parse_header. destruct (Z.eqb_spec (len h) HeadLength) as [E|E]; [|discriminate].
  cbn [negb]. unfold HeadLength in E.
  destruct (idx_ok h 0) as [t [E0 _]]; [lia|]. rewrite E0. cbn [bind].
  destruct (pkt_type_ok t); cbn [negb]; [|discriminate].
  rewrite slice_ok by lia. cbn [bind].
  destruct (_ >? MaxPacketSize); discriminate.
Qed.

Lemma parse_header_nofuel h : parse_header h <> Err EFuel.
Proof.
  unfold parse_header. destruct (negb (len h =? HeadLength)); [discriminate|].
  unfold idx. destruct ((0 <=? 0) && (0 <? len h)); cbn [bind]; [|discriminate].
  destruct (negb (pkt_type_ok _)); [discriminate|].
  unfold slice. destruct ((0 <=? 1) && (1 <=? len h) && (len h <=? len h)); cbn [bind]; [|discriminate].
  destruct (_ >? MaxPacketSize); discriminate.
Qed.

Lemma parse_header_hdr t n : pkt_type_ok t = true -> 0 <= n < MaxPacketSize ->
  parse_header (hdr t n) = Ok (n, t).
Proof.
  intros Ht Hn. unfold parse_header, hdr. change (len [t; _; _; _] =? HeadLength) with true.
  cbn [negb]. change (idx (t :: _) 0) with (Ok t). cbn [bind]. rewrite Ht. cbn [negb].
  rewrite slice_ok by (rewrite ?len_cons, ?len_nil; lia).
  cbn [bind]. change (Z.to_nat 1) with 1%nat. cbn [skipn].
  replace (Z.to_nat (len [t; (n / 65536) mod 256; (n / 256) mod 256; n mod 256] - 1)) with 3%nat
    by (rewrite !len_cons, len_nil; lia).
  cbn [firstn bytes_to_int fold_left]. unfold MaxPacketSize in *.
  replace ((((0 * 256 + (n / 65536) mod 256) * 256 + (n / 256) mod 256) * 256 + n mod 256)) with n by lia.
  destruct (Z.gtb_spec n 16777216); [lia | reflexivity].
Qed.

Lemma dec_loop_total fuel : forall buf size typ acc,
  (length buf < fuel)%nat ->
  dec_loop fuel buf size typ acc <> Panic /\ dec_loop fuel buf size typ acc <> Err EFuel.
Proof.
  induction fuel as [|f IH]; intros buf size typ acc Hf; [lia|].
  cbn [dec_loop]. destruct (size <=? len buf); [|split; discriminate].
  unfold next. destruct (len (skipn (Z.to_nat size) buf) <? HeadLength) eqn:E4; [split; discriminate|].
  pose proof (parse_header_total (firstn (Z.to_nat HeadLength) (skipn (Z.to_nat size) buf))) as NP.
  pose proof (parse_header_nofuel (firstn (Z.to_nat HeadLength) (skipn (Z.to_nat size) buf))) as NF.
  destruct (parse_header _) as [[s t]| |]; cbn [bind]; [|split; [discriminate|intro X; apply NF; inv X; reflexivity]|contradiction].
  apply IH. rewrite !skipn_length.
  apply Z.ltb_ge in E4. unfold len, HeadLength in E4. rewrite skipn_length in E4.
  change (Z.to_nat HeadLength) with 4%nat. lia.
Qed.

Lemma decode_pkts_total data :
  decode_pkts data <> Panic /\ decode_pkts data <> Err EFuel.
Proof.
  unfold decode_pkts. destruct (len data <? HeadLength); [split; discriminate|].
  unfold next.
  pose proof (parse_header_total (firstn (Z.to_nat HeadLength) data)) as NP.
  pose proof (parse_header_nofuel (firstn (Z.to_nat HeadLength) data)) as NF.
  destruct (parse_header _) as [[s t]| |]; cbn [bind]; [|split; [discriminate|intro X; apply NF; inv X; reflexivity]|contradiction].
  apply dec_loop_total. rewrite skipn_length. lia.
Qed.

Lemma encode_pkt_enc_bytes p : valid_pkt p -> encode_pkt (fst p) (snd p) = Ok (enc_bytes p).
Proof.
  intros [Ht Hl]. unfold encode_pkt, pkt_header. rewrite Ht. cbn [negb].
  destruct (Z.geb_spec (len (snd p)) MaxPacketSize); [lia|]. reflexivity.
Qed.

Lemma next_app (a b : list Z) : next (a ++ b) (len a) = (a, b).
Proof. unfold next. rewrite firstn_len_app, skipn_len_app. reflexivity. Qed.

Lemma len_hdr t n : len (hdr t n) = HeadLength.
Proof. reflexivity. Qed.

Lemma next_hdr t n rest : next (hdr t n ++ rest) HeadLength = (hdr t n, rest).
Proof. exact (next_app (hdr t n) rest). Qed.

Lemma stream_cons t data ps tail :
  stream ((t, data) :: ps) ++ tail = hdr t (len data) ++ data ++ stream ps ++ tail.
Proof.
  unfold stream. cbn [map concat]. unfold enc_bytes. cbn [fst snd].
  rewrite <- !app_assoc. reflexivity.
Qed.

Lemma dec_loop_stream ps : forall p acc fuel tail,
  valid_pkt p -> Forall valid_pkt ps -> incomplete tail ->
  (length ps + 2 <= fuel)%nat ->
  dec_loop fuel (snd p ++ stream ps ++ tail) (len (snd p)) (fst p) acc = Ok (acc ++ p :: ps).
Proof.
  induction ps as [|q ps IH]; intros [t data] acc fuel tail Hp Hps Ht Hf;
    (destruct fuel as [|f]; [lia|]); cbn [fst snd] in *; cbn [dec_loop].
  - cbn [stream map concat app].
    pose proof (len_nonneg data) as Ld. pose proof (len_nonneg tail) as Lt.
    destruct (Z.leb_spec (len data) (len (data ++ tail))) as [L|L]; [|rewrite len_app in L; lia].
    rewrite next_app.
    destruct Ht as [Hs|[t' [n [partial [Ht' [Hn [-> Hl]]]]]]].
    + destruct (Z.ltb_spec (len tail) HeadLength); [reflexivity | lia].
    + destruct (Z.ltb_spec (len (hdr t' n ++ partial)) HeadLength) as [L4|L4];
        [rewrite len_app, len_hdr in L4; pose proof (len_nonneg partial); lia|].
      rewrite next_hdr. rewrite parse_header_hdr by assumption.
      cbn [bind fst snd]. destruct f as [|f']; [lia|]. cbn [dec_loop].
      destruct (Z.leb_spec n (len partial)); [lia | reflexivity].
  - inversion Hps as [|x y Hq Hps']; subst.
    destruct q as [t' data']. rewrite stream_cons.
    pose proof (len_nonneg data) as Ld.
    destruct (Z.leb_spec (len data) (len (data ++ hdr t' (len data') ++ data' ++ stream ps ++ tail)))
      as [L|L]; [|rewrite len_app in L; pose proof (len_nonneg (hdr t' (len data') ++ data' ++ stream ps ++ tail)); lia].
    rewrite next_app.
    destruct (Z.ltb_spec (len (hdr t' (len data') ++ data' ++ stream ps ++ tail)) HeadLength) as [L4|L4];
      [rewrite len_app, len_hdr in L4; pose proof (len_nonneg (data' ++ stream ps ++ tail)); lia|].
    rewrite next_hdr.
    destruct Hq as [Hq1 Hq2]. cbn [fst snd] in Hq1, Hq2.
    rewrite parse_header_hdr; [|exact Hq1 | pose proof (len_nonneg data'); lia].
    cbn [bind fst snd].
    pose proof (IH (t', data') (acc ++ [(t, data)]) f tail) as IH'. cbn [fst snd] in IH'.
    rewrite IH'; try assumption.
    + rewrite <- app_assoc. reflexivity.
    + split; assumption.
    + cbn [length] in Hf. lia.
Qed.

Lemma stream_length ps : (4 * length ps <= length (stream ps))%nat.
Proof.
  induction ps as [|p ps IH]; cbn [stream map concat length]; [lia|].
  fold (stream ps). unfold enc_bytes, hdr. rewrite !app_length. cbn [length]. lia.
Qed.

Lemma pkt_stream_roundtrip ps tail :
  Forall valid_pkt ps -> incomplete tail -> decode_pkts (stream ps ++ tail) = Ok ps.
Proof.
  intros Hps Ht. unfold decode_pkts. destruct ps as [|[t data] ps].
  - cbn [stream map concat app]. destruct Ht as [Hs|[t' [n [partial [Ht' [Hn [-> Hl]]]]]]].
    + destruct (Z.ltb_spec (len tail) HeadLength); [reflexivity | lia].
    + destruct (Z.ltb_spec (len (hdr t' n ++ partial)) HeadLength) as [L4|L4];
        [rewrite len_app, len_hdr in L4; pose proof (len_nonneg partial); lia|].
      rewrite next_hdr. rewrite parse_header_hdr by assumption.
      cbn [bind fst snd dec_loop].
      destruct (Z.leb_spec n (len partial)); [lia | reflexivity].
  - inversion Hps as [|x y Hp Hps']; subst.
    rewrite stream_cons.
    destruct (Z.ltb_spec (len (hdr t (len data) ++ data ++ stream ps ++ tail)) HeadLength) as [L4|L4];
      [rewrite len_app, len_hdr in L4; pose proof (len_nonneg (data ++ stream ps ++ tail)); lia|].
    rewrite next_hdr.
    destruct Hp as [Hp1 Hp2]. cbn [fst snd] in Hp1, Hp2.
    rewrite parse_header_hdr; [|exact Hp1 | pose proof (len_nonneg data); lia].
    cbn [bind fst snd].
    pose proof (dec_loop_stream ps (t, data) [] (S (length (hdr t (len data) ++ data ++ stream ps ++ tail))) tail) as DL.
    cbn [fst snd app] in DL. apply DL; try assumption.
    + split; assumption.
    + pose proof (stream_length ps). rewrite !app_length. unfold hdr. cbn [length]. lia.
Qed.

(* ---------------------------------------------------------------- TCP framing *)
Lemma next_short (s : list Z) n : len s <= n -> 0 <= n -> next s n = (s, []).
Proof.
  intros H Hn. unfold next, len in *.
  rewrite firstn_all2 by lia. rewrite skipn_all2 by lia. reflexivity.
Qed.

Lemma parse_header_short h : len h <> HeadLength -> parse_header h = Err EPktHeader.
Proof.
  intro H. unfold parse_header. destruct (Z.eqb_spec (len h) HeadLength); [contradiction | reflexivity].
Qed.

Lemma frames_tail fuel tail : incomplete tail -> (0 < fuel)%nat ->
  frames fuel tail = ([], tail_end tail).
Proof.
  intros Ht Hf. destruct fuel as [|f]; [lia|]. cbn [frames]. unfold tail_end.
  pose proof (len_nonneg tail) as Lt.
  destruct Ht as [Hs|[t [n [partial [Ht [Hn [-> Hl]]]]]]].
  - rewrite next_short by (unfold HeadLength in *; lia).
    destruct (Z.eqb_spec (len tail) 0); [reflexivity|].
    rewrite parse_header_short by lia.
    destruct (Z.ltb_spec (len tail) HeadLength); [reflexivity | lia].
  - rewrite next_hdr. rewrite len_hdr. change (HeadLength =? 0) with false. cbv iota.
    rewrite parse_header_hdr by assumption. cbn [fst snd].
    pose proof (len_nonneg partial) as Lp.
    rewrite next_short by lia.
    destruct (Z.ltb_spec (len partial) n); [|lia].
    rewrite len_app, len_hdr. unfold HeadLength.
    destruct (Z.eqb_spec (4 + len partial) 0); [lia|].
    destruct (Z.ltb_spec (4 + len partial) 4); [lia | reflexivity].
Qed.

Lemma frames_stream ps : forall fuel tail,
  Forall valid_pkt ps -> incomplete tail -> (length ps < fuel)%nat ->
  frames fuel (stream ps ++ tail) = (map enc_bytes ps, tail_end tail).
Proof.
  induction ps as [|[t data] ps IH]; intros fuel tail Hps Ht Hf.
  - cbn [stream map concat app]. apply frames_tail; [exact Ht | lia].
  - inversion Hps as [|x y Hp Hps']; subst. destruct Hp as [Hp1 Hp2]. cbn [fst snd] in Hp1, Hp2.
    destruct fuel as [|f]; [lia|]. cbn [frames]. rewrite stream_cons.
    rewrite next_hdr, len_hdr. change (HeadLength =? 0) with false. cbv iota.
    pose proof (len_nonneg data) as Ld.
    rewrite parse_header_hdr by (assumption || lia). cbn [fst snd].
    rewrite next_app. destruct (Z.ltb_spec (len data) (len data)); [lia|].
    rewrite IH; [|assumption|assumption|cbn [length] in Hf; lia].
    cbn [map]. unfold enc_bytes at 2. cbn [fst snd]. reflexivity.
Qed.

Lemma read_frames_stream ps tail : Forall valid_pkt ps -> incomplete tail ->
  read_frames (stream ps ++ tail) = (map enc_bytes ps, tail_end tail).
Proof.
  intros Hps Ht. unfold read_frames. apply frames_stream; try assumption.
  pose proof (stream_length ps). rewrite app_length. lia.
Qed.

(* no input panics the framing or exhausts the fuel *)
Lemma frames_total fuel : forall s, (length s < fuel)%nat -> snd (frames fuel s) <> FFuel.
Proof.
  induction fuel as [|f IH]; intros s Hf; [lia|]. cbn [frames]. unfold next.
  destruct (len (firstn (Z.to_nat HeadLength) s) =? 0) eqn:E0; [discriminate|].
  pose proof (parse_header_total (firstn (Z.to_nat HeadLength) s)) as NP.
  destruct (parse_header _) as [[size ty]| |] eqn:Eh; [|discriminate|contradiction].
  destruct (len (firstn (Z.to_nat size) (skipn (Z.to_nat HeadLength) s)) <? size); [discriminate|].
  destruct (frames f (skipn (Z.to_nat size) (skipn (Z.to_nat HeadLength) s))) as [ms e] eqn:Ef.
  cbn [snd]. specialize (IH (skipn (Z.to_nat size) (skipn (Z.to_nat HeadLength) s))).
  rewrite Ef in IH. cbn [snd] in IH. apply IH.
  (* a parsed header means 4 bytes were there *)
  assert (L4 : len (firstn (Z.to_nat HeadLength) s) = HeadLength).
  { unfold parse_header in Eh. destruct (Z.eqb_spec (len (firstn (Z.to_nat HeadLength) s)) HeadLength); [assumption|discriminate]. }
  unfold len, HeadLength in L4. rewrite firstn_length in L4. rewrite !skipn_length.
  change (Z.to_nat HeadLength) with 4%nat. lia.
Qed.

(* ---------------------------------------------------------------- WebSocket framing *)
Lemma firstn_hdr_enc p : firstn (Z.to_nat HeadLength) (enc_bytes p) = hdr (fst p) (len (snd p)).
Proof. unfold enc_bytes, hdr. reflexivity. Qed.

Lemma len_enc_bytes p : len (enc_bytes p) = HeadLength + len (snd p).
Proof. unfold enc_bytes. rewrite len_app, len_hdr. reflexivity. Qed.

Lemma ws_next_enc p : valid_pkt p -> ws_next (enc_bytes p) = WOk.
Proof.
  intros [Ht Hl]. unfold ws_next. pose proof (len_nonneg (snd p)) as Ld.
  rewrite len_enc_bytes. destruct (Z.ltb_spec (HeadLength + len (snd p)) HeadLength); [lia|].
  rewrite firstn_hdr_enc. rewrite parse_header_hdr by (assumption || lia).
  replace (HeadLength + len (snd p) - HeadLength) with (len (snd p)) by lia.
  destruct (Z.ltb_spec (len (snd p)) (len (snd p))); [lia|].
  destruct (Z.gtb_spec (len (snd p)) (len (snd p))); [lia|reflexivity].
Qed.

Lemma ws_frames_app_ok ms : forall rest, Forall (fun m => ws_next m = WOk) ms ->
  ws_frames (ms ++ rest) = (ms ++ fst (ws_frames rest), snd (ws_frames rest)).
Proof.
  induction ms as [|m ms IH]; intros rest H; cbn [app ws_frames].
  - destruct (ws_frames rest); reflexivity.
  - inversion H as [|x y Hm Hr]; subst. rewrite Hm. rewrite IH by assumption. reflexivity.
Qed.

Lemma ws_frames_stream ps : Forall valid_pkt ps ->
  ws_frames (map enc_bytes ps) = (map enc_bytes ps, None).
Proof.
  intro H. rewrite <- (app_nil_r (map enc_bytes ps)) at 1. rewrite ws_frames_app_ok.
  - cbn [ws_frames fst snd]. rewrite app_nil_r. reflexivity.
  - apply Forall_map. eapply Forall_impl; [|exact H]. intros p Hp. apply ws_next_enc; exact Hp.
Qed.

(* the first refused message ends the connection's input, with that message's verdict *)
Lemma ws_frames_refused ps bad rest w : Forall valid_pkt ps -> ws_next bad = w -> w <> WOk ->
  ws_frames (map enc_bytes ps ++ bad :: rest) = (map enc_bytes ps, Some w).
Proof.
  intros H Hb Hw. rewrite ws_frames_app_ok.
  - cbn [ws_frames]. rewrite Hb. destruct w; try contradiction; cbn [fst snd]; rewrite app_nil_r; reflexivity.
  - apply Forall_map. eapply Forall_impl; [|exact H]. intros p Hp. apply ws_next_enc; exact Hp.
Qed.

Lemma ws_next_total m : ws_next m <> WBad EFuel.
Proof.
  unfold ws_next. destruct (len m <? HeadLength); [discriminate|].
  pose proof (parse_header_total (firstn (Z.to_nat HeadLength) m)) as NP.
  pose proof (parse_header_nofuel (firstn (Z.to_nat HeadLength) m)) as NF.
  destruct (parse_header _) as [[size ty]|e|]; [| |contradiction].
  - destruct (_ <? size); [discriminate|]. destruct (_ >? size); discriminate.
  - intro H. apply NF. injection H as ->. reflexivity.
Qed.

(* a 4-byte header that parses is the encoding of its type and size *)
Lemma parse_header_inv h size t : bytes h -> parse_header h = Ok (size, t) ->
  h = hdr t size /\ pkt_type_ok t = true /\ 0 <= size < MaxPacketSize.
Proof.
  intros Hb. unfold parse_header.
  destruct (Z.eqb_spec (len h) HeadLength) as [E|E]; [|discriminate]. cbn [negb].
  destruct h as [|a [|b [|c [|d [|x r]]]]]; unfold len, HeadLength in E; cbn [length] in E; try lia.
  change (idx [a; b; c; d] 0) with (Ok a). cbn [bind].
  destruct (pkt_type_ok a) eqn:Ta; cbn [negb]; [|discriminate].
  rewrite slice_ok by (unfold len; cbn [length]; lia). cbn [bind].
  change (Z.to_nat 1) with 1%nat. cbn [skipn].
  replace (Z.to_nat (len [a; b; c; d] - 1)) with 3%nat by (unfold len; cbn [length]; lia).
  cbn [firstn bytes_to_int fold_left].
  unfold bytes in Hb. inversion Hb as [|? ? _ Hb1]; subst. inversion Hb1 as [|? ? Bb Hb2]; subst.
  inversion Hb2 as [|? ? Bc Hb3]; subst. inversion Hb3 as [|? ? Bd _]; subst.
  unfold byte in *. unfold MaxPacketSize.
  destruct (Z.gtb_spec (((0 * 256 + b) * 256 + c) * 256 + d) 16777216) as [G|G]; [discriminate|].
  intro Hq. injection Hq as <- <-. split; [|split; [exact Ta|lia]].
  unfold hdr. f_equal. f_equal; [lia|]. f_equal; [lia|]. f_equal. lia.
Qed.

(* every message WSConn.GetNextMessage hands up is exactly one well-formed packet *)
Lemma ws_next_ok_inv m : bytes m -> ws_next m = WOk ->
  exists p, valid_pkt p /\ m = enc_bytes p /\ decode_pkts m = Ok [p].
Proof.
  intros Hb. unfold ws_next. destruct (Z.ltb_spec (len m) HeadLength) as [L|L]; [discriminate|].
  destruct (parse_header _) as [[size ty]|e|] eqn:Eh; try discriminate.
  apply parse_header_inv in Eh; [|apply bytes_firstn; exact Hb].
  destruct Eh as [Eh [Ty Sz]].
  destruct (Z.ltb_spec (len m - HeadLength) size); [discriminate|].
  destruct (Z.gtb_spec (len m - HeadLength) size); [discriminate|]. intros _.
  exists (ty, skipn (Z.to_nat HeadLength) m).
  assert (Ls : len (skipn (Z.to_nat HeadLength) m) = size).
  { rewrite len_skipn by (unfold HeadLength in *; lia). lia. }
  assert (V : valid_pkt (ty, skipn (Z.to_nat HeadLength) m)).
  { split; cbn [fst snd]; [exact Ty | lia]. }
  assert (Em : m = enc_bytes (ty, skipn (Z.to_nat HeadLength) m)).
  { unfold enc_bytes. cbn [fst snd]. rewrite Ls, <- Eh. symmetry. apply firstn_skipn. }
  split; [exact V|]. split; [exact Em|].
  rewrite Em at 1.
  pose proof (pkt_stream_roundtrip [(ty, skipn (Z.to_nat HeadLength) m)] []) as R.
  cbn [stream map concat] in R. rewrite !app_nil_r in R. apply R.
  - constructor; [exact V | constructor].
  - left. unfold len, HeadLength. cbn [length]. lia.
Qed.

(* what the summary op OBigFrame relies on: whenever the encoder accepts (t, n), the framed
   packet is handed up intact by both transports, for EVERY body of n bytes *)
Lemma big_frame t n h body : pkt_header t n = Ok h -> len body = n ->
  ws_frames [h ++ body] = ([h ++ body], None) /\ read_frames (h ++ body) = ([h ++ body], FClosed).
Proof.
  intros Hh Hl. unfold pkt_header in Hh.
  destruct (pkt_type_ok t) eqn:Ty; cbn [negb] in Hh; [|discriminate].
  destruct (Z.geb_spec n MaxPacketSize) as [G|G]; [discriminate|].
  injection Hh as <-. fold (hdr t n).
  assert (V : valid_pkt (t, body)) by (split; cbn [fst snd]; [exact Ty | lia]).
  assert (E : hdr t n ++ body = enc_bytes (t, body)) by (unfold enc_bytes; cbn [fst snd]; rewrite Hl; reflexivity).
  rewrite E. split.
  - apply (ws_frames_stream [(t, body)]). constructor; [exact V | constructor].
  - pose proof (read_frames_stream [(t, body)] []) as R. cbn [stream map concat] in R.
    rewrite !app_nil_r in R. apply R.
    + constructor; [exact V | constructor].
    + left. unfold len, HeadLength. cbn [length]. lia.
Qed.
