(* C06 - model of the pomelo wire codec, written line by line after
     pomelonet/common/conn/message/message_encoder.go   (Encode, Decode)
     pomelonet/common/conn/message/message.go           (SetDictionary, masks)
     pomelonet/common/conn/codec/{pomelo_packet_encoder,pomelo_packet_decoder,utils}.go
   Bytes are Z in [0,256).  Go run-time panics (index / slice out of range) are the value
   [Panic]: [idx] and [slice] return it exactly when Go's bounds check (against len) would
   fire, so "never panics, never reads out of bounds" is a theorem about [decode_msg], not
   an artefact of totalisation.  zlib is an oracle: the deflated payload and the result of
   inflating a suffix are parameters (the harness supplies what the real zlib returned;
   the theorems quantify over every oracle satisfying inflate (deflate d) = Some d).
   No proofs in this file. *)
From Cell2V Require Import Common.Tac Common.ListX.

Inductive err :=
| EWrongType        (* message.ErrWrongMessageType *)
| EInvalid          (* message.ErrInvalidMessage *)
| ERouteNotFound    (* message.ErrRouteInfoNotFound *)
| EInflate          (* error returned by compression.InflateData *)
| EPktType          (* packet.ErrWrongPomeloPacketType *)
| EPktSize          (* codec.ErrPacketSizeExcced *)
| EPktHeader        (* packet.ErrInvalidPomeloHeader *)
| EFuel.            (* model artefact: recursion fuel exhausted (proved unreachable) *)

Inductive res (A : Type) :=
| Ok (a : A)
| Err (e : err)
| Panic.
Arguments Ok {A} a.
Arguments Err {A} e.
Arguments Panic {A}.

Definition bind {A B} (r : res A) (f : A -> res B) : res B :=
  match r with Ok a => f a | Err e => Err e | Panic => Panic end.

Definition len {A} (l : list A) : Z := Z.of_nat (length l).

(* Go: data[i] *)
Definition idx (l : list Z) (i : Z) : res Z :=
  if (0 <=? i) && (i <? len l) then Ok (nth (Z.to_nat i) l 0) else Panic.

(* Go: data[a:b] with cap = len *)
Definition slice (l : list Z) (a b : Z) : res (list Z) :=
  if (0 <=? a) && (a <=? b) && (b <=? len l)
  then Ok (firstn (Z.to_nat (b - a)) (skipn (Z.to_nat a) l))
  else Panic.

Definition two64 : Z := 18446744073709551616.

(* ---------------------------------------------------------------- messages *)
Definition TRequest := 0.
Definition TNotify := 1.
Definition TResponse := 2.
Definition TPush := 3.

Record msg := mkMsg {
  mtype : Z;          (* message.Type (a byte) *)
  mid : Z;            (* uint *)
  mroute : list Z;    (* bytes of the route string *)
  mdata : list Z;
  merr : bool;
}.

Definition routable (t : Z) : bool := (t =? TRequest) || (t =? TNotify) || (t =? TPush).
Definition invalid_type (t : Z) : bool := (t <? TRequest) || (t >? TPush).
Definition has_id (t : Z) : bool := (t =? TRequest) || (t =? TResponse).

(* dictionary: the two Go maps, routes : route -> code and codes : code -> route *)
Record dict := mkDict { d_routes : list (list Z * Z); d_codes : list (Z * list Z) }.
Definition empty_dict := mkDict [] [].

Fixpoint route_code (r : list Z) (m : list (list Z * Z)) : option Z :=
  match m with
  | [] => None
  | (r', c) :: t => if zlist_eqb r r' then Some c else route_code r t
  end.

Fixpoint code_route (c : Z) (m : list (Z * list Z)) : option (list Z) :=
  match m with
  | [] => None
  | (c', r) :: t => if Z.eqb c c' then Some r else code_route c t
  end.

(* SetDictionary, entries visited in the given order (Go: map iteration order).  Returns
   the dictionary reached and whether it succeeded (on failure earlier entries stay). *)
Fixpoint set_dictionary (es : list (list Z * Z)) (d : dict) : dict * bool :=
  match es with
  | [] => (d, true)
  | (r, c) :: t =>
      match route_code r (d_routes d), code_route c (d_codes d) with
      | None, None => set_dictionary t (mkDict ((r, c) :: d_routes d) ((c, r) :: d_codes d))
      | _, _ => (d, false)
      end
  end.

(* variable-length id:  for { b := byte(n % 128); n >>= 7; if n != 0 { append b+128 } else { append b; break } } *)
Fixpoint enc_id (fuel : nat) (n : Z) : list Z :=
  match fuel with
  | O => []
  | S f =>
      let b := n mod 128 in
      let n' := n / 128 in
      if n' =? 0 then [b] else (b + 128) :: enc_id f n'
  end.

(* for i := offset; i < len(data); i++ { b := data[i]; id += uint(b&0x7F) << uint(7*(i-offset));
                                         if b < 128 { offset = i + 1; break } }
   [m] = 2^(7*(i-offset)); Go's shift gives 0 from 64 bits on and wraps below: both are
   "(b mod 128) * m mod 2^64".  Returns the id and the number of bytes consumed, or None
   when no terminating byte was found (then Go leaves offset unchanged). *)
Fixpoint dec_id (l : list Z) (m : Z) (acc : Z) (n : Z) : Z * option Z :=
  match l with
  | [] => (acc, None)
  | b :: r =>
      let acc' := (acc + (b mod 128) * m) mod two64 in
      if b <? 128 then (acc', Some (n + 1)) else dec_id r (m * 128) acc' (n + 1)
  end.

(* Encode.  [compress] = MessagesEncoder.DataCompression; [defl] = what DeflateData
   returned for m.Data (only consulted when compress). *)
Definition encode_msg (d : dict) (compress : bool) (defl : list Z) (m : msg) : res (list Z) :=
  if invalid_type (mtype m) then Err EWrongType else
  let code := route_code (mroute m) (d_routes d) in
  let compressed := match code with Some _ => true | None => false end in
  let flag := 2 * mtype m + (if compressed then 1 else 0) + (if merr m then 32 else 0) in
  let idb := if has_id (mtype m) then enc_id 10 (mid m mod two64) else [] in
  let rb := if routable (mtype m) then
              match code with
              | Some c => [(c / 256) mod 256; c mod 256]
              | None => (len (mroute m) mod 256) :: mroute m
              end
            else [] in
  let use_defl := compress && (len defl <? len (mdata m)) in
  let flag' := if use_defl then flag + 16 else flag in
  Ok (flag' :: idb ++ rb ++ (if use_defl then defl else mdata m)).

(* Decode (with the bounds checks of the repaired code).  [infl] = InflateData. *)
Definition decode_msg (d : dict) (infl : list Z -> option (list Z)) (data : list Z) : res msg :=
  if len data <? 2 then Err EInvalid else
  bind (idx data 0) (fun flag =>
  let offset := 1 in
  let t := (flag / 2) mod 8 in
  if invalid_type t then Err EWrongType else
  let '(id, offset) :=
    if has_id t then
      match dec_id (skipn 1 data) 1 0 0 with
      | (v, Some n) => (v, offset + n)
      | (v, None) => (v, offset)
      end
    else (0, offset) in
  let e := (flag / 32) mod 2 =? 1 in
  bind
    (if routable t then
       if flag mod 2 =? 1 then
         if offset + 2 >? len data then Err EInvalid else
         bind (slice data offset (offset + 2)) (fun cb =>
         let code := nth 0 cb 0 * 256 + nth 1 cb 0 in
         match code_route code (d_codes d) with
         | None => Err ERouteNotFound
         | Some r => Ok (r, offset + 2)
         end)
       else
         if offset >=? len data then Err EInvalid else
         bind (idx data offset) (fun rl =>
         let offset := offset + 1 in
         if offset + rl >? len data then Err EInvalid else
         bind (slice data offset (offset + rl)) (fun r => Ok (r, offset + rl)))
     else Ok ([], offset))
    (fun ro =>
       let '(route, offset) := ro in
       bind (slice data offset (len data)) (fun body =>
       if (flag / 16) mod 2 =? 1 then
         match infl body with
         | Some b => Ok (mkMsg t id route b e)
         | None => Err EInflate
         end
       else Ok (mkMsg t id route body e)))).

(* ---------------------------------------------------------------- packets *)
Definition HeadLength := 4.
Definition MaxPacketSize := 16777216. (* 1 << 24 *)
Definition pkt_type_ok (t : Z) : bool := (1 <=? t) && (t <=? 5).

Definition pkt := (Z * list Z)%type. (* type, data; Length = len data *)

(* PomeloPacketEncoder.Encode (repaired: a body of MaxPacketSize bytes or more is rejected,
   because the 3-byte length field cannot carry it).  [pkt_header] depends on the body's
   length only, so the 16 MiB boundary can be evaluated without building the body. *)
Definition pkt_header (t : Z) (n : Z) : res (list Z) :=
  if negb (pkt_type_ok t) then Err EPktType else
  if n >=? MaxPacketSize then Err EPktSize else
  Ok [t; (n / 65536) mod 256; (n / 256) mod 256; n mod 256].

Definition encode_pkt (t : Z) (data : list Z) : res (list Z) :=
  bind (pkt_header t (len data)) (fun h => Ok (h ++ data)).

Definition bytes_to_int (b : list Z) : Z := fold_left (fun r v => r * 256 + v) b 0.

Definition parse_header (h : list Z) : res (Z * Z) :=
  if negb (len h =? HeadLength) then Err EPktHeader else
  bind (idx h 0) (fun t =>
  if negb (pkt_type_ok t) then Err EPktType else
  bind (slice h 1 (len h)) (fun sb =>
  let size := bytes_to_int sb in
  if size >? MaxPacketSize then Err EPktSize else Ok (size, t))).

(* bytes.Buffer.Next(n): up to n bytes *)
Definition next (buf : list Z) (n : Z) : list Z * list Z :=
  (firstn (Z.to_nat n) buf, skipn (Z.to_nat n) buf).

Fixpoint dec_loop (fuel : nat) (buf : list Z) (size typ : Z) (acc : list pkt) : res (list pkt) :=
  match fuel with
  | O => Err EFuel
  | S f =>
      if size <=? len buf then
        let '(body, buf1) := next buf size in
        let acc1 := acc ++ [(typ, body)] in
        if len buf1 <? HeadLength then Ok acc1
        else
          let '(h, buf2) := next buf1 HeadLength in
          bind (parse_header h) (fun st => dec_loop f buf2 (fst st) (snd st) acc1)
      else Ok acc
  end.

Definition decode_pkts (data : list Z) : res (list pkt) :=
  if len data <? HeadLength then Ok []
  else
    let '(h, buf) := next data HeadLength in
    bind (parse_header h) (fun st => dec_loop (S (length data)) buf (fst st) (snd st) []).

(* ---------------------------------------------------------------- TCP framing
   tcpPlayerConn.GetNextMessage (pomelonet/server/acceptor/tcp_acceptor.go) over the bytes
   the peer sends before closing: ReadAll(LimitReader(conn, 4)) yields fewer than 4 bytes
   only at end of stream, so the result depends on the byte stream alone, not on how the
   peer's writes were cut into segments. *)
Inductive fend :=
| FClosed                (* constants.ErrConnectionClosed: stream ended at a packet boundary *)
| FShortBody             (* constants.ErrReceivedMsgSmallerThanExpected *)
| FBad (e : err)         (* ParseHeader's error (a 1-3 byte header is ErrInvalidPomeloHeader) *)
| FFuel.                 (* model artefact, proved unreachable *)

Fixpoint frames (fuel : nat) (s : list Z) : list (list Z) * fend :=
  match fuel with
  | O => ([], FFuel)
  | S f =>
      let '(h, rest) := next s HeadLength in
      if len h =? 0 then ([], FClosed) else
      match parse_header h with
      | Ok (size, _) =>
          let '(body, rest') := next rest size in
          if len body <? size then ([], FShortBody)
          else let '(ms, e) := frames f rest' in ((h ++ body) :: ms, e)
      | Err e => ([], FBad e)
      | Panic => ([], FFuel)
      end
  end.

Definition read_frames (s : list Z) : list (list Z) * fend := frames (S (length s)) s.

(* ---------------------------------------------------------------- WebSocket framing
   WSConn.GetNextMessage (pomelonet/server/acceptor/ws_acceptor.go): one websocket message
   must be exactly one packet - a header and as many body bytes as it announces.  The
   websocket layer delivers whole messages, so the result depends only on the list of
   messages the peer sent before closing. *)
Inductive wsres :=
| WOk                    (* the message is handed up unchanged *)
| WShort                 (* constants.ErrReceivedMsgSmallerThanExpected *)
| WBig                   (* constants.ErrReceivedMsgBiggerThanExpected *)
| WBad (e : err).        (* too short for a header, or ParseHeader's error *)

Definition ws_next (m : list Z) : wsres :=
  if len m <? HeadLength then WBad EPktHeader else
  match parse_header (firstn (Z.to_nat HeadLength) m) with
  | Ok (size, _) =>
      let dl := len m - HeadLength in
      if dl <? size then WShort else if dl >? size then WBig else WOk
  | Err e => WBad e
  | Panic => WBad EFuel   (* proved unreachable *)
  end.

(* messages handed up until the first refusal ([None]: the peer closed after the last one) *)
Fixpoint ws_frames (ms : list (list Z)) : list (list Z) * option wsres :=
  match ms with
  | [] => ([], None)
  | m :: r =>
      match ws_next m with
      | WOk => let '(out, e) := ws_frames r in (m :: out, e)
      | w => ([], Some w)
      end
  end.
