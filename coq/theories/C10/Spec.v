(* C10 - the property as functions of the operation history alone.  Every function below is
   defined by recursion on the history read NEWEST FIRST ([rh] = rev h): the value after a
   history is a function of the last operation and of values after the older history - no
   model state is consulted.  No proofs in this file.

     conn_r  rh sid    has the connection never existed / is it live / was it removed
     bsid_r  rh b      the connection a back-session handle was created for (None: no handle)
     bnew_r  rh b      everything ever Set on the handle (NewData; later Set wins per key)
     bdirty_r rh b     a Set since the last push or successful query
     fmap_r  rh sid    THE PER-CONNECTION MAP: the fold of "merge key by key" over the writes
                       addressed to that connection - the reserved keys at connect, raw values
                       set by the front, JSON-normalised NewData of every effective push;
                       None when the connection is not live
     bdata_r rh b      the queried snapshot (Data): merges of the normalised full map *)
From Cell2V Require Import Common.Tac Common.ListX Common.AList C10.Model.

Inductive cstate := CNone | CLive | CDead.

Section Spec.
  Variable val : Type.
  Variable rt : val -> val.
  Variable vnet : Z -> val.
  Variable vfront : Z -> val.
  Variable vempty : val.
  Variable route : alist val -> option Z.
  Variable kinst : Z.

  Notation op := (op val).
  Notation smap := (alist val).
  Notation norm := (norm val rt).
  Notation merge_into := (merge_into val).
  Notation init_map := (init_map val vnet vfront).
  Notation script_new := (script_new val).
  Notation script_dirty := (script_dirty val).
  Notation script_front := (script_front val rt).
  Notation script_snaps := (script_snaps val rt).
  Notation script_data := (script_data val).
  Notation has_query := (has_query val).
  Notation has_kick := (has_kick val).

  (* connection state and handle ownership depend on each other (a handle is created for an
     existing connection; a script on a handle may kick its connection) *)
  Fixpoint conn_r (rh : list op) (sid : Z) {struct rh} : cstate :=
    match rh with
    | [] => CNone
    | OConnect s :: older =>
        if Z.eqb s sid then match conn_r older sid with CNone => CLive | c => c end
        else conn_r older sid
    | ORemove s :: older =>
        if Z.eqb s sid then match conn_r older sid with CLive => CDead | c => c end
        else conn_r older sid
    | OBackScript b acts :: older =>
        match bsid_r older b with
        | Some s => if Z.eqb s sid && has_kick acts
                    then match conn_r older sid with CLive => CDead | c => c end
                    else conn_r older sid
        | None => conn_r older sid
        end
    | _ :: older => conn_r older sid
    end
  with bsid_r (rh : list op) (b : Z) {struct rh} : option Z :=
    match rh with
    | [] => None
    | OBackNew b' sid :: older =>
        if Z.eqb b' b then
          match bsid_r older b, conn_r older sid with
          | None, CNone => None
          | None, _ => Some sid
          | x, _ => x
          end
        else bsid_r older b
    | OForwardKeep sid b' :: older | OForwardKeepN sid b' :: older =>
        if Z.eqb b' b then
          match bsid_r older b, conn_r older sid with
          | None, CLive => Some sid
          | x, _ => x
          end
        else bsid_r older b
    | _ :: older => bsid_r older b
    end.

  Fixpoint bnew_r (rh : list op) (b : Z) : smap :=
    match rh with
    | [] => []
    | OBackSet b' k v :: older =>
        if Z.eqb b' b then match bsid_r older b with Some _ => aset k v (bnew_r older b) | None => [] end
        else bnew_r older b
    | OBackScript b' acts :: older =>
        if Z.eqb b' b then match bsid_r older b with Some _ => script_new (bnew_r older b) acts | None => [] end
        else bnew_r older b
    | _ :: older => bnew_r older b
    end.

  Definition live_r (rh : list op) (sid : Z) : bool :=
    match conn_r rh sid with CLive => true | _ => false end.

  Fixpoint bdirty_r (rh : list op) (b : Z) : bool :=
    match rh with
    | [] => false
    | OBackSet b' _ _ :: older =>
        if Z.eqb b' b then match bsid_r older b with Some _ => true | None => false end
        else bdirty_r older b
    | OBackPush b' :: older => if Z.eqb b' b then false else bdirty_r older b
    | OBackQuery b' :: older =>
        if Z.eqb b' b then
          match bsid_r older b with
          | Some sid => if live_r older sid then false else bdirty_r older b
          | None => false
          end
        else bdirty_r older b
    | OBackScript b' acts :: older =>
        if Z.eqb b' b then
          match bsid_r older b with
          | Some sid => if live_r older sid && has_query acts then false
                        else script_dirty (bdirty_r older b) acts
          | None => false
          end
        else bdirty_r older b
    | _ :: older => bdirty_r older b
    end.

  (* the push an operation performs on connection sid, if any: the normalised NewData *)
  Definition effective_push (older : list op) (b sid : Z) : option smap :=
    match bsid_r older b with
    | Some s => if Z.eqb s sid && bdirty_r older b then Some (norm (bnew_r older b)) else None
    | None => None
    end.

  Fixpoint fmap_r (rh : list op) (sid : Z) : option smap :=
    match rh with
    | [] => None
    | OConnect s :: older =>
        if Z.eqb s sid then match conn_r older sid with CNone => Some (init_map sid) | _ => fmap_r older sid end
        else fmap_r older sid
    | ORemove s :: older => if Z.eqb s sid then None else fmap_r older sid
    | OFrontSet s k v :: older =>
        if Z.eqb s sid then option_map (aset k v) (fmap_r older sid) else fmap_r older sid
    | OBackPush b :: older =>
        match effective_push older b sid with
        | Some w => option_map (fun m => merge_into m w) (fmap_r older sid)
        | None => fmap_r older sid
        end
    | OBackScript b acts :: older =>
        match bsid_r older b with
        | Some s =>
            if Z.eqb s sid
            then (if has_kick acts then None
                  else option_map (fun m => script_front m (bnew_r older b) (bdirty_r older b) acts) (fmap_r older sid))
            else fmap_r older sid
        | None => fmap_r older sid
        end
    | _ :: older => fmap_r older sid
    end.

  Fixpoint bdata_r (rh : list op) (b : Z) : smap :=
    match rh with
    | [] => []
    | OBackNew b' sid :: older =>
        if Z.eqb b' b then
          match bsid_r older b, conn_r older sid with
          | None, CNone => []
          | None, _ => aset k_id vempty []
          | Some _, _ => bdata_r older b
          end
        else bdata_r older b
    | OBackQuery b' :: older =>
        if Z.eqb b' b then
          match bsid_r older b with
          | Some sid => match fmap_r older sid with
                        | Some m => merge_into (bdata_r older b) (norm m)
                        | None => bdata_r older b
                        end
          | None => []
          end
        else bdata_r older b
    | OForwardKeep sid b' :: older | OForwardKeepN sid b' :: older =>
        if Z.eqb b' b then
          match bsid_r older b, fmap_r older sid with
          | None, Some m => aset k_id (id_of val vempty m) []
          | None, None => []
          | Some _, _ => bdata_r older b
          end
        else bdata_r older b
    | OBackScript b' acts :: older =>
        if Z.eqb b' b then
          match bsid_r older b with
          | Some sid => match fmap_r older sid with
                        | Some m => script_data (bdata_r older b)
                                      (script_snaps m (bnew_r older b) (bdirty_r older b) acts)
                        | None => bdata_r older b
                        end
          | None => []
          end
        else bdata_r older b
    | _ :: older => bdata_r older b
    end.

  (* history-first interface *)
  Definition conn_of (h : list op) := conn_r (rev h).
  Definition fmap (h : list op) := fmap_r (rev h).
  Definition bsid (h : list op) := bsid_r (rev h).
  Definition bnew (h : list op) := bnew_r (rev h).
  Definition bdirty (h : list op) := bdirty_r (rev h).
  Definition bdata (h : list op) := bdata_r (rev h).

  Definition bsess_of (h : list op) (b : Z) : option (bsess val) :=
    match bsid h b with
    | Some sid => Some (mkB val sid (bdata h b) (bnew h b) (bdirty h b))
    | None => None
    end.

  (* key k is Set somewhere in a script *)
  Definition set_in (k : Z) (acts : list (act val)) : bool :=
    existsb (fun a => match a with ASet k' _ => Z.eqb k k' | _ => false end) acts.

  (* the connection an operation writes to *)
  Definition writes_to (h : list op) (o : op) : option Z :=
    match o with
    | OConnect s | ORemove s | OFrontSet s _ _ => Some s
    | OBackPush b | OBackScript b _ => bsid h b
    | _ => None
    end.

  (* what a forwarded request of sid must look like after history h *)
  Definition forward_spec (h : list op) (sid : Z) : obs val :=
    match fmap h sid with
    | Some m =>
        match route m with
        | Some i => BFwd i (id_of val vempty m) (vfront sid) sid
        | None => BFwdNone
        end
    | None => BIgnored
    end.

  (* the observable result of every operation after every history, from the history functions *)
  Definition spec_obs (h : list op) (o : op) : obs val :=
    match o with
    | OConnect sid => match conn_of h sid with CNone => BUnit | _ => BIgnored end
    | ORemove sid => match fmap h sid with Some m => BClosed (norm m) | None => BIgnored end
    | OFrontSet sid _ _ => match fmap h sid with Some _ => BUnit | None => BIgnored end
    | OFrontGet sid k => match fmap h sid with Some m => BVal (aget k m) | None => BIgnored end
    | OFrontDump sid => match fmap h sid with Some m => BMap (norm m) | None => BIgnored end
    | OForward sid => forward_spec h sid
    | OBackNew b sid =>
        match bsid h b, conn_of h sid with
        | None, CLive | None, CDead => BUnit
        | _, _ => BIgnored
        end
    | OBackSet b _ _ => match bsid h b with Some _ => BUnit | None => BIgnored end
    | OBackGet b k =>
        match bsid h b with
        | Some _ => BVal (match aget k (bnew h b) with Some v => Some v | None => aget k (bdata h b) end)
        | None => BIgnored
        end
    | OBackDump b =>
        match bsid h b with
        | Some _ => BMap (norm (merge_into (bdata h b) (bnew h b)))
        | None => BIgnored
        end
    | OBackPush b => match bsid h b with Some _ => BOk | None => BIgnored end
    | OBackQuery b =>
        match bsid h b with
        | Some sid => match fmap h sid with Some _ => BOk | None => BErr end
        | None => BIgnored
        end
    | OBackScript b acts =>
        match bsid h b with
        | Some sid =>
            match fmap h sid with
            | Some m =>
                if has_kick acts
                then BAcksClosed (script_acks val true acts) (norm (script_front m (bnew h b) (bdirty h b) acts))
                else BAcks (script_acks val true acts)
            | None => BAcks (script_acks val false acts)
            end
        | None => BIgnored
        end
    | OForwardKeepN sid _ | OFrontHook sid => match fmap h sid with Some _ => BUnit | None => BIgnored end
    | OForwardKeep sid _ =>
        match fmap h sid with
        | Some m => BFwd kinst (id_of val vempty m) (vfront sid) sid
        | None => BIgnored
        end
    end.

  Fixpoint spec_run_from (h : list op) (ops : list op) : list (obs val) :=
    match ops with
    | [] => []
    | o :: r => spec_obs h o :: spec_run_from (h ++ [o]) r
    end.

  Definition spec_run (ops : list op) : list (obs val) := spec_run_from [] ops.
End Spec.
