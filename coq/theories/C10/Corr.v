(* C10 - correspondence entry point, instantiated with the concrete JSON values and the route
   function of the harness node. *)
From Cell2V Require Import Common.Tac Common.ListX Common.AList C10.Model C10.Spec.

Inductive cval :=
| VInt (z : Z)          (* a Go int stored by a handler *)
| VNum (z : Z)          (* a float64 (what decoding JSON yields), integral *)
| VStr (s : Z)          (* string token: 0 gate-1, 1 chat-1, 2 chat-2, 9 "", others opaque *)
| VBool (b : bool)
| VNull
| VList (l : list cval)
| VOther.

(* JSON round trip: numbers come back as float64, inside lists too *)
Fixpoint crt (v : cval) : cval :=
  match v with
  | VInt z => VNum z
  | VList l => VList (map crt l)
  | _ => v
  end.

Fixpoint cval_eqb (a b : cval) : bool :=
  match a, b with
  | VInt x, VInt y => Z.eqb x y
  | VNum x, VNum y => Z.eqb x y
  | VStr x, VStr y => Z.eqb x y
  | VBool x, VBool y => Bool.eqb x y
  | VNull, VNull => true
  | VList x, VList y =>
      (fix go (l1 l2 : list cval) : bool :=
         match l1, l2 with
         | [], [] => true
         | p :: r1, q :: r2 => cval_eqb p q && go r1 r2
         | _, _ => false
         end) x y
  | VOther, VOther => true
  | _, _ => false
  end.

(* the chat route function of the harness: the session's key 3 names the instance *)
Definition croute (m : alist cval) : option Z :=
  match aget 3 m with
  | Some (VStr t) => if Z.eqb t 1 || Z.eqb t 2 then Some t else None
  | _ => None
  end.

(* connections with token >= 100 are connected to the second front-end (gate-2, string token 10) *)
Definition cfront (sid : Z) : cval := if Z.leb 100 sid then VStr 10 else VStr 0.

Definition cop := op cval.
Definition cobs := obs cval.

Definition smap_eqb (a b : alist cval) : bool := list_eqb (pair_eqb Z.eqb cval_eqb) a b.

Definition obs_eqb (a b : cobs) : bool :=
  match a, b with
  | BUnit, BUnit | BIgnored, BIgnored | BFwdNone, BFwdNone | BOk, BOk | BErr, BErr => true
  | BAcks x, BAcks y => list_eqb Bool.eqb x y
  | BClosed x, BClosed y => smap_eqb x y
  | BAcksClosed x m, BAcksClosed y n => list_eqb Bool.eqb x y && smap_eqb m n
  | BBroken, _ | _, BBroken => false
  | BVal x, BVal y => option_eqb cval_eqb x y
  | BMap x, BMap y => smap_eqb x y
  | BFwd i a f s, BFwd j b g t => Z.eqb i j && cval_eqb a b && cval_eqb f g && Z.eqb s t
  | _, _ => false
  end.

Definition case := (list cop * list cobs)%type.

Definition model_run (ops : list cop) : list cobs :=
  run cval crt VInt cfront (VStr 9) croute 3 ops.

Definition spec_obs_run (ops : list cop) : list cobs :=
  spec_run cval crt VInt cfront (VStr 9) croute 3 ops.

Definition agree (c : case) : bool := list_eqb obs_eqb (model_run (fst c)) (snd c).
Definition monitor (c : case) : bool := list_eqb obs_eqb (spec_obs_run (fst c)) (snd c).

Definition disagreeing (cs : list case) : list Z := failing agree cs.
Definition monitor_failing (cs : list case) : list Z := failing monitor cs.
