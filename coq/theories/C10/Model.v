(* C10 - model of client session data: the front-end's per-connection maps and the
   back-ends' BackSession overlays.  No proofs in this file.

   Go -> model:
     impls/sessions.go ClientSessions.sessions      [front]: alist sid -> Live map | Dead
     session/frontsession.go NewFrontSession        [init_map]: _ServerId, _NetId
     FrontSession.Set / Bind                        [OFrontSet] raw value (Bind = key _ID)
     session/backsession.go BackSession             [bsess]: NetId, Data, NewData, dirt
       Set      NewData[k] = v; dirt = true
       Get      NewData first, then Data
       PushSession   if dirt { dirt = false; sys.pushsession(NewData as JSON) } - NewData is
                     never cleared: every push carries everything ever set on this object
       QuerySession  sys.querysession; FromJson: json.Unmarshal INTO Data (merge), dirt = false
       ToJson   Data overlaid with NewData, marshalled
     builtin/system.go PushSession -> ClientSessions.PushSession -> SessionData.UpdateFromJson
                                                    [merge_into]: per key, values JSON-normalised;
                                                    unknown session: nothing, callback still nil
     builtin/system.go QuerySession                 FrontSession.ToJson, or ErrorNoSession
     impls/forwarder.go Forward                     [OForward]: RoutePID(type, FrontSession) with
                                                    the session as parameter; msg.ID = GetID();
                                                    msg.FrontId = front name; msg.SessionId

   Values are abstract ([val]); [rt] is the JSON round trip (marshal + unmarshal into
   interface{}): e.g. ints come back as float64.  Keys are tokens: 0 _ID, 1 _NetId,
   2 _ServerId, others user keys. *)
From Cell2V Require Import Common.Tac Common.ListX Common.AList.

Definition k_id : Z := 0.
Definition k_net : Z := 1.
Definition k_srv : Z := 2.

Section Model.
  Variable val : Type.
  Variable rt : val -> val.          (* JSON normalisation *)
  Variable vnet : Z -> val.          (* the connection id as stored by NewFrontSession (uint32) *)
  Variable vfront : Z -> val.        (* the name (string) of the front-end a connection is connected to:
                                        there may be several fronts, whose connection ids coincide *)
  Variable vempty : val.             (* "" *)
  Variable route : alist val -> option Z.   (* route function of the forwarded type, applied to the session *)
  Variable kinst : Z.                (* the instance serving OForwardKeep's type (default route) *)

  Definition smap := alist val.

  Inductive sess := Live (m : smap) | Dead.

  Record bsess := mkB { b_sid : Z; b_data : smap; b_new : smap; b_dirty : bool }.

  Record st := mkSt { front : alist sess; backs : alist bsess }.

  (* one step of a handler script run on ONE BackSession without yielding the service
     goroutine: acknowledgements (push / query callbacks) can only be handled after the last
     step *)
  Inductive act :=
  | ASet (k : Z) (v : val) | APush | AQuery
  | AKick.   (* bs.Kick(): the front closes the connection when it handles sys.kick; the session stays
               registered until the posted RemoveSession runs - after the messages already queued *)

  Inductive op :=
  | OConnect (sid : Z)
  | ORemove (sid : Z)
  | OFrontSet (sid k : Z) (v : val)        (* front-local handler: fs.Set(k, v) / fs.Bind *)
  | OFrontGet (sid k : Z)
  | OFrontDump (sid : Z)                   (* fs.ToJson() *)
  | OForward (sid : Z)                     (* a client request of sid for the routed type *)
  | OBackNew (b sid : Z)                   (* NewBackSession(ns, front, sid, "") on a back-end, for a live or removed connection *)
  | OBackSet (b k : Z) (v : val)
  | OBackGet (b k : Z)
  | OBackDump (b : Z)                      (* bs.ToJson() *)
  | OBackPush (b : Z)
  | OBackQuery (b : Z)
  | OBackScript (b : Z) (acts : list act)  (* pipelined: nothing is awaited between the steps *)
  | OForwardKeepN (sid b : Z)              (* the same through a forwarded NOTIFICATION (no answer) *)
  | OFrontHook (sid : Z)                   (* a front-local handler registers a close callback for its connection that PANICS when it runs *)
  | OForwardKeep (sid b : Z).              (* a forwarded request of sid whose handler ANSWERS FIRST and then
                                              keeps ctx.Session (the BackSession built from the envelope) as
                                              handle b, to go on using it *)

  Inductive obs :=
  | BUnit
  | BIgnored                               (* the operation could not be issued (no such connection / handle) *)
  | BVal (v : option val)
  | BMap (m : smap)                        (* a JSON object, keys ascending *)
  | BFwd (inst : Z) (id : val) (frontname : val) (sid : Z)   (* envelope seen by the receiving instance *)
  | BFwdNone                               (* no target: error response *)
  | BOk
  | BErr                                   (* ErrorNoSession *)
  | BClosed (m : smap)                     (* what the OnClose handler saw (ToJson) when the session was removed *)
  | BAcksClosed (l : list bool) (m : smap) (* a script that kicked its connection: callback results + the OnClose view *)
  | BAcks (l : list bool)                  (* callback results of a script's pushes / queries, in step order *)
  | BBroken.                               (* never produced by the model: the implementation did not answer at all *)

  Definition init : st := mkSt [] [].

  Definition init_map (sid : Z) : smap := aset k_srv (vfront sid) (aset k_net (vnet sid) []).

  (* SessionData.UpdateFromJson / json.Unmarshal into an existing map: per key *)
  Definition merge_into (m w : smap) : smap :=
    fold_left (fun acc kv => aset (fst kv) (snd kv) acc) w m.

  Definition norm (m : smap) : smap := map (fun kv => (fst kv, rt (snd kv))) m.

  Definition live (s : st) (sid : Z) : option smap :=
    match aget sid (front s) with Some (Live m) => Some m | _ => None end.

  Definition id_of (m : smap) : val :=
    match aget k_id m with Some v => v | None => vempty end.

  Definition bget (b : bsess) (k : Z) : option val :=
    match aget k (b_new b) with Some v => Some v | None => aget k (b_data b) end.

  Definition bdump (b : bsess) : smap := norm (merge_into (b_data b) (b_new b)).

  (* ---- pipelined scripts.  While the script runs, PushSession clears the dirty flag when it
     SENDS; the front-end handles the pushes / queries in sending order (one sender); the
     acknowledgements arrive after the script: a successful query then merges its snapshot
     into Data and clears the dirty flag (BackSession.FromJson). ---- *)
  Fixpoint script_new (nw : smap) (acts : list act) : smap :=
    match acts with
    | [] => nw
    | ASet k v :: r => script_new (aset k v nw) r
    | _ :: r => script_new nw r
    end.

  Fixpoint script_dirty (d : bool) (acts : list act) : bool :=
    match acts with
    | [] => d
    | ASet _ _ :: r => script_dirty true r
    | APush :: r => script_dirty false r
    | AQuery :: r | AKick :: r => script_dirty d r
    end.

  Definition is_query (a : act) : bool := match a with AQuery => true | _ => false end.
  Definition has_query (acts : list act) : bool := existsb is_query acts.
  Definition is_kick (a : act) : bool := match a with AKick => true | _ => false end.
  Definition has_kick (acts : list act) : bool := existsb is_kick acts.

  (* the front-end's map of a live connection after the script's pushes *)
  Fixpoint script_front (m nw : smap) (d : bool) (acts : list act) : smap :=
    match acts with
    | [] => m
    | ASet k v :: r => script_front m (aset k v nw) true r
    | APush :: r => if d then script_front (merge_into m (norm nw)) nw false r else script_front m nw d r
    | AQuery :: r | AKick :: r => script_front m nw d r
    end.

  (* what the script's queries return (the map at the moment the front-end handles them) *)
  Fixpoint script_snaps (m nw : smap) (d : bool) (acts : list act) : list smap :=
    match acts with
    | [] => []
    | ASet k v :: r => script_snaps m (aset k v nw) true r
    | APush :: r => if d then script_snaps (merge_into m (norm nw)) nw false r else script_snaps m nw d r
    | AQuery :: r => norm m :: script_snaps m nw d r
    | AKick :: r => script_snaps m nw d r
    end.

  Definition script_data (data : smap) (snaps : list smap) : smap := fold_left merge_into snaps data.

  Definition script_acks (alive : bool) (acts : list act) : list bool :=
    flat_map (fun a => match a with ASet _ _ | AKick => [] | APush => [true] | AQuery => [alive] end) acts.

  Definition step (s : st) (o : op) : st * obs :=
    match o with
    | OConnect sid =>
        match aget sid (front s) with
        | None => (mkSt (aset sid (Live (init_map sid)) (front s)) (backs s), BUnit)
        | Some _ => (s, BIgnored)
        end
    | ORemove sid =>
        match live s sid with
        | Some m => (mkSt (aset sid Dead (front s)) (backs s), BClosed (norm m))
        | None => (s, BIgnored)
        end
    | OFrontSet sid k v =>
        match live s sid with
        | Some m => (mkSt (aset sid (Live (aset k v m)) (front s)) (backs s), BUnit)
        | None => (s, BIgnored)
        end
    | OFrontGet sid k =>
        match live s sid with
        | Some m => (s, BVal (aget k m))
        | None => (s, BIgnored)
        end
    | OFrontDump sid =>
        match live s sid with
        | Some m => (s, BMap (norm m))
        | None => (s, BIgnored)
        end
    | OForward sid =>
        match live s sid with
        | Some m =>
            match route m with
            | Some i => (s, BFwd i (id_of m) (vfront sid) sid)
            | None => (s, BFwdNone)
            end
        | None => (s, BIgnored)
        end
    | OBackNew b sid =>
        match aget b (backs s), aget sid (front s) with
        | None, Some _ => (mkSt (front s) (aset b (mkB sid (aset k_id vempty []) [] false) (backs s)), BUnit)
        | _, _ => (s, BIgnored)      (* handle in use, or the connection never existed *)
        end
    | OBackSet b k v =>
        match aget b (backs s) with
        | Some bs => (mkSt (front s) (aset b (mkB (b_sid bs) (b_data bs) (aset k v (b_new bs)) true) (backs s)), BUnit)
        | None => (s, BIgnored)
        end
    | OBackGet b k =>
        match aget b (backs s) with
        | Some bs => (s, BVal (bget bs k))
        | None => (s, BIgnored)
        end
    | OBackDump b =>
        match aget b (backs s) with
        | Some bs => (s, BMap (bdump bs))
        | None => (s, BIgnored)
        end
    | OBackPush b =>
        match aget b (backs s) with
        | Some bs =>
            if b_dirty bs then
              let bk := aset b (mkB (b_sid bs) (b_data bs) (b_new bs) false) (backs s) in
              match live s (b_sid bs) with
              | Some m => (mkSt (aset (b_sid bs) (Live (merge_into m (norm (b_new bs)))) (front s)) bk, BOk)
              | None => (mkSt (front s) bk, BOk)
              end
            else (s, BOk)
        | None => (s, BIgnored)
        end
    | OBackQuery b =>
        match aget b (backs s) with
        | Some bs =>
            match live s (b_sid bs) with
            | Some m =>
                (mkSt (front s)
                      (aset b (mkB (b_sid bs) (merge_into (b_data bs) (norm m)) (b_new bs) false) (backs s)),
                 BOk)
            | None => (s, BErr)
            end
        | None => (s, BIgnored)
        end
    | OBackScript b acts =>
        match aget b (backs s) with
        | Some bs =>
            let nw := script_new (b_new bs) acts in
            match live s (b_sid bs) with
            | Some m =>
                (mkSt (aset (b_sid bs)
                            (if has_kick acts then Dead else Live (script_front m (b_new bs) (b_dirty bs) acts))
                            (front s))
                      (aset b (mkB (b_sid bs)
                                   (script_data (b_data bs) (script_snaps m (b_new bs) (b_dirty bs) acts))
                                   nw
                                   (if has_query acts then false else script_dirty (b_dirty bs) acts))
                            (backs s)),
                 if has_kick acts
                 then BAcksClosed (script_acks true acts) (norm (script_front m (b_new bs) (b_dirty bs) acts))
                 else BAcks (script_acks true acts))
            | None =>
                (mkSt (front s)
                      (aset b (mkB (b_sid bs) (b_data bs) nw (script_dirty (b_dirty bs) acts)) (backs s)),
                 BAcks (script_acks false acts))
            end
        | None => (s, BIgnored)
        end
    | OFrontHook sid => match live s sid with Some _ => (s, BUnit) | None => (s, BIgnored) end
    | OForwardKeepN sid b =>
        match live s sid with
        | Some m =>
            (match aget b (backs s) with
             | None => mkSt (front s) (aset b (mkB sid (aset k_id (id_of m) []) [] false) (backs s))
             | Some _ => s
             end, BUnit)
        | None => (s, BIgnored)
        end
    | OForwardKeep sid b =>
        match live s sid with
        | Some m =>
            (match aget b (backs s) with
             | None => mkSt (front s) (aset b (mkB sid (aset k_id (id_of m) []) [] false) (backs s))
             | Some _ => s
             end, BFwd kinst (id_of m) (vfront sid) sid)
        | None => (s, BIgnored)
        end
    end.

  Fixpoint run_from (s : st) (ops : list op) : st * list obs :=
    match ops with
    | [] => (s, [])
    | o :: r =>
        let '(s1, b) := step s o in
        let '(s2, bs) := run_from s1 r in
        (s2, b :: bs)
    end.

  Definition run (ops : list op) : list obs := snd (run_from init ops).
  Definition final (ops : list op) : st := fst (run_from init ops).
  Definition obs_at (h : list op) (o : op) : obs := snd (step (final h) o).
End Model.

Arguments Live {val} m.
Arguments Dead {val}.
Arguments OConnect {val} sid.
Arguments ORemove {val} sid.
Arguments OFrontSet {val} sid k v.
Arguments OFrontGet {val} sid k.
Arguments OFrontDump {val} sid.
Arguments OForward {val} sid.
Arguments OBackNew {val} b sid.
Arguments OBackSet {val} b k v.
Arguments OBackGet {val} b k.
Arguments OBackDump {val} b.
Arguments OBackPush {val} b.
Arguments OBackQuery {val} b.
Arguments OBackScript {val} b acts.
Arguments OForwardKeep {val} sid b.
Arguments OForwardKeepN {val} sid b.
Arguments OFrontHook {val} sid.
Arguments AKick {val}.
Arguments ASet {val} k v.
Arguments APush {val}.
Arguments AQuery {val}.
Arguments BUnit {val}.
Arguments BIgnored {val}.
Arguments BVal {val} v.
Arguments BMap {val} m.
Arguments BFwd {val} inst id frontname sid.
Arguments BFwdNone {val}.
Arguments BOk {val}.
Arguments BErr {val}.
Arguments BAcks {val} l.
Arguments BClosed {val} m.
Arguments BAcksClosed {val} l m.
Arguments BBroken {val}.
